(* C04 -- homogeneity of the block kernel (Model/Block.v over the regenerated Gen/BlockGen.v) over XQ, k > 0:
   the CollapsibleMarginSet operations, generate_item_list, the whole in-flow loop block_inflow (every child's
   LayoutOutput is an oracle value and is scaled too), and compute_inner's decisions (block_resolve, block_params,
   block_node_inner_size, block_outer_height, block_output_margins are scaled; block_own_collapse, block_prevent_ct,
   block_can_collapse_through are INVARIANT booleans).  Shape: related inputs give related outputs (Model/ScaleBlock.v).
   No finiteness premise.  Every decision is a comparison of two lengths (margin vs 0, padding / border vs 0, outer width
   vs inner width, content extent vs 0), an enum / boolean of the style, or the constructor of an Option / Dimension. *)
From Coq Require Import QArith Qabs Lqa Bool List ZArith Lia.
From TV Require Import Num.Num Num.QNum Gen.BlockGen Model.Block Model.ScaleBlock Proofs.ScaleKit.
Import ListNotations.

Ltac rel_cases :=
  repeat match goal with
  | H : op_rel _ ?a ?a' |- _ => is_var a; is_var a'; destruct a, a'; cbn [op_rel] in H; try contradiction
  | H : blpa_rel _ ?a ?a' |- _ => is_var a; is_var a'; destruct a, a'; cbn [blpa_rel] in H; try contradiction
  end.
Ltac geo := unfold brc_rel, bsz_rel, bms_rel in *; cbn [r_left r_right r_top r_bottom s_w s_h l_start l_end ms_positive ms_negative] in *.

Section BlockHomog.
  Variable k : Q.
  Hypothesis Hk : 0 < k.
  Notation L := (sc k).
  Notation O := (op_rel (sc k)).

  (* ---- CollapsibleMarginSet (Gen/BlockGen.v) *)
  Lemma rel_ms_ZERO : bms_rel k ms_ZERO ms_ZERO.
  Proof. split; apply sc_zero. Qed.
  Lemma rel_ms_from_margin m m' : L m m' -> bms_rel k (ms_from_margin m) (ms_from_margin m').
  Proof.
    intros Hm. unfold ms_from_margin. rewrite (sc_leb k zero zero m m' Hk (sc_zero k) Hm).
    destruct (leb zero m); split; cbn [ms_positive ms_negative]; auto using sc_zero.
  Qed.
  Lemma rel_ms_collapse_with_margin s s' m m' :
    bms_rel k s s' -> L m m' -> bms_rel k (ms_collapse_with_margin s m) (ms_collapse_with_margin s' m').
  Proof.
    intros [Hp Hn] Hm. unfold ms_collapse_with_margin. rewrite (sc_leb k zero zero m m' Hk (sc_zero k) Hm).
    destruct (leb zero m); split; cbn [ms_positive ms_negative]; auto using sc_max, sc_min.
  Qed.
  Lemma rel_ms_collapse_with_set s s' o o' :
    bms_rel k s s' -> bms_rel k o o' -> bms_rel k (ms_collapse_with_set s o) (ms_collapse_with_set s' o').
  Proof. intros [Hp Hn] [Hp' Hn']. split; cbn [ms_collapse_with_set ms_positive ms_negative]; auto using sc_max, sc_min. Qed.
  Lemma rel_ms_resolve s s' : bms_rel k s s' -> L (ms_resolve s) (ms_resolve s').
  Proof. intros [Hp Hn]. unfold ms_resolve. apply sc_add; assumption. Qed.

  (* ---- MaybeMath / geometry / resolve helpers *)
  Lemma rel_f_maybe_clamp x x' a a' b b' : L x x' -> O a a' -> O b b' -> L (f_maybe_clamp x a b) (f_maybe_clamp x' a' b').
  Proof. intros. rel_cases; cbn [f_maybe_clamp]; ks k Hk. Qed.
  Lemma rel_o_maybe_clamp x x' a a' b b' : O x x' -> O a a' -> O b b' -> O (o_maybe_clamp x a b) (o_maybe_clamp x' a' b').
  Proof. intros Hx. intros. destruct x, x'; cbn [op_rel] in Hx; try contradiction; cbn [o_maybe_clamp op_rel]; [apply rel_f_maybe_clamp|]; auto. Qed.
  Lemma rel_o_maybe_add_f x x' r r' : O x x' -> L r r' -> O (o_maybe_add_f x r) (o_maybe_add_f x' r').
  Proof. intros. rel_cases; cbn [o_maybe_add_f option_map op_rel]; ks k Hk. Qed.
  Lemma rel_o_maybe_sub_f x x' r r' : O x x' -> L r r' -> O (o_maybe_sub_f x r) (o_maybe_sub_f x' r').
  Proof. intros. rel_cases; cbn [o_maybe_sub_f option_map op_rel]; ks k Hk. Qed.
  Lemma rel_o_or a a' b b' : O a a' -> O b b' -> O (o_or a b) (o_or a' b').
  Proof. intros. rel_cases; cbn [o_or op_rel]; auto. Qed.
  Lemma rel_o_unwrap a a' d d' : O a a' -> L d d' -> L (o_unwrap a d) (o_unwrap a' d').
  Proof. intros. rel_cases; cbn [o_unwrap]; auto. Qed.
  Lemma rel_o_gt_zero a a' : O a a' -> o_gt_zero a' = o_gt_zero a.
  Proof. intros. rel_cases; cbn [o_gt_zero]; [|reflexivity]. apply (sc_ltb k); auto using sc_zero. Qed.
  Lemma rel_o_is_none a a' : O a a' -> o_is_none a' = o_is_none a.
  Proof. intros. rel_cases; reflexivity. Qed.
  Lemma rel_sz_maybe_clamp s s' a a' b b' :
    bsz_rel O s s' -> bsz_rel O a a' -> bsz_rel O b b' -> bsz_rel O (sz_maybe_clamp s a b) (sz_maybe_clamp s' a' b').
  Proof. intros [] [] []. split; cbn [sz_maybe_clamp s_w s_h]; apply rel_o_maybe_clamp; assumption. Qed.
  Lemma rel_rect_add a a' b b' : brc_rel L a a' -> brc_rel L b b' -> brc_rel L (rect_add a b) (rect_add a' b').
  Proof. intros (?&?&?&?) (?&?&?&?). unfold rect_add. geo. ks k Hk. Qed.
  Lemma rel_h_sum a a' : brc_rel L a a' -> L (h_sum a) (h_sum a').
  Proof. intros (?&?&?&?). unfold h_sum. ks k Hk. Qed.
  Lemma rel_v_sum a a' : brc_rel L a a' -> L (v_sum a) (v_sum a').
  Proof. intros (?&?&?&?). unfold v_sum. ks k Hk. Qed.
  Lemma rel_sum_axes a a' : brc_rel L a a' -> bsz_rel L (sum_axes a) (sum_axes a').
  Proof. intros H. split; cbn [sum_axes s_w s_h]; [apply rel_h_sum | apply rel_v_sum]; exact H. Qed.
  Lemma rel_rect_zero : brc_rel L rect_zero rect_zero.
  Proof. unfold rect_zero. geo. ks k Hk. Qed.
  Lemma rel_sz_zero : bsz_rel L sz_zero sz_zero.
  Proof. split; apply sc_zero. Qed.
  Lemma rel_sz_none : bsz_rel O sz_none sz_none.
  Proof. split; exact I. Qed.

  Lemma rel_maybe_apply_aspect_ratio s s' r r' :
    bsz_rel O s s' -> op_rel dl r r' -> bsz_rel O (maybe_apply_aspect_ratio s r) (maybe_apply_aspect_ratio s' r').
  Proof.
    destruct s as [w h], s' as [w' h']. intros [Hw Hh] Hr. cbn [s_w s_h] in Hw, Hh.
    destruct r, r'; cbn [op_rel] in Hr; try contradiction; unfold maybe_apply_aspect_ratio; cbn [s_w s_h]; [|split; assumption].
    rel_cases; split; cbn [s_w s_h op_rel]; auto;
      lazymatch goal with
      | |- sc _ (div _ _) (div _ _) => apply (sc_div_dl k); assumption
      | |- sc _ (mul _ _) (mul _ _) => apply (sc_mul_dl k); assumption
      end.
  Qed.

  Lemma rel_lpa_maybe_resolve v v' c c' : blpa_rel k v v' -> O c c' -> O (lpa_maybe_resolve v c) (lpa_maybe_resolve v' c').
  Proof. intros. rel_cases; cbn [lpa_maybe_resolve option_map op_rel]; auto. apply (sc_mul_dl k); assumption. Qed.
  Lemma rel_lpa_resolve_or_zero v v' c c' : blpa_rel k v v' -> O c c' -> L (lpa_resolve_or_zero v c) (lpa_resolve_or_zero v' c').
  Proof. intros. unfold lpa_resolve_or_zero. apply rel_o_unwrap; [apply rel_lpa_maybe_resolve; assumption | apply sc_zero]. Qed.
  Lemma rel_lpa_resolve_to_option v v' c c' : blpa_rel k v v' -> L c c' -> O (lpa_resolve_to_option v c) (lpa_resolve_to_option v' c').
  Proof. intros. rel_cases; cbn [lpa_resolve_to_option op_rel]; auto. apply (sc_mul_dl k); assumption. Qed.
  Lemma rel_rect_resolve_or_zero r r' c c' :
    brc_rel (blpa_rel k) r r' -> O c c' -> brc_rel L (rect_resolve_or_zero r c) (rect_resolve_or_zero r' c').
  Proof. intros (?&?&?&?) Hc. unfold rect_resolve_or_zero. geo. repeat split; apply rel_lpa_resolve_or_zero; assumption. Qed.
  Lemma rel_rect_resolve_or_zero_sz r r' c c' :
    brc_rel (blpa_rel k) r r' -> bsz_rel O c c' -> brc_rel L (rect_resolve_or_zero_sz r c) (rect_resolve_or_zero_sz r' c').
  Proof. intros (?&?&?&?) [? ?]. unfold rect_resolve_or_zero_sz. geo. repeat split; apply rel_lpa_resolve_or_zero; assumption. Qed.
  Lemma rel_size_maybe_resolve s s' c c' :
    bsz_rel (blpa_rel k) s s' -> bsz_rel O c c' -> bsz_rel O (size_maybe_resolve s c) (size_maybe_resolve s' c').
  Proof. intros [? ?] [? ?]. split; cbn [size_maybe_resolve s_w s_h]; apply rel_lpa_maybe_resolve; assumption. Qed.
  Lemma rel_resolve_size_style s s' c c' ar ar' b b' :
    bsz_rel (blpa_rel k) s s' -> bsz_rel O c c' -> op_rel dl ar ar' -> bsz_rel L b b' ->
    bsz_rel O (resolve_size_style s c ar b) (resolve_size_style s' c' ar' b').
  Proof.
    intros Hs Hc Har [Hb1 Hb2]. unfold resolve_size_style.
    pose proof (rel_maybe_apply_aspect_ratio _ _ _ _ (rel_size_maybe_resolve _ _ _ _ Hs Hc) Har) as [H1 H2].
    split; cbn [s_w s_h]; apply rel_o_maybe_add_f; assumption.
  Qed.

  (* ---- generate_item_list *)
  Ltac style_open H :=
    destruct H as (Edisp & Etab & Ecb & Eox & Eoy & Hsw & Epos & Hinset & Hsize & Hmin & Hmax & Har & Hmargin & Hpad & Hbor & Eta).

  Lemma rel_generate_item st st' nis nis' order :
    bstyle_rel k st st' -> bsz_rel O nis nis' -> bitem_rel k (generate_item st nis order) (generate_item st' nis' order).
  Proof.
    intros Hst Hn. style_open Hst. unfold generate_item.
    pose proof (rel_rect_resolve_or_zero_sz _ _ _ _ Hpad Hn) as Hp.
    pose proof (rel_rect_resolve_or_zero_sz _ _ _ _ Hbor Hn) as Hb.
    pose proof (rel_sum_axes _ _ (rel_rect_add _ _ _ _ Hp Hb)) as Hpb.
    assert (Hbsa : bsz_rel L (if st_content_box st then sum_axes (rect_add (rect_resolve_or_zero_sz (st_padding st) nis)
                                                                          (rect_resolve_or_zero_sz (st_border st) nis)) else sz_zero)
                             (if st_content_box st' then sum_axes (rect_add (rect_resolve_or_zero_sz (st_padding st') nis')
                                                                           (rect_resolve_or_zero_sz (st_border st') nis')) else sz_zero)).
    { rewrite Ecb. destruct (st_content_box st); [exact Hpb | apply rel_sz_zero]. }
    unfold bitem_rel.
    cbn [it_order it_is_table it_size it_min_size it_max_size it_overflow_x it_overflow_y it_scrollbar_width it_position
         it_inset it_margin it_padding it_border it_pb_sum].
    repeat match goal with |- _ /\ _ => split end; try assumption; try reflexivity;
      apply rel_resolve_size_style; assumption.
  Qed.

  Lemma rel_generate_items_from sts sts' nis nis' order :
    Forall2 (bstyle_rel k) sts sts' -> bsz_rel O nis nis' ->
    Forall2 (bitem_rel k) (generate_items_from sts nis order) (generate_items_from sts' nis' order).
  Proof.
    intros Hs Hn. revert order. induction Hs as [|st st' l l' Hst Hl IH]; intros order; cbn [generate_items_from]; [constructor|].
    pose proof Hst as Hst2. destruct Hst2 as (Edisp & _). rewrite Edisp.
    destruct (st_display st); try (constructor; [apply rel_generate_item; assumption | apply IH]). apply IH.
  Qed.

  Theorem generate_item_list_homog sts sts' nis nis' :
    Forall2 (bstyle_rel k) sts sts' -> bsz_rel O nis nis' ->
    Forall2 (bitem_rel k) (generate_item_list sts nis) (generate_item_list sts' nis').
  Proof. intros. apply rel_generate_items_from; assumption. Qed.

  (* ---- perform_final_layout_on_in_flow_children *)
  Ltac params_open H := destruct H as (Hpw & Hpc & Hpr & Epta & Epoc).
  Ltac item_open H :=
    destruct H as (Eord & Eitab & Hisz & Himin & Himax & Eiox & Eioy & Hisw & Eipos & Hiinset & Himargin & Hipad & Hibor & Hipb).

  Lemma rel_inner_width P P' : bparams_rel k P P' -> L (inner_width P) (inner_width P').
  Proof. intros HP. params_open HP. unfold inner_width. apply sc_sub; [assumption | apply rel_h_sum; assumption]. Qed.

  Lemma rel_item_margin P P' it it' :
    bparams_rel k P P' -> bitem_rel k it it' -> brc_rel O (item_margin P it) (item_margin P' it').
  Proof.
    intros HP Hit. params_open HP. item_open Hit. destruct Himargin as (?&?&?&?). unfold item_margin. geo.
    repeat split; apply rel_lpa_resolve_to_option; assumption.
  Qed.

  Lemma rel_non_auto_x_margin_sum m m' : brc_rel O m m' -> L (non_auto_x_margin_sum m) (non_auto_x_margin_sum m').
  Proof. intros (?&?&?&?). unfold non_auto_x_margin_sum. apply sc_add; apply rel_o_unwrap; auto using sc_zero. Qed.

  Lemma rel_item_known_dims P P' it it' :
    bparams_rel k P P' -> bitem_rel k it it' -> bsz_rel O (item_known_dims P it) (item_known_dims P' it').
  Proof.
    intros HP Hit. pose proof (rel_item_margin _ _ _ _ HP Hit) as Hm. pose proof (rel_inner_width _ _ HP) as Hiw.
    item_open Hit. unfold item_known_dims. rewrite Eitab. destruct (it_is_table it); [apply rel_sz_none|].
    destruct Hisz as [Hw Hh], Himin as [Hmw Hmh], Himax as [Hxw Hxh].
    apply rel_sz_maybe_clamp; try (split; assumption).
    split; cbn [s_w s_h]; [|assumption]. cbn [op_rel].
    apply rel_f_maybe_clamp; try assumption. apply rel_o_unwrap; [assumption|].
    apply sc_sub; [assumption | apply rel_non_auto_x_margin_sum; assumption].
  Qed.

  Lemma rel_content_size_contribution x x' y y' s s' c c' ox oy :
    L x x' -> L y y' -> bsz_rel L s s' -> bsz_rel L c c' ->
    bsz_rel L (content_size_contribution x y s c ox oy) (content_size_contribution x' y' s' c' ox oy).
  Proof.
    intros Hx Hy [Hsw Hsh] [Hcw Hch]. unfold content_size_contribution.
    assert (Hw : L (if overflow_is_visible ox then fmax (s_w s) (s_w c) else s_w s)
                   (if overflow_is_visible ox then fmax (s_w s') (s_w c') else s_w s'))
      by (destruct (overflow_is_visible ox); [apply (sc_max k)|]; assumption).
    assert (Hh : L (if overflow_is_visible oy then fmax (s_h s) (s_h c) else s_h s)
                   (if overflow_is_visible oy then fmax (s_h s') (s_h c') else s_h s'))
      by (destruct (overflow_is_visible oy); [apply (sc_max k)|]; assumption).
    rewrite (sc_ltb k _ _ _ _ Hk (sc_zero k) Hw), (sc_ltb k _ _ _ _ Hk (sc_zero k) Hh).
    match goal with |- context [if ?b then _ else _] => destruct b end; [|apply rel_sz_zero].
    split; cbn [s_w s_h]; apply sc_add; assumption.
  Qed.

  Lemma rel_sz_fmax a a' b b' : bsz_rel L a a' -> bsz_rel L b b' -> bsz_rel L (sz_fmax a b) (sz_fmax a' b').
  Proof. intros [] []. split; cbn [sz_fmax s_w s_h]; apply (sc_max k); assumption. Qed.

  Lemma rel_init_state P P' : bparams_rel k P P' -> bstate_rel k (init_state P) (init_state P').
  Proof.
    intros HP. params_open HP. destruct Hpr as (?&?&?&?). unfold init_state, bstate_rel.
    cbn [s_content s_committed s_abs_y s_first_set s_active s_is_first].
    repeat split; try assumption; try apply sc_zero.
  Qed.

  Lemma rel_scrollbar_size it it' : bitem_rel k it it' -> bsz_rel L (scrollbar_size it) (scrollbar_size it').
  Proof.
    intros Hit. item_open Hit. unfold scrollbar_size. rewrite Eiox, Eioy.
    split; cbn [s_w s_h]; match goal with |- context [if ?b then _ else _] => destruct b end; auto using sc_zero.
  Qed.

  Ltac res_fields :=
    cbn [ir_order ir_inflow ir_x ir_y ir_size ir_margin ir_scrollbar ir_static_x ir_static_y ir_ct ir_known ir_avail_w
         ir_top_set ir_bottom_set].
  Ltac state_fields := cbn [s_content s_committed s_abs_y s_first_set s_active s_is_first].

  (* one iteration of the loop: related state, item and child output give related state and item result *)
  Lemma rel_inflow_step P P' st st' it it' co co' :
    bparams_rel k P P' -> bstate_rel k st st' -> bitem_rel k it it' -> bout_rel k co co' ->
    bstate_rel k (fst (inflow_step P st it co)) (fst (inflow_step P' st' it' co')) /\
    bres_rel k (snd (inflow_step P st it co)) (snd (inflow_step P' st' it' co')).
  Proof.
    intros HP Hst Hit Hco.
    pose proof (rel_item_margin _ _ _ _ HP Hit) as Hm. pose proof (rel_inner_width _ _ HP) as Hiw.
    pose proof (rel_item_known_dims _ _ _ _ HP Hit) as Hkn. pose proof (rel_scrollbar_size _ _ Hit) as Hsb.
    pose proof (rel_non_auto_x_margin_sum _ _ Hm) as Hxs.
    pose proof HP as HP2. params_open HP2. pose proof Hit as Hit2. item_open Hit2.
    destruct Hst as (Hsc & Hscm & Hsay & Hsfs & Hsact & Esf). destruct Hco as (Hcs & Hcc & Hct & Hcb & Ect).
    destruct Hpr as (Hprl & Hprr & Hprt & Hprb).
    unfold inflow_step. rewrite Eipos. destruct (position_is_absolute (it_position it)); cbn [fst snd].
    { split; [unfold bstate_rel; repeat match goal with |- _ /\ _ => split end; assumption|].
      unfold bres_rel. res_fields. rewrite Eord.
      repeat match goal with |- _ /\ _ => split end; try reflexivity; try assumption;
        try apply sc_zero; try apply rel_sz_zero; try apply rel_rect_zero; try apply rel_sz_none; try apply rel_ms_ZERO. }
    set (m := item_margin P it) in *. set (m' := item_margin P' it') in *.
    destruct Hm as (Hml & Hmr & Hmt & Hmb).
    (* the two margin sets *)
    assert (Hts : bms_rel k (ms_collapse_with_margin (co_top co) (o_unwrap (r_top m) zero))
                            (ms_collapse_with_margin (co_top co') (o_unwrap (r_top m') zero)))
      by (apply rel_ms_collapse_with_margin; [assumption | apply rel_o_unwrap; auto using sc_zero]).
    assert (Hbs : bms_rel k (ms_collapse_with_margin (co_bottom co) (o_unwrap (r_bottom m) zero))
                            (ms_collapse_with_margin (co_bottom co') (o_unwrap (r_bottom m') zero)))
      by (apply rel_ms_collapse_with_margin; [assumption | apply rel_o_unwrap; auto using sc_zero]).
    set (top_set := ms_collapse_with_margin (co_top co) _) in *. set (top_set' := ms_collapse_with_margin (co_top co') _) in *.
    set (bottom_set := ms_collapse_with_margin (co_bottom co) _) in *. set (bottom_set' := ms_collapse_with_margin (co_bottom co') _) in *.
    destruct Hcs as [Hcsw Hcsh].
    (* auto margins *)
    assert (Eac : ((if r_left m' then 0 else 1) + (if r_right m' then 0 else 1))%Z = ((if r_left m then 0 else 1) + (if r_right m then 0 else 1))%Z).
    { destruct (r_left m), (r_left m'); cbn [op_rel] in Hml; try contradiction;
      destruct (r_right m), (r_right m'); cbn [op_rel] in Hmr; try contradiction; reflexivity. }
    rewrite Eac. set (ac := ((if r_left m then 0 else 1) + (if r_right m then 0 else 1))%Z).
    assert (Hfx : L (fmax zero (sub (sub (inner_width P) (s_w (co_size co))) (non_auto_x_margin_sum m)))
                    (fmax zero (sub (sub (inner_width P') (s_w (co_size co'))) (non_auto_x_margin_sum m')))) by ks k Hk.
    assert (Hxa : L (if (0 <? ac)%Z then div (fmax zero (sub (sub (inner_width P) (s_w (co_size co))) (non_auto_x_margin_sum m))) (of_Z ac) else zero)
                    (if (0 <? ac)%Z then div (fmax zero (sub (sub (inner_width P') (s_w (co_size co'))) (non_auto_x_margin_sum m'))) (of_Z ac) else zero)).
    { destruct (0 <? ac)%Z; [|apply sc_zero]. apply (sc_div_dl k); [exact Hk | exact Hfx | apply dl_of_Z]. }
    set (x_auto := if (0 <? ac)%Z then _ else zero) in *.
    set (x_auto' := if (0 <? ac)%Z then div (fmax zero (sub (sub (inner_width P') _) _)) _ else zero) in *.
    assert (Hrm : brc_rel L (mkRect (o_unwrap (r_left m) x_auto) (o_unwrap (r_right m) x_auto) (ms_resolve top_set) (ms_resolve bottom_set))
                            (mkRect (o_unwrap (r_left m') x_auto') (o_unwrap (r_right m') x_auto') (ms_resolve top_set') (ms_resolve bottom_set'))).
    { unfold brc_rel. cbn [r_left r_right r_top r_bottom].
      repeat split; try (apply rel_o_unwrap; assumption); apply rel_ms_resolve; assumption. }
    set (rm := mkRect (o_unwrap (r_left m) x_auto) _ _ _) in *. set (rm' := mkRect (o_unwrap (r_left m') x_auto') _ _ _) in *.
    destruct Hrm as (Hrml & Hrmr & Hrmt & Hrmb).
    (* relative inset *)
    destruct Hiinset as (Hil & Hir & Hit_ & Hib).
    assert (Hox : L (o_unwrap (o_or (lpa_maybe_resolve (r_left (it_inset it)) (Some (inner_width P)))
                                     (option_map neg (lpa_maybe_resolve (r_right (it_inset it)) (Some (inner_width P))))) zero)
                    (o_unwrap (o_or (lpa_maybe_resolve (r_left (it_inset it')) (Some (inner_width P')))
                                     (option_map neg (lpa_maybe_resolve (r_right (it_inset it')) (Some (inner_width P'))))) zero)).
    { apply rel_o_unwrap; [|apply sc_zero]. apply rel_o_or; [apply rel_lpa_maybe_resolve; assumption|].
      eapply rel_option_map; [apply rel_lpa_maybe_resolve; [eassumption | exact Hiw]|]. intros. apply sc_neg. assumption. }
    assert (Hoy : L (o_unwrap (o_or (lpa_maybe_resolve (r_top (it_inset it)) (Some zero))
                                     (option_map neg (lpa_maybe_resolve (r_bottom (it_inset it)) (Some zero)))) zero)
                    (o_unwrap (o_or (lpa_maybe_resolve (r_top (it_inset it')) (Some zero))
                                     (option_map neg (lpa_maybe_resolve (r_bottom (it_inset it')) (Some zero)))) zero)).
    { apply rel_o_unwrap; [|apply sc_zero]. apply rel_o_or; [apply rel_lpa_maybe_resolve; [assumption | apply sc_zero]|].
      eapply rel_option_map; [apply rel_lpa_maybe_resolve; [eassumption | apply sc_zero]|]. intros. apply sc_neg. assumption. }
    cbv zeta.
    set (off_x := o_unwrap (o_or (lpa_maybe_resolve (r_left (it_inset it)) _) _) zero) in *.
    set (off_x' := o_unwrap (o_or (lpa_maybe_resolve (r_left (it_inset it')) _) _) zero) in *.
    set (off_y := o_unwrap (o_or (lpa_maybe_resolve (r_top (it_inset it)) _) _) zero) in *.
    set (off_y' := o_unwrap (o_or (lpa_maybe_resolve (r_top (it_inset it')) _) _) zero) in *.
    (* vertical margin offset *)
    assert (Hymo : L (if (s_is_first st && l_start (p_own_collapse P))%bool then zero
                      else ms_resolve (ms_collapse_with_margin (s_active st) (r_top rm)))
                     (if (s_is_first st' && l_start (p_own_collapse P'))%bool then zero
                      else ms_resolve (ms_collapse_with_margin (s_active st') (r_top rm')))).
    { rewrite Esf, Epoc. destruct (s_is_first st && l_start (p_own_collapse P))%bool; [apply sc_zero|].
      apply rel_ms_resolve. apply rel_ms_collapse_with_margin; assumption. }
    set (ymo := if (s_is_first st && l_start (p_own_collapse P))%bool then zero else _) in *.
    set (ymo' := if (s_is_first st' && l_start (p_own_collapse P'))%bool then zero else _) in *.
    (* location *)
    assert (Hlx0 : L (add (add (r_left (p_rcbi P)) off_x) (r_left rm)) (add (add (r_left (p_rcbi P')) off_x') (r_left rm'))) by ks k Hk.
    set (loc_x0 := add (add (r_left (p_rcbi P)) off_x) (r_left rm)) in *.
    set (loc_x0' := add (add (r_left (p_rcbi P')) off_x') (r_left rm')) in *.
    assert (Hly : L (add (add (s_committed st) off_y) ymo) (add (add (s_committed st') off_y') ymo')) by ks k Hk.
    set (loc_y := add (add (s_committed st) off_y) ymo) in *. set (loc_y' := add (add (s_committed st') off_y') ymo') in *.
    assert (How : L (add (s_w (co_size co)) (h_sum rm)) (add (s_w (co_size co')) (h_sum rm')))
      by (apply sc_add; [assumption | unfold h_sum; apply sc_add; assumption]).
    set (outer_w := add (s_w (co_size co)) (h_sum rm)) in *. set (outer_w' := add (s_w (co_size co')) (h_sum rm')) in *.
    assert (Hlx : L (if ltb outer_w (inner_width P) then
                       match p_text_align P with
                       | TAAuto | TALeft => loc_x0
                       | TARight => add loc_x0 (sub (inner_width P) outer_w)
                       | TACenter => add loc_x0 (div (sub (inner_width P) outer_w) two)
                       end else loc_x0)
                    (if ltb outer_w' (inner_width P') then
                       match p_text_align P' with
                       | TAAuto | TALeft => loc_x0'
                       | TARight => add loc_x0' (sub (inner_width P') outer_w')
                       | TACenter => add loc_x0' (div (sub (inner_width P') outer_w') two)
                       end else loc_x0')).
    { rewrite (sc_ltb k _ _ _ _ Hk How Hiw), Epta. destruct (ltb outer_w (inner_width P)); [|assumption].
      destruct (p_text_align P); try assumption.
      - apply sc_add; [assumption | apply sc_sub; assumption].
      - apply sc_add; [assumption|]. apply (sc_div_dl k); [exact Hk | apply sc_sub; assumption | apply dl_refl]. }
    set (loc_x := if ltb outer_w (inner_width P) then _ else loc_x0) in *.
    set (loc_x' := if ltb outer_w' (inner_width P') then _ else loc_x0') in *.
    (* content size, first-child set *)
    assert (Hcont : bsz_rel L (sz_fmax (s_content st) (content_size_contribution loc_x loc_y (co_size co) (co_content_size co)
                                                        (it_overflow_x it) (it_overflow_y it)))
                              (sz_fmax (s_content st') (content_size_contribution loc_x' loc_y' (co_size co') (co_content_size co')
                                                        (it_overflow_x it') (it_overflow_y it')))).
    { rewrite Eiox, Eioy. apply rel_sz_fmax; [assumption|]. apply rel_content_size_contribution; try assumption. split; assumption. }
    assert (Hfs : bms_rel k (if s_is_first st then
                               if co_ct co then ms_collapse_with_set (ms_collapse_with_set (s_first_set st) top_set) bottom_set
                               else ms_collapse_with_set (s_first_set st) top_set
                             else s_first_set st)
                            (if s_is_first st' then
                               if co_ct co' then ms_collapse_with_set (ms_collapse_with_set (s_first_set st') top_set') bottom_set'
                               else ms_collapse_with_set (s_first_set st') top_set'
                             else s_first_set st')).
    { rewrite Esf, Ect. destruct (s_is_first st); [|assumption].
      destruct (co_ct co); repeat apply rel_ms_collapse_with_set; assumption. }
    rewrite Esf, Ect in Hfs. revert Hfs. rewrite Ect, Esf, Eord.
    destruct (co_ct co); intros Hfs; cbn [fst snd].
    - split.
      + unfold bstate_rel. state_fields. repeat match goal with |- _ /\ _ => split end; try assumption; try reflexivity.
        * ks k Hk.
        * repeat apply rel_ms_collapse_with_set; assumption.
      + unfold bres_rel. res_fields. repeat match goal with |- _ /\ _ => split end; try assumption; try reflexivity;
          try (repeat split; assumption).
        * apply sc_add; [assumption | apply rel_ms_resolve; assumption].
        * apply sc_sub; assumption.
    - split.
      + unfold bstate_rel. state_fields. repeat match goal with |- _ /\ _ => split end; try assumption; try reflexivity.
        * ks k Hk.
        * apply sc_add; [ks k Hk | apply rel_ms_resolve; assumption].
      + unfold bres_rel. res_fields. repeat match goal with |- _ /\ _ => split end; try assumption; try reflexivity;
          try (repeat split; assumption).
        * apply sc_add; [assumption | apply rel_ms_resolve; assumption].
        * apply sc_sub; assumption.
  Qed.

  Lemma rel_inflow_loop P P' st st' xs xs' :
    bparams_rel k P P' -> bstate_rel k st st' -> Forall2 (bpair_rel k) xs xs' ->
    bstate_rel k (fst (inflow_loop P st xs)) (fst (inflow_loop P' st' xs')) /\
    Forall2 (bres_rel k) (snd (inflow_loop P st xs)) (snd (inflow_loop P' st' xs')).
  Proof.
    intros HP Hst Hxs. revert st st' Hst. induction Hxs as [|p p' l l' Hp Hl IH]; intros st st' Hst; cbn [inflow_loop].
    - split; [exact Hst | constructor].
    - destruct p as [it co], p' as [it' co']. destruct Hp as [Hit Hco]. cbn [fst snd] in Hit, Hco.
      pose proof (rel_inflow_step _ _ _ _ _ _ _ _ HP Hst Hit Hco) as [H1 H2].
      destruct (inflow_step P st it co) as [st1 r], (inflow_step P' st' it' co') as [st1' r']. cbn [fst snd] in H1, H2.
      specialize (IH _ _ H1).
      destruct (inflow_loop P st1 l) as [st2 rs], (inflow_loop P' st1' l') as [st2' rs']. cbn [fst snd] in *.
      destruct IH as [I1 I2]. split; [exact I1 | constructor; assumption].
  Qed.

  Theorem block_inflow_homog P P' xs xs' :
    bparams_rel k P P' -> Forall2 (bpair_rel k) xs xs' -> binflow_rel k (block_inflow P xs) (block_inflow P' xs').
  Proof.
    intros HP Hxs. unfold block_inflow.
    pose proof (rel_inflow_loop _ _ _ _ _ _ HP (rel_init_state _ _ HP) Hxs) as [H1 H2].
    destruct (inflow_loop P (init_state P) xs) as [st rs], (inflow_loop P' (init_state P') xs') as [st' rs']. cbn [fst snd] in H1, H2.
    destruct H1 as (Hsc & Hscm & Hsay & Hsfs & Hsact & Esf). params_open HP. destruct Hpr as (Hprl & Hprr & Hprt & Hprb).
    unfold binflow_rel. cbn [io_results io_content_size io_height io_first_set io_last_set].
    repeat match goal with |- _ /\ _ => split end; try assumption.
    rewrite Epoc. apply (sc_max k); [exact Hk | apply sc_zero|]. apply sc_add; [assumption|]. apply sc_add; [assumption|].
    destruct (l_end (p_own_collapse P)); [apply sc_zero | apply rel_ms_resolve; assumption].
  Qed.

  (* ---- compute_inner *)
  Lemma rel_scrollbar_gutter st st' : bstyle_rel k st st' -> brc_rel L (scrollbar_gutter st) (scrollbar_gutter st').
  Proof.
    intros Hst. style_open Hst. unfold scrollbar_gutter. rewrite Eox, Eoy. geo.
    repeat split; try apply sc_zero; match goal with |- context [if ?b then _ else _] => destruct b end; auto using sc_zero.
  Qed.

  Lemma rel_block_resolve st st' inp inp' :
    bstyle_rel k st st' -> binput_rel k inp inp' -> bresolved_rel k (block_resolve st inp) (block_resolve st' inp').
  Proof.
    intros Hst Hin. pose proof (rel_scrollbar_gutter _ _ Hst) as Hg. style_open Hst. destruct Hin as (Hkn & Hpar & Ecol).
    pose proof Hpar as [Hpw Hph].
    unfold block_resolve.
    pose proof (rel_rect_resolve_or_zero _ _ _ _ Hpad Hpw) as Hp. pose proof (rel_rect_resolve_or_zero _ _ _ _ Hbor Hpw) as Hb.
    pose proof (rel_rect_add _ _ _ _ Hp Hb) as Hpb. pose proof (rel_sum_axes _ _ Hpb) as Hpbs.
    assert (Hbsa : bsz_rel L (if st_content_box st then sum_axes (rect_add (rect_resolve_or_zero (st_padding st) (s_w (in_parent inp)))
                                                                          (rect_resolve_or_zero (st_border st) (s_w (in_parent inp)))) else sz_zero)
                             (if st_content_box st' then sum_axes (rect_add (rect_resolve_or_zero (st_padding st') (s_w (in_parent inp')))
                                                                           (rect_resolve_or_zero (st_border st') (s_w (in_parent inp')))) else sz_zero)).
    { rewrite Ecb. destruct (st_content_box st); [exact Hpbs | apply rel_sz_zero]. }
    unfold bresolved_rel. cbn [rs_padding rs_border rs_pb_size rs_cbi rs_size rs_min rs_max].
    repeat match goal with |- _ /\ _ => split end; try assumption;
      try (apply rel_resolve_size_style; assumption). apply rel_rect_add; assumption.
  Qed.

  Ltac resolved_open H := destruct H as (Rpad & Rbor & Rpbs & Rcbi & Rsz & Rmin & Rmax).

  (* the decisions are invariant *)
  Theorem block_own_collapse_invariant st st' inp inp' :
    bstyle_rel k st st' -> binput_rel k inp inp' -> block_own_collapse st' inp' = block_own_collapse st inp.
  Proof.
    intros Hst Hin. pose proof (rel_block_resolve _ _ _ _ Hst Hin) as HR. resolved_open HR.
    style_open Hst. destruct Hin as (Hkn & Hpar & Ecol). unfold block_own_collapse.
    destruct Rpad as (_ & _ & Rpt & Rpb), Rbor as (_ & _ & Rbt & Rbb), Rsz as [_ Rszh].
    rewrite Ecol, Eox, Eoy, Epos.
    rewrite (sc_eqb k _ _ zero zero Hk Rpt (sc_zero k)), (sc_eqb k _ _ zero zero Hk Rbt (sc_zero k)),
            (sc_eqb k _ _ zero zero Hk Rpb (sc_zero k)), (sc_eqb k _ _ zero zero Hk Rbb (sc_zero k)), (rel_o_is_none _ _ Rszh).
    reflexivity.
  Qed.

  Theorem block_prevent_ct_invariant st st' inp inp' :
    bstyle_rel k st st' -> binput_rel k inp inp' -> block_prevent_ct st' inp' = block_prevent_ct st inp.
  Proof.
    intros Hst Hin. pose proof (rel_block_resolve _ _ _ _ Hst Hin) as HR. resolved_open HR.
    style_open Hst. unfold block_prevent_ct.
    destruct Rpad as (_ & _ & Rpt & Rpb), Rbor as (_ & _ & Rbt & Rbb), Rsz as [_ Rszh], Rmin as [_ Rmnh].
    rewrite Edisp, Eox, Eoy, Epos.
    rewrite (sc_ltb k zero zero _ _ Hk (sc_zero k) Rpt), (sc_ltb k zero zero _ _ Hk (sc_zero k) Rbt),
            (sc_ltb k zero zero _ _ Hk (sc_zero k) Rpb), (sc_ltb k zero zero _ _ Hk (sc_zero k) Rbb),
            (rel_o_gt_zero _ _ Rszh), (rel_o_gt_zero _ _ Rmnh).
    reflexivity.
  Qed.

  Theorem block_can_collapse_through_invariant st st' inp inp' rs rs' :
    bstyle_rel k st st' -> binput_rel k inp inp' -> Forall2 (bres_rel k) rs rs' ->
    block_can_collapse_through st' inp' rs' = block_can_collapse_through st inp rs.
  Proof.
    intros Hst Hin Hrs. unfold block_can_collapse_through.
    rewrite (block_prevent_ct_invariant _ _ _ _ Hst Hin). f_equal.
    apply (rel_forallb (bres_rel k)); [|exact Hrs]. intros r r' (_ & Ei & _ & _ & _ & _ & _ & _ & _ & Ec & _). rewrite Ei, Ec. reflexivity.
  Qed.

  Theorem block_outer_height_homog st st' inp inp' h h' :
    bstyle_rel k st st' -> binput_rel k inp inp' -> L h h' -> L (block_outer_height st inp h) (block_outer_height st' inp' h').
  Proof.
    intros Hst Hin Hh. pose proof (rel_block_resolve _ _ _ _ Hst Hin) as HR. resolved_open HR.
    destruct Hin as ([_ Hknh] & Hpar & Ecol). unfold block_outer_height.
    destruct Rmin as [_ Rmnh], Rmax as [_ Rmxh], Rpbs as [_ Rpbh].
    apply (sc_max k); [exact Hk | | assumption]. apply rel_o_unwrap; [assumption|]. apply rel_f_maybe_clamp; assumption.
  Qed.

  Theorem block_output_margins_homog st st' inp inp' io io' :
    bstyle_rel k st st' -> binput_rel k inp inp' -> binflow_rel k io io' ->
    bms_rel k (fst (block_output_margins st inp io)) (fst (block_output_margins st' inp' io')) /\
    bms_rel k (snd (block_output_margins st inp io)) (snd (block_output_margins st' inp' io')).
  Proof.
    intros Hst Hin Hio. unfold block_output_margins. rewrite (block_own_collapse_invariant _ _ _ _ Hst Hin).
    style_open Hst. destruct Hin as (Hkn & [Hpw Hph] & Ecol). destruct Hio as (_ & _ & _ & Hf & Hl).
    destruct Hmargin as (_ & _ & Hmt & Hmb). cbn [fst snd].
    split; match goal with |- context [if ?b then _ else _] => destruct b end; try assumption;
      apply rel_ms_from_margin; apply rel_lpa_resolve_or_zero; assumption.
  Qed.

  Theorem block_params_homog st st' inp inp' w w' :
    bstyle_rel k st st' -> binput_rel k inp inp' -> L w w' -> bparams_rel k (block_params st inp w) (block_params st' inp' w').
  Proof.
    intros Hst Hin Hw. pose proof (rel_block_resolve _ _ _ _ Hst Hin) as HR. resolved_open HR.
    pose proof (block_own_collapse_invariant _ _ _ _ Hst Hin) as Eoc. pose proof (rel_scrollbar_gutter _ _ Hst) as Hg.
    style_open Hst. unfold block_params, bparams_rel. cbn [p_outer_width p_cbi p_rcbi p_text_align p_own_collapse].
    repeat match goal with |- _ /\ _ => split end; try assumption.
    repeat apply rel_rect_add; try assumption; apply rel_rect_resolve_or_zero; assumption.
  Qed.

  Theorem block_node_inner_size_homog st st' inp inp' :
    bstyle_rel k st st' -> binput_rel k inp inp' -> bsz_rel O (block_node_inner_size st inp) (block_node_inner_size st' inp').
  Proof.
    intros Hst Hin. pose proof (rel_block_resolve _ _ _ _ Hst Hin) as HR. resolved_open HR.
    destruct Hin as ([Hkw Hkh] & _ & _). unfold block_node_inner_size.
    split; cbn [s_w s_h]; apply rel_o_maybe_sub_f; try assumption; [apply rel_h_sum | apply rel_v_sum]; assumption.
  Qed.
  Lemma rel_combine {A B} (RA : A -> A -> Prop) (RB : B -> B -> Prop) l l' m m' :
    Forall2 RA l l' -> Forall2 RB m m' -> Forall2 (fun p p' => RA (fst p) (fst p') /\ RB (snd p) (snd p')) (combine l m) (combine l' m').
  Proof.
    intros Hl. revert m m'. induction Hl; intros m m' Hm; cbn [combine]; [constructor|].
    destruct Hm; constructor; [split; assumption | apply IHHl; assumption].
  Qed.

  Theorem block_container_homog st st' inp inp' w w' styles styles' outs outs' :
    bstyle_rel k st st' -> binput_rel k inp inp' -> L w w' -> Forall2 (bstyle_rel k) styles styles' -> Forall2 (bout_rel k) outs outs' ->
    let r := block_container st inp w styles outs in
    let r' := block_container st' inp' w' styles' outs' in
    binflow_rel k (fst (fst (fst r))) (fst (fst (fst r'))) /\ L (snd (fst (fst r))) (snd (fst (fst r'))) /\
    bms_rel k (fst (snd (fst r))) (fst (snd (fst r'))) /\ bms_rel k (snd (snd (fst r))) (snd (snd (fst r'))) /\
    snd r' = snd r.
  Proof.
    intros Hst Hin Hw Hsts Houts. unfold block_container. cbv zeta. cbn [fst snd].
    pose proof (generate_item_list_homog _ _ _ _ Hsts (block_node_inner_size_homog _ _ _ _ Hst Hin)) as Hitems.
    pose proof (block_inflow_homog _ _ _ _ (block_params_homog _ _ _ _ _ _ Hst Hin Hw) (rel_combine _ _ _ _ _ _ Hitems Houts)) as Hio.
    pose proof Hio as (Hres & _ & Hh & _).
    split; [exact Hio|]. split; [apply block_outer_height_homog; assumption|].
    split; [apply block_output_margins_homog; assumption|]. split; [apply block_output_margins_homog; assumption|].
    apply block_can_collapse_through_invariant; assumption.
  Qed.
End BlockHomog.

(* ------------------------------------------------------------------------------------------------------------ *)
(** * The scaled inputs are related to the originals *)
Lemma blpa_rel_scale k d : blpa_rel k d (blpa_scale k d).
Proof. destruct d; cbn; [apply sc_self | apply dl_refl | exact I]. Qed.
Lemma brc_rel_scale {A} (R : A -> A -> Prop) f r : (forall x, R x (f x)) -> brc_rel R r (brc_map f r).
Proof. intros Hf. unfold brc_rel, brc_map. cbn [r_left r_right r_top r_bottom]. repeat split; apply Hf. Qed.
Lemma bsz_rel_scale {A} (R : A -> A -> Prop) f s : (forall x, R x (f x)) -> bsz_rel R s (bsz_map f s).
Proof. intros Hf. unfold bsz_rel, bsz_map. cbn [s_w s_h]. split; apply Hf. Qed.
Lemma bms_rel_scale k m : bms_rel k m (bms_scale k m).
Proof. split; apply sc_self. Qed.

Lemma bstyle_rel_scale k s : bstyle_rel k s (bstyle_scale k s).
Proof.
  unfold bstyle_rel, bstyle_scale.
  cbn [st_display st_is_table st_content_box st_overflow_x st_overflow_y st_scrollbar_width st_position st_inset st_size
       st_min_size st_max_size st_aspect_ratio st_margin st_padding st_border st_text_align].
  repeat match goal with |- _ /\ _ => split end; try reflexivity; try apply sc_self; try apply op_dl_refl;
    try (apply brc_rel_scale; apply blpa_rel_scale); apply bsz_rel_scale; apply blpa_rel_scale.
Qed.
Lemma bitem_rel_scale k i : bitem_rel k i (bitem_scale k i).
Proof.
  unfold bitem_rel, bitem_scale.
  cbn [it_order it_is_table it_size it_min_size it_max_size it_overflow_x it_overflow_y it_scrollbar_width it_position
       it_inset it_margin it_padding it_border it_pb_sum].
  repeat match goal with |- _ /\ _ => split end; try reflexivity; try apply sc_self;
    try (apply brc_rel_scale; first [apply blpa_rel_scale | apply sc_self]);
    apply bsz_rel_scale; first [apply op_rel_scale | apply sc_self].
Qed.
Lemma bout_rel_scale k o : bout_rel k o (bout_scale k o).
Proof.
  unfold bout_rel, bout_scale. cbn [co_size co_content_size co_top co_bottom co_ct].
  repeat match goal with |- _ /\ _ => split end; try reflexivity; try apply bms_rel_scale; apply bsz_rel_scale; apply sc_self.
Qed.
Lemma bpairs_rel_scale k xs : Forall2 (bpair_rel k) xs (map (bpair_scale k) xs).
Proof. apply Forall2_self. intros [i o]. split; cbn [fst snd bpair_scale]; [apply bitem_rel_scale | apply bout_rel_scale]. Qed.
Lemma bparams_rel_scale k P : bparams_rel k P (bparams_scale k P).
Proof.
  unfold bparams_rel, bparams_scale. cbn [p_outer_width p_cbi p_rcbi p_text_align p_own_collapse].
  repeat match goal with |- _ /\ _ => split end; try reflexivity; try apply sc_self; apply brc_rel_scale; apply sc_self.
Qed.
Lemma binput_rel_scale k i : binput_rel k i (binput_scale k i).
Proof.
  unfold binput_rel, binput_scale. cbn [in_known in_parent in_collapsible].
  repeat match goal with |- _ /\ _ => split end; try reflexivity; apply bsz_rel_scale; apply op_rel_scale.
Qed.
Lemma bstyles_rel_scale k l : Forall2 (bstyle_rel k) l (map (bstyle_scale k) l).
Proof. apply Forall2_self. apply bstyle_rel_scale. Qed.
Lemma bouts_rel_scale k l : Forall2 (bout_rel k) l (map (bout_scale k) l).
Proof. apply Forall2_self. apply bout_rel_scale. Qed.
