(* The final phase of compute_grid_layout (Model/GridAlg.v, steps 8-9: align_tracks, the in-flow pass, the hidden / absolute pass, the
   container baseline) is relational (Model/GridAlgRel.v): related tracks, items, preprocessing record and child views give resumptions in
   lockstep.  `grid_final` is the continuation of `run` in grid_main, copied. *)
From Coq Require Import QArith Bool List ZArith Lia.
From TV Require Import Num.Num Num.QNum Model.Common Model.Leaf Gen.GridTracksGen Model.GridTracks Model.GridIntrinsic.
From TV Require Import Model.GridAlgBase Model.GridAlg Model.FlexAlgBase Model.FlexAlgRel Model.GridAlgRel.
From TV Require Import Model.Scale Model.ScaleGrid Model.Engine Model.EngineRel.
From TV Require Model.AbsPosBase Gen.AbsPosEnums Gen.AbsPosGen Model.ScaleAbs Proofs.ScaleAbsProofs.
From TV Require Import Proofs.ScalePrim Proofs.ScaleKit Proofs.ScaleProofs Proofs.ScaleGrid Proofs.GridRelKit.
Import ListNotations.
Close Scope Z_scope.

(* ------------------------------------------------------------------------------------------------ sort_by (generic) *)
Section SortBy.
  Context {X : Type}.
  Variable R : X -> X -> Prop.
  Variables lt lt' : X -> X -> bool.
  Hypothesis Hlt : forall a a' b b', R a a' -> R b b' -> lt' a' b' = lt a b.

  Lemma rel_insert_by x x' l l' : R x x' -> Forall2 R l l' -> Forall2 R (insert_by lt x l) (insert_by lt' x' l').
  Proof.
    intros Hx Hl. induction Hl as [|y y' r r' Hy Hr IH]; cbn [insert_by].
    - constructor; [exact Hx|constructor].
    - rewrite (Hlt _ _ _ _ Hx Hy). destruct (lt x y).
      + constructor; [exact Hx|]. constructor; assumption.
      + constructor; assumption.
  Qed.

  Lemma rel_sort_by l l' : Forall2 R l l' -> Forall2 R (sort_by lt l) (sort_by lt' l').
  Proof.
    intros Hl. unfold sort_by.
    assert (G : forall acc acc', Forall2 R acc acc' ->
                Forall2 R (fold_left (fun acc x => insert_by lt x acc) l acc) (fold_left (fun acc x => insert_by lt' x acc) l' acc')).
    { induction Hl as [|x x' r r' Hx Hr IH]; intros acc acc' Ha; cbn [fold_left]; [exact Ha|]. apply IH. apply rel_insert_by; assumption. }
    apply G. constructor.
  Qed.
End SortBy.

(* ------------------------------------------------------------------------------------------------ the final phase, named *)
(* the continuation of `run` in grid_main (Model/GridAlg.v), copied *)
Section GridFinalDef.
  Notation T := XQ.
  Notation Alg := (Engine.Alg (GIn T) (LayoutOutput T) (GLay T)).
  Notation Ret := (Engine.Ret (GIn T) (LayoutOutput T) (GLay T)).
  Definition grid_final (st : GStyle T) (P : @Pre T) (col_counts row_counts : PB.TrackCounts) (oof : list (@OofChild T)) : @Sized T * bool -> Alg :=
                (fun '(z, continue) =>
                   if negb continue then Ret (from_outer_size (z_border_box z))
                   else
                     let s := z_state z in
                     let jc := opt_unwrap_or (gs_justify_content st) AStretch in
                     let ac := opt_unwrap_or (gs_align_content st) AStretch in
                     let cols := align_tracks (width (z_content_box z)) (r_left (p_padding P)) (r_left (p_border P)) (ss_cols s) jc in
                     let rows := align_tracks (height (z_content_box z)) (r_top (p_padding P)) (r_top (p_border P)) (ss_rows s) ac in
                     let items := sort_by (fun a b => Nat.ltb (g_node a) (g_node b)) (ss_items s) in
                     let cas := to_ae_ib st in
                     inflow_pass cas cols rows items 0 size_ZERO []
                       (fun content placed =>
                          out_of_flow_pass P cas col_counts row_counts (z_border_box z) cols rows oof 0 (length items) content
                            (fun content' =>
                               match container_baseline placed with
                               | None => Ret (from_outer_size (z_border_box z))
                               | Some b => Ret (mkOutput (z_border_box z) content' (mkPoint None (Some b))
                                                         margin_set_ZERO margin_set_ZERO false)
                               end))).

  (* container_baseline with its local `take` named *)
  Definition take_row (first_row : nat) : list (@Placed T) -> list (@Placed T) :=
    fix take (l : list Placed) : list Placed :=
      match l with
      | [] => []
      | p :: r => if Nat.eqb (fst (height (g_ix (fst (fst p))))) first_row then p :: take r else []
      end.
  Lemma container_baseline_eq (placed : list (@Placed T)) :
    container_baseline placed =
    let sorted := sort_by (fun a b : Placed => Nat.ltb (fst (height (g_ix (fst (fst a))))) (fst (height (g_ix (fst (fst b)))))) placed in
    match sorted with
    | [] => None
    | p0 :: _ =>
        let '(g, y, h) := match find (fun p : Placed => ai_is_baseline (g_align (fst (fst p))))
                                     (take_row (fst (height (g_ix (fst (fst p0))))) sorted) with
                          | Some p => p
                          | None => p0
                          end in
        Some (y + opt_unwrap_or (g_baseline g) h)%num
    end.
  Proof. reflexivity. Qed.
End GridFinalDef.

Lemma rel_find {X} (R : X -> X -> Prop) (p p' : X -> bool) l l' : (forall x x', R x x' -> p' x' = p x) -> Forall2 R l l' ->
  op_rel R (find p l) (find p' l').
Proof.
  intros Hp Hl. induction Hl as [|x x' r r' Hx Hr IH]; cbn [find]; [exact I|]. rewrite (Hp _ _ Hx). destruct (p x); [exact Hx|exact IH].
Qed.

Ltac gw_open H :=
  let H' := fresh in
  pose proof H as H'; unfold gstyle_wrel in H';
  destruct H' as (?Wdisp & ?Wpos & ?Wov & ?Wsw & ?War & ?Wmg & ?Wtc & ?Wtr & ?Wacol & ?Warow & ?Wflow & ?Wgap & ?Wai & ?Wji & ?Walc & ?Wjc &
                  ?Wrow & ?Wcol & ?Was & ?Wjs & ?Wrep & ?Wpre & ?Wdims & ?Wres & ?Wcaps & ?Wabs).

Section Final.
  Variable k : Q.
  Hypothesis Hk : (0 < k)%Q.
  Notation L := (sc k).
  Notation O := (op_rel (sc k)).
  Notation AV := (av_rel (sc k)).
  Notation AR := (AlgRel (GIn XQ) (LayoutOutput XQ) (GLay XQ) (fin_rel k) (output_rel k) (flay_rel k)).
  Notation arc_rel := ScaleAbs.arc_rel.
  Notation Alg := (Engine.Alg (GIn XQ) (LayoutOutput XQ) (GLay XQ)).

  (* ---- small facts *)
  Lemma rel_size_ZERO' : sz_rel L (@size_ZERO XQ _) size_ZERO.
  Proof. split; apply sc_zero. Qed.
  Lemma rel_mset_ZERO' : mset_rel k margin_set_ZERO margin_set_ZERO.
  Proof. split; apply sc_zero. Qed.
  Lemma rel_g_from_outer_size s s' : sz_rel L s s' -> output_rel k (from_outer_size s) (from_outer_size s').
  Proof.
    intros Hs. unfold from_outer_size, output_rel.
    cbn [out_size out_content_size first_baselines top_margin bottom_margin margins_can_collapse_through].
    split; [exact Hs|]. split; [apply rel_size_ZERO'|]. split; [split; exact I|]. split; [apply rel_mset_ZERO'|]. split; [apply rel_mset_ZERO'|reflexivity].
  Qed.
  Lemma rel_panic_out : output_rel k (@panic_out XQ _) panic_out.
  Proof. apply rel_g_from_outer_size. apply rel_size_ZERO'. Qed.
  Lemma rel_g_hidden_child_input : fin_rel k (@hidden_child_input XQ) hidden_child_input.
  Proof. unfold hidden_child_input, fin_rel. cbn. repeat split; exact I. Qed.
  Lemma rel_g_with_order n : flay_rel k (g_with_order n) (g_with_order n).
  Proof. unfold f_with_order, flay_rel. cbn. repeat split; apply sc_zero. Qed.

  Lemma g_fin_rel_mk m sz ax kd kd' ps ps' av av' col :
    sz_rel O kd kd' -> sz_rel O ps ps' -> sz_rel AV av av' -> fin_rel k (mkGIn m sz ax kd ps av col) (mkGIn m sz ax kd' ps' av' col).
  Proof.
    intros. unfold fin_rel. cbn [qi_mode qi_sizing qi_axis qi_known qi_parent qi_avail qi_collapsible].
    repeat match goal with |- _ /\ _ => split end; first [assumption|reflexivity].
  Qed.

  (* ---- 1. track offsets *)
  Lemma rel_track_offset ts ts' i : tracks_rel k ts ts' -> L (track_offset ts i) (track_offset ts' i).
  Proof.
    intros Hts. unfold track_offset. pose proof (rel_nth_error (track_rel k) i _ _ Hts) as Hn.
    destruct (nth_error ts i) as [t|], (nth_error ts' i) as [t'|]; cbn [op_rel] in Hn; try contradiction.
    - track_open Hn. assumption.
    - apply sc_zero.
  Qed.

  (* ---- 2. the query of align_and_position_item *)
  Lemma rel_position_query_input area area' cas shim shim' cs cs' : arc_rel L area area' -> L shim shim' -> gstyle_wrel k cs cs' ->
    fin_rel k (position_query_input area cas shim cs) (position_query_input area' cas shim' cs').
  Proof.
    intros Ha Hs Ws. gw_open Ws. pose proof (Wabs _ _ Ha) as Hi.
    unfold position_query_input.
    set (i := AG.grid_resolve area (abs_style cs)) in *. set (i' := AG.grid_resolve area' (abs_style cs')) in *. clearbody i i'.
    pose proof (ScaleAbsProofs.rel_grid_known k Hk _ _ cas _ _ _ _ Ha Hs Hi) as [Hkw Hkh].
    pose proof Hi as (_ & (M1 & M2 & M3 & M4) & _). destruct Ha as (A1 & A2 & A3 & A4).
    apply g_fin_rel_mk; split; cbn [c_size size_map width height op_rel av_rel]; try assumption.
    - apply sc_sub; assumption.
    - apply sc_sub; assumption.
    - repeat apply (ScaleAbsProofs.rel_maybe_sub_FO k); try assumption. apply sc_sub; assumption.
    - apply sc_sub; [|exact Hs]. repeat apply (ScaleAbsProofs.rel_maybe_sub_FO k); try assumption. apply sc_sub; assumption.
  Qed.

  (* ---- 3. the layout stored for the child *)
  Lemma rel_position_layout area area' cas shim shim' cs cs' order o o' : arc_rel L area area' -> L shim shim' -> gstyle_wrel k cs cs' ->
    output_rel k o o' -> flay_rel k (position_layout area cas shim cs order o) (position_layout area' cas shim' cs' order o').
  Proof.
    intros Ha Hs Ws Ho. gw_open Ws. pose proof (Wabs _ _ Ha) as Hi. destruct Ho as ([Hmw Hmh] & Hoc & _).
    unfold position_layout.
    set (i := AG.grid_resolve area (abs_style cs)) in *. set (i' := AG.grid_resolve area' (abs_style cs')) in *. clearbody i i'.
    assert (Hm : ScaleAbs.asz_rel L (a_size (out_size o)) (a_size (out_size o'))) by (split; assumption).
    pose proof (ScaleAbsProofs.rel_grid_place k Hk _ _ cas _ _ _ _ _ _ Ha Hs Hi Hm) as ([Hlx Hly] & [Hosw Hosh] & (M1 & M2 & M3 & M4)).
    pose proof Hi as (_ & _ & _ & (P1 & P2 & P3 & P4) & (B1 & B2 & B3 & B4) & _).
    unfold flay_rel. cbn [fl_order fl_location fl_size fl_content_size fl_scrollbar_size fl_border fl_padding fl_margin]. rewrite Wov.
    split; [reflexivity|]. split; [split; assumption|]. split; [split; assumption|]. split; [exact Hoc|].
    split; [split; cbn [width height]; match goal with |- context [if ?b then _ else _] => destruct b end; auto using sc_zero|].
    split; [repeat split; assumption|]. split; repeat split; assumption.
  Qed.

  (* ---- 4. content size contributions *)
  Lemma rel_content_size_contribution cs cs' l l' : gstyle_wrel k cs cs' -> flay_rel k l l' ->
    sz_rel L (content_size_contribution cs l) (content_size_contribution cs' l').
  Proof.
    intros Ws Hl. gw_open Ws. destruct Hl as (_ & [Hx Hy] & [Hsw Hsh] & [Hcw Hch] & _). unfold content_size_contribution. rewrite Wov.
    set (ov := overflow (gs_core cs)).
    assert (Hw : L (match px ov with Visible => fmax (width (gl_size l)) (width (gl_content_size l)) | _ => width (gl_size l) end)
                   (match px ov with Visible => fmax (width (gl_size l')) (width (gl_content_size l')) | _ => width (gl_size l') end))
      by (destruct (px ov); try assumption; apply (sc_max k); assumption).
    assert (Hh : L (match py ov with Visible => fmax (height (gl_size l)) (height (gl_content_size l)) | _ => height (gl_size l) end)
                   (match py ov with Visible => fmax (height (gl_size l')) (height (gl_content_size l')) | _ => height (gl_size l') end))
      by (destruct (py ov); try assumption; apply (sc_max k); assumption).
    set (w := match px ov with Visible => _ | _ => width (gl_size l) end) in *. set (w' := match px ov with Visible => _ | _ => width (gl_size l') end) in *.
    set (h := match py ov with Visible => _ | _ => height (gl_size l) end) in *. set (h' := match py ov with Visible => _ | _ => height (gl_size l') end) in *.
    clearbody w w' h h'.
    rewrite (sc_gtb k _ _ zero zero Hk Hw (sc_zero k)), (sc_gtb k _ _ zero zero Hk Hh (sc_zero k)).
    destruct (gtb w zero && gtb h zero)%bool; [|apply rel_size_ZERO']. split; cbn [width height]; apply sc_add; assumption.
  Qed.
  Lemma rel_size_f32_max a a' b b' : sz_rel L a a' -> sz_rel L b b' -> sz_rel L (size_f32_max a b) (size_f32_max a' b').
  Proof. intros [H1 H2] [H3 H4]. split; cbn [width height]; apply (sc_max k); assumption. Qed.

  (* ---- 5. the in-flow pass *)
  Lemma rel_inflow_pass_gen cas cols cols' rows rows' (K K' : Size XQ -> list (@Placed XQ) -> Alg) :
    tracks_rel k cols cols' -> tracks_rel k rows rows' ->
    (forall c c' p p', sz_rel L c c' -> Forall2 (placed_rel k) p p' -> AR (K c p) (K' c' p')) ->
    forall items items', Forall2 (gitem_rel k) items items' -> forall index content content' acc acc',
    sz_rel L content content' -> Forall2 (placed_rel k) acc acc' ->
    AR (inflow_pass cas cols rows items index content acc K) (inflow_pass cas cols' rows' items' index content' acc' K').
  Proof.
    intros Hc Hr HK items items' Hi. induction Hi as [|g g' r r' Hg Hrr IH]; intros index content content' acc acc' Hct Hacc; cbn [inflow_pass].
    - apply HK; [exact Hct|apply rel_rev; exact Hacc].
    - pose proof Hg as (En & Ws & _ & _ & _ & Eix & _ & _ & _ & Hshim & _). rewrite En, Eix.
      destruct (width (g_ix g)) as [cs_ ce], (height (g_ix g)) as [rs re].
      assert (Ha : arc_rel L (AB.mkRect (track_offset cols (S cs_)) (track_offset cols ce) (track_offset rows (S rs)) (track_offset rows re))
                             (AB.mkRect (track_offset cols' (S cs_)) (track_offset cols' ce) (track_offset rows' (S rs)) (track_offset rows' re)))
        by (repeat split; apply rel_track_offset; assumption).
      set (area := AB.mkRect (track_offset cols (S cs_)) _ _ _) in *. set (area' := AB.mkRect (track_offset cols' (S cs_)) _ _ _) in *. clearbody area area'.
      apply AR_query; [apply rel_position_query_input; assumption|]. intros o o' Ho.
      pose proof (rel_position_layout area area' cas _ _ _ _ index o o' Ha Hshim Ws Ho) as Hl.
      apply AR_set; [exact Hl|]. apply IH.
      + apply rel_size_f32_max; [exact Hct|apply rel_content_size_contribution; assumption].
      + constructor; [|exact Hacc]. destruct Hl as (_ & [_ Hy] & [_ Hh] & _). split; [exact Hg|]. split; assumption.
  Qed.
  Lemma rel_inflow_pass cas cols cols' rows rows' items items' index content content' acc acc' (K K' : Size XQ -> list (@Placed XQ) -> Alg) :
    tracks_rel k cols cols' -> tracks_rel k rows rows' -> Forall2 (gitem_rel k) items items' -> sz_rel L content content' ->
    Forall2 (placed_rel k) acc acc' ->
    (forall c c' p p', sz_rel L c c' -> Forall2 (placed_rel k) p p' -> AR (K c p) (K' c' p')) ->
    AR (inflow_pass cas cols rows items index content acc K) (inflow_pass cas cols' rows' items' index content' acc' K').
  Proof. intros. apply rel_inflow_pass_gen; assumption. Qed.

  (* ---- 6. the area of an absolutely positioned child *)
  Lemma rel_abs_area P P' bb bb' cols cols' rows rows' cix rix : pre_rel k P P' -> sz_rel L bb bb' -> tracks_rel k cols cols' ->
    tracks_rel k rows rows' -> arc_rel L (abs_area P bb cols rows cix rix) (abs_area P' bb' cols' rows' cix rix).
  Proof.
    intros (_ & (B1 & B2 & B3 & B4) & _ & _ & _ & _ & [G1 G2] & _) [Hw Hh] Hc Hr. unfold abs_area.
    destruct cix as [[c1|] [c2|]], rix as [[r1|] [r2|]]; cbn [fst snd]; repeat split;
      cbn [AB.r_left AB.r_right AB.r_top AB.r_bottom]; try (apply rel_track_offset; assumption); try assumption;
      repeat apply sc_sub; assumption.
  Qed.

  (* ---- 7. hidden and absolutely positioned children *)
  Lemma rel_out_of_flow_pass_gen P P' cas cc rc bb bb' cols cols' rows rows' (K K' : Size XQ -> Alg) :
    pre_rel k P P' -> sz_rel L bb bb' -> tracks_rel k cols cols' -> tracks_rel k rows rows' ->
    (forall c c', sz_rel L c c' -> AR (K c) (K' c')) ->
    forall children children', Forall2 (oof_rel k) children children' -> forall index order content content', sz_rel L content content' ->
    AR (out_of_flow_pass P cas cc rc bb cols rows children index order content K)
       (out_of_flow_pass P' cas cc rc bb' cols' rows' children' index order content' K').
  Proof.
    intros HP Hbb Hc Hr HK children children' Hch.
    induction Hch as [|c c' r r' Hcc Hrr IH]; intros index order content content' Hct; cbn [out_of_flow_pass].
    - apply HK. exact Hct.
    - destruct c as [|cs|], c' as [|cs'|]; cbn [oof_rel] in Hcc; try contradiction.
      + apply AR_query; [apply rel_g_hidden_child_input|]. intros _ _ _. apply AR_set; [apply rel_g_with_order|]. apply IH. exact Hct.
      + gw_open Hcc. rewrite Wcol, Wrow.
        destruct (abs_indexes (gs_column cs) cc) as [cix|]; [|apply AR_ret; apply rel_panic_out].
        destruct (abs_indexes (gs_row cs) rc) as [rix|]; [|apply AR_ret; apply rel_panic_out].
        pose proof (rel_abs_area P P' bb bb' cols cols' rows rows' cix rix HP Hbb Hc Hr) as Ha.
        set (area := abs_area P bb cols rows cix rix) in *. set (area' := abs_area P' bb' cols' rows' cix rix) in *. clearbody area area'.
        apply AR_query; [apply rel_position_query_input; try assumption; apply sc_zero|]. intros o o' Ho.
        pose proof (rel_position_layout area area' cas _ _ _ _ order o o' Ha (sc_zero k) Hcc Ho) as Hl.
        apply AR_set; [exact Hl|]. apply IH. apply rel_size_f32_max; [exact Hct|apply rel_content_size_contribution; assumption].
      + apply IH. exact Hct.
  Qed.
  Lemma rel_out_of_flow_pass P P' cas cc rc bb bb' cols cols' rows rows' children children' index order content content' (K K' : Size XQ -> Alg) :
    pre_rel k P P' -> sz_rel L bb bb' -> tracks_rel k cols cols' -> tracks_rel k rows rows' -> Forall2 (oof_rel k) children children' ->
    sz_rel L content content' -> (forall c c', sz_rel L c c' -> AR (K c) (K' c')) ->
    AR (out_of_flow_pass P cas cc rc bb cols rows children index order content K)
       (out_of_flow_pass P' cas cc rc bb' cols' rows' children' index order content' K').
  Proof. intros. apply rel_out_of_flow_pass_gen; assumption. Qed.

  (* ---- 9. the container baseline *)
  Lemma rel_take_row n l l' : Forall2 (placed_rel k) l l' -> Forall2 (placed_rel k) (take_row n l) (take_row n l').
  Proof.
    induction 1 as [|x x' r r' Hx Hr IH]; cbn [take_row]; [constructor|]. pose proof Hx as ((_ & _ & _ & _ & _ & Eix & _) & _). rewrite Eix.
    destruct (Nat.eqb _ n); constructor; assumption.
  Qed.
  Lemma rel_container_baseline p p' : Forall2 (placed_rel k) p p' -> O (container_baseline p) (container_baseline p').
  Proof.
    intros Hp. rewrite !container_baseline_eq.
    assert (Hs : Forall2 (placed_rel k)
                   (sort_by (fun a b : @Placed XQ => Nat.ltb (fst (height (g_ix (fst (fst a))))) (fst (height (g_ix (fst (fst b)))))) p)
                   (sort_by (fun a b : @Placed XQ => Nat.ltb (fst (height (g_ix (fst (fst a))))) (fst (height (g_ix (fst (fst b)))))) p')).
    { apply (rel_sort_by (placed_rel k)); [|exact Hp]. intros a a' b b' ((_ & _ & _ & _ & _ & Ea & _) & _) ((_ & _ & _ & _ & _ & Eb & _) & _).
      rewrite Ea, Eb. reflexivity. }
    cbv zeta. set (s := sort_by _ p) in *. set (s' := sort_by _ p') in *. clearbody s s'.
    destruct Hs as [|p0 p0' r r' H0 Hr]; [exact I|].
    pose proof H0 as ((_ & _ & _ & _ & _ & E0 & _) & _). rewrite E0.
    assert (Hf : op_rel (placed_rel k)
                   (find (fun q : @Placed XQ => ai_is_baseline (g_align (fst (fst q)))) (take_row (fst (height (g_ix (fst (fst p0))))) (p0 :: r)))
                   (find (fun q : @Placed XQ => ai_is_baseline (g_align (fst (fst q)))) (take_row (fst (height (g_ix (fst (fst p0))))) (p0' :: r')))).
    { apply rel_find; [|apply rel_take_row; constructor; assumption]. intros x x' ((_ & _ & _ & Eal & _) & _). rewrite Eal. reflexivity. }
    assert (Hpick : placed_rel k
              (match find (fun q : @Placed XQ => ai_is_baseline (g_align (fst (fst q)))) (take_row (fst (height (g_ix (fst (fst p0))))) (p0 :: r)) with
               | Some q => q | None => p0 end)
              (match find (fun q : @Placed XQ => ai_is_baseline (g_align (fst (fst q)))) (take_row (fst (height (g_ix (fst (fst p0))))) (p0' :: r')) with
               | Some q => q | None => p0' end)).
    { destruct (find _ (take_row _ (p0 :: r))), (find _ (take_row _ (p0' :: r'))); cbn [op_rel] in Hf; try contradiction; assumption. }
    destruct (match find _ (take_row _ (p0 :: r)) with Some q => q | None => p0 end) as [[g y] h].
    destruct (match find _ (take_row _ (p0' :: r')) with Some q => q | None => p0' end) as [[g' y'] h'].
    destruct Hpick as (Hg & Hy & Hh). cbn [fst snd] in Hg, Hy, Hh. destruct Hg as (_ & _ & _ & _ & _ & _ & _ & _ & Hb & _).
    cbn [op_rel]. apply sc_add; [exact Hy|]. destruct (g_baseline g), (g_baseline g'); cbn [op_rel] in Hb; try contradiction; cbn [opt_unwrap_or]; assumption.
  Qed.

  (* ---- 10. the whole final phase *)
  Theorem grid_final_rel st st' P P' cc rc oof oof' zc zc' : gstyle_wrel k st st' -> pre_rel k P P' -> Forall2 (oof_rel k) oof oof' ->
    sized_rel k (fst zc) (fst zc') -> snd zc' = snd zc -> AR (grid_final st P cc rc oof zc) (grid_final st' P' cc rc oof' zc').
  Proof.
    intros Ws HP Hoof Hz Ec. destruct zc as [z c], zc' as [z' c']. cbn [fst snd] in Hz, Ec. subst c'.
    destruct Hz as ((Hcols & Hrows & _ & _ & Hitems) & Hbb & [Hcw Hch]). gw_open Ws. unfold grid_final.
    destruct (negb c); [apply AR_ret; apply rel_g_from_outer_size; exact Hbb|]. cbv zeta.
    assert (Ecas : to_ae_ib st' = to_ae_ib st) by (unfold to_ae_ib; rewrite Wai, Wji; reflexivity). rewrite Ecas, Wjc, Walc.
    pose proof HP as ((Pl & _ & Pt & _) & (Bl & _ & Bt & _) & _).
    pose proof (align_tracks_homog k Hk _ _ _ _ _ _ _ _ (opt_unwrap_or (gs_justify_content st) AStretch) Hcw Pl Bl Hcols) as Hc2.
    pose proof (align_tracks_homog k Hk _ _ _ _ _ _ _ _ (opt_unwrap_or (gs_align_content st) AStretch) Hch Pt Bt Hrows) as Hr2.
    assert (Hit : Forall2 (gitem_rel k) (sort_by (fun a b : @GItem XQ => Nat.ltb (g_node a) (g_node b)) (ss_items (z_state z)))
                                        (sort_by (fun a b : @GItem XQ => Nat.ltb (g_node a) (g_node b)) (ss_items (z_state z')))).
    { apply (rel_sort_by (gitem_rel k)); [|exact Hitems]. intros a a' b b' (Ea & _) (Eb & _). rewrite Ea, Eb. reflexivity. }
    rewrite (rel_length (gitem_rel k) _ _ Hit).
    apply rel_inflow_pass; try assumption; [apply rel_size_ZERO'|constructor|]. intros ct ct' pl pl' Hct Hpl.
    apply rel_out_of_flow_pass; try assumption. intros c2 c2' Hc2'.
    pose proof (rel_container_baseline _ _ Hpl) as Hb.
    destruct (container_baseline pl), (container_baseline pl'); cbn [op_rel] in Hb; try contradiction.
    - apply AR_ret. unfold output_rel. cbn [out_size out_content_size first_baselines top_margin bottom_margin margins_can_collapse_through].
      split; [exact Hbb|]. split; [exact Hc2'|]. split; [split; [exact I|exact Hb]|]. split; [apply rel_mset_ZERO'|]. split; [apply rel_mset_ZERO'|reflexivity].
    - apply AR_ret. apply rel_g_from_outer_size. exact Hbb.
  Qed.
End Final.
