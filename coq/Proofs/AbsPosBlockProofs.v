(* C11 -- block containers: closed form of the final size, then the four equations.  About Gen.AbsPosGen.block_place /
   block_final_size (generated from block.rs) through Model.AbsPos.abs_block_place. *)
From Coq Require Import ZArith NArith QArith Bool List Lia Lqa.
From TV Require Import Num.Num Num.QNum Gen.AbsPosEnums Model.AbsPosBase Gen.AbsPosGen Model.AbsPos Proofs.AbsPosProofs.

Ltac fin_split := repeat match goal with H : _ /\ _ |- _ => destruct H end; cbn [fin_opt] in *.
Ltac fin_side :=
  repeat match goal with
  | |- finite (maybe_clamp_FOO _ _ _) => apply clamp_FOO_fin
  | |- fin_opt (maybe_max_OF (opt_or ?m (Some ?p)) ?p) => apply (bf_min_fin m p)
  | |- finite (x_max (x_sub (x_sub (maybe_sub_FO (maybe_sub_FO ?a ?ms) ?me) ?s) ?e) (Fin 0)) => apply (raw_from_insets_fin a ms me s e)
  | |- fin_opt (Some _) => cbn [fin_opt]
  | |- fin_opt None => exact I
  | |- _ => assumption
  end.
Ltac known_norm :=
  repeat (progress (rewrite ?clamp_OOO_some, ?clamp_OOO_none;
                    cbn -[maybe_clamp_OOO maybe_clamp_FOO maybe_max_OF opt_or maybe_sub_FO x_max x_min])).

(* With no aspect ratio the two axes are independent: each final extent is the clamp of the style size, else of the
   size from both insets, else of the measured size (the clamp is applied up to three times; it is idempotent). *)
Lemma block_final_w area off sp i measured :
  ai_aspect_ratio i = None -> fin_size area -> fin_in i -> fin_size measured ->
  s_width (block_final_size area off sp i measured) =
  maybe_clamp_FOO (axis_choice (s_width area) (s_width (ai_size i)) (r_left (ai_inset i)) (r_right (ai_inset i))
                               (r_left (ai_margin i)) (r_right (ai_margin i)) (s_width measured))
                  (bf_min (s_width (ai_min0 i)) (s_width (ai_pb_sum i))) (s_width (ai_max i)).
Proof.
  intros Har Ha Hi Hm.
  destruct area as [aw ah].
  destruct i as [ar [mL mR mT mB] [iL iR iT iB] pad bor [pbw pbh] [sw sh] [mnw mnh] [mxw mxh] als jus pos].
  destruct measured as [mw mh].
  cbn in Har. subst ar. fin_unfold; cbn in Ha, Hi, Hm. fin_split.
  unfold block_final_size, bf_min, axis_choice, raw_from_insets.
  cbv beta iota zeta delta [size_zip3 size_zip2 size_or size_map size_set_width size_set_height size_unwrap_or
    size_maybe_apply_aspect_ratio s_width s_height r_left r_right r_top r_bottom ai_size ai_min0 ai_max ai_pb_sum ai_inset
    ai_margin ai_aspect_ratio opt_unwrap_or].
  destruct sw as [sw|], iL as [iL|], iR as [iR|]; known_norm;
  (destruct sh as [sh|], iT as [iT|], iB as [iB|]; known_norm;
    rewrite ?clamp_FOO_idem by fin_side; reflexivity).
Qed.

Lemma block_final_h area off sp i measured :
  ai_aspect_ratio i = None -> fin_size area -> fin_in i -> fin_size measured ->
  s_height (block_final_size area off sp i measured) =
  maybe_clamp_FOO (axis_choice (s_height area) (s_height (ai_size i)) (r_top (ai_inset i)) (r_bottom (ai_inset i))
                               (r_top (ai_margin i)) (r_bottom (ai_margin i)) (s_height measured))
                  (bf_min (s_height (ai_min0 i)) (s_height (ai_pb_sum i))) (s_height (ai_max i)).
Proof.
  intros Har Ha Hi Hm.
  destruct area as [aw ah].
  destruct i as [ar [mL mR mT mB] [iL iR iT iB] pad bor [pbw pbh] [sw sh] [mnw mnh] [mxw mxh] als jus pos].
  destruct measured as [mw mh].
  cbn in Har. subst ar. fin_unfold; cbn in Ha, Hi, Hm. fin_split.
  unfold block_final_size, bf_min, axis_choice, raw_from_insets.
  cbv beta iota zeta delta [size_zip3 size_zip2 size_or size_map size_set_width size_set_height size_unwrap_or
    size_maybe_apply_aspect_ratio s_width s_height r_left r_right r_top r_bottom ai_size ai_min0 ai_max ai_pb_sum ai_inset
    ai_margin ai_aspect_ratio opt_unwrap_or].
  destruct sw as [sw|], iL as [iL|], iR as [iR|]; known_norm;
  (destruct sh as [sh|], iT as [iT|], iB as [iB|]; known_norm;
    rewrite ?clamp_FOO_idem by fin_side; reflexivity).
Qed.

Lemma block_area_fin ct : fin_container ct -> fin_size (fst (block_area ct)) /\ fin_point (snd (block_area ct)).
Proof.
  destruct ct as [[W Hh] [bl br bt bb] [pl pr pt pb] [gx gy]]. fin_unfold. cbn. intros.
  repeat split; xq_arith.
Qed.

Lemma block_final_fin area off sp i measured :
  ai_aspect_ratio i = None -> fin_size area -> fin_in i -> fin_size measured ->
  fin_size (block_final_size area off sp i measured).
Proof.
  intros Har Ha Hi Hm. split; [rewrite block_final_w by assumption | rewrite block_final_h by assumption];
    fin_unfold; fin_split; (apply clamp_FOO_fin; [apply axis_choice_fin | apply bf_min_fin |]; assumption).
Qed.

(* the extent the block code works with is the padding box without the gutter *)
Lemma block_area_pbox ct : fin_container ct ->
  xeq (s_width (fst (block_area ct))) (pbox_w ct) /\ xeq (s_height (fst (block_area ct))) (pbox_h ct) /\
  finite (pbox_w ct) /\ finite (pbox_h ct).
Proof.
  destruct ct as [[W Hh] [bl br bt bb] [pl pr pt pb] [gx gy]]. fin_unfold. cbn. intros.
  repeat split; xq_arith.
Qed.

Ltac block_setup ct sp i measured Hc Hi Hm Har :=
  let Ha := fresh "Ha" in let Ho := fresh "Ho" in let HF := fresh "HF" in
  pose proof (block_area_fin ct Hc) as [Ha Ho];
  pose proof (block_final_fin _ (snd (block_area ct)) sp i measured Har Ha Hi Hm) as HF;
  unfold abs_block_place in *;
  destruct i as [ar [mL mR mT mB] [iL iR iT iB] pad bor [pbw pbh] [sw sh] [mnw mnh] [mxw mxh] als jus pos];
  cbn [ai_aspect_ratio ai_margin ai_inset ai_size ai_min0 ai_max ai_pb_sum r_left r_right r_top r_bottom s_width s_height] in * |-; subst;
  cbn -[block_final_size block_area];
  match goal with
  | HF' : fin_size ?F |- _ => destruct F as [fw fh]
  end;
  destruct ct as [[W Hh] [bl br bt bb] [pl pr pt pb] [gx gy]];
  fin_unfold; cbn in * |-; cbn.

Definition block_premises (ct : @Container XQ) (i : AbsIn XQ) (measured : Size XQ) : Prop :=
  fin_container ct /\ fin_in i /\ fin_size measured /\ ai_aspect_ratio i = None.
Ltac block_go :=
  match goal with
  | P : block_premises ?ct ?i ?measured |- context [abs_block_place ?ct ?sp ?i ?measured] =>
      let Hc := fresh "Hc" in let Hi := fresh "Hi" in let Hm := fresh "Hm" in let Har := fresh "Har" in
      destruct P as (Hc & Hi & Hm & Har); block_setup ct sp i measured Hc Hi Hm Har
  end.

Lemma start_block_x ct sp i measured s ml mr : block_premises ct i measured ->
  r_left (ai_inset i) = Some s -> r_left (ai_margin i) = Some ml -> r_right (ai_margin i) = Some mr ->
  let o := abs_block_place ct sp i measured in
  xeq (sub (p_x (o_location o)) (r_left (o_margin o))) (add (pbox_start_x ct) s).
Proof. intros P ? ? ? o; subst o. block_go. xq_arith. Qed.

Lemma start_block_y ct sp i measured s mt mb : block_premises ct i measured ->
  r_top (ai_inset i) = Some s -> r_top (ai_margin i) = Some mt -> r_bottom (ai_margin i) = Some mb ->
  let o := abs_block_place ct sp i measured in
  xeq (sub (p_y (o_location o)) (r_top (o_margin o))) (add (pbox_start_y ct) s).
Proof. intros P ? ? ? o; subst o. block_go. xq_arith. Qed.

Lemma end_block_x ct sp i measured e ml mr : block_premises ct i measured ->
  r_left (ai_inset i) = None -> r_right (ai_inset i) = Some e -> r_left (ai_margin i) = Some ml -> r_right (ai_margin i) = Some mr ->
  let o := abs_block_place ct sp i measured in
  xeq (sub (pbox_end_x ct) (add (add (p_x (o_location o)) (s_width (o_size o))) (r_right (o_margin o)))) e.
Proof. intros P ? ? ? ? o; subst o. block_go. xq_arith. Qed.

Lemma end_block_y ct sp i measured e mt mb : block_premises ct i measured ->
  r_top (ai_inset i) = None -> r_bottom (ai_inset i) = Some e -> r_top (ai_margin i) = Some mt -> r_bottom (ai_margin i) = Some mb ->
  let o := abs_block_place ct sp i measured in
  xeq (sub (pbox_end_y ct) (add (add (p_y (o_location o)) (s_height (o_size o))) (r_bottom (o_margin o)))) e.
Proof. intros P ? ? ? ? o; subst o. block_go. xq_arith. Qed.

(* size from insets *)
Lemma size_block_x ct sp i measured s e ml mr : block_premises ct i measured ->
  r_left (ai_inset i) = Some s -> r_right (ai_inset i) = Some e -> s_width (ai_size i) = None ->
  r_left (ai_margin i) = Some ml -> r_right (ai_margin i) = Some mr ->
  xeq (s_width (o_size (abs_block_place ct sp i measured)))
      (inset_size (pbox_w ct) s e ml mr (s_width (ai_min0 i)) (s_width (ai_max i)) (s_width (ai_pb_sum i))).
Proof.
  intros (Hc & Hi & Hm & Har) Hl Hr Hs Hml Hmr.
  destruct (block_area_fin ct Hc) as [Ha Ho]. destruct (block_area_pbox ct Hc) as (Hw & _ & Hfw & _).
  change (o_size (abs_block_place ct sp i measured)) with (block_final_size (fst (block_area ct)) (snd (block_area ct)) sp i measured).
  rewrite block_final_w by assumption. rewrite Hl, Hr, Hs, Hml, Hmr. cbn [axis_choice].
  unfold fin_in, fin_orect, fin_osize, fin_size in Hi. rewrite Hl, Hr, Hml, Hmr in Hi. cbn [fin_opt] in Hi.
  apply clamp_inset_size; tauto.
Qed.

Lemma size_block_y ct sp i measured s e mt mb : block_premises ct i measured ->
  r_top (ai_inset i) = Some s -> r_bottom (ai_inset i) = Some e -> s_height (ai_size i) = None ->
  r_top (ai_margin i) = Some mt -> r_bottom (ai_margin i) = Some mb ->
  xeq (s_height (o_size (abs_block_place ct sp i measured)))
      (inset_size (pbox_h ct) s e mt mb (s_height (ai_min0 i)) (s_height (ai_max i)) (s_height (ai_pb_sum i))).
Proof.
  intros (Hc & Hi & Hm & Har) Hl Hr Hs Hml Hmr.
  destruct (block_area_fin ct Hc) as [Ha Ho]. destruct (block_area_pbox ct Hc) as (_ & Hw & _ & Hfw).
  change (o_size (abs_block_place ct sp i measured)) with (block_final_size (fst (block_area ct)) (snd (block_area ct)) sp i measured).
  rewrite block_final_h by assumption. rewrite Hl, Hr, Hs, Hml, Hmr. cbn [axis_choice].
  unfold fin_in, fin_orect, fin_osize, fin_size in Hi. rewrite Hl, Hr, Hml, Hmr in Hi. cbn [fin_opt] in Hi.
  apply clamp_inset_size; tauto.
Qed.

(* a single auto margin on an axis whose insets and size are all set absorbs the remaining space *)
Lemma auto_margin_block_left ct sp i measured s e w mr : block_premises ct i measured ->
  r_left (ai_inset i) = Some s -> r_right (ai_inset i) = Some e -> s_width (ai_size i) = Some w ->
  r_left (ai_margin i) = None -> r_right (ai_margin i) = Some mr ->
  let o := abs_block_place ct sp i measured in
  xeq (r_left (o_margin o)) (sub (sub (sub (sub (pbox_w ct) s) e) (s_width (o_size o))) mr) /\ xeq (r_right (o_margin o)) mr.
Proof. intros P ? ? ? ? ? o; subst o. block_go. split; xq_arith. Qed.

Lemma auto_margin_block_right ct sp i measured s e w ml : block_premises ct i measured ->
  r_left (ai_inset i) = Some s -> r_right (ai_inset i) = Some e -> s_width (ai_size i) = Some w ->
  r_left (ai_margin i) = Some ml -> r_right (ai_margin i) = None ->
  let o := abs_block_place ct sp i measured in
  xeq (r_right (o_margin o)) (sub (sub (sub (sub (pbox_w ct) s) e) (s_width (o_size o))) ml) /\ xeq (r_left (o_margin o)) ml.
Proof. intros P ? ? ? ? ? o; subst o. block_go. split; xq_arith. Qed.

Lemma auto_margin_block_top ct sp i measured s e h mb : block_premises ct i measured ->
  r_top (ai_inset i) = Some s -> r_bottom (ai_inset i) = Some e -> s_height (ai_size i) = Some h ->
  r_top (ai_margin i) = None -> r_bottom (ai_margin i) = Some mb ->
  let o := abs_block_place ct sp i measured in
  xeq (r_top (o_margin o)) (sub (sub (sub (sub (pbox_h ct) s) e) (s_height (o_size o))) mb) /\ xeq (r_bottom (o_margin o)) mb.
Proof. intros P ? ? ? ? ? o; subst o. block_go. split; xq_arith. Qed.

Lemma auto_margin_block_bottom ct sp i measured s e h mt : block_premises ct i measured ->
  r_top (ai_inset i) = Some s -> r_bottom (ai_inset i) = Some e -> s_height (ai_size i) = Some h ->
  r_top (ai_margin i) = Some mt -> r_bottom (ai_margin i) = None ->
  let o := abs_block_place ct sp i measured in
  xeq (r_bottom (o_margin o)) (sub (sub (sub (sub (pbox_h ct) s) e) (s_height (o_size o))) mt) /\ xeq (r_top (o_margin o)) mt.
Proof. intros P ? ? ? ? ? o; subst o. block_go. split; xq_arith. Qed.
