(* C04 -- uniform scaling of the inputs of the absolutely-positioned kernels (Model/AbsPos.v, Gen/AbsPosGen.v: block,
   flex, grid), over the exact instance XQ.  Definitions only.  Vocabulary of Model/ScaleBase.v (x_scale, sc, dl, op_rel)
   lifted to the geometry records of Model/AbsPosBase.v:
     lengths        container size / border / padding / scrollbar gutter, static position, resolved insets, margins,
                    padding, border, sizes of the child (AbsIn), the measured size, the style lengths (DLength)
     dimensionless  aspect ratio, percentages (DPercent), alignment / direction / position / box-sizing enums, flags *)
From Coq Require Import QArith Bool List.
From TV Require Import Num.Num Num.QNum Gen.AbsPosEnums Model.AbsPosBase Gen.AbsPosGen Model.AbsPos.
From TV Require Export Model.ScaleBase.

(* ---- functional lifts *)
Definition asize_scale (k : Q) (s : Size XQ) : Size XQ := size_map (x_scale k) s.
Definition aosize_scale (k : Q) (s : Size (option XQ)) : Size (option XQ) := size_map (opt_scale k) s.
Definition arect_scale (k : Q) (r : Rect XQ) : Rect XQ := rect_map (x_scale k) r.
Definition aorect_scale (k : Q) (r : Rect (option XQ)) : Rect (option XQ) := rect_map (opt_scale k) r.
Definition apoint_scale (k : Q) (p : Point XQ) : Point XQ := point_map (x_scale k) p.
Definition adim_scale (k : Q) (d : Dim XQ) : Dim XQ :=
  match d with DAuto => DAuto | DLength v => DLength (x_scale k v) | DPercent p => DPercent p end.

Definition absin_scale (k : Q) (i : AbsIn XQ) : AbsIn XQ :=
  mkAbsIn (ai_aspect_ratio i) (aorect_scale k (ai_margin i)) (aorect_scale k (ai_inset i)) (arect_scale k (ai_padding i))
          (arect_scale k (ai_border i)) (asize_scale k (ai_pb_sum i)) (aosize_scale k (ai_size i)) (aosize_scale k (ai_min0 i))
          (aosize_scale k (ai_max i)) (ai_align_self i) (ai_justify_self i) (ai_position i).
Definition absstyle_scale (k : Q) (st : AbsStyle XQ) : AbsStyle XQ :=
  mkAbsStyle (size_map (adim_scale k) (st_size st)) (size_map (adim_scale k) (st_min_size st)) (size_map (adim_scale k) (st_max_size st))
             (rect_map (adim_scale k) (st_inset st)) (rect_map (adim_scale k) (st_margin st)) (rect_map (adim_scale k) (st_padding st))
             (rect_map (adim_scale k) (st_border st)) (st_aspect_ratio st) (st_box_sizing st) (st_align_self st) (st_justify_self st)
             (st_position st).
Definition container_scale (k : Q) (ct : @Container XQ) : @Container XQ :=
  mkContainer (asize_scale k (ct_size ct)) (arect_scale k (ct_border ct)) (arect_scale k (ct_padding ct)) (apoint_scale k (ct_gutter ct)).
Definition flexc_scale (k : Q) (c : FlexConstants XQ) : FlexConstants XQ :=
  mkFlexConstants (asize_scale k (fc_container_size c)) (arect_scale k (fc_border c)) (apoint_scale k (fc_scrollbar_gutter c))
                  (arect_scale k (fc_content_box_inset c)) (fc_dir c) (fc_is_row c) (fc_is_wrap_reverse c) (fc_justify_content c)
                  (fc_align_items c).
Definition absout_scale (k : Q) (o : AbsOut XQ) : AbsOut XQ :=
  mkAbsOut (apoint_scale k (o_location o)) (asize_scale k (o_size o)) (arect_scale k (o_margin o)).

(* ---- relations *)
Definition asz_rel {A} (R : A -> A -> Prop) (a a' : Size A) : Prop := R (s_width a) (s_width a') /\ R (s_height a) (s_height a').
Definition arc_rel {A} (R : A -> A -> Prop) (a a' : Rect A) : Prop :=
  R (r_left a) (r_left a') /\ R (r_right a) (r_right a') /\ R (r_top a) (r_top a') /\ R (r_bottom a) (r_bottom a').
Definition apt_rel {A} (R : A -> A -> Prop) (a a' : Point A) : Prop := R (p_x a) (p_x a') /\ R (p_y a) (p_y a').
Definition aln_rel {A} (R : A -> A -> Prop) (a a' : Line A) : Prop := R (l_start a) (l_start a') /\ R (l_end a) (l_end a').
Definition dim_rel (k : Q) (d d' : Dim XQ) : Prop :=
  match d, d' with
  | DAuto, DAuto => True
  | DLength v, DLength v' => sc k v v'
  | DPercent p, DPercent p' => dl p p'
  | _, _ => False
  end.

Definition absin_rel (k : Q) (i i' : AbsIn XQ) : Prop :=
  op_rel dl (ai_aspect_ratio i) (ai_aspect_ratio i') /\
  arc_rel (op_rel (sc k)) (ai_margin i) (ai_margin i') /\ arc_rel (op_rel (sc k)) (ai_inset i) (ai_inset i') /\
  arc_rel (sc k) (ai_padding i) (ai_padding i') /\ arc_rel (sc k) (ai_border i) (ai_border i') /\
  asz_rel (sc k) (ai_pb_sum i) (ai_pb_sum i') /\
  asz_rel (op_rel (sc k)) (ai_size i) (ai_size i') /\ asz_rel (op_rel (sc k)) (ai_min0 i) (ai_min0 i') /\
  asz_rel (op_rel (sc k)) (ai_max i) (ai_max i') /\
  ai_align_self i' = ai_align_self i /\ ai_justify_self i' = ai_justify_self i /\ ai_position i' = ai_position i.
Definition absstyle_rel (k : Q) (st st' : AbsStyle XQ) : Prop :=
  asz_rel (dim_rel k) (st_size st) (st_size st') /\ asz_rel (dim_rel k) (st_min_size st) (st_min_size st') /\
  asz_rel (dim_rel k) (st_max_size st) (st_max_size st') /\ arc_rel (dim_rel k) (st_inset st) (st_inset st') /\
  arc_rel (dim_rel k) (st_margin st) (st_margin st') /\ arc_rel (dim_rel k) (st_padding st) (st_padding st') /\
  arc_rel (dim_rel k) (st_border st) (st_border st') /\ op_rel dl (st_aspect_ratio st) (st_aspect_ratio st') /\
  st_box_sizing st' = st_box_sizing st /\ st_align_self st' = st_align_self st /\ st_justify_self st' = st_justify_self st /\
  st_position st' = st_position st.
Definition container_rel (k : Q) (ct ct' : @Container XQ) : Prop :=
  asz_rel (sc k) (ct_size ct) (ct_size ct') /\ arc_rel (sc k) (ct_border ct) (ct_border ct') /\
  arc_rel (sc k) (ct_padding ct) (ct_padding ct') /\ apt_rel (sc k) (ct_gutter ct) (ct_gutter ct').
Definition flexc_rel (k : Q) (c c' : FlexConstants XQ) : Prop :=
  asz_rel (sc k) (fc_container_size c) (fc_container_size c') /\ arc_rel (sc k) (fc_border c) (fc_border c') /\
  apt_rel (sc k) (fc_scrollbar_gutter c) (fc_scrollbar_gutter c') /\
  arc_rel (sc k) (fc_content_box_inset c) (fc_content_box_inset c') /\
  fc_dir c' = fc_dir c /\ fc_is_row c' = fc_is_row c /\ fc_is_wrap_reverse c' = fc_is_wrap_reverse c /\
  fc_justify_content c' = fc_justify_content c /\ fc_align_items c' = fc_align_items c.
Definition absout_rel (k : Q) (o o' : AbsOut XQ) : Prop :=
  apt_rel (sc k) (o_location o) (o_location o') /\ asz_rel (sc k) (o_size o) (o_size o') /\ arc_rel (sc k) (o_margin o) (o_margin o').

(* the measure oracle of the kernels (what perform_child_layout returns for the known dimensions the kernel computed):
   scaled known dimensions give the scaled size *)
Definition abs_measure_homog (k : Q) (m m' : Size (option XQ) -> Size XQ) : Prop :=
  forall kd kd', asz_rel (op_rel (sc k)) kd kd' -> asz_rel (sc k) (m kd) (m' kd').
