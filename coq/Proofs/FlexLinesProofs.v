(* Proofs about Model/FlexLines.v (collect_flex_lines).
   Part 1 (any `Num`, no arithmetic fact is used): the lines are a partition of the item list into consecutive
   non-empty runs; every line satisfies the loop's own exit conditions (`lines_spec`: the running line length of a line
   of >= 2 items does not test `> available`, and it does once the first item of the next line is added).
   Part 2 (XQ, finite inputs): the running line length is the exact sum, so the conditions become
   sum + gaps <= available (fit) and sum + gaps + gap + next > available (greedy). *)
From Coq Require Import ZArith QArith Bool List Lia Lqa.
From TV Require Import Num.Num Num.QNum Model.Common Gen.FlexGen Model.Flex Model.FlexLines Proofs.FlexQ.
Import ListNotations.

(* ------------------------------------------------------------------------------------------ part 1: any Num *)
Section Generic.
  Context {T : Type} `{Num T}.
  Context {A : Type} (hyp : A -> T).

  Notation LL := (line_length_from hyp).

  (* what one round of the `while` loop guarantees about the line it splits off *)
  Definition good_split (avail gap : T) (items line rest : list A) : Prop :=
    items = line ++ rest /\ line <> [] /\
    ((2 <= length line)%nat -> gtb (line_length hyp gap line) avail = false) /\
    (forall c rest', rest = c :: rest' -> gtb (line_length hyp gap (line ++ [c])) avail = true).

  Inductive lines_spec (avail gap : T) : list A -> list (list A) -> Prop :=
  | ls_nil : lines_spec avail gap [] []
  | ls_cons items line rest ls :
      good_split avail gap items line rest -> lines_spec avail gap rest ls -> lines_spec avail gap items (line :: ls).

  Lemma find_break_range avail gap : forall l ll idx,
    (idx <= find_break hyp avail gap ll idx l <= idx + length l)%nat.
  Proof.
    induction l as [|c r IH]; intros ll idx; simpl; [lia|].
    destruct (gtb _ avail && negb (Nat.eqb idx 0)); [lia|].
    specialize (IH (add ll (add (hyp c) match idx with O => zero | S _ => gap end)) (S idx)). lia.
  Qed.

  Lemma find_break_first avail gap c r ll : (1 <= find_break hyp avail gap ll 0 (c :: r))%nat.
  Proof.
    simpl. rewrite andb_false_r.
    pose proof (find_break_range avail gap r (add ll (add (hyp c) zero)) 1). lia.
  Qed.

  (* (a) the line taken: no test fired on its last item, unless that item is the very first of the slice;
     (b) when the `find` stopped, the test fired on the item it stopped at (which is not the first of the slice) *)
  Lemma find_break_spec avail gap : forall l ll idx,
    let k := find_break hyp avail gap ll idx l in
    ((idx < k)%nat -> (2 <= k)%nat -> gtb (LL gap ll idx (firstn (k - idx) l)) avail = false) /\
    ((k - idx < length l)%nat -> (1 <= k)%nat /\ gtb (LL gap ll idx (firstn (S (k - idx)) l)) avail = true).
  Proof.
    induction l as [|c r IH]; intros ll idx; cbn zeta.
    - simpl. split; intros; lia.
    - simpl find_break. set (ll' := add ll (add (hyp c) match idx with O => zero | S _ => gap end)).
      destruct (gtb ll' avail && negb (Nat.eqb idx 0)) eqn:E.
      + split; [lia|]. intros _. apply andb_true_iff in E. destruct E as [E1 E2].
        apply negb_true_iff, Nat.eqb_neq in E2. split; [lia|].
        replace (idx - idx)%nat with 0%nat by lia. simpl. exact E1.
      + pose proof (find_break_range avail gap r ll' (S idx)) as R.
        destruct (IH ll' (S idx)) as [Ia Ib]. set (k := find_break hyp avail gap ll' (S idx) r) in *.
        split.
        * intros L1 L2. replace (k - idx)%nat with (S (k - S idx)) by lia. simpl. fold ll'.
          destruct (Nat.eq_dec k (S idx)) as [Ek|Nk].
          -- replace (k - S idx)%nat with 0%nat by lia. simpl.
             apply andb_false_iff in E. destruct E as [E|E]; [exact E|].
             apply negb_false_iff, Nat.eqb_eq in E. lia.
          -- apply Ia; lia.
        * intros L. simpl length in L.
          replace (S (k - idx)) with (S (S (k - S idx))) by lia.
          assert (L' : (k - S idx < length r)%nat) by lia.
          destruct (Ib L') as [K1 K2]. split; [lia|].
          change (firstn (S (S (k - S idx))) (c :: r)) with (c :: firstn (S (k - S idx)) r). simpl LL. fold ll'.
          exact K2.
  Qed.

  Lemma firstn_snoc (l : list A) : forall k c r, skipn k l = c :: r -> firstn (S k) l = firstn k l ++ [c].
  Proof.
    induction l as [|x l IH]; intros k c r E.
    - destruct k; discriminate.
    - destruct k; simpl in *.
      + inversion E. reflexivity.
      + f_equal. eapply IH. exact E.
  Qed.

  Lemma split_is_good avail gap (c : A) (r : list A) :
    let items := c :: r in
    let k := find_break hyp avail gap zero 0 items in
    good_split avail gap items (firstn k items) (skipn k items).
  Proof.
    intros items k.
    pose proof (find_break_first avail gap c r zero) as K1. fold items in K1. fold k in K1.
    pose proof (find_break_range avail gap items zero 0) as K2. fold k in K2. simpl in K2.
    destruct (find_break_spec avail gap items zero 0) as [Sa Sb]. fold k in Sa, Sb.
    rewrite Nat.sub_0_r in Sa, Sb.
    split; [symmetry; apply firstn_skipn|]. split; [|split].
    - intro E. apply (f_equal (@length A)) in E. rewrite firstn_length in E. simpl in E. lia.
    - intro L. rewrite firstn_length in L. apply Sa; lia.
    - intros c' rest' E. rewrite <- (firstn_snoc items k c' rest' E). apply Sb.
      apply (f_equal (@length A)) in E. rewrite skipn_length in E.
      unfold items in *. simpl length in *. lia.
  Qed.

  Lemma collect_definite_spec avail gap : forall fuel items, (length items <= fuel)%nat ->
    lines_spec avail gap items (collect_definite hyp fuel avail gap items).
  Proof.
    induction fuel as [|fuel IH]; intros items L.
    - destruct items; [constructor | simpl in L; lia].
    - destruct items as [|c r]; [constructor|].
      change (collect_definite hyp (S fuel) avail gap (c :: r))
        with (let index := find_break hyp avail gap zero 0 (c :: r) in
              firstn index (c :: r) :: collect_definite hyp fuel avail gap (skipn index (c :: r))).
      cbn zeta. eapply ls_cons; [apply split_is_good|].
      apply IH. rewrite skipn_length. pose proof (find_break_first avail gap c r zero). simpl length in *. lia.
  Qed.

  (* consequences of the specification *)
  Lemma lines_spec_concat avail gap items ls : lines_spec avail gap items ls -> concat ls = items.
  Proof. induction 1 as [|items line rest ls [E _] _ IH]; simpl; [reflexivity | rewrite IH; auto]. Qed.

  Lemma lines_spec_nonempty avail gap items ls : lines_spec avail gap items ls -> Forall (fun l => l <> []) ls.
  Proof. induction 1 as [|items line rest ls [_ [N _]] _ IH]; constructor; assumption. Qed.

  Lemma lines_spec_fit avail gap items ls : lines_spec avail gap items ls ->
    forall line, In line ls -> (2 <= length line)%nat -> gtb (line_length hyp gap line) avail = false.
  Proof.
    induction 1 as [|items line rest ls [_ [_ [F _]]] _ IH]; intros l Hin L; [destruct Hin|].
    destruct Hin as [<-|Hin]; auto.
  Qed.

  Lemma lines_spec_head avail gap items ls : lines_spec avail gap items ls ->
    forall c l2 post, ls = (c :: l2) :: post -> exists r, items = c :: r.
  Proof.
    destruct 1 as [|items line rest ls [E _] _]; intros c l2 post Els; [discriminate|].
    inversion Els; subst. simpl. eexists; reflexivity.
  Qed.

  Lemma lines_spec_greedy avail gap items ls : lines_spec avail gap items ls ->
    forall pre l1 c l2 post, ls = pre ++ l1 :: (c :: l2) :: post ->
      gtb (line_length hyp gap (l1 ++ [c])) avail = true.
  Proof.
    induction 1 as [|items line rest ls [_ [_ [_ G]]] Hs IH]; intros pre l1 c l2 post E.
    - destruct pre; discriminate.
    - destruct pre as [|p pre]; simpl in E; inversion E; subst.
      + destruct (lines_spec_head _ _ _ _ Hs c l2 post eq_refl) as [r Er]. eapply G. exact Er.
      + eapply IH. reflexivity.
  Qed.

  (* ---- collect_flex_lines *)
  Lemma concat_singletons (l : list A) : concat (map (fun c => [c]) l) = l.
  Proof. induction l; simpl; congruence. Qed.

  Theorem lines_partition is_wrap mx mn avail gap (items : list A) :
    let lines := collect_flex_lines hyp is_wrap mx mn avail gap items in
    concat lines = items /\
    (items <> [] -> Forall (fun l => l <> []) lines) /\
    (items = [] -> lines = [] \/ lines = [[]]).
  Proof.
    unfold collect_flex_lines. destruct is_wrap; simpl negb; cbv iota.
    - destruct (lines_available mx mn avail) as [a| |].
      + pose proof (collect_definite_spec a gap (length items) items (le_n _)) as HS.
        split; [eapply lines_spec_concat; eassumption|]. split.
        * intros _. eapply lines_spec_nonempty; eassumption.
        * intros ->. left. reflexivity.
      + split; [apply concat_singletons|]. split.
        * intros _. apply Forall_forall. intros l Hl. apply in_map_iff in Hl. destruct Hl as [c [<- _]]. discriminate.
        * intros ->. left. reflexivity.
      + split; [simpl; apply app_nil_r|]. split.
        * intros N. constructor; [assumption|constructor].
        * intros ->. right. reflexivity.
    - split; [simpl; apply app_nil_r|]. split.
      + intros N. constructor; [assumption|constructor].
      + intros ->. right. reflexivity.
  Qed.

  Theorem nowrap_single_line mx mn avail gap (items : list A) :
    collect_flex_lines hyp false mx mn avail gap items = [items].
  Proof. reflexivity. Qed.

  Theorem max_content_single_line mx mn avail gap (items : list A) :
    lines_available mx mn avail = MaxContent -> collect_flex_lines hyp true mx mn avail gap items = [items].
  Proof. unfold collect_flex_lines. intros ->. reflexivity. Qed.

  Theorem min_content_one_item_per_line mx mn avail gap (items : list A) :
    lines_available mx mn avail = MinContent ->
    collect_flex_lines hyp true mx mn avail gap items = map (fun c => [c]) items.
  Proof. unfold collect_flex_lines. intros ->. reflexivity. Qed.

  Theorem definite_lines_spec mx mn avail gap (items : list A) a :
    lines_available mx mn avail = Definite a ->
    lines_spec a gap items (collect_flex_lines hyp true mx mn avail gap items).
  Proof. unfold collect_flex_lines. intros ->. simpl. apply collect_definite_spec. apply le_n. Qed.

  (* membership: an item of a line is an item of the container *)
  Lemma line_items_in is_wrap mx mn avail gap (items : list A) line c :
    In line (collect_flex_lines hyp is_wrap mx mn avail gap items) -> In c line -> In c items.
  Proof.
    intros Hl Hc. destruct (lines_partition is_wrap mx mn avail gap items) as [E _].
    rewrite <- E. apply in_concat. exists line. split; assumption.
  Qed.
End Generic.

(* ------------------------------------------------------------------------------------------ part 2: XQ *)
Open Scope Q_scope.

Section Exact.
  Context {A : Type} (hyp : A -> XQ).
  Notation qhyp := (fun c => val (hyp c)).

  Lemma LL_fin (gap : XQ) : finite gap -> forall (l : list A), (forall c, In c l -> finite (hyp c)) ->
    forall ll idx, finite ll ->
      finite (line_length_from hyp gap ll idx l) /\
      val (line_length_from hyp gap ll idx l) ==
        val ll + qsum qhyp l + val gap * inject_Z (Z.of_nat (length l) - (match idx with O => match l with [] => 0 | _ => 1 end | S _ => 0 end)).
  Proof.
    intros Fg. induction l as [|c r IH]; intros Fh ll idx Fl.
    - simpl. split; [assumption|]. destruct idx; simpl; unfold inject_Z; lra.
    - simpl line_length_from.
      assert (Fc : finite (hyp c)) by (apply Fh; left; reflexivity).
      assert (Fgc : finite (match idx with O => zero | S _ => gap end) /\
                    val (match idx with O => (zero : XQ) | S _ => gap end) == (match idx with O => 0 | S _ => val gap end)).
      { destruct idx; split; try exact I; try assumption; reflexivity. }
      destruct Fgc as [Fgc Vgc].
      destruct (add_fin (hyp c) _ Fc Fgc) as [F1 V1].
      destruct (add_fin ll _ Fl F1) as [F2 V2].
      destruct (IH (fun x Hx => Fh x (or_intror Hx)) _ (S idx) F2) as [F3 V3].
      split; [assumption|]. rewrite V3, V2, V1, Vgc. simpl qsum.
      replace (Z.of_nat (length (c :: r))) with (Z.of_nat (length r) + 1)%Z by (simpl length; lia).
      destruct idx; cbv iota.
      + rewrite Z.sub_0_r. replace (Z.of_nat (length r) + 1 - 1)%Z with (Z.of_nat (length r)) by lia. lra.
      + rewrite !Z.sub_0_r. rewrite inject_Z_plus. change (inject_Z 1) with 1. lra.
  Qed.

  Lemma sum_axis_gaps_val (gap : XQ) n : finite gap -> (0 <= n)%Z ->
    val (sum_axis_gaps gap n) == val gap * inject_Z (if (n <=? 1)%Z then 0 else n - 1).
  Proof.
    intros Fg Hn. unfold sum_axis_gaps. destruct (n <=? 1)%Z eqn:E.
    - simpl. unfold inject_Z. lra.
    - destruct (mul_fin gap (of_Z (n - 1)) Fg (proj1 (of_Z_fin _))) as [_ V]. rewrite V.
      rewrite (proj2 (of_Z_fin _)). reflexivity.
  Qed.

  (* the line length of a non-empty line is the exact sum of the sizes plus the gaps between them *)
  Lemma line_length_val (gap : XQ) (l : list A) : finite gap -> (forall c, In c l -> finite (hyp c)) ->
    finite (line_length hyp gap l) /\
    val (line_length hyp gap l) == qsum qhyp l + val (sum_axis_gaps gap (zlen l)).
  Proof.
    intros Fg Fh. unfold line_length.
    destruct (LL_fin gap Fg l Fh zero 0%nat fin_zero) as [F V]. split; [assumption|].
    rewrite V, sum_axis_gaps_val by (try assumption; unfold zlen; lia). unfold zlen. rewrite val_zero.
    destruct l as [|c r].
    - simpl. unfold inject_Z. lra.
    - simpl length. destruct (Z.of_nat (S (length r)) <=? 1)%Z eqn:E.
      + apply Z.leb_le in E. replace (Z.of_nat (S (length r)) - 1)%Z with 0%Z by lia. lra.
      + lra.
  Qed.

  Theorem lines_fit mx mn avail (gap : XQ) (items : list A) (a : XQ) :
    finite gap -> finite a -> (forall c, In c items -> finite (hyp c)) ->
    lines_available mx mn avail = Definite a ->
    forall line, In line (collect_flex_lines hyp true mx mn avail gap items) -> (2 <= length line)%nat ->
      qsum qhyp line + val (sum_axis_gaps gap (zlen line)) <= val a.
  Proof.
    intros Fg Fa Fh Ea line Hin L.
    pose proof (definite_lines_spec hyp mx mn avail gap items a Ea) as HS.
    pose proof (lines_spec_fit hyp a gap items _ HS line Hin L) as G.
    assert (Fl : forall c, In c line -> finite (hyp c)).
    { intros c Hc. apply Fh. eapply line_items_in; eassumption. }
    destruct (line_length_val gap line Fg Fl) as [F V].
    unfold gtb in G. apply ltb_false in G; try assumption. rewrite <- V. exact G.
  Qed.

  Theorem lines_greedy mx mn avail (gap : XQ) (items : list A) (a : XQ) :
    finite gap -> finite a -> (forall c, In c items -> finite (hyp c)) ->
    lines_available mx mn avail = Definite a ->
    forall pre l1 c l2 post, collect_flex_lines hyp true mx mn avail gap items = pre ++ l1 :: (c :: l2) :: post ->
      l1 <> [] /\ val a < qsum qhyp l1 + val (sum_axis_gaps gap (zlen l1)) + val gap + val (hyp c).
  Proof.
    intros Fg Fa Fh Ea pre l1 c l2 post E.
    pose proof (definite_lines_spec hyp mx mn avail gap items a Ea) as HS.
    pose proof (lines_spec_greedy hyp a gap items _ HS pre l1 c l2 post E) as G.
    pose proof (lines_spec_nonempty hyp a gap items _ HS) as NE. rewrite E in NE.
    assert (N1 : l1 <> []).
    { rewrite Forall_forall in NE. apply NE. apply in_or_app. right. left. reflexivity. }
    split; [assumption|].
    assert (Hin1 : forall x, In x l1 -> In x items).
    { intros x Hx. eapply (line_items_in hyp true mx mn avail gap items l1); [|assumption].
      rewrite E. apply in_or_app. right. left. reflexivity. }
    assert (Hinc : In c items).
    { eapply (line_items_in hyp true mx mn avail gap items (c :: l2)); [|left; reflexivity].
      rewrite E. apply in_or_app. right. right. left. reflexivity. }
    assert (Fl : forall x, In x (l1 ++ [c]) -> finite (hyp x)).
    { intros x Hx. apply in_app_or in Hx. destruct Hx as [Hx|[<-|[]]]; auto. }
    destruct (line_length_val gap (l1 ++ [c]) Fg Fl) as [F V].
    unfold gtb in G. apply ltb_true in G; try assumption. rewrite V in G.
    assert (Eq : qsum qhyp (l1 ++ [c]) == qsum qhyp l1 + val (hyp c)).
    { clear. induction l1; simpl; lra. }
    rewrite Eq in G.
    rewrite !sum_axis_gaps_val in * by (try assumption; unfold zlen; lia).
    unfold zlen in *. rewrite app_length in G. simpl length in G.
    destruct l1 as [|x l1]; [congruence|]. simpl length in *.
    replace (Z.of_nat (S (length l1) + 1) <=? 1)%Z with false in G by (symmetry; apply Z.leb_gt; lia).
    replace (Z.of_nat (S (length l1) + 1) - 1)%Z with (Z.of_nat (S (length l1))) in G by lia.
    destruct (Z.of_nat (S (length l1)) <=? 1)%Z eqn:E1.
    - apply Z.leb_le in E1. assert (length l1 = 0)%nat by lia.
      replace (Z.of_nat (S (length l1))) with 1%Z in G by lia. unfold inject_Z in *. lra.
    - replace (Z.of_nat (S (length l1))) with ((Z.of_nat (S (length l1)) - 1) + 1)%Z in G at 1 by lia.
      rewrite inject_Z_plus in G. unfold inject_Z at 2 in G. lra.
  Qed.

  (* non-negative sizes and gap: if everything fits, wrapping produces the single line of a nowrap container *)
  Lemma find_break_all (a gap : XQ) : finite gap -> finite a -> 0 <= val gap -> forall (l : list A),
    (forall c, In c l -> finite (hyp c) /\ 0 <= val (hyp c)) -> forall ll idx, finite ll ->
    val (line_length_from hyp gap ll idx l) <= val a ->
    find_break hyp a gap ll idx l = (idx + length l)%nat.
  Proof.
    intros Fg Fa Hg. induction l as [|c r IH]; intros Hh ll idx Fl Hle; [simpl; lia|].
    cbn [find_break break_test length].
    assert (Fc : finite (hyp c)) by (apply Hh; left; reflexivity).
    assert (Fgc : finite (match idx with O => (zero : XQ) | S _ => gap end)) by (destruct idx; [exact I | assumption]).
    destruct (add_fin (hyp c) _ Fc Fgc) as [F1 V1].
    destruct (add_fin ll _ Fl F1) as [F2 V2].
    cbn [line_length_from] in Hle.
    set (ll' := add ll (add (hyp c) match idx with O => zero | S _ => gap end)) in *.
    assert (Hr : forall x, In x r -> finite (hyp x)) by (intros x Hx; apply Hh; right; assumption).
    destruct (LL_fin gap Fg r Hr ll' (S idx) F2) as [F3 V3].
    assert (Mono : val ll' <= val (line_length_from hyp gap ll' (S idx) r)).
    { rewrite V3. assert (0 <= qsum qhyp r) by (apply qsum_nonneg; intros x Hx; apply Hh; right; assumption).
      assert (0 <= val gap * inject_Z (Z.of_nat (length r) - 0)).
      { apply Qmult_le_0_compat; [assumption|]. rewrite Z.sub_0_r. replace 0 with (inject_Z 0) by reflexivity.
        rewrite <- Zle_Qle. lia. }
      lra. }
    assert (G : gtb ll' a = false) by (unfold gtb; apply ltb_false; try assumption; lra).
    rewrite G. simpl andb. cbv iota. rewrite IH; try assumption; [lia|].
    intros x Hx. apply Hh. right. assumption.
  Qed.

  Theorem wrap_single_line_when_fits mx mn avail (gap : XQ) (items : list A) (a : XQ) :
    finite gap -> finite a -> 0 <= val gap -> (forall c, In c items -> finite (hyp c) /\ 0 <= val (hyp c)) ->
    lines_available mx mn avail = Definite a -> items <> [] ->
    qsum qhyp items + val (sum_axis_gaps gap (zlen items)) <= val a ->
    collect_flex_lines hyp true mx mn avail gap items = [items].
  Proof.
    intros Fg Fa Hg Hh Ea NE Hfit. unfold collect_flex_lines. rewrite Ea. simpl negb. cbv iota.
    destruct items as [|c r]; [congruence|].
    change (collect_definite hyp (length (c :: r)) a gap (c :: r))
      with (let index := find_break hyp a gap zero 0 (c :: r) in
            firstn index (c :: r) :: collect_definite hyp (length r) a gap (skipn index (c :: r))).
    cbn zeta.
    assert (Fh : forall x, In x (c :: r) -> finite (hyp x)) by (intros x Hx; apply Hh; assumption).
    destruct (line_length_val gap (c :: r) Fg Fh) as [F V].
    rewrite (find_break_all a gap Fg Fa Hg (c :: r) Hh zero 0%nat fin_zero).
    - change (0 + length (c :: r))%nat with (length (c :: r)).
      rewrite firstn_all, skipn_all. destruct (length r); reflexivity.
    - fold (line_length hyp gap (c :: r)). rewrite V. exact Hfit.
  Qed.
End Exact.
