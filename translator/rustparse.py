"""Minimal Rust tokenizer + recursive-descent parser for the expression subset the
translator needs.  It fails loudly (ParseError) on anything it does not understand:
the translator must refuse rather than guess.

AST (tuples):
  expressions
    ('lit', text)                      integer / float literal (suffix and underscores stripped), 'true'/'false'
    ('path', [seg,...])                a::b::c  (generic args dropped)
    ('field', e, name)                 e.name / e.0
    ('call', f, [args])
    ('mcall', recv, name, [args])
    ('bin', op, l, r)
    ('un', op, e)                      op in '-', '!', '*', '&'
    ('cast', e, type_text)
    ('struct', [seg..], [(field, e)], base_or_None)
    ('tuple', [e..])
    ('if', cond, block, else_block_or_None)
    ('iflet', pat, e, block, else_or_None)
    ('match', scrut, [(pat, guard_or_None, e)])
    ('block', [stmts], tail_or_None)
    ('macro', name, [args])            args parsed as comma separated expressions when possible, else ('raw', toks)
    ('closure', [param names], body)
    ('index', e, i)
    ('return', e_or_None)
    ('range', lo, hi)
  statements
    ('let', pat, e)   ('expr', e)   ('item', text)  ('assign', op, lhs, rhs)
  patterns
    ('pwild',) ('pident', name) ('ppath', segs) ('plit', text) ('ptuple', [p]) ('pts', segs, [p])
    ('pstruct', segs, [(field, p)]) ('por', [p]) ('prest',)
"""
import re


class ParseError(Exception):
    pass


TOKEN_RE = re.compile(r"""
    (?P<ws>\s+)
  | (?P<lc>//[^\n]*)
  | (?P<bc>/\*.*?\*/)
  | (?P<str>b?"(?:\\.|[^"\\])*")
  | (?P<life>'[A-Za-z_][A-Za-z0-9_]*(?!'))
  | (?P<chr>'(?:\\u\{[0-9a-fA-F]+\}|\\.|[^'\\])')
  | (?P<num>0b[01_]+(?:[iu](?:8|16|32|64|128|size))?|0x[0-9a-fA-F_]+(?:[iu](?:8|16|32|64|128|size))?|[0-9][0-9_]*(?:\.(?![.A-Za-z_])[0-9_]*)?(?:[eE][+-]?[0-9_]+)?(?:_?(?:f32|f64|[iu](?:8|16|32|64|128|size)))?)
  | (?P<id>r\#[A-Za-z_][A-Za-z0-9_]*|[A-Za-z_][A-Za-z0-9_]*)
  | (?P<op><<=|>>=|\.\.=|\.\.\.|::|->|=>|==|!=|<=|>=|&&|\|\||\+=|-=|\*=|/=|%=|\^=|&=|\|=|<<|>>|\.\.|[-+*/%^!&|=<>@.,;:\#$?~(){}\[\]])
""", re.X | re.S)


def tokenize(src):
    toks = []
    pos = 0
    n = len(src)
    while pos < n:
        m = TOKEN_RE.match(src, pos)
        if not m:
            raise ParseError("cannot tokenize at %r" % src[pos:pos + 30])
        pos = m.end()
        k = m.lastgroup
        if k in ('ws', 'lc', 'bc'):
            continue
        toks.append((k, m.group(k)))
    return toks


def match_brace(toks, i):
    """toks[i] is an opening bracket; return index of matching close."""
    op = toks[i][1]
    cl = {'(': ')', '[': ']', '{': '}'}[op]
    depth = 0
    j = i
    while j < len(toks):
        t = toks[j][1]
        if toks[j][0] == 'op':
            if t in '([{':
                depth += 1
            elif t in ')]}':
                depth -= 1
                if depth == 0:
                    if t != cl:
                        raise ParseError("mismatched bracket")
                    return j
        j += 1
    raise ParseError("unbalanced bracket")


def find_fn(toks, name, start=0, end=None):
    """Return (params_tokens, body_tokens, idx_after) of first `fn name` in toks[start:end]."""
    end = len(toks) if end is None else end
    i = start
    while i < end - 1:
        if toks[i] == ('id', 'fn') and toks[i + 1] == ('id', name):
            j = i + 2
            # generics
            if toks[j][1] == '<':
                depth = 0
                while True:
                    if toks[j][1] == '<':
                        depth += 1
                    elif toks[j][1] == '>':
                        depth -= 1
                        if depth == 0:
                            j += 1
                            break
                    elif toks[j][1] == '>>':
                        depth -= 2
                        if depth <= 0:
                            j += 1
                            break
                    j += 1
            if toks[j][1] != '(':
                raise ParseError("fn %s: expected (" % name)
            k = match_brace(toks, j)
            params = toks[j + 1:k]
            b = k + 1
            while toks[b][1] != '{':
                if toks[b][1] == ';':
                    raise ParseError("fn %s has no body" % name)
                b += 1
            e = match_brace(toks, b)
            return params, toks[b:e + 1], e + 1
        i += 1
    raise ParseError("fn %s not found" % name)


def find_block_after(toks, pred, start=0):
    """Find first index i>=start with pred(toks,i) true, then the next '{' block; return (i, open, close)."""
    i = start
    while i < len(toks):
        if pred(toks, i):
            b = i
            while toks[b][1] != '{':
                b += 1
            return i, b, match_brace(toks, b)
        i += 1
    raise ParseError("block not found")


def seq_at(toks, i, words):
    if i + len(words) > len(toks):
        return False
    return all(toks[i + k][1] == w for k, w in enumerate(words))


def param_names(params):
    """Names of the parameters of a fn from its parameter token list (self -> 'self')."""
    names = []
    depth = 0
    cur = []
    parts = []
    for t in params:
        if t[1] in '([{<':
            depth += 1
        elif t[1] in ')]}>':
            depth -= 1
        if t[1] == ',' and depth == 0:
            parts.append(cur)
            cur = []
        else:
            cur.append(t)
    if cur:
        parts.append(cur)
    for p in parts:
        ws = [t[1] for t in p]
        if 'self' in ws[:3] and ':' not in ws[:ws.index('self') + 1]:
            names.append('self')
            continue
        # name : type
        k = ws.index(':')
        nm = [w for w in ws[:k] if w not in ('mut', '&')]
        names.append(nm[-1])
    return names


ASSIGN_OPS = ('=', '+=', '-=', '*=', '/=', '|=', '&=', '%=', '^=', '<<=', '>>=')

BINPREC = [
    ['||'], ['&&'], ['==', '!=', '<', '>', '<=', '>='], ['|'], ['^'], ['&'], ['<<', '>>'], ['+', '-'], ['*', '/', '%'],
]


class Parser:
    def __init__(self, toks):
        self.t = toks
        self.i = 0

    # -- helpers
    def peek(self, k=0):
        return self.t[self.i + k][1] if self.i + k < len(self.t) else None

    def peekk(self, k=0):
        return self.t[self.i + k][0] if self.i + k < len(self.t) else None

    def eat(self, w=None):
        if self.i >= len(self.t):
            raise ParseError("unexpected end, wanted %r" % w)
        tok = self.t[self.i]
        if w is not None and tok[1] != w:
            raise ParseError("expected %r got %r at %d: ...%s" % (w, tok[1], self.i, ' '.join(x[1] for x in self.t[max(0, self.i - 8):self.i + 4])))
        self.i += 1
        return tok[1]

    def at_end(self):
        return self.i >= len(self.t)

    # -- attributes: skip `#[...]`; returns list of attribute texts
    def attrs(self):
        out = []
        while self.peek() == '#' and self.peek(1) in ('[', '!'):
            self.eat('#')
            if self.peek() == '!':
                self.eat('!')
            j = match_brace(self.t, self.i)
            out.append(' '.join(x[1] for x in self.t[self.i + 1:j]))
            self.i = j + 1
        return out

    # -- types (consumed, returned as text)
    def ty(self):
        s = self.i
        self._ty()
        return ' '.join(x[1] for x in self.t[s:self.i])

    def _ty(self):
        p = self.peek()
        if p == '*':
            self.eat()
            self.eat()  # const / mut
            self._ty()
        elif p == '&':
            self.eat()
            if self.peekk() == 'life':
                self.eat()
            if self.peek() == 'mut':
                self.eat()
            self._ty()
        elif p == '(':
            j = match_brace(self.t, self.i)
            self.i = j + 1
        elif p == '[':
            j = match_brace(self.t, self.i)
            self.i = j + 1
        elif p in ('impl', 'dyn'):
            self.eat()
            self._ty()
            while self.peek() == '+':
                self.eat()
                self._ty()
        else:
            # path with generics, possibly Fn(..) -> T
            while True:
                if self.peekk() != 'id':
                    raise ParseError("type: expected ident got %r" % self.peek())
                self.eat()
                if self.peek() == '<':
                    self._generic_args()
                if self.peek() == '(':  # Fn(...) sugar
                    j = match_brace(self.t, self.i)
                    self.i = j + 1
                    if self.peek() == '->':
                        self.eat()
                        self._ty()
                if self.peek() == '::':
                    self.eat()
                    continue
                break

    def _generic_args(self):
        depth = 0
        while True:
            w = self.eat()
            if w == '<':
                depth += 1
            elif w == '>':
                depth -= 1
            elif w == '>>':
                depth -= 2
            if depth <= 0:
                return

    # -- patterns
    def pat(self):
        alts = [self.pat1()]
        while self.peek() == '|':
            self.eat()
            alts.append(self.pat1())
        return alts[0] if len(alts) == 1 else ('por', alts)

    def pat1(self):
        p = self.peek()
        k = self.peekk()
        if p == '_':
            self.eat()
            return ('pwild',)
        if p == '..':
            self.eat()
            return ('prest',)
        if p in ('&',):
            self.eat()
            return self.pat1()
        if p in ('mut', 'ref'):
            self.eat()
            return self.pat1()
        if p == '(':
            self.eat()
            ps = []
            while self.peek() != ')':
                ps.append(self.pat())
                if self.peek() == ',':
                    self.eat()
            self.eat(')')
            return ps[0] if len(ps) == 1 else ('ptuple', ps)
        if k == 'str':
            return ('plit', self.eat())
        if k == 'id' and self.peek(1) == '@':
            nm = self.eat()
            self.eat('@')
            return ('pbind', nm, self.pat1())
        if k == 'num' or (p == '-' and self.peekk(1) == 'num'):
            neg = ''
            if p == '-':
                self.eat()
                neg = '-'
            return ('plit', neg + clean_num(self.eat()))
        if k == 'id':
            if p in ('true', 'false'):
                self.eat()
                return ('plit', p)
            segs = [self.eat()]
            while self.peek() == '::':
                self.eat()
                segs.append(self.eat())
            if self.peek() == '(':
                self.eat()
                ps = []
                while self.peek() != ')':
                    ps.append(self.pat())
                    if self.peek() == ',':
                        self.eat()
                self.eat(')')
                return ('pts', segs, ps)
            if self.peek() == '{':
                self.eat()
                fs = []
                while self.peek() != '}':
                    if self.peek() == '..':
                        self.eat()
                        fs.append(('..', ('prest',)))
                    else:
                        f = self.eat()
                        if self.peek() == ':':
                            self.eat()
                            fs.append((f, self.pat()))
                        else:
                            fs.append((f, ('pident', f)))
                    if self.peek() == ',':
                        self.eat()
                self.eat('}')
                return ('pstruct', segs, fs)
            if len(segs) == 1 and segs[0][0].islower():
                return ('pident', segs[0])
            return ('ppath', segs)
        raise ParseError("pattern: unexpected %r" % p)

    # -- expressions
    def expr(self, nostruct=False):
        e = self.range_(nostruct)
        if self.peek() in ASSIGN_OPS and self.peekk() == 'op':
            op = self.eat()
            rhs = self.expr(nostruct)
            return ('assign', op, e, rhs)
        return e

    def range_(self, nostruct):
        if self.peek() == '..':
            self.eat()
            hi = None
            if self.peek() not in (')', ']', ',', ';', '}', None):
                hi = self.binary(0, nostruct)
            return ('range', None, hi)
        e = self.binary(0, nostruct)
        if self.peek() in ('..', '..='):
            op = self.eat()
            hi = None
            if self.peek() not in (')', ']', ',', ';', '}', '{', None):
                hi = self.binary(0, nostruct)
            return ('range' if op == '..' else 'rangei', e, hi)
        return e

    def binary(self, lvl, nostruct):
        if lvl == len(BINPREC):
            return self.cast(nostruct)
        l = self.binary(lvl + 1, nostruct)
        while self.peek() in BINPREC[lvl] and self.peekk() == 'op':
            op = self.eat()
            r = self.binary(lvl + 1, nostruct)
            l = ('bin', op, l, r)
        return l

    def cast(self, nostruct):
        e = self.unary(nostruct)
        while self.peek() == 'as':
            self.eat()
            t = self.ty()
            e = ('cast', e, t)
        return e

    def unary(self, nostruct):
        p = self.peek()
        if p in ('-', '!', '*') and self.peekk() == 'op':
            self.eat()
            return ('un', p, self.unary(nostruct))
        if p == '&' or p == '&&':
            self.eat()
            if self.peek() == 'mut':
                self.eat()
            return ('un', '&', self.unary(nostruct))
        return self.postfix(nostruct)

    def args(self):
        self.eat('(')
        a = []
        while self.peek() != ')':
            self.attrs()
            a.append(self.expr())
            if self.peek() == ',':
                self.eat()
        self.eat(')')
        return a

    def postfix(self, nostruct):
        return self.postfix_from(self.primary(nostruct))

    def postfix_from(self, e):
        while True:
            p = self.peek()
            if p == '.':
                self.eat()
                if self.peekk() == 'num':
                    txt = self.eat()
                    # tuple index possibly lexed as float "0.0"
                    for part in txt.split('.'):
                        e = ('field', e, part)
                    continue
                name = self.eat()
                if name == 'await':
                    raise ParseError("await")
                if self.peek() == '::':
                    self.eat()
                    self._generic_args()
                if self.peek() == '(':
                    e = ('mcall', e, name, self.args())
                else:
                    e = ('field', e, name)
            elif p == '(':
                e = ('call', e, self.args())
            elif p == '[':
                self.eat()
                ix = self.expr()
                self.eat(']')
                e = ('index', e, ix)
            elif p == '?':
                self.eat()
                e = ('try', e)
            else:
                return e

    def block(self):
        self.eat('{')
        stmts = []
        tail = None
        tail_attrs = []
        while self.peek() != '}':
            attrs_pending = self.attrs()
            if self.peek() == '}':
                break
            p = self.peek()
            if p == ';':
                self.eat()
                continue
            if p == 'let':
                self.eat()
                pt = self.pat()
                if self.peek() == ':':
                    self.eat()
                    self.ty()
                rhs = None
                if self.peek() == '=':
                    self.eat()
                    rhs = self.expr()
                if self.peek() == 'else':
                    self.eat()
                    els = self.block()
                    self.eat(';')
                    stmts.append(('letelse', pt, rhs, els))
                    continue
                self.eat(';')
                stmts.append(('let', pt, rhs, attrs_pending))
                continue
            if p in ('use', 'const', 'static', 'fn', 'struct', 'enum', 'impl', 'type'):
                # skip item
                s = self.i
                while True:
                    w = self.peek()
                    if w == ';':
                        self.eat()
                        break
                    if w == '{':
                        j = match_brace(self.t, self.i)
                        self.i = j + 1
                        if p in ('fn', 'struct', 'enum', 'impl'):
                            break
                        continue
                    self.eat()
                stmts.append(('item', ' '.join(x[1] for x in self.t[s:self.i])))
                continue
            if p in ('if', 'match', '{', 'for', 'loop', 'while', 'unsafe') or (self.peekk() == 'life' and self.peek(1) == ':'):
                e = self.primary(False)
                if self.peek() in ('.', '?'):
                    e = self.postfix_from(e)
                    # allow trailing binary operators after a method chain is not supported
            else:
                e = self.expr()
            if self.peek() == ';':
                self.eat()
                stmts.append(('expr', e, attrs_pending))
            elif self.peek() == '}':
                tail = e
                tail_attrs = attrs_pending
            else:
                # block-like expression statement (if/match/for/loop/block) without semicolon
                if e[0] in ('if', 'iflet', 'match', 'block', 'for', 'loop', 'while', 'whilelet', 'unsafe'):
                    stmts.append(('expr', e, attrs_pending))
                else:
                    raise ParseError("statement: unexpected %r after expression %r" % (self.peek(), e[0]))
        self.eat('}')
        return ('block', stmts, tail, tail_attrs)

    def primary(self, nostruct):
        p = self.peek()
        k = self.peekk()
        if k == 'num':
            return ('lit', clean_num(self.eat()))
        if k == 'str' or k == 'chr':
            return ('str', self.eat())
        if p == '(':
            self.eat()
            es = []
            trailing = False
            while self.peek() != ')':
                es.append(self.expr())
                trailing = False
                if self.peek() == ',':
                    self.eat()
                    trailing = True
            self.eat(')')
            if len(es) == 1 and not trailing:
                return es[0]
            return ('tuple', es)
        if p == '[':
            self.eat()
            es = []
            while self.peek() != ']':
                es.append(self.expr())
                if self.peek() == ',':
                    self.eat()
                elif self.peek() == ';':
                    self.eat()
                    cnt = self.expr()
                    self.eat(']')
                    return ('arrayrep', es[0], cnt)
            self.eat(']')
            return ('array', es)
        if k == 'life' and self.peek(1) == ':':
            self.eat()
            self.eat(':')
            return self.primary(nostruct)
        if p == '{':
            return self.block()
        if p == 'unsafe':
            self.eat()
            return self.block()
        if p == 'if':
            self.eat()
            if self.peek() == 'let':
                self.eat()
                pt = self.pat()
                self.eat('=')
                e = self.expr(nostruct=True)
                th = self.block()
                el = None
                if self.peek() == 'else':
                    self.eat()
                    el = self.primary(False) if self.peek() == 'if' else self.block()
                return ('iflet', pt, e, th, el)
            c = self.expr(nostruct=True)
            th = self.block()
            el = None
            if self.peek() == 'else':
                self.eat()
                el = self.primary(False) if self.peek() == 'if' else self.block()
            return ('if', c, th, el)
        if p == 'match':
            self.eat()
            s = self.expr(nostruct=True)
            self.eat('{')
            arms = []
            while self.peek() != '}':
                at = self.attrs()
                pt = self.pat()
                g = None
                if self.peek() == 'if':
                    self.eat()
                    g = self.expr()
                self.eat('=>')
                if self.peek() == '{':
                    e = self.block()
                    if self.peek() in ('.', '?'):
                        e = self.postfix_from(e)
                else:
                    e = self.expr()
                if self.peek() == ',':
                    self.eat()
                arms.append((pt, g, e, at))
            self.eat('}')
            return ('match', s, arms)
        if p == 'return':
            self.eat()
            if self.peek() in (';', '}', ','):
                return ('return', None)
            return ('return', self.expr())
        if p in ('break', 'continue'):
            self.eat()
            lab = None
            val = None
            if self.peekk() == 'life':
                lab = self.eat()
            if p == 'break' and self.peek() not in (';', '}', ',', ')'):
                val = self.expr()
            return (p, lab, val)
        if p == 'loop':
            self.eat()
            return ('loop', self.block())
        if p == 'while':
            self.eat()
            if self.peek() == 'let':
                self.eat()
                pt = self.pat()
                self.eat('=')
                c = self.expr(nostruct=True)
                return ('whilelet', pt, c, self.block())
            c = self.expr(nostruct=True)
            return ('while', c, self.block())
        if p == 'for':
            self.eat()
            pt = self.pat()
            self.eat('in')
            it = self.expr(nostruct=True)
            return ('for', pt, it, self.block())
        if p == '|' or p == '||' or p == 'move':
            if p == 'move':
                self.eat()
                p = self.peek()
            params = []
            if p == '||':
                self.eat()
            else:
                self.eat('|')
                while self.peek() != '|':
                    params.append(self.pat1())
                    if self.peek() == ':':
                        self.eat()
                        self.ty()
                    if self.peek() == ',':
                        self.eat()
                self.eat('|')
            if self.peek() == '->':
                self.eat()
                self.ty()
            body = self.expr()
            return ('closure', params, body)
        if p == '::' :
            self.eat()
            k = self.peekk()
        if k == 'id':
            segs = [self.eat()]
            while True:
                if self.peek() == '::':
                    self.eat()
                    if self.peek() == '<':
                        self._generic_args()
                        continue
                    segs.append(self.eat())
                    continue
                if self.peek() == '<' and segs[-1][0].isupper() and self._looks_generic():
                    self._generic_args()
                    continue
                break
            if self.peek() == '!' and self.peek(1) in ('(', '[', '{'):
                self.eat('!')
                j = match_brace(self.t, self.i)
                inner = self.t[self.i + 1:j]
                self.i = j + 1
                return ('macro', segs[-1], parse_macro_args(segs[-1], inner))
            if self.peek() == '{' and not nostruct and (segs[-1][0].isupper()):
                self.eat('{')
                fs = []
                base = None
                while self.peek() != '}':
                    self.attrs()
                    if self.peek() == '..':
                        self.eat()
                        base = self.expr()
                        continue
                    f = self.eat()
                    if self.peek() == ':':
                        self.eat()
                        fs.append((f, self.expr()))
                    else:
                        fs.append((f, ('path', [f])))
                    if self.peek() == ',':
                        self.eat()
                self.eat('}')
                return ('struct', segs, fs, base)
            return ('path', segs)
        raise ParseError("primary: unexpected %r at %d (%s)" % (p, self.i, ' '.join(x[1] for x in self.t[max(0, self.i - 8):self.i + 4])))

    def _looks_generic(self):
        # after an uppercase path segment, '<' ... '>' followed by '::' or '(' or '{' => generics
        depth = 0
        j = self.i
        while j < len(self.t) and j < self.i + 40:
            w = self.t[j][1]
            if w == '<':
                depth += 1
            elif w == '>':
                depth -= 1
            elif w == '>>':
                depth -= 2
            elif w in (';', '{', '}', '&&', '||', '==') and depth > 0:
                return False
            if depth <= 0:
                return j + 1 < len(self.t) and self.t[j + 1][1] in ('::', '(', '{')
            j += 1
        return False


def parse_macro_args(name, toks):
    if name == 'matches':
        p = Parser(toks)
        e = p.expr()
        p.eat(',')
        pt = p.pat()
        g = None
        if p.peek() == 'if':
            p.eat()
            g = p.expr()
        if p.peek() == ',':
            p.eat()
        if not p.at_end():
            raise ParseError("matches!: trailing tokens")
        return [e, pt, g]
    try:
        p = Parser(toks)
        a = []
        while not p.at_end():
            a.append(p.expr())
            if p.peek() == ',':
                p.eat()
        return a
    except ParseError:
        return [('raw', toks)]


def clean_num(txt):
    m = re.match(r'^(0b[01_]+|0x[0-9a-fA-F_]+|[0-9][0-9_]*(?:\.[0-9_]*)?(?:[eE][+-]?[0-9_]+)?)_?(f32|f64|[iu](?:8|16|32|64|128|size))?$', txt)
    if not m:
        raise ParseError("bad number %r" % txt)
    return m.group(1).replace('_', '')


def parse_block(toks):
    p = Parser(toks)
    b = p.block()
    if not p.at_end():
        raise ParseError("trailing tokens after block")
    return b


def parse_expr(toks):
    p = Parser(toks)
    e = p.expr()
    if not p.at_end():
        raise ParseError("trailing tokens after expr")
    return e


def norm_tokens(toks):
    """Normalised token text for fingerprinting."""
    return ' '.join(t[1] for t in toks)
