(* C12 for the COMPLETE engine the runner executes (Model/TaffyRoot.v real_algo / real_memo: dispatch on (display, has children) over the
   block, flex and grid resumptions and compute_leaf_layout): rewriting any subset of the eligible nodes of a tree -- which may now contain GRID
   containers -- changes no output, cache entry or stored layout.

     grid_no_panic_wrel      the panic test of Model/GridAlg.v takes the same value on related containers (front of Proofs/GridRelAlg.v)
     grid_alg_total_rel      hence the total grid algorithm of Model/GridAlgTotal.v is relational wherever grid_alg is
     tnode_bb_*              ONE style relation (the rewrite `ts_tb` of Model/TaffyBoxSizing.v) implies each algorithm's own: the block one
                             (EngineBoxSizing.bb_rel through to_bstyle), the flex one (fbb_rel, any direction), the grid one (gbb_rel)
     real_algo_box_sizing_blind   the dispatch
     real_engine_box_sizing, real_engine_rewritten_layouts   the instances of memo_rel *)
From Coq Require Import QArith Qabs Lqa Bool List ZArith Lia.
From TV Require Import Num.Num Num.QNum Model.Common Model.Leaf Model.Root Model.BoxSizing Gen.FlexGen Model.Flex Model.FlexBase.
From TV Require Import Gen.GridTracksGen Model.GridTracks Model.GridIntrinsic.
From TV Require Import Model.FiltersBase Gen.FiltersGen Model.ItemFilters Model.FlexAlgBase Model.FlexAlgAbs Model.FlexAlg Model.FlexAlgT Model.FlexBoxSizing.
From TV Require Import Model.GridAlgBase Model.GridAlg Model.GridAlgTotal Model.GridAlgRel Model.GridSizingRel.
From TV Require Import Model.Scale Model.ScaleFlex Model.ScaleGrid Model.Engine Model.EngineRel Model.FlexAlgRel Model.EngineLift Model.BlockFlexEngine Model.BlockFlexK.
From TV Require Import Model.TaffyEngine Model.TaffyRoot Model.TaffyBoxSizing.
From TV Require Gen.BlockGen Model.Block Model.BlockAlg Model.ScaleBlock Model.BlockEngine Model.BlockEngineRel Model.BlockAbs.
From TV Require Proofs.ScaleBlock Proofs.BlockAlgRel Proofs.EngineHomog Proofs.EngineBoxSizing Proofs.BlockAbsRel Proofs.LeafAxis.
From TV Require Import Proofs.ScalePrim Proofs.ScaleProofs Proofs.ScaleKit Proofs.ScaleGrid Proofs.BoxSizingProofs Proofs.EngineRelProofs Proofs.FlexStyleRel Proofs.FlexRelItems
  Proofs.FlexRelFinal Proofs.FlexHomog Proofs.FlexBoxSizing Proofs.BlockFlexRel.
From TV Require Import Proofs.GridRelKit Proofs.GridStyleRel Proofs.GridRelFront Proofs.GridRelFinal Proofs.GridRelAlg Proofs.GridRelTop.
Import ListNotations.
Close Scope Z_scope.
Close Scope N_scope.

Lemma F2_length {A B} (R : A -> B -> Prop) l l' : Forall2 R l l' -> length l = length l'.
Proof. induction 1; cbn [length]; congruence. Qed.

(* ------------------------------------------------------------------------------------------------ the total grid algorithm *)
Section GridTotal.
  Variable k : Q.
  Hypothesis Hk : (0 < k)%Q.
  Notation W := (gstyle_wrel k).
  Notation AR := (GAlgRel k).

  Lemma oof_ok_rel cc rc c c' : oof_rel k c c' -> oof_ok cc rc c' = oof_ok cc rc c.
  Proof.
    destruct c, c'; cbn [oof_rel]; try contradiction; try reflexivity.
    intros Hw. wopen Hw. unfold oof_ok. rewrite Wrow, Wcol. reflexivity.
  Qed.
  Lemma forallb_oof_ok_rel cc rc l l' : Forall2 (oof_rel k) l l' -> forallb (oof_ok cc rc) l' = forallb (oof_ok cc rc) l.
  Proof. induction 1 as [|a b l l' Hab Hl IH]; [reflexivity|]. cbn [forallb]. rewrite IH, (oof_ok_rel _ _ _ _ Hab). reflexivity. Qed.

  Lemma grid_no_panic_wrel s s' st st' i i' :
    W s s' -> Forall2 W st st' -> fin_rel k i i' -> grid_no_panic s' st' i' = grid_no_panic s st i.
  Proof.
    intros Hs Hst Hi. unfold grid_no_panic. cbv zeta.
    pose proof Hs as Hs0. wopen Hs0. pose proof (Wpre i i' Hi) as HP.
    rewrite (explicit_counts_wrel k Hk _ _ _ _ Hs HP). destruct (explicit_counts s (grid_pre s i)) as [ec er].
    rewrite (estimate_styles_wrel k _ _ Hst).
    pose proof (in_flow_styles_wrel k _ _ Hst) as Hin.
    rewrite (place_wrel k _ _ ec er (estimate_styles st) _ _ Hs Hin).
    destruct (place s ec er (estimate_styles st) (in_flow_styles st)) as [[m placed]|e]; [|reflexivity].
    pose proof (initialize_grid_tracks_homog k (tc_of (PL.track_counts m PB.Horizontal)) _ _ _ _ _ _ (column_is_occupied m) Wtc Wac
                  (rel_lp_sfn k _ _ (proj1 Wgap))) as Hcols.
    pose proof (initialize_grid_tracks_homog k (tc_of (PL.track_counts m PB.Vertical)) _ _ _ _ _ _ (row_is_occupied m) Wtr Warow
                  (rel_lp_sfn k _ _ (proj2 Wgap))) as Hrows.
    set (cols0 := initialize_grid_tracks _ (gs_template_columns s) _ _ _) in *.
    set (cols0' := initialize_grid_tracks _ (gs_template_columns s') _ _ _) in *.
    set (rows0 := initialize_grid_tracks _ (gs_template_rows s) _ _ _) in *.
    set (rows0' := initialize_grid_tracks _ (gs_template_rows s') _ _ _) in *.
    pose proof (rel_mapM (gitem_rel k) _ _ placed
                  (fun it => rel_make_item k Hk s s' (in_flow_styles st) (in_flow_styles st') (PL.track_counts m PB.Horizontal)
                                           (PL.track_counts m PB.Vertical) cols0 cols0' rows0 rows0' it Hs Hin Hcols Hrows)) as Hitems.
    destruct (PL.mapM (make_item s (in_flow_styles st) _ _ cols0 rows0) placed) as [items0|],
             (PL.mapM (make_item s' (in_flow_styles st') _ _ cols0' rows0') placed) as [items0'|];
      cbn [res_rel] in Hitems; try contradiction; [|reflexivity].
    apply forallb_oof_ok_rel. apply oof_wrel. exact Hst.
  Qed.

  Lemma visit_from_rel n : forall j a a', AR a a' -> AR (visit_from j n a) (visit_from j n a').
  Proof.
    induction n as [|n IH]; intros j a a' Ha; cbn [visit_from]; [exact Ha|].
    apply AR_query; [apply rel_g_hidden_child_input|]. intros _ _ _. apply AR_set; [apply rel_g_with_order|]. apply IH. exact Ha.
  Qed.

  Lemma panic_alg_rel n i i' : fin_rel k i i' -> AR (panic_alg n i) (panic_alg n i').
  Proof.
    intros Hi. unfold panic_alg. pose proof Hi as (Em & _). rewrite Em.
    destruct (gi_mode i); try (apply AR_ret; apply rel_panic_out). apply visit_from_rel. apply AR_ret. apply rel_panic_out.
  Qed.

  Hypothesis HS : SizingRel k.
  Theorem grid_alg_total_rel s s' st st' i i' :
    W s s' -> Forall2 W st st' -> fin_rel k i i' -> AR (grid_alg_total s st i) (grid_alg_total s' st' i').
  Proof.
    intros Hs Hst Hi. unfold grid_alg_total. rewrite (grid_no_panic_wrel _ _ _ _ _ _ Hs Hst Hi).
    destruct (grid_no_panic s st i).
    - apply (grid_alg_rel k Hk HS); assumption.
    - rewrite <- (F2_length _ _ _ Hst). apply panic_alg_rel. exact Hi.
  Qed.
End GridTotal.

Theorem grid_alg_total_box_sizing_blind s s' st st' i i' :
  gbb_rel s s' -> Forall2 gbb_rel st st' -> fin_rel 1 i i' -> GAlgRel 1 (grid_alg_total s st i) (grid_alg_total s' st' i').
Proof.
  intros Hs Hst Hi. apply (grid_alg_total_rel 1 Q01 grid_sizing_rel_one); [apply gbb_weak; exact Hs| |exact Hi].
  eapply Forall2_impl; [|exact Hst]. intros x y. apply gbb_weak.
Qed.

Theorem grid_total_box_sizing_blind s s' st st' i i' :
  gbb_rel s s' -> Forall2 gbb_rel st st' -> fin_rel 1 i i' ->
  grid_no_panic s' st' i' = grid_no_panic s st i /\ GAlgRel 1 (grid_alg_total s st i) (grid_alg_total s' st' i').
Proof.
  intros Hs Hst Hi. split; [|apply grid_alg_total_box_sizing_blind; assumption].
  apply (grid_no_panic_wrel 1 Q01); [apply gbb_weak; exact Hs| |exact Hi].
  eapply Forall2_impl; [|exact Hst]. intros x y. apply gbb_weak.
Qed.

(* ------------------------------------------------------------------------------------------------ one style relation *)
(* a node and its rewrite: the measure function must not distinguish equal rationals (premise of C12_leaf) *)
Definition ts_ok (s : TStyle XQ) : Prop := measure_respects_xeq (ts_measure s).
Definition ts_elig (s : TStyle XQ) : Prop := ts_eligibleb s = true.
Definition tnode_bb : TStyle XQ -> TStyle XQ -> Prop := bsrel ts_ok ts_tb ts_elig.

(* the block + flex view of a node *)
Definition ts_node (s : TStyle XQ) : BFNode XQ := mkBFN (ts_bf s) (ts_measure s).

Lemma ts_elig_parts s : ts_elig s -> f_eligible_anyb (bf_flex (ts_bf s)) = true /\ ts_replaced s = false.
Proof.
  unfold ts_elig, ts_eligibleb. intros E. apply andb_prop in E. destruct E as [E1 E2]. split; [exact E1|].
  destruct (ts_replaced s); [discriminate|reflexivity].
Qed.

Lemma tnode_bb_node s s' : tnode_bb s s' -> bfnode_bb (ts_node s) (ts_node s').
Proof.
  intros [Hok [->|[El ->]]]; [split; [exact Hok|left; reflexivity]|]. split; [exact Hok|]. right.
  split; [exact (proj1 (ts_elig_parts s El))|reflexivity].
Qed.
Lemma tnodes_bb_node st st' : Forall2 tnode_bb st st' -> Forall2 bfnode_bb (map ts_node st) (map ts_node st').
Proof. induction 1; cbn [map]; constructor; [apply tnode_bb_node; assumption|assumption]. Qed.

(* grid: the grid view of the rewrite is the grid rewrite, the class is inside the grid class *)
Lemma to_gstyle_tb (s : TStyle XQ) : to_gstyle (ts_tb s) = g_to_border_box (to_gstyle s).
Proof. reflexivity. Qed.
Lemma to_gstyle_eligible s : ts_elig s -> g_eligibleb (to_gstyle s) = true.
Proof.
  intros El. destruct (ts_elig_parts s El) as [E1 E2]. destruct (any_elig _ E1) as [E3 _].
  unfold f_eligibleb in E3. apply andb_prop in E3. destruct E3 as [Ec _].
  unfold g_eligibleb, to_gstyle. cbn [gs_core gs_replaced]. rewrite Ec, E2. reflexivity.
Qed.
Lemma tnode_bb_grid s s' : tnode_bb s s' -> gbb_rel (to_gstyle s) (to_gstyle s').
Proof.
  intros [_ [->|[El ->]]]; [left; reflexivity|]. right. split; [apply to_gstyle_eligible; exact El|apply to_gstyle_tb].
Qed.
Lemma tnodes_bb_grid st st' : Forall2 tnode_bb st st' -> Forall2 gbb_rel (map to_gstyle st) (map to_gstyle st').
Proof. induction 1; cbn [map]; constructor; [apply tnode_bb_grid; assumption|assumption]. Qed.

(* flex / block: through the node view *)
Lemma tnode_bb_flex row s s' : tnode_bb s s' -> fbb_rel row (bf_flex (ts_bf s)) (bf_flex (ts_bf s')).
Proof. intros H. exact (bfnode_bb_flex row _ _ (tnode_bb_node _ _ H)). Qed.
Lemma tnodes_bb_flex row st st' : Forall2 tnode_bb st st' -> Forall2 (fbb_rel row) (map bf_flex (map ts_bf st)) (map bf_flex (map ts_bf st')).
Proof. induction 1; cbn [map]; constructor; [apply tnode_bb_flex; assumption|assumption]. Qed.
Lemma tnode_bb_block s s' : tnode_bb s s' -> bfstyle_bb (ts_bf s) (ts_bf s').
Proof. intros H. exact (bfnode_bb_style _ _ (tnode_bb_node _ _ H)). Qed.
Lemma tnodes_bb_block st st' : Forall2 tnode_bb st st' -> Forall2 bfstyle_bb (map ts_bf st) (map ts_bf st').
Proof. induction 1; cbn [map]; constructor; [apply tnode_bb_block; assumption|assumption]. Qed.

Lemma tnode_bb_display s s' : tnode_bb s s' -> display (t_core s') = display (t_core s).
Proof. intros [_ [->|[El ->]]]; reflexivity. Qed.
Lemma tnode_bb_is_none s s' : tnode_bb s s' -> t_is_none s' = t_is_none s.
Proof. intros [_ [->|[El ->]]]; reflexivity. Qed.

(* the leaf *)
Lemma taffy_leaf_is_bf_leaf (s : TStyle XQ) i : taffy_leaf s i = bf_leaf_out (ts_node s) i.
Proof.
  unfold bf_leaf_out, taffy_leaf, bf_leaf_input, leaf_input.
  replace (BlockEngine.cv_mode (qi_mode i)) with (leaf_mode (qi_mode i)) by (destruct (qi_mode i); reflexivity).
  reflexivity.
Qed.
Theorem taffy_leaf_bb s s' i i' : tnode_bb s s' -> fin_rel 1 i i' -> output_rel 1 (taffy_leaf s i) (taffy_leaf s' i').
Proof. intros Hs Hi. rewrite !taffy_leaf_is_bf_leaf. apply bf_leaf_out_bb; [apply tnode_bb_node; exact Hs|exact Hi]. Qed.

(* ------------------------------------------------------------------------------------------------ the dispatch *)
Notation TBlind := (BoxSizingBlind (TStyle XQ) (FIn XQ) (LayoutOutput XQ) (FLay XQ) ts_ok ts_tb ts_elig (fin_rel 1) (output_rel 1) (flay_rel 1)).

Theorem taffy_algo_box_sizing_blind pre abs_child :
  BR.PreRel 1 EngineBoxSizing.bb_rel pre -> BR.AbsChildRel 1 EngineBoxSizing.bb_rel abs_child ->
  TBlind (taffy_algo taffy_dispatch pre abs_child taffy_leaf).
Proof.
  intros Hpre Habs s s' st st' i i' Hs Hst Hi. unfold taffy_algo, taffy_dispatch.
  rewrite <- (F2_length _ _ _ Hst). destruct Hst as [|x y l l' Hxy Hl]; cbn [length].
  - apply AR_ret. apply taffy_leaf_bb; assumption.
  - assert (Hall : Forall2 tnode_bb (x :: l) (y :: l')) by (constructor; assumption).
    rewrite (tnode_bb_display _ _ Hs).
    assert (HF : AlgRel (FIn XQ) (LayoutOutput XQ) (FLay XQ) (fin_rel 1) (output_rel 1) (flay_rel 1)
                   (TaffyEngine.flex_alg_t s (x :: l) i) (TaffyEngine.flex_alg_t s' (y :: l') i')).
    { unfold TaffyEngine.flex_alg_t, flex_alg_bf, style_comap.
      apply (flex_alg_box_sizing_blind true); [apply tnode_bb_flex; exact Hs| |exact Hi].
      rewrite !map_map. rewrite <- !(map_map ts_bf bf_flex). apply tnodes_bb_flex. exact Hall. }
    destruct (display (t_core s)); try exact HF.
    + unfold block_alg_t, style_comap.
      apply (block_alg_bf_rel 1 EngineBoxSizing.bb_rel bfstyle_bb pre abs_child Q01 EngineBoxSizing.bb_weak Hpre Habs to_bstyle_bb);
        [apply tnode_bb_block; exact Hs|apply tnodes_bb_block; exact Hall|exact Hi].
    + unfold grid_alg_t, style_comap.
      apply grid_alg_total_box_sizing_blind; [apply tnode_bb_grid; exact Hs|apply tnodes_bb_grid; exact Hall|exact Hi].
Qed.

Corollary real_algo_box_sizing_blind : TBlind real_algo.
Proof.
  apply taffy_algo_box_sizing_blind.
  - apply (BlockAlgRel.block_pre_rel 1 Q01 EngineBoxSizing.bb_rel EngineBoxSizing.bb_weak).
  - apply BlockAbsRel.abs_child_block_box_sizing_blind.
Qed.

(* ------------------------------------------------------------------------------------------------ the engine *)
Notation trel1 := (trel (TStyle XQ) (FIn XQ) (LayoutOutput XQ) (FLay XQ) tnode_bb (fin_rel 1) (output_rel 1) (flay_rel 1)).
Notation res_rel1 := (EngineRel.res_rel (TStyle XQ) (FIn XQ) (LayoutOutput XQ) (FLay XQ) tnode_bb (fin_rel 1) (output_rel 1) (flay_rel 1)).
Notation xlays := (lays (TStyle XQ) (FIn XQ) (LayoutOutput XQ) (FLay XQ)).

Theorem real_engine_box_sizing f t t' i i' : trel1 t t' -> fin_rel 1 i i' -> oprel res_rel1 (real_memo Num.eqb f t i) (real_memo Num.eqb f t' i').
Proof.
  intros Htt Hi. unfold real_memo, taffy_memo. fold (@real_algo XQ _).
  apply (memo_rel (TStyle XQ) (FIn XQ) (LayoutOutput XQ) (FLay XQ) qi_mode (fin_eqb_with Num.eqb) t_is_none output_HIDDEN (f_with_order 0)
                  real_algo real_algo tnode_bb (fin_rel 1) (output_rel 1) (flay_rel 1)); try assumption.
  - exact (qi_mode_rel 1).
  - exact tnode_bb_is_none.
  - exact (output_HIDDEN_rel 1).
  - exact (rel_f_zero_lay 1).
  - exact (fin_eqb_rel 1 Q01).
  - exact real_algo_box_sizing_blind.
Qed.

Lemma tnode_bb_refl s : ts_ok s -> tnode_bb s s.
Proof. intros Hok. split; [exact Hok|left; reflexivity]. Qed.
Lemma ts_to_border_box_bb s : ts_ok s -> tnode_bb s (ts_to_border_box s).
Proof.
  intros Hok. split; [exact Hok|]. unfold ts_to_border_box. destruct (ts_eligibleb s) eqn:E; [right|left; reflexivity]. split; [exact E|reflexivity].
Qed.
Lemma taffy_fresh_bb t t' : skrel (TStyle XQ) tnode_bb t t' -> trel1 (taffy_fresh t) (taffy_fresh t').
Proof. intros H. unfold taffy_fresh. apply fresh_rel; [exact (rel_f_zero_lay 1)|exact H]. Qed.
Lemma ts_rewrite_where t w : sk_all (TStyle XQ) ts_ok t -> skrel (TStyle XQ) tnode_bb t (sk_map_where (TStyle XQ) ts_to_border_box w t).
Proof. apply skrel_map_where; [exact tnode_bb_refl|exact ts_to_border_box_bb]. Qed.

(* every subset of the eligible nodes of a fresh tree, the SAME input: the run on the rewritten tree succeeds iff the original does; root
   outputs and all stored layouts are equal as numbers *)
Theorem real_engine_rewritten_layouts f (t : sk (TStyle XQ)) (w : list nat -> bool) i o t1 :
  sk_all (TStyle XQ) ts_ok t -> real_memo Num.eqb f (taffy_fresh t) i = Some (o, t1) ->
  exists o' t1',
    real_memo Num.eqb f (taffy_fresh (sk_map_where (TStyle XQ) ts_to_border_box w t)) i = Some (o', t1') /\ output_rel 1 o o' /\
    Forall2 (flay_rel 1) (xlays t1) (xlays t1').
Proof.
  intros Hall E.
  pose proof (real_engine_box_sizing f (taffy_fresh t) (taffy_fresh (sk_map_where (TStyle XQ) ts_to_border_box w t)) i i
                (taffy_fresh_bb _ _ (ts_rewrite_where t w Hall)) (fin_rel1_refl i)) as H.
  rewrite E in H. unfold oprel in H.
  destruct (real_memo Num.eqb f (taffy_fresh (sk_map_where (TStyle XQ) ts_to_border_box w t)) i) as [[o' t1']|]; [|contradiction].
  destruct H as [Ho Ht1]. cbn [fst snd] in Ho, Ht1. exists o', t1'. split; [reflexivity|]. split; [exact Ho|].
  apply (trel_lays (TStyle XQ) (FIn XQ) (LayoutOutput XQ) (FLay XQ) tnode_bb (fin_rel 1) (output_rel 1) (flay_rel 1)). exact Ht1.
Qed.
