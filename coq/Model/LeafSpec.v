(* `leaf_spec`: the box model of property C19 as a declarative formula, written per axis and independently of the
   control flow of compute_root_layout / compute_leaf_layout (no run modes, no known dimensions, no early return,
   one pass).  Generic over `Num`; definitions only.

     per axis   base  = the style size if definite (a percentage resolves against a definite available space; with an
                        aspect ratio a size definite on one axis only is transferred to the other axis; content-box
                        sizes are converted to border-box)
                        else, for the width of a display:block node under a definite available width, that width minus
                        the horizontal margins (block-level stretch fit -- not in the property text, see notes/C19.md)
                        else the measured content size plus padding, border and scrollbar gutter
                size  = max (clamp base min max) (padding + border)         clamp v lo hi = max (min v hi) lo
     measure    receives no known dimensions and, per axis, the available content-box space: the border-box size assumed
                for the axis (style size | stretch fit | available space minus margin), clamped, minus padding, border
                and gutter; min-/max-content constraints are passed through. *)
From Coq Require Import List Bool NArith.
From TV Require Import Model.Common Model.Leaf Model.Root.

Section LeafSpec.
  Context {T : Type} `{Num T}.
  Variable st : Style T.
  Variable av : Size (AvailableSpace T).

  (* percentage basis = the available space where definite; padding, border and margin all resolve against the width *)
  Definition sp_basis : Size (option T) := size_into_options av.
  Definition sp_padding : Rect T := rect_resolve_or_zero_lp (padding st) (width sp_basis).
  Definition sp_border : Rect T := rect_resolve_or_zero_lp (border st) (width sp_basis).
  Definition sp_margin : Rect T := rect_resolve_or_zero_lpa (margin st) (width sp_basis).
  Definition sp_padding_sum : Size T := sum_axes sp_padding.
  Definition sp_pb : Size T := size_add sp_padding_sum (sum_axes sp_border).
  Definition sp_margin_sum : Size T := sum_axes sp_margin.
  (* a vertical scrollbar takes horizontal space and vice versa *)
  Definition sp_gutter : Size T :=
    mkSize (if is_scroll (py (overflow st)) then scrollbar_width st else zero)
           (if is_scroll (px (overflow st)) then scrollbar_width st else zero).
  Definition sp_inset : Size T := size_add sp_pb sp_gutter.
  Definition sp_to_border_box (s : Size (option T)) : Size (option T) :=
    match box_sizing st with ContentBox => size_maybe_add_of s sp_pb | BorderBox => s end.

  Definition sp_size : Size (option T) :=
    sp_to_border_box (maybe_apply_aspect_ratio (size_maybe_resolve_dim (size st) sp_basis) (aspect_ratio st)).
  Definition sp_min : Size (option T) :=
    sp_to_border_box (maybe_apply_aspect_ratio (size_maybe_resolve_dim (min_size st) sp_basis) (aspect_ratio st)).
  Definition sp_max : Size (option T) := sp_to_border_box (size_maybe_resolve_dim (max_size st) sp_basis).

  Definition sp_clamp (v : T) (lo hi : option T) : T :=
    let v := match hi with Some h => fmin v h | None => v end in
    match lo with Some l => fmax v l | None => v end.

  (* available space minus margins, where definite *)
  Definition sp_avail_minus_margin : Size (option T) :=
    size_zip_map (fun a m => option_map (fun a => sub a m) a) sp_basis sp_margin_sum.
  Definition sp_stretch : Size (option T) :=
    if is_block st then mkSize (width sp_avail_minus_margin) None else size_NONE.

  Definition leaf_spec_size (measured : Size T) : Size T :=
    let base := size_unwrap_or (size_or sp_size sp_stretch) (size_add measured sp_inset) in
    size_zip_map fmax (size_zip_map3 sp_clamp base sp_min sp_max) sp_pb.

  Definition leaf_spec (measured : Size T) : Layout T :=
    mkLayout 0%N point_ZERO (leaf_spec_size measured) (size_add measured sp_padding_sum) sp_gutter
             sp_border sp_padding sp_margin.

  (* the border-box size assumed for an axis while measuring *)
  Definition sp_assumed_axis (s lo hi stretch avm : option T) (pb : T) : option T :=
    if is_block st then
      let forced := match lo, hi with
                    | Some l, Some h => if leb h l then Some l else None
                    | _, _ => None
                    end in
      opt_or (option_map (fun v => fmax v pb)
                (opt_or (opt_or forced (option_map (fun v => sp_clamp v lo hi) s)) stretch)) avm
    else opt_or s avm.
  Definition sp_measure_axis (s lo hi stretch avm : option T) (pb inset : T) (a : AvailableSpace T) : AvailableSpace T :=
    match sp_assumed_axis s lo hi stretch avm pb with
    | Some b => Definite (sub (sp_clamp b lo hi) inset)
    | None => a
    end.
  Definition leaf_spec_measure_avail : Size (AvailableSpace T) :=
    mkSize (sp_measure_axis (width sp_size) (width sp_min) (width sp_max) (width sp_stretch) (width sp_avail_minus_margin)
                            (width sp_pb) (width sp_inset) (width av))
           (sp_measure_axis (height sp_size) (height sp_min) (height sp_max) (height sp_stretch) (height sp_avail_minus_margin)
                            (height sp_pb) (height sp_inset) (height av)).
End LeafSpec.
