(* A grid container with two in-flow items and ONE out-of-flow child that really differs between two sides, for the computed instances of the
   grid-algorithm theorems of Props/C05.v / Props/C06.v (audit, wave 7b).  Definitions only; they live under Proofs/ because they reuse the
   witness container of Proofs/GridAlgVisits.v (gns_container: `display:grid; grid-template-columns: auto auto; align-items: baseline`,
   children 10 x 20 and 10 x 30, gns_answer the oracle).

     st_a / st_b    the out-of-flow child is ABSOLUTE on grid_row 1 / span 1, grid_column 2 on both sides: 40 x 15 with inset-left 3 vs
                    99 x 77 with margin 5
     st_h / st_h'   the out-of-flow child is display:none: with grid_row 7, grid_column -5 / span 3 vs the bare display:none style
     walk           the events of a resumption answered by gns_answer: queries (child, PerformLayout?), stored boxes, the result *)
From Coq Require Import ZArith QArith Bool List.
From TV Require Import Num.Num Num.QNum Model.Common Model.Leaf Gen.GridTracksGen Model.GridTracks Model.GridAlgBase Model.GridAlg.
From TV Require Import Proofs.GridAlgVisits.
From TV Require Model.Engine.
Import ListNotations.
Close Scope Q_scope.
Close Scope Z_scope.

Definition abs_a : GStyle XQ :=
  let d := bare_abs_gstyle (T := XQ) (PB.mkLn (PB.Line 1%Z) (PB.Span 1%Z)) (PB.mkLn (PB.Line 2%Z) PB.Auto) in
  mkGStyle (mkStyle DBlock Absolute BorderBox (mkPoint Visible Visible) (xq 0) (mkSize (Length (xq 40)) (Length (xq 15))) dim_auto_size dim_auto_size None
                    lpa_zero_rect lp_zero_rect lp_zero_rect)
           (mkRect (Length (xq 3)) Auto Auto Auto) [] [] [] [] PB.FRow (gs_gap d) None None None None (gs_row d) (gs_column d) None None false.
Definition abs_b : GStyle XQ :=
  let d := bare_abs_gstyle (T := XQ) (PB.mkLn (PB.Line 1%Z) (PB.Span 1%Z)) (PB.mkLn (PB.Line 2%Z) PB.Auto) in
  mkGStyle (mkStyle DBlock Absolute BorderBox (mkPoint Visible Visible) (xq 0) (mkSize (Length (xq 99)) (Length (xq 77))) dim_auto_size dim_auto_size None
                    (mkRect (Length (xq 5)) (Length (xq 5)) (Length (xq 5)) (Length (xq 5))) lp_zero_rect lp_zero_rect)
           (gs_inset d) [] [] [] [] PB.FRow (gs_gap d) None None None None (gs_row d) (gs_column d) None None false.
Definition hid_a : GStyle XQ :=
  let d := default_gstyle (T := XQ) DNone Relative in
  mkGStyle (gs_core d) (gs_inset d) [] [] [] [] PB.FRow (gs_gap d) None None None None (PB.mkLn (PB.Line 7%Z) PB.Auto)
           (PB.mkLn (PB.Line (-5)%Z) (PB.Span 3%Z)) None None false.
Definition st_a := [gns_child 20; abs_a; gns_child 30].
Definition st_b := [gns_child 20; abs_b; gns_child 30].
Definition st_h := [gns_child 20; hid_a; gns_child 30].
Definition st_h' := [gns_child 20; bare_none_gstyle (T := XQ); gns_child 30].
Definition g_pl := gns_input_mode Engine.PerformLayout.
Inductive ev := EQ (c : nat) (perform : bool) | ES (c : nat) (x y w h : XQ) | ER (w h : XQ).
Fixpoint walk (fuel : nat) (a : Engine.Alg (GIn XQ) (LayoutOutput XQ) (GLay XQ)) : list ev :=
  match fuel with
  | O => []
  | S f =>
      match a with
      | Engine.Ret _ _ _ o => [ER (width (out_size o)) (height (out_size o))]
      | Engine.Query _ _ _ c i k => EQ c (match gi_mode i with Engine.PerformLayout => true | _ => false end) :: walk f (k gns_answer)
      | Engine.SetLayout _ _ _ c l k => ES c (px (gl_location l)) (py (gl_location l)) (width (gl_size l)) (height (gl_size l)) :: walk f k
      end
  end.
Definition common_prefix : list ev :=
  [EQ 0 true; EQ 2 true; EQ 0 false; EQ 0 false; EQ 2 false; EQ 2 false; EQ 0 false; EQ 0 false; EQ 2 false; EQ 2 false; EQ 0 false; EQ 2 false;
   EQ 0 true; ES 0 (xq 0) (xq 0) (xq 10) (xq 20); EQ 2 true; ES 2 (xq 10) (xq 0) (xq 10) (xq 30); EQ 1 true].
