//! Validation of the Coq F32 instance against the hardware: `C op a b` / `R bits`.
use crate::rng::Rng;

pub fn canon(x: f32) -> u64 {
    if x.is_nan() {
        0x7fc0_0000
    } else {
        x.to_bits() as u64
    }
}

pub fn bits(rng: &mut Rng) -> u32 {
    const EDGE: [u32; 24] = [
        0, 0x8000_0000, 1, 0x8000_0001, 0x7f80_0000, 0xff80_0000, 0x7fc0_0000, 0x7f7f_ffff, 0xff7f_ffff, 0x0080_0000, 0x007f_ffff,
        0x3f80_0000, 0xbf80_0000, 0x3f00_0000, 0xbf00_0000, 0x4020_0000, 0x3400_0000, 0x3f80_0001, 0x3f7f_ffff, 0x4b00_0000,
        0x4b80_0000, 0x4b7f_ffff, 0x3effffff, 0x42c8_0000,
    ];
    match rng.below(8) {
        0 | 1 => *rng.pick(&EDGE),
        2 => {
            // small "layout-like" numbers: n / 2^k
            let n = rng.below(4000) as f32 - 1000.0;
            let k = rng.below(6) as i32;
            (n / (1 << k) as f32).to_bits()
        }
        3 => (rng.below(2000) as f32 * 0.1).to_bits(),
        4 => ((rng.next() as u32) & 0x807f_ffff) | ((120 + rng.below(16) as u32) << 23), // near 1.0
        5 => (rng.below(100) as f32 + 0.5).to_bits() ^ ((rng.below(2) as u32) << 31),     // half-integers
        _ => rng.next() as u32,
    }
}

fn eval(op: u64, a: u64, b: u64) -> u64 {
    let x = f32::from_bits(a as u32);
    let y = f32::from_bits(b as u32);
    // black_box keeps the compiler from constant-folding with different rules than the runtime
    let x = std::hint::black_box(x);
    let y = std::hint::black_box(y);
    match op {
        0 => canon(x + y),
        1 => canon(x - y),
        2 => canon(x * y),
        3 => canon(x / y),
        4 => canon(x.max(y)),
        5 => canon(x.min(y)),
        6 => (x == y) as u64,
        7 => (x < y) as u64,
        8 => (x <= y) as u64,
        9 => canon(x.abs()),
        10 => canon(-x),
        11 => canon(x.round()),
        12 => canon(x.floor()),
        13 => canon(x.ceil()),
        14 => x.is_normal() as u64,
        15 => canon(std::hint::black_box(a as usize) as f32),
        16 => {
            let lit: f32 = match (a, b) {
                (1, 100) => 0.01,
                (1, 1000000) => 0.000001,
                (1, 2) => 0.5,
                (1, 8388608) => f32::EPSILON,
                (1, 10) => 0.1,
                (3, 2) => 1.5,
                (2, 1) => 2.0,
                _ => unreachable!(),
            };
            canon(lit)
        }
        17 => ((x - y).abs() < f32::EPSILON) as u64,
        _ => unreachable!(),
    }
}

pub fn main(args: &[String]) {
    match args[0].as_str() {
        "cases" => {
            let seed: u64 = args[1].parse().unwrap();
            let n: u64 = args[2].parse().unwrap();
            let mut rng = Rng::new(seed);
            for (a, b) in [(1u64, 100u64), (1, 1000000), (1, 2), (1, 8388608), (1, 10), (3, 2), (2, 1)] {
                println!("C 16 {} {}\nR {}", a, b, eval(16, a, b));
            }
            // zero-sign cases of min/max both ways
            for op in [4u64, 5] {
                for (a, b) in [(0u64, 0x8000_0000u64), (0x8000_0000, 0), (0, 0), (0x7fc0_0000, 0x3f80_0000), (0x3f80_0000, 0x7fc0_0000)] {
                    println!("C {} {} {}\nR {}", op, a, b, eval(op, a, b));
                }
            }
            for _ in 0..n {
                let op = rng.below(18);
                if op == 16 {
                    continue;
                }
                let (a, b) = if op == 15 {
                    (if rng.chance(1, 2) { rng.below(70000) } else { rng.next() >> (rng.below(40) + 20) }, 0)
                } else if op == 17 && rng.chance(1, 2) {
                    // close pairs for is_roughly_equal
                    let a = bits(&mut rng);
                    let d = rng.below(5) as u32;
                    (a as u64, a.wrapping_add(d).wrapping_sub(2) as u64)
                } else {
                    (bits(&mut rng) as u64, bits(&mut rng) as u64)
                };
                println!("C {} {} {}\nR {}", op, a, b, eval(op, a, b));
            }
        }
        _ => std::process::exit(2),
    }
}
