(* K runner of the flex resumption (Model/FlexAlg.v `flex_alg`) over binary32: decodes one `vh flexalg cases` line, walks the
   resumption feeding the i-th recorded answer to the i-th query, and prints the events in the harness's format.

   C = <root style 66> <input 17> <n children> <child styles 66 each> <n answers> <answers 6 each>
   style (66):  0 display(0 block 1 flex 2 grid 3 none) 1 position(1 absolute) 2 box_sizing(1 content-box) 3 overflow.x 4 overflow.y
                (0 visible 1 clip 2 hidden 3 scroll) 5 scrollbar_width  6-17 size.w size.h min.w min.h max.w max.h (tag value; tag 0 auto
                1 length 2 percent)  18-19 aspect_ratio (has value)  20-27 margin l r t b  28-35 padding  36-43 border  44-51 inset
                52 flex_direction(0 row 1 column 2 row-reverse 3 column-reverse) 53 flex_wrap(0 nowrap 1 wrap 2 wrap-reverse)
                54 align_items 55 align_self (0 start 1 end 2 flex-start 3 flex-end 4 center 5 baseline 6 stretch 7 none)
                56 align_content 57 justify_content (index into all_align_content, 9 none) 58-61 gap.w gap.h 62-63 flex_basis 64 grow 65 shrink
   input (17):  0 run_mode(0 perform 1 compute-size 2 hidden) 1 sizing_mode(0 inherent 1 content) 2 axis(0 h 1 v 2 both) 3-6 known w h (has value)
                7-10 parent w h  11-14 available w h (tag value; 0 definite 1 min-content 2 max-content)  15-16 collapsible start end
   answer (6):  size.w size.h content.w content.h first_baselines.y (has value)
   R = events:  0 child input(17) | 1 child layout(21: order x y w h cw ch sbw sbh border(l r t b) padding margin) | 2 output(8: w h cw ch
                baseline.x baseline.y as (has value))   then nothing.
   The runner additionally emits  3  when the recorded answers run out,  5 n  when n answers are left over at Ret,  -2  out of fuel (of the
   walk: more than 100000 events),  -4  when the case does not decode (shorter than its own counts say).  lib/props/_flexalg.py counts every
   one of them as a STRUCTURAL disagreement.  NOT marked: `resolve_flexible_lengths` running out of fuel (Model/FlexAlg.v: a `None` leaves
   the line unchanged; never, by C07_loop_terminates); `flex_alg` has no model of a Rust panic (the flex code has none on these inputs). *)
From Coq Require Import ZArith Bool List.
From TV Require Import Num.F32 Model.Common Model.Leaf Gen.FlexGen Model.Flex Model.FlexBase Model.FlexAlgBase Model.FlexAlg.
From TV Require Model.Engine.
Import ListNotations.
Open Scope Z_scope.

Definition rb (z : Z) : f32 := f_of_bits z.
Definition rbool (z : Z) : bool := negb (z =? 0).
Definition r_lpa (tag v : Z) : LengthPercentageAuto f32 := match tag with 0 => Auto | 1 => Length (rb v) | _ => Percent (rb v) end.
Definition r_lp (tag v : Z) : LengthPercentage f32 := match tag with 1 => LpLength (rb v) | 2 => LpPercent (rb v) | _ => LpLength (rb 0) end.
Definition r_opt (has v : Z) : option f32 := if has =? 0 then None else Some (rb v).
Definition r_avail (tag v : Z) : AvailableSpace f32 := match tag with 0 => Definite (rb v) | 1 => MinContent | _ => MaxContent end.
Definition r_overflow (k : Z) : Overflow := match k with 0 => Visible | 1 => Clip | 2 => Hidden | _ => Scroll end.
Definition r_align (z : Z) : option FAlign :=
  match z with 0 => Some FA_Start | 1 => Some FA_End | 2 => Some FA_FlexStart | 3 => Some FA_FlexEnd | 4 => Some FA_Center
          | 5 => Some FA_Baseline | 6 => Some FA_Stretch | _ => None end.
Definition r_content (j : Z) : option AlignContent := if 9 <=? j then None else nth_error all_align_content (Z.to_nat j).

Definition STYLE_INTS : nat := 66.

Definition dec_style (c : list Z) : FStyle f32 :=
  let g (i : nat) : Z := nth i c 0 in
  let lpa4 (i : nat) := mkRect (r_lpa (g i) (g (i + 1)%nat)) (r_lpa (g (i + 2)%nat) (g (i + 3)%nat))
                               (r_lpa (g (i + 4)%nat) (g (i + 5)%nat)) (r_lpa (g (i + 6)%nat) (g (i + 7)%nat)) in
  let lp4 (i : nat) := mkRect (r_lp (g i) (g (i + 1)%nat)) (r_lp (g (i + 2)%nat) (g (i + 3)%nat))
                              (r_lp (g (i + 4)%nat) (g (i + 5)%nat)) (r_lp (g (i + 6)%nat) (g (i + 7)%nat)) in
  let dim2 (i : nat) := mkSize (r_lpa (g i) (g (i + 1)%nat)) (r_lpa (g (i + 2)%nat) (g (i + 3)%nat)) in
  let core :=
    mkStyle (match g 0%nat with 0 => DBlock | 1 => DFlex | 2 => DGrid | _ => DNone end)
            (if g 1%nat =? 0 then Relative else Absolute)
            (if g 2%nat =? 0 then BorderBox else ContentBox)
            (mkPoint (r_overflow (g 3%nat)) (r_overflow (g 4%nat))) (rb (g 5%nat))
            (dim2 6%nat) (dim2 10%nat) (dim2 14%nat) (r_opt (g 18%nat) (g 19%nat))
            (lpa4 20%nat) (lp4 28%nat) (lp4 36%nat) in
  let dir := g 52%nat in
  mkFStyle core (lpa4 44%nat)
           ((dir =? 0) || (dir =? 2)) (2 <=? dir) (negb (g 53%nat =? 0)) (g 53%nat =? 2)
           (r_align (g 54%nat)) (r_align (g 55%nat)) (r_content (g 56%nat)) (r_content (g 57%nat))
           (mkSize (r_lp (g 58%nat) (g 59%nat)) (r_lp (g 60%nat) (g 61%nat)))
           (r_lpa (g 62%nat) (g 63%nat)) (rb (g 64%nat)) (rb (g 65%nat)).

Definition dec_input (c : list Z) : FIn f32 :=
  let g (i : nat) : Z := nth i c 0 in
  mkFIn (match g 0%nat with 0 => Engine.PerformLayout | 1 => Engine.ComputeSize | _ => Engine.PerformHiddenLayout end)
        (if g 1%nat =? 0 then InherentSize else ContentSize)
        (match g 2%nat with 0 => AxHorizontal | 1 => AxVertical | _ => AxBoth end)
        (mkSize (r_opt (g 3%nat) (g 4%nat)) (r_opt (g 5%nat) (g 6%nat)))
        (mkSize (r_opt (g 7%nat) (g 8%nat)) (r_opt (g 9%nat) (g 10%nat)))
        (mkSize (r_avail (g 11%nat) (g 12%nat)) (r_avail (g 13%nat) (g 14%nat)))
        (mkLine (rbool (g 15%nat)) (rbool (g 16%nat))).

Definition dec_answer (c : list Z) : LayoutOutput f32 :=
  let g (i : nat) : Z := nth i c 0 in
  mkOutput (mkSize (rb (g 0%nat)) (rb (g 1%nat))) (mkSize (rb (g 2%nat)) (rb (g 3%nat)))
           (mkPoint None (r_opt (g 4%nat) (g 5%nat))) margin_set_ZERO margin_set_ZERO false.

Fixpoint dec_many {A} (f : list Z -> A) (w : nat) (n : nat) (l : list Z) : list A :=
  match n with
  | O => []
  | S n' => f (firstn w l) :: dec_many f w n' (skipn w l)
  end.

Definition tb (x : f32) : Z := f_to_bits x.
Definition e_opt (o : option f32) : list Z := match o with Some v => [1; tb v] | None => [0; 0] end.
Definition e_avail (a : AvailableSpace f32) : list Z := match a with Definite v => [0; tb v] | MinContent => [1; 0] | MaxContent => [2; 0] end.
Definition e_bool (b : bool) : Z := if b then 1 else 0.
Definition e_rect (r : Rect f32) : list Z := [tb (r_left r); tb (r_right r); tb (r_top r); tb (r_bottom r)].

Definition enc_input (i : FIn f32) : list Z :=
  [match qi_mode i with Engine.PerformLayout => 0 | Engine.ComputeSize => 1 | Engine.PerformHiddenLayout => 2 end;
   match qi_sizing i with InherentSize => 0 | ContentSize => 1 end;
   match qi_axis i with AxHorizontal => 0 | AxVertical => 1 | AxBoth => 2 end]
  ++ e_opt (width (qi_known i)) ++ e_opt (height (qi_known i)) ++ e_opt (width (qi_parent i)) ++ e_opt (height (qi_parent i))
  ++ e_avail (width (qi_avail i)) ++ e_avail (height (qi_avail i))
  ++ [e_bool (l_start (qi_collapsible i)); e_bool (l_end (qi_collapsible i))].

Definition enc_layout (l : FLay f32) : list Z :=
  [fl_order l; tb (px (fl_location l)); tb (py (fl_location l)); tb (width (fl_size l)); tb (height (fl_size l));
   tb (width (fl_content_size l)); tb (height (fl_content_size l)); tb (width (fl_scrollbar_size l)); tb (height (fl_scrollbar_size l))]
  ++ e_rect (fl_border l) ++ e_rect (fl_padding l) ++ e_rect (fl_margin l).

Definition enc_output (o : LayoutOutput f32) : list Z :=
  [tb (width (out_size o)); tb (height (out_size o)); tb (width (out_content_size o)); tb (height (out_content_size o))]
  ++ e_opt (px (first_baselines o)) ++ e_opt (py (first_baselines o)).

(* events are accumulated in reverse *)
Fixpoint walk (fuel : nat) (a : Engine.Alg (FIn f32) (LayoutOutput f32) (FLay f32)) (answers : list (LayoutOutput f32)) (acc : list Z)
  : list Z :=
  match fuel with
  | O => (-2) :: acc
  | S f =>
      match a with
      | Engine.Ret _ _ _ o =>
          let acc := rev_append (2 :: enc_output o) acc in
          match answers with [] => acc | _ => rev_append [5; Z.of_nat (length answers)] acc end
      | Engine.Query _ _ _ c i k =>
          match answers with
          | [] => 3 :: acc
          | o :: r => walk f (k o) r (rev_append (0 :: Z.of_nat c :: enc_input i) acc)
          end
      | Engine.SetLayout _ _ _ c l k => walk f k answers (rev_append (1 :: Z.of_nat c :: enc_layout l) acc)
      end
  end.

Definition run_case (c : list Z) : list Z :=
  let s := dec_style (firstn STYLE_INTS c) in
  let c1 := skipn STYLE_INTS c in
  let inp := dec_input (firstn 17 c1) in
  let c2 := skipn 17 c1 in
  let n := Z.to_nat (nth 0 c2 0) in
  let c3 := skipn 1 c2 in
  let children := dec_many dec_style STYLE_INTS n c3 in
  let c4 := skipn (n * STYLE_INTS) c3 in
  let nq := Z.to_nat (nth 0 c4 0) in
  let answers := dec_many dec_answer 6 nq (skipn 1 c4) in
  if (length c <? STYLE_INTS + 17 + 1 + n * STYLE_INTS + 1 + 6 * nq)%nat then [-4]
  else rev (walk (N.to_nat 100000%N) (flex_alg s children inp) answers []).
