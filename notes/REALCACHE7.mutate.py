#!/usr/bin/env python3
"""Mutation experiments for the real-cache whole-tree tie of the COMPLETE engine (wave 7a, notes/REALCACHE.md section 7).  Never touches
/repo: every mutant is applied to a scratch worktree /tmp/w7a-repo which is removed afterwards.  Per mutant the HARNESS is rebuilt
against the scratch checkout (VERIF_REPO) and the new tie alone is run (`python3 -m lib.props._taffyreal 1 300` = 300 random mixed
trees, and `... chains 0 363` = all kind mixes of depth 1..5): the model is the unchanged one.
usage: python3 notes/REALCACHE7.mutate.py [name ...]"""
import os
import re
import subprocess
import sys
import time

ROOT = os.path.dirname(os.path.dirname(os.path.abspath(__file__)))
WT = '/tmp/w7a-repo'
CA = 'src/tree/cache.rs'
CM = 'src/compute/mod.rs'
MUT = {
    'R1_slots_1_2_by_width_constraint': (CA, [(
        "            return 1 + (available_space.height == MinContent) as usize;",
        "            return 1 + (available_space.width == MinContent) as usize;")]),
    'R2_measure_entries_searched_in_reverse_slot_order': (CA, [(
        "                for entry in self.measure_entries.iter().flatten() {",
        "                for entry in self.measure_entries.iter().rev().flatten() {")]),
    'R3_measure_entry_without_known_width_equals_cached_width': (CA, [(
        "                    if (known_dimensions.width == entry.known_dimensions.width\n                        || known_dimensions.width == Some(cached_size.width))",
        "                    if (known_dimensions.width == entry.known_dimensions.width)")]),
    'R4_every_size_result_in_slot_0': (CA, [(
        "                let cache_slot = Self::compute_cache_slot(known_dimensions, available_space);",
        "                let cache_slot = 0 * Self::compute_cache_slot(known_dimensions, available_space);")]),
    'R5_size_queries_are_never_cached': (CM, [(
        "    tree.cache_store(node, known_dimensions, available_space, run_mode, computed_size_and_baselines);",
        "    if run_mode != crate::tree::RunMode::ComputeSize {\n        tree.cache_store(node, known_dimensions, available_space, run_mode, computed_size_and_baselines);\n    }")]),
    'R6_slot_5_to_8_min_content_height_ignored': (CA, [(
        "            (MaxContent | Definite(_), MinContent) => 6,",
        "            (MaxContent | Definite(_), MinContent) => 5,")]),
    'R7_final_layout_store_also_fills_a_measure_slot': (CA, [(
        "                self.final_layout_entry = Some(CacheEntry { known_dimensions, available_space, content: layout_output })",
        "                self.final_layout_entry = Some(CacheEntry { known_dimensions, available_space, content: layout_output });\n"
        "                let cache_slot = Self::compute_cache_slot(known_dimensions, available_space);\n"
        "                self.measure_entries[cache_slot] = Some(CacheEntry { known_dimensions, available_space, content: layout_output.size });")]),
    'R8_size_hit_answered_from_final_layout_entry_too': (CA, [(
        "                None\n            }\n            RunMode::PerformHiddenLayout => None,",
        "                self.final_layout_entry.filter(|e| e.known_dimensions == known_dimensions && e.available_space == available_space)"
        ".map(|e| LayoutOutput::from_outer_size(e.content.size))\n            }\n            RunMode::PerformHiddenLayout => None,")]),
    # ---- must stay silent
    'H1_measure_entry_conditions_reordered': (CA, [(
        "                        && (known_dimensions.width.is_some()\n                            || entry.available_space.width.is_roughly_equal(available_space.width))\n"
        "                        && (known_dimensions.height.is_some()\n                            || entry.available_space.height.is_roughly_equal(available_space.height))\n                    {",
        "                        && (known_dimensions.height.is_some()\n                            || entry.available_space.height.is_roughly_equal(available_space.height))\n"
        "                        && (known_dimensions.width.is_some()\n                            || entry.available_space.width.is_roughly_equal(available_space.width))\n                    {")]),
    'H2_store_sets_flag_after_writing': (CA, [(
        "                self.is_empty = false;\n                let cache_slot = Self::compute_cache_slot(known_dimensions, available_space);\n"
        "                self.measure_entries[cache_slot] =\n                    Some(CacheEntry { known_dimensions, available_space, content: layout_output.size });",
        "                let cache_slot = Self::compute_cache_slot(known_dimensions, available_space);\n"
        "                self.measure_entries[cache_slot] =\n                    Some(CacheEntry { known_dimensions, available_space, content: layout_output.size });\n"
        "                self.is_empty = false;")]),
}


def sh(cmd, **kw):
    return subprocess.run(cmd, shell=True, stdout=subprocess.PIPE, stderr=subprocess.STDOUT, text=True, **kw)


def main():
    names = sys.argv[1:] or list(MUT)
    sh('git -C /repo worktree remove --force %s' % WT)
    r = sh('git -C /repo worktree add --detach %s HEAD' % WT)
    if r.returncode != 0:
        print(r.stdout)
        sys.exit(1)
    try:
        for name in names:
            path, edits = MUT[name]
            sh('git -C %s checkout -- .' % WT)
            src = open(os.path.join(WT, path)).read()
            ok = True
            for a, b in edits:
                if src.count(a) != 1:
                    print('%s: pattern found %d times' % (name, src.count(a)))
                    ok = False
                src = src.replace(a, b)
            if not ok:
                continue
            open(os.path.join(WT, path), 'w').write(src)
            env = dict(os.environ, VERIF_REPO=WT)
            t0 = time.time()
            res = []
            for args in ('1 300', 'chains 0 363'):
                r = sh('timeout 1200 python3 -m lib.props._taffyreal %s' % args, cwd=ROOT, env=env)
                m = re.search(r'(\d+) / (\d+) disagree', r.stdout)
                first = [l for l in r.stdout.split('\n') if ' nodes, lossy ' in l][:1]
                res.append('%s: %s%s' % (args, m.group(0) if m else 'FAILED ' + r.stdout[-300:], (' | ' + first[0][:230]) if first else ''))
            print('%s (%.0fs)\n   %s\n   %s' % (name, time.time() - t0, res[0], res[1]), flush=True)
    finally:
        sh('git -C /repo worktree remove --force %s' % WT)


if __name__ == '__main__':
    main()
