//! C17: TaffyTree against a user-defined tree that drives the public low-level API as documented
//! (src/tree/traits.rs module documentation, examples/custom_tree_vec.rs).
//!
//! `CTree` is a Vec arena: node = {style, children indices, taffy::Cache, unrounded_layout, final_layout, measure ctx};
//! NodeId = index.  compute_child_layout = [hidden-mode line] + compute_cached_layout around a dispatch on
//! (display, child count); layout = compute_root_layout, then round_layout iff rounding is on.
//!
//! `vh c17 oracle <seed> <start> <n> <exact:0|1>`  search: random trees x two passes (available space, rounding flag):
//!      exact=0 (a) TaffyTree vs CTree, every node, unrounded and rounded layouts bit for bit (real lossy cache)
//!      exact=1 (b) TaffyTree vs CTree vs cache-free CTree (cache_get always misses), exact-key memo
//!      lines: `FAIL <idx> ...`, `KNOWN <idx> scribble ...`, `SKIP <idx> ...`, `DONE <cases> <layouts> <cachefree passes> <skipped> <known> <distinct cases with >= 2 nodes> <cases with a display:none parent>`
//! `vh c17 one <seed> <idx> <exact>`               the same case, verbose
//! `vh c17 cases <seed> <n>`                        K: the histories of `vh eng cases` replayed on a CTree as well; R = cache
//!                                                  emptiness of every live CTree node after every call (`KDIFF` = differs from TaffyTree::dirty)
//! `vh c17 trap`                                    what the examples' pattern does below a display:none node (no hidden-mode line)
use crate::hist::*;
use crate::rng::Rng;
use crate::treegen::*;
use taffy::prelude::*;
use taffy::{
    compute_block_layout, compute_cached_layout, compute_flexbox_layout, compute_grid_layout, compute_hidden_layout,
    compute_leaf_layout, compute_root_layout, round_layout, Cache, CacheTree, ClearState, Layout, LayoutInput, LayoutOutput, RunMode,
};

pub struct CNode {
    pub style: Style,
    pub children: Vec<usize>,
    pub parent: Option<usize>,
    pub cache: Cache,
    pub unrounded_layout: Layout,
    pub final_layout: Layout,
    pub ctx: Option<Ctx>,
    pub live: bool,
}

pub struct CTree {
    pub nodes: Vec<CNode>,
    /// false: the cache-free evaluator (cache_get always None, cache_store / cache_clear do nothing)
    pub use_cache: bool,
    /// the hidden-mode line `if inputs.run_mode == PerformHiddenLayout { return compute_hidden_layout(..) }`
    /// (false = the examples followed literally, only used by `vh c17 trap`)
    pub hidden_line: bool,
    pub rounding: bool,
}

impl CTree {
    pub fn new() -> CTree {
        CTree { nodes: vec![], use_cache: true, hidden_line: true, rounding: true }
    }
    pub fn add_node(&mut self, style: Style, ctx: Option<Ctx>) -> usize {
        self.nodes.push(CNode {
            style,
            children: vec![],
            parent: None,
            cache: Cache::new(),
            unrounded_layout: Layout::with_order(0),
            final_layout: Layout::with_order(0),
            ctx,
            live: true,
        });
        self.nodes.len() - 1
    }
    /// pre-order build: node i of the result is node i of `treegen::build`'s id list
    pub fn from_spec(spec: &NodeSpec) -> CTree {
        fn rec(t: &mut CTree, s: &NodeSpec) -> usize {
            let id = t.add_node(s.style.clone(), s.ctx.clone());
            for c in &s.children {
                let k = rec(t, c);
                t.nodes[k].parent = Some(id);
                t.nodes[id].children.push(k);
            }
            id
        }
        let mut t = CTree::new();
        rec(&mut t, spec);
        t
    }
    /// the documented driver (examples/custom_tree_vec.rs Tree::compute_layout)
    pub fn compute_layout(&mut self, root: usize, available_space: Size<AvailableSpace>) {
        compute_root_layout(self, NodeId::from(root), available_space);
        if self.rounding {
            round_layout(self, NodeId::from(root));
        }
    }
    /// what an embedder has to do after editing a node: clear its cache and its ancestors' (same early exit as TaffyTree)
    pub fn mark_dirty(&mut self, mut i: usize) {
        loop {
            match self.nodes[i].cache.clear() {
                ClearState::AlreadyEmpty => break,
                ClearState::Cleared => match self.nodes[i].parent {
                    Some(p) => i = p,
                    None => break,
                },
            }
        }
    }
    fn get(&self, i: usize) -> Option<usize> {
        if i < self.nodes.len() && self.nodes[i].live {
            Some(i)
        } else {
            None
        }
    }
    fn new_leaf(&mut self, s: &Style, c: &Option<Ctx>) -> usize {
        self.add_node(s.clone(), c.clone())
    }
    fn is_ancestor_or_self(&self, a: usize, mut n: usize) -> bool {
        loop {
            if a == n {
                return true;
            }
            match self.nodes[n].parent {
                Some(p) => n = p,
                None => return false,
            }
        }
    }
    fn detach_at(&mut self, p: usize, idx: usize) -> usize {
        let c = self.nodes[p].children.remove(idx);
        self.nodes[c].parent = None;
        self.mark_dirty(p);
        c
    }
    /// the same API call as `World::apply`, on the pool index level (node i here = pool[i] there)
    pub fn apply(&mut self, op: &Op) -> bool {
        match op {
            Op::SetStyle(i, s) => match self.get(*i) {
                Some(n) => {
                    self.nodes[n].style = s.clone();
                    self.mark_dirty(n);
                    true
                }
                None => false,
            },
            Op::AddLeaf(p, s, c) => match self.get(*p) {
                Some(p) => {
                    let l = self.new_leaf(s, c);
                    self.nodes[l].parent = Some(p);
                    self.nodes[p].children.push(l);
                    self.mark_dirty(p);
                    true
                }
                None => false,
            },
            Op::InsertLeaf(p, idx, s, c) => match self.get(*p) {
                Some(p) => {
                    let cnt = self.nodes[p].children.len();
                    let l = self.new_leaf(s, c);
                    self.nodes[l].parent = Some(p);
                    self.nodes[p].children.insert(idx % (cnt + 1), l);
                    self.mark_dirty(p);
                    true
                }
                None => false,
            },
            Op::RemoveChildAt(p, idx) => match self.get(*p) {
                Some(p) if !self.nodes[p].children.is_empty() => {
                    let cnt = self.nodes[p].children.len();
                    self.detach_at(p, idx % cnt);
                    true
                }
                _ => false,
            },
            Op::ReplaceChildAt(p, idx, s, c) => match self.get(*p) {
                Some(p) if !self.nodes[p].children.is_empty() => {
                    let cnt = self.nodes[p].children.len();
                    let l = self.new_leaf(s, c);
                    self.nodes[l].parent = Some(p);
                    let old = std::mem::replace(&mut self.nodes[p].children[idx % cnt], l);
                    self.nodes[old].parent = None;
                    self.mark_dirty(p);
                    true
                }
                _ => false,
            },
            Op::Rotate(p) => match self.get(*p) {
                Some(p) if self.nodes[p].children.len() > 1 => {
                    self.nodes[p].children.rotate_left(1);
                    self.mark_dirty(p);
                    true
                }
                _ => false,
            },
            Op::DropChild(p, idx) => match self.get(*p) {
                Some(p) if !self.nodes[p].children.is_empty() => {
                    let cnt = self.nodes[p].children.len();
                    self.detach_at(p, idx % cnt);
                    true
                }
                _ => false,
            },
            Op::Reparent(n, p) => match (self.get(*n), self.get(*p)) {
                (Some(n), Some(p)) if !self.is_ancestor_or_self(n, p) => {
                    if let Some(old) = self.nodes[n].parent {
                        let idx = self.nodes[old].children.iter().position(|c| *c == n).unwrap();
                        self.detach_at(old, idx);
                    }
                    self.nodes[n].parent = Some(p);
                    self.nodes[p].children.push(n);
                    self.mark_dirty(p);
                    true
                }
                _ => false,
            },
            Op::Remove(i) => match self.get(*i) {
                Some(n) => {
                    if let Some(p) = self.nodes[n].parent {
                        self.nodes[p].children.retain(|c| *c != n);
                        self.mark_dirty(p);
                    }
                    for c in self.nodes[n].children.clone() {
                        self.nodes[c].parent = None;
                    }
                    self.nodes[n].children.clear();
                    self.nodes[n].live = false;
                    true
                }
                None => false,
            },
            Op::SetCtx(i, c) => match self.get(*i) {
                Some(n) => {
                    self.nodes[n].ctx = c.clone();
                    self.mark_dirty(n);
                    true
                }
                None => false,
            },
            Op::MarkDirty(i) => match self.get(*i) {
                Some(n) => {
                    self.mark_dirty(n);
                    true
                }
                None => false,
            },
            Op::Rounding(on) => {
                self.rounding = *on;
                true
            }
            Op::Layout(i, a) => match self.get(*i) {
                Some(n) if self.nodes[n].parent.is_none() => {
                    self.compute_layout(n, *a);
                    true
                }
                _ => false,
            },
        }
    }
    pub fn flags(&self) -> Vec<i64> {
        self.nodes.iter().filter(|n| n.live).map(|n| n.cache.is_empty() as i64).collect()
    }
}

// ------------------------------------------------------------------------------------------------ the public traits

pub struct ChildIter<'a>(std::slice::Iter<'a, usize>);
impl Iterator for ChildIter<'_> {
    type Item = NodeId;
    fn next(&mut self) -> Option<Self::Item> {
        self.0.next().copied().map(NodeId::from)
    }
}

impl taffy::TraversePartialTree for CTree {
    type ChildIter<'a> = ChildIter<'a>;
    fn child_ids(&self, node_id: NodeId) -> Self::ChildIter<'_> {
        ChildIter(self.nodes[usize::from(node_id)].children.iter())
    }
    fn child_count(&self, node_id: NodeId) -> usize {
        self.nodes[usize::from(node_id)].children.len()
    }
    fn get_child_id(&self, node_id: NodeId, index: usize) -> NodeId {
        NodeId::from(self.nodes[usize::from(node_id)].children[index])
    }
}

impl taffy::TraverseTree for CTree {}

impl taffy::LayoutPartialTree for CTree {
    type CoreContainerStyle<'a>
        = &'a Style
    where
        Self: 'a;

    fn get_core_container_style(&self, node_id: NodeId) -> Self::CoreContainerStyle<'_> {
        &self.nodes[usize::from(node_id)].style
    }

    fn set_unrounded_layout(&mut self, node_id: NodeId, layout: &Layout) {
        // (event for the trace-based classification; TaffyView emits the same one)
        #[cfg(taffy_verif)]
        taffy::verif_hooks::emit(taffy::verif_hooks::Event::SetLayout { node: node_id });
        self.nodes[usize::from(node_id)].unrounded_layout = *layout;
    }

    fn resolve_calc_value(&self, _val: *const (), _basis: f32) -> f32 {
        0.0
    }

    fn compute_child_layout(&mut self, node_id: NodeId, inputs: LayoutInput) -> LayoutOutput {
        if self.hidden_line && inputs.run_mode == RunMode::PerformHiddenLayout {
            return compute_hidden_layout(self, node_id);
        }
        compute_cached_layout(self, node_id, inputs, |tree, node_id, inputs| {
            let idx = usize::from(node_id);
            let display = tree.nodes[idx].style.display;
            let has_children = !tree.nodes[idx].children.is_empty();
            match (display, has_children) {
                (Display::None, _) => compute_hidden_layout(tree, node_id),
                (Display::Block, true) => compute_block_layout(tree, node_id, inputs),
                (Display::Flex, true) => compute_flexbox_layout(tree, node_id, inputs),
                (Display::Grid, true) => compute_grid_layout(tree, node_id, inputs),
                (_, false) => {
                    let node = &mut tree.nodes[idx];
                    let style = &node.style;
                    let ctx = node.ctx.as_mut();
                    compute_leaf_layout(inputs, style, |_val, _basis| 0.0, |known, avail| measure(known, avail, ctx))
                }
            }
        })
    }
}

impl CacheTree for CTree {
    fn cache_get(&self, node_id: NodeId, known_dimensions: Size<Option<f32>>, available_space: Size<AvailableSpace>, run_mode: RunMode) -> Option<LayoutOutput> {
        if !self.use_cache {
            return None;
        }
        self.nodes[usize::from(node_id)].cache.get(known_dimensions, available_space, run_mode)
    }
    fn cache_store(&mut self, node_id: NodeId, known_dimensions: Size<Option<f32>>, available_space: Size<AvailableSpace>, run_mode: RunMode, layout_output: LayoutOutput) {
        if !self.use_cache {
            return;
        }
        self.nodes[usize::from(node_id)].cache.store(known_dimensions, available_space, run_mode, layout_output)
    }
    fn cache_clear(&mut self, node_id: NodeId) {
        if !self.use_cache {
            return;
        }
        self.nodes[usize::from(node_id)].cache.clear();
    }
}

impl taffy::LayoutFlexboxContainer for CTree {
    type FlexboxContainerStyle<'a>
        = &'a Style
    where
        Self: 'a;
    type FlexboxItemStyle<'a>
        = &'a Style
    where
        Self: 'a;
    fn get_flexbox_container_style(&self, node_id: NodeId) -> Self::FlexboxContainerStyle<'_> {
        &self.nodes[usize::from(node_id)].style
    }
    fn get_flexbox_child_style(&self, child_node_id: NodeId) -> Self::FlexboxItemStyle<'_> {
        &self.nodes[usize::from(child_node_id)].style
    }
}

impl taffy::LayoutGridContainer for CTree {
    type GridContainerStyle<'a>
        = &'a Style
    where
        Self: 'a;
    type GridItemStyle<'a>
        = &'a Style
    where
        Self: 'a;
    fn get_grid_container_style(&self, node_id: NodeId) -> Self::GridContainerStyle<'_> {
        &self.nodes[usize::from(node_id)].style
    }
    fn get_grid_child_style(&self, child_node_id: NodeId) -> Self::GridItemStyle<'_> {
        &self.nodes[usize::from(child_node_id)].style
    }
}

impl taffy::LayoutBlockContainer for CTree {
    type BlockContainerStyle<'a>
        = &'a Style
    where
        Self: 'a;
    type BlockItemStyle<'a>
        = &'a Style
    where
        Self: 'a;
    fn get_block_container_style(&self, node_id: NodeId) -> Self::BlockContainerStyle<'_> {
        &self.nodes[usize::from(node_id)].style
    }
    fn get_block_child_style(&self, child_node_id: NodeId) -> Self::BlockItemStyle<'_> {
        &self.nodes[usize::from(child_node_id)].style
    }
}

impl taffy::RoundTree for CTree {
    fn get_unrounded_layout(&self, node_id: NodeId) -> &Layout {
        &self.nodes[usize::from(node_id)].unrounded_layout
    }
    fn set_final_layout(&mut self, node_id: NodeId, layout: &Layout) {
        self.nodes[usize::from(node_id)].final_layout = *layout;
    }
}

// ------------------------------------------------------------------------------------------------ oracle

const NAMES: [&str; 21] =
    ["order", "x", "y", "w", "h", "cw", "ch", "sbw", "sbh", "bl", "br", "bt", "bb", "pl", "pr", "pt", "pb", "ml", "mr", "mt", "mb"];

fn diff_fields(a: &Layout, b: &Layout) -> Vec<&'static str> {
    let (x, y) = (layout_bits(a), layout_bits(b));
    (0..21).filter(|j| x[*j] != y[*j]).map(|j| NAMES[j]).collect()
}

fn depth(s: &NodeSpec) -> usize {
    1 + s.children.iter().map(depth).max().unwrap_or(0)
}

pub struct Case {
    pub spec: NodeSpec,
    pub passes: Vec<(Size<AvailableSpace>, bool)>,
    pub small: bool,
}

pub fn gen_case(seed: u64, idx: u64) -> Case {
    let mut rng = Rng::new(seed.wrapping_mul(0x9E37_79B9).wrapping_add(idx) ^ 0xC17);
    let mut cfg = GenCfg::default();
    cfg.fractional = idx % 2 == 1;
    cfg.p_hidden = 100;
    // every other case is small and shallow, so that the cache-free evaluator (exponential in the depth) can follow
    if idx % 4 < 2 {
        cfg.max_nodes = 8;
        cfg.max_depth = 2;
    }
    let spec = tree(&mut rng, &cfg);
    let a0 = avail(&mut rng, &cfg);
    let r0 = rng.chance(1, 2);
    let a1 = if rng.chance(1, 4) { a0 } else { avail(&mut rng, &cfg) };
    let r1 = rng.chance(1, 2);
    let small = spec.count() <= 8 && depth(&spec) <= 3;
    Case { spec, passes: vec![(a0, r0), (a1, r1)], small }
}

pub struct Outcome {
    pub fails: Vec<String>,
    pub known: Vec<String>,
    pub skipped: bool,
    pub layouts: u64,
    pub cachefree: u64,
    pub log: Vec<String>,
}

const QUERY_LIMIT: u64 = 400_000;

/// One pass of the cache-free tree under a query limit; None = limit hit (or panic inside)
fn cachefree_pass(f: &mut CTree, a: Size<AvailableSpace>) -> Result<(), String> {
    #[cfg(taffy_verif)]
    {
        taffy::verif_hooks::reset_queries();
        taffy::verif_hooks::set_query_limit(QUERY_LIMIT);
    }
    let r = std::panic::catch_unwind(std::panic::AssertUnwindSafe(|| f.compute_layout(0, a)));
    #[cfg(taffy_verif)]
    let hit = taffy::verif_hooks::queries() > QUERY_LIMIT;
    #[cfg(not(taffy_verif))]
    let hit = false;
    #[cfg(taffy_verif)]
    taffy::verif_hooks::set_query_limit(u64::MAX);
    match r {
        Ok(()) => Ok(()),
        Err(_) if hit => Err("limit".into()),
        Err(_) => Err("panic".into()),
    }
}

pub fn run_case(seed: u64, idx: u64, exact: bool, verbose: bool) -> Outcome {
    #[cfg(taffy_verif)]
    {
        taffy::verif_hooks::set_exact_key(exact);
        taffy::verif_hooks::set_query_limit(u64::MAX);
        let _ = taffy::verif_hooks::take_trace();
    }
    let case = gen_case(seed, idx);
    // a third of the cases: the user's measure function gives context-less leaves a non-zero size (both trees use the same
    // function; the documented pattern measures every leaf, whether it has a context or not)
    NOCTX_SIZE.with(|c| c.set(if idx % 3 == 1 { (17.25, 9.5) } else { (0.0, 0.0) }));
    let mut out = Outcome { fails: vec![], known: vec![], skipped: false, layouts: 0, cachefree: 0, log: vec![] };
    if verbose {
        out.log.push(format!("tree: {:#?}\npasses: {:?} small={}", case.spec, case.passes, case.small));
    }
    let mut t: TaffyTree<Ctx> = TaffyTree::new();
    let mut ids = vec![];
    let root = build(&mut t, &case.spec, &mut ids);
    let mut c = CTree::from_spec(&case.spec);
    let mut f = CTree::from_spec(&case.spec);
    f.use_cache = false;
    let with_f = exact && case.small;
    let n = ids.len();
    assert_eq!(n, c.nodes.len());
    // where each node's stored layout comes from, over the passes so far (memoised custom tree)
    let mut origin: Vec<&'static str> = vec!["untouched"; n];
    let mut torigin: Vec<&'static str> = vec!["untouched"; n];
    let mut f_alive = with_f;
    for (p, (a, rounding)) in case.passes.iter().enumerate() {
        if *rounding {
            t.enable_rounding();
        } else {
            t.disable_rounding();
        }
        c.rounding = *rounding;
        f.rounding = *rounding;
        #[cfg(taffy_verif)]
        taffy::verif_hooks::start_trace();
        let rt = std::panic::catch_unwind(std::panic::AssertUnwindSafe(|| compute(&mut t, root, *a)));
        #[cfg(taffy_verif)]
        let ttrace = taffy::verif_hooks::take_trace();
        #[cfg(taffy_verif)]
        taffy::verif_hooks::start_trace();
        let rc = std::panic::catch_unwind(std::panic::AssertUnwindSafe(|| c.compute_layout(0, *a)));
        #[cfg(taffy_verif)]
        let trace = taffy::verif_hooks::take_trace();
        match (rt.is_ok(), rc.is_ok()) {
            (true, true) => {}
            (false, false) => {
                // the shared algorithms panic on this input on both sides: not a C17 matter (C03)
                out.skipped = true;
                out.log.push(format!("pass {p}: both trees panic"));
                break;
            }
            (a_ok, _) => {
                out.fails.push(format!("pass {p}: {} panics, the other tree does not", if a_ok { "the custom tree" } else { "TaffyTree" }));
                break;
            }
        }
        #[cfg(taffy_verif)]
        for k in 0..n {
            let cl = crate::c01::classify(&trace, NodeId::from(k));
            if cl != "untouched" {
                origin[k] = cl;
            }
            let cl = crate::c01::classify(&ttrace, ids[k]);
            if cl != "untouched" {
                torigin[k] = cl;
            }
        }
        // ---- (a) TaffyTree vs custom tree (in either cache mode)
        let mut bad = vec![];
        for k in 0..n {
            out.layouts += 1;
            let du = diff_fields(t.unrounded_layout(ids[k]), &c.nodes[k].unrounded_layout);
            if !du.is_empty() {
                bad.push(format!(
                    "node#{k} unrounded [{}] (last written under: taffy={} custom={}) taffy {:?} custom {:?}",
                    du.join(","),
                    torigin[k],
                    origin[k],
                    t.unrounded_layout(ids[k]),
                    c.nodes[k].unrounded_layout
                ));
            }
            // what layout() hands out: final_layout when rounding is on, the unrounded layout when it is off
            let expect = if *rounding { &c.nodes[k].final_layout } else { &c.nodes[k].unrounded_layout };
            let dr = diff_fields(t.layout(ids[k]).unwrap(), expect);
            if !dr.is_empty() {
                bad.push(format!("node#{k} layout() rounding={} [{}] taffy {:?} custom {:?}", rounding, dr.join(","), t.layout(ids[k]).unwrap(), expect));
            }
        }
        if !*rounding {
            // the rounding pass must NOT have run: final_layout is what the last rounded pass left (or Layout::with_order(0))
            t.enable_rounding();
            for k in 0..n {
                let dr = diff_fields(t.layout(ids[k]).unwrap(), &c.nodes[k].final_layout);
                if !dr.is_empty() {
                    bad.push(format!("node#{k} final_layout after an unrounded pass [{}] taffy {:?} custom {:?}", dr.join(","), t.layout(ids[k]).unwrap(), c.nodes[k].final_layout));
                }
            }
            t.disable_rounding();
        }
        // same cache discipline
        for k in 0..n {
            if t.dirty(ids[k]).unwrap() != c.nodes[k].cache.is_empty() {
                bad.push(format!("node#{k} cache emptiness: taffy dirty={} custom empty={}", t.dirty(ids[k]).unwrap(), c.nodes[k].cache.is_empty()));
            }
        }
        if !bad.is_empty() {
            out.fails.push(format!("pass {p} avail={} rounding={} TaffyTree vs documented tree ({} differences): {}", avail_str(*a), rounding, bad.len(), bad[0]));
            break;
        }
        // ---- (b) cache-free evaluation
        if f_alive {
            match cachefree_pass(&mut f, *a) {
                Ok(()) => {}
                Err(why) if why == "limit" => {
                    out.skipped = true;
                    out.log.push(format!("pass {p}: cache-free evaluation stopped at the query limit"));
                    f_alive = false;
                    continue;
                }
                Err(_) => {
                    out.fails.push(format!("pass {p}: the cache-free custom tree panics, the memoised trees do not"));
                    break;
                }
            }
            out.cachefree += 1;
            let mut unr_bad: Vec<usize> = vec![];
            let mut rnd_bad: Vec<usize> = vec![];
            for k in 0..n {
                if !diff_fields(&c.nodes[k].unrounded_layout, &f.nodes[k].unrounded_layout).is_empty() {
                    unr_bad.push(k);
                } else if !diff_fields(&c.nodes[k].final_layout, &f.nodes[k].final_layout).is_empty() {
                    rnd_bad.push(k);
                }
            }
            if unr_bad.is_empty() && rnd_bad.is_empty() {
                continue;
            }
            // known finding computesize-scribble: the memoised tree's stored layout of the node was last written under a
            // ComputeSize query; a rounded-only difference must sit below such a node (cumulative offsets)
            let unexplained: Vec<usize> = unr_bad.iter().copied().filter(|k| origin[*k] != "scribble").collect();
            let below = |k: usize| {
                let mut cur = c.nodes[k].parent;
                while let Some(p) = cur {
                    if unr_bad.contains(&p) {
                        return true;
                    }
                    cur = c.nodes[p].parent;
                }
                false
            };
            let unexplained_r: Vec<usize> = rnd_bad.iter().copied().filter(|k| !below(*k)).collect();
            let k0 = *unr_bad.first().or(rnd_bad.first()).unwrap();
            let msg = format!(
                "pass {p} avail={} rounding={} memoised vs cache-free: unrounded differs at {:?} (origin {:?}), rounded-only at {:?}; node#{k0} [{}] memo {:?} cache-free {:?}",
                avail_str(*a),
                rounding,
                unr_bad,
                unr_bad.iter().map(|k| origin[*k]).collect::<Vec<_>>(),
                rnd_bad,
                diff_fields(&c.nodes[k0].unrounded_layout, &f.nodes[k0].unrounded_layout).join(","),
                c.nodes[k0].unrounded_layout,
                f.nodes[k0].unrounded_layout
            );
            if unexplained.is_empty() && unexplained_r.is_empty() {
                out.known.push(msg);
            } else {
                out.fails.push(format!("unexplained nodes {:?} {:?}: {}", unexplained, unexplained_r, msg));
            }
            // the trees have diverged in stored layouts only; later passes stay comparable between T and C, and F is stateless
        }
    }
    #[cfg(taffy_verif)]
    taffy::verif_hooks::set_exact_key(false);
    out
}

// ------------------------------------------------------------------------------------------------ K: cache discipline

fn push_op(c: &mut Vec<i64>, op: &[i64]) {
    c.push(op.len() as i64);
    c.extend_from_slice(op);
}

/// The history `vh eng cases` generates for (seed, idx) -- same PRNG stream, same encoding -- applied to a TaffyTree and to
/// a CTree in lock step.  Returns (encoded case, CTree flags after every call, steps where CTree and TaffyTree disagree).
pub fn run_history(seed: u64, idx: u64) -> (Vec<i64>, Vec<i64>, Vec<String>) {
    NOCTX_SIZE.with(|c| c.set((0.0, 0.0)));
    let is_none = |s: &Style| (s.display == Display::None) as i64;
    let mut rng = Rng::new(seed.wrapping_mul(0x9E37_79B9).wrapping_add(idx) ^ 0xE16);
    let mut cfg = GenCfg::default();
    cfg.max_nodes = 9;
    cfg.p_hidden = 120;
    let spec = tree(&mut rng, &cfg);
    let (mut w, _root) = World::new(&spec);
    let mut ct = CTree::from_spec(&spec);
    let mut c: Vec<i64> = vec![w.pool.len() as i64];
    for i in 0..w.pool.len() {
        let n = w.pool[i].unwrap();
        let par = w.t.parent(n).map(|p| w.pool.iter().position(|x| *x == Some(p)).unwrap() as i64).unwrap_or(-1);
        c.push(par);
        c.push(is_none(w.t.style(n).unwrap()));
    }
    let tflags = |w: &World| -> Vec<i64> { w.live().iter().map(|i| w.t.dirty(w.pool[*i].unwrap()).unwrap() as i64).collect() };
    let mut r: Vec<i64> = ct.flags();
    let mut diffs = vec![];
    let mut avails: Vec<Size<AvailableSpace>> = vec![];
    let nops = 6 + rng.below(24);
    for step in 0..nops {
        let op = if step == 0 { Op::Layout(0, avail(&mut rng, &cfg)) } else { gen_op(&mut rng, &cfg, &w) };
        let applied = w.apply(&op);
        let applied_c = ct.apply(&op);
        if applied != applied_c {
            diffs.push(format!("step {step}: {:?} applied on TaffyTree={applied} on the custom tree={applied_c}", op));
            break;
        }
        if !applied {
            continue;
        }
        let nid = (w.pool.len() - 1) as i64;
        let enc: Vec<i64> = match &op {
            Op::SetStyle(i, s) => vec![0, *i as i64, is_none(s)],
            Op::AddLeaf(p, s, _) => vec![1, *p as i64, nid, is_none(s)],
            Op::InsertLeaf(p, idx, s, _) => {
                let cnt = w.t.child_count(w.pool[*p].unwrap()) - 1;
                vec![2, *p as i64, (idx % (cnt + 1)) as i64, nid, is_none(s)]
            }
            Op::RemoveChildAt(p, idx) => {
                let cnt = w.t.child_count(w.pool[*p].unwrap()) + 1;
                vec![3, *p as i64, (idx % cnt) as i64]
            }
            Op::ReplaceChildAt(p, idx, s, _) => {
                let cnt = w.t.child_count(w.pool[*p].unwrap());
                vec![4, *p as i64, (idx % cnt) as i64, nid, is_none(s)]
            }
            Op::Rotate(p) => vec![5, *p as i64],
            Op::DropChild(p, idx) => {
                let cnt = w.t.child_count(w.pool[*p].unwrap()) + 1;
                vec![3, *p as i64, (idx % cnt) as i64]
            }
            Op::Reparent(n, p) => vec![6, *n as i64, *p as i64],
            Op::Remove(i) => vec![7, *i as i64],
            Op::SetCtx(i, _) => vec![8, *i as i64],
            Op::MarkDirty(i) => vec![9, *i as i64],
            Op::Rounding(_) => vec![11],
            Op::Layout(i, a) => {
                let tag = match avails.iter().position(|x| x == a) {
                    Some(k) => k,
                    None => {
                        avails.push(*a);
                        avails.len() - 1
                    }
                };
                vec![10, *i as i64, tag as i64]
            }
        };
        push_op(&mut c, &enc);
        r.push(-1);
        let cf = ct.flags();
        if cf != tflags(&w) {
            diffs.push(format!("step {step} {:?}: custom tree cache emptiness {:?} TaffyTree dirty {:?}", enc, cf, tflags(&w)));
        }
        r.extend(cf);
        // after a layout the stored layouts agree too (the histories exercise relayout after edits, which the oracle does not)
        if let Op::Layout(i, _) = &op {
            let mut nodes = vec![];
            w.subtree(w.pool[*i].unwrap(), &mut nodes);
            for n in nodes {
                let k = w.pool.iter().position(|x| *x == Some(n)).unwrap();
                let exp = if ct.rounding { &ct.nodes[k].final_layout } else { &ct.nodes[k].unrounded_layout };
                if !diff_fields(w.t.unrounded_layout(n), &ct.nodes[k].unrounded_layout).is_empty() || !diff_fields(w.t.layout(n).unwrap(), exp).is_empty() {
                    diffs.push(format!("step {step}: layout of pool node {k} differs: taffy {:?} custom {:?}", w.t.unrounded_layout(n), ct.nodes[k].unrounded_layout));
                    break;
                }
            }
        }
    }
    (c, r, diffs)
}

// ------------------------------------------------------------------------------------------------ the documentation trap

fn trap() {
    // root (flex) > A (display:none, flex) > B (flex container 50x50) > C (leaf 20x20);  A also has a leaf child D
    // without a definite size (so that leaf layout has to call the measure function)
    let sz = |w: f32, h: f32| Size { width: Dimension::length(w), height: Dimension::length(h) };
    let build_tree = |with_d: bool, hidden_line: bool| {
        let mut t = CTree::new();
        t.hidden_line = hidden_line;
        let root = t.add_node(Style { size: sz(100.0, 100.0), ..Default::default() }, None);
        let a = t.add_node(Style { display: Display::None, ..Default::default() }, None);
        let b = t.add_node(Style { size: sz(50.0, 50.0), ..Default::default() }, None);
        let c = t.add_node(Style { size: sz(20.0, 20.0), ..Default::default() }, None);
        for (p, k) in [(root, a), (a, b), (b, c)] {
            t.nodes[k].parent = Some(p);
            t.nodes[p].children.push(k);
        }
        if with_d {
            let d = t.add_node(Style::default(), Some(Ctx::Fixed(7.0, 7.0)));
            t.nodes[d].parent = Some(a);
            t.nodes[a].children.push(d);
        }
        t
    };
    let avail = Size { width: AvailableSpace::Definite(200.0), height: AvailableSpace::Definite(200.0) };
    for (name, with_d, hidden_line) in [
        ("documented pattern + hidden-mode line", true, true),
        ("examples followed literally, container below display:none", false, false),
        ("examples followed literally, measured leaf below display:none", true, false),
    ] {
        let mut t = build_tree(with_d, hidden_line);
        let r = std::panic::catch_unwind(std::panic::AssertUnwindSafe(|| t.compute_layout(0, avail)));
        let desc = |k: usize| format!("{}x{}@({},{})", t.nodes[k].unrounded_layout.size.width, t.nodes[k].unrounded_layout.size.height, t.nodes[k].unrounded_layout.location.x, t.nodes[k].unrounded_layout.location.y);
        println!(
            "TRAP {name}: {} A={} B={} C={} B.cache_empty={}",
            if r.is_ok() { "ok" } else { "PANIC" },
            desc(1),
            desc(2),
            desc(3),
            t.nodes[2].cache.is_empty()
        );
    }
    // the same on TaffyTree
    let mut tt: TaffyTree<Ctx> = TaffyTree::new();
    let c = tt.new_leaf(Style { size: sz(20.0, 20.0), ..Default::default() }).unwrap();
    let b = tt.new_with_children(Style { size: sz(50.0, 50.0), ..Default::default() }, &[c]).unwrap();
    let d = tt.new_leaf_with_context(Style::default(), Ctx::Fixed(7.0, 7.0)).unwrap();
    let a = tt.new_with_children(Style { display: Display::None, ..Default::default() }, &[b, d]).unwrap();
    let root = tt.new_with_children(Style { size: sz(100.0, 100.0), ..Default::default() }, &[a]).unwrap();
    compute(&mut tt, root, avail);
    println!("TRAP TaffyTree: B={:?} C={:?}", tt.unrounded_layout(b).size, tt.unrounded_layout(c).size);
}

pub fn main(args: &[String]) {
    if std::env::var("VH_PANIC").is_err() {
        std::panic::set_hook(Box::new(|_| {}));
    }
    match args[0].as_str() {
        "oracle" => {
            let seed: u64 = args[1].parse().unwrap();
            let start: u64 = args[2].parse().unwrap();
            let n: u64 = args[3].parse().unwrap();
            let exact = args.get(4).map(|s| s == "1").unwrap_or(false);
            let (mut layouts, mut cf, mut skipped, mut known) = (0u64, 0u64, 0u64, 0u64);
            // measured coverage: distinct cases with at least two nodes; cases with a display:none node that has children
            let mut distinct = std::collections::HashSet::new();
            let mut hidden_sub = 0u64;
            fn has_hidden_parent(s: &NodeSpec) -> bool {
                (s.style.display == Display::None && !s.children.is_empty()) || s.children.iter().any(has_hidden_parent)
            }
            for idx in start..start + n {
                let case = gen_case(seed, idx);
                if case.spec.count() >= 2 {
                    use std::hash::{Hash, Hasher};
                    let mut h = std::collections::hash_map::DefaultHasher::new();
                    format!("{:?} {:?}", case.spec, case.passes).hash(&mut h);
                    distinct.insert(h.finish());
                }
                if has_hidden_parent(&case.spec) {
                    hidden_sub += 1;
                }
                match std::panic::catch_unwind(|| run_case(seed, idx, exact, false)) {
                    Ok(o) => {
                        layouts += o.layouts;
                        cf += o.cachefree;
                        if o.skipped {
                            skipped += 1;
                            println!("SKIP {idx} {}", o.log.join("; "));
                        }
                        for m in o.known.iter().take(1) {
                            known += 1;
                            println!("KNOWN {idx} scribble {}", m.replace('\n', " "));
                        }
                        for m in o.fails.iter().take(1) {
                            println!("FAIL {idx} {}", m.replace('\n', " "));
                        }
                    }
                    Err(_) => println!("FAIL {idx} harness panic outside the layout calls"),
                }
            }
            println!("DONE {n} {layouts} {cf} {skipped} {known} {} {hidden_sub}", distinct.len());
        }
        "one" => {
            let seed: u64 = args[1].parse().unwrap();
            let idx: u64 = args[2].parse().unwrap();
            let exact = args.get(3).map(|s| s == "1").unwrap_or(false);
            let o = run_case(seed, idx, exact, true);
            for l in &o.log {
                println!("{l}");
            }
            for m in &o.known {
                println!("KNOWN {idx} scribble {m}");
            }
            for m in &o.fails {
                println!("FAIL {idx} {m}");
            }
            println!("layouts compared {} cache-free passes {} skipped {}", o.layouts, o.cachefree, o.skipped);
        }
        "cases" => {
            let seed: u64 = args[1].parse().unwrap();
            let n: u64 = args[2].parse().unwrap();
            let mut nd = 0;
            for idx in 0..n {
                let (c, r, diffs) = run_history(seed, idx);
                println!("C {}", c.iter().map(|x| x.to_string()).collect::<Vec<_>>().join(" "));
                println!("R {}", r.iter().map(|x| x.to_string()).collect::<Vec<_>>().join(" "));
                for d in diffs.iter().take(2) {
                    nd += 1;
                    println!("KDIFF {idx} {}", d.replace('\n', " "));
                }
            }
            println!("KDONE {n} {nd}");
        }
        "trap" => trap(),
        _ => std::process::exit(2),
    }
}
