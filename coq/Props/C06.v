(* C06 -- absolutely positioned children influence nothing outside their subtree (except the container's content size
   and paint order).  Statements only.

   GRID placement (Model/Placement.v; tables regenerated from the source on every run):
     C06_grid_never_placed                 absolute children are never placed, whatever their styles
     C06_grid_estimate_absolute_refuted    but the size estimate READS their grid_row / grid_column: an absolute child with
                                           `grid_row: 4` on an empty explicit grid changes the reported track counts (1 -> 4
                                           implicit rows; with grid-auto-rows: 7px the container grows 7 -> 28 px); even its
                                           mere presence creates a track.  Known finding C06/grid-estimate-absolute.
     C06_grid_known_class                  outside the known class nothing changes: if the placement of every absolute child
                                           is `harmless` (per axis: lines inside the explicit grid, 1 <= span <= max(explicit, 1);
                                           auto/auto is), neutralising the absolute children -- or replacing their styles by
                                           any other harmless ones -- leaves the whole placement result unchanged.
   ENGINE (Model/Engine.v), for every algorithm that is AbsBlind (interface hypothesis, validated on the implementation by the
   metamorphic oracle `vh c06 oracle`; refuted for the grid algorithm exactly on the known class):
     C06_abs_blind_engine (+ _layouts)     two trees that coincide up to oeq/leq (= up to content size / order) outside the
                                           subtrees of out-of-flow nodes stay so through any evaluation; every node that is
                                           not itself out of flow returns oeq outputs and keeps leq stored layouts. *)
From Coq Require Import List Bool Arith NArith ZArith Lia.
From TV Require Import Model.Engine Model.EngineToy Proofs.EngineMemo Proofs.EngineBlind Proofs.EngineAbs Proofs.EngineAbsToy.
From TV Require Import Model.PlacementBase Gen.PlacementGen Model.Placement Proofs.PlacementBlind.
Import ListNotations.

(* ---------------------------------------------------------------------------------------------- grid placement *)

Theorem C06_grid_never_placed :
  forall (children children' : list (child_kind * child)),
    Forall2 (same_but Absolute (fun _ _ => True)) children children' ->
    in_flow_children children = in_flow_children children' /\
    in_flow_children (map (neutralise Absolute) children) = in_flow_children children.
Proof.
  intros l l' H. split; [apply (in_flow_same Absolute (fun _ _ => True)); [discriminate|exact H]|].
  apply in_flow_neutralise_absolute.
Qed.

Theorem C06_grid_estimate_absolute_refuted :
  exists ec er fl (children : list (child_kind * child)) o o' o'',
    Forall (fun kc => fst kc = Absolute) children /\
    grid_placement_run ec er fl children = Ok o /\
    grid_placement_run ec er fl (map (neutralise Absolute) children) = Ok o' /\
    grid_placement_run ec er fl [] = Ok o'' /\
    o_items o = [] /\ o_items o' = [] /\
    o_rows o = mkTC 0 0 4 /\ o_rows o' = mkTC 0 0 1 /\ o_rows o'' = mkTC 0 0 0.
Proof.
  destruct abs_line_changes_counts as [[o [E1 [I1 [R1 _]]]] [[o' [E2 [R2 _]]] [o'' [E3 [R3 _]]]]].
  exists 0%Z, 0%Z, FRow, abs_line4, o, o', o''.
  split; [repeat constructor|]. split; [exact E1|]. split; [exact E2|]. split; [exact E3|].
  split; [exact I1|]. split; [|repeat split; assumption].
  revert E2. vm_compute. intros E. injection E as <-. reflexivity.
Qed.

(* with an in-flow sibling: its area is reported identically, the track counts (hence the container) differ *)
Theorem C06_grid_estimate_absolute_refuted_sibling :
  exists o o', grid_placement_run 0 0 FRow abs_line4_sibling = Ok o /\
               grid_placement_run 0 0 FRow (map (neutralise Absolute) abs_line4_sibling) = Ok o' /\
               o_items o = o_items o' /\ o_rows o = mkTC 0 0 4 /\ o_rows o' = mkTC 0 0 1.
Proof. exact abs_line_changes_counts_sibling. Qed.

Theorem C06_grid_known_class :
  forall ec er fl (children children' : list (child_kind * child)),
    (0 <= ec < 32768)%Z -> (0 <= er < 32768)%Z ->
    (Forall2 (same_but Absolute (fun c c' => harmless ec er c /\ harmless ec er c')) children children' ->
     grid_placement_run ec er fl children = grid_placement_run ec er fl children') /\
    (Forall (fun kc => fst kc = Absolute -> harmless ec er (snd kc)) children ->
     grid_placement_run ec er fl (map (neutralise Absolute) children) = grid_placement_run ec er fl children) /\
    harmless ec er auto_child.
Proof.
  intros ec er fl l l' Hec Her. split; [apply run_ignores_harmless_absolute_styles; assumption|].
  split; [apply run_neutralise_harmless_absolute; assumption|apply auto_child_harmless; lia].
Qed.

(* the class has members beyond auto/auto, and the witness of the refutation is outside it *)
Example C06_grid_known_class_examples :
  harmless 3 2 (mkChild (mkLn (Line 1) (Line 3)) (mkLn (Line (-2)) (Span 1))) /\
  harmless 3 2 (mkChild (mkLn Auto (Span 2)) (mkLn (Span 3) Auto)) /\
  ~ harmless 3 2 (mkChild (mkLn (Line 4) Auto) (mkLn Auto Auto)) /\
  ~ harmless 0 0 (mkChild (mkLn Auto Auto) (mkLn (Span 2) Auto)).
Proof. exact harmless_examples. Qed.

(* ---------------------------------------------------------------------------------------------- engine *)

Theorem C06_abs_blind_engine :
  forall (S In Out Lay : Type) (mode : In -> RunMode) (in_eqb : In -> In -> bool) (is_none : S -> bool)
         (hidden_out : Out) (zero_lay : Lay) (algo : S -> list S -> In -> Alg In Out Lay)
         (ab : S -> bool) (oeq : Out -> Out -> Prop) (leq : Lay -> Lay -> Prop),
    (forall o, oeq o o) -> (forall l, leq l l) ->
    AbsBlind S In Out Lay algo ab oeq leq ->
    forall f f' t t' i o t1 o' t1',
      asim S In Out Lay ab oeq leq t t' ->
      memo S In Out Lay mode in_eqb is_none hidden_out zero_lay algo f t i = Some (o, t1) ->
      memo S In Out Lay mode in_eqb is_none hidden_out zero_lay algo f' t' i = Some (o', t1') ->
      asim S In Out Lay ab oeq leq t1 t1' /\ (ab (style_of S In Out Lay t) = false -> oeq o o').
Proof.
  intros until leq. intros Ho Hl HB f f' t t' i o t1 o' t1' H E E'.
  eapply (memo_asim S In Out Lay mode in_eqb is_none hidden_out zero_lay algo ab oeq leq Ho Hl HB f f'); eauto.
Qed.

(* asim read pointwise: along a path without out-of-flow nodes (end included) both trees have a node, same style, leq layouts;
   and a tree is related to itself, so the relation can be started from a pair of fresh trees that differ only below
   out-of-flow nodes *)
Theorem C06_abs_blind_layouts :
  forall (S In Out Lay : Type) (ab : S -> bool) (oeq : Out -> Out -> Prop) (leq : Lay -> Lay -> Prop)
         (t t' : tree S In Out Lay) p u,
    asim S In Out Lay ab oeq leq t t' -> in_flow_path S In Out Lay ab t p -> subtree S In Out Lay t p = Some u ->
    exists u', subtree S In Out Lay t' p = Some u' /\ leq (lay_of S In Out Lay u) (lay_of S In Out Lay u') /\
               style_of S In Out Lay u' = style_of S In Out Lay u.
Proof. intros until u. apply asim_at. Qed.

(* the hypotheses are satisfiable, and the conclusion is visible on a concrete pair: an absolute container with a child
   vs. a bare absolute leaf between two in-flow leaves: same container size 31, same in-flow positions 1 and 11, different
   content sizes *)
Example C06_hypotheses_satisfiable :
  AbsBlind AS TIn AOut ALay a_algo a_ab a_oeq a_leq /\
  asim AS TIn AOut ALay a_ab a_oeq a_leq a_left a_right /\
  exists o t o' t', a_memo 6 a_left (PerformLayout, 3%N) = Some (o, t) /\ a_memo 6 a_right (PerformLayout, 3%N) = Some (o', t') /\
    fst o = 31%N /\ fst o' = 31%N /\ snd o <> snd o'.
Proof.
  split; [exact a_algo_blind|]. split; [exact a_trees_related|].
  destruct a_run as (o & t & o' & t' & E & E' & A & B & C & _). exists o, t, o', t'. repeat split; assumption.
Qed.

Print Assumptions C06_grid_never_placed.
Print Assumptions C06_grid_estimate_absolute_refuted.
Print Assumptions C06_grid_estimate_absolute_refuted_sibling.
Print Assumptions C06_grid_known_class.
Print Assumptions C06_abs_blind_engine.
Print Assumptions C06_abs_blind_layouts.
