(* Model of src/tree/cache.rs (Cache::new / get / store / clear / is_empty) and of
   AvailableSpace::is_roughly_equal (src/style/available_space.rs), generic in the number structure.
   Definitions only.  `slot`, `CACHE_SIZE`, `avail_kind`, `run_mode` come from Gen/CacheGen.v, which the translator
   regenerates from the Rust source on every run; everything else is transcribed by hand, line by line, and tied to
   the code by the correspondence check (Model/CacheRun.v vs `vh c02 cases`).

   LayoutOutput is modelled as its `size` plus an opaque payload id (N) standing for all other fields
   (content_size, first_baselines, margins): the cache never inspects them.  LayoutOutput::from_outer_size
   gives payload 0; the harness stores payloads >= 1. *)
From Coq Require Import NArith Bool List.
From TV Require Import Num.Num Gen.CacheGen.
Import ListNotations.

Definition is_some {A : Type} (o : option A) : bool := match o with Some _ => true | None => false end.

(* `arr[i] = x`; an index out of bounds panics in Rust -- `slot_lt_9` shows it is never out of bounds *)
Fixpoint set_nth {A : Type} (n : nat) (x : A) (l : list A) : list A :=
  match l, n with
  | [], _ => []
  | _ :: r, O => x :: r
  | a :: r, S n' => a :: set_nth n' x r
  end.

Inductive clear_state := Cleared | AlreadyEmpty.

(* ---- the nine slot classes named in the doc comment of compute_cache_slot, written by hand from the comment
   (the specification `slot` -- generated from the code -- is compared with in `slot_separates`) *)
Inductive doc_class :=
| BothKnown                      (* Slot 0: both known_dimensions were set *)
| WidthKnown_MaxOrDefinite       (* Slot 1: width but not height known, the other dimension MaxContent or Definite *)
| WidthKnown_MinContent          (* Slot 2: width but not height known, the other dimension MinContent *)
| HeightKnown_MaxOrDefinite      (* Slot 3 *)
| HeightKnown_MinContent         (* Slot 4 *)
| Neither_MaxOrDef_MaxOrDef      (* Slot 5: x-axis MaxContent or Definite, y-axis MaxContent or Definite *)
| Neither_MaxOrDef_Min           (* Slot 6: x-axis MaxContent or Definite, y-axis MinContent *)
| Neither_Min_MaxOrDef           (* Slot 7 *)
| Neither_Min_Min.               (* Slot 8 *)

Definition is_min (a : avail_kind) : bool := match a with KMinContent => true | _ => false end.

Definition class_of (hw hh : bool) (aw ah : avail_kind) : doc_class :=
  match hw, hh with
  | true, true => BothKnown
  | true, false => if is_min ah then WidthKnown_MinContent else WidthKnown_MaxOrDefinite
  | false, true => if is_min aw then HeightKnown_MinContent else HeightKnown_MaxOrDefinite
  | false, false =>
      match is_min aw, is_min ah with
      | false, false => Neither_MaxOrDef_MaxOrDef
      | false, true => Neither_MaxOrDef_Min
      | true, false => Neither_Min_MaxOrDef
      | true, true => Neither_Min_Min
      end
  end.

Definition class_index (c : doc_class) : N :=
  match c with
  | BothKnown => 0 | WidthKnown_MaxOrDefinite => 1 | WidthKnown_MinContent => 2 | HeightKnown_MaxOrDefinite => 3
  | HeightKnown_MinContent => 4 | Neither_MaxOrDef_MaxOrDef => 5 | Neither_MaxOrDef_Min => 6 | Neither_Min_MaxOrDef => 7
  | Neither_Min_Min => 8
  end%N.

Section CacheModel.
  Context {T : Type} `{Num T}.

  Inductive avail := MinContent | MaxContent | Definite (v : T).
  Definition kind_of (a : avail) : avail_kind :=
    match a with MinContent => KMinContent | MaxContent => KMaxContent | Definite _ => KDefinite end.

  Record size := { width : T; height : T }.
  Record output := { o_size : size; o_payload : N }.
  (* the two Size<..> arguments every cache call takes *)
  Record key := { kd_w : option T; kd_h : option T; av_w : avail; av_h : avail }.
  (* CacheEntry<C> *)
  Record entry (C : Type) := { e_key : key; e_content : C }.
  Arguments e_key {C}. Arguments e_content {C}.

  Record cache := {
    final : option (entry output);           (* final_layout_entry *)
    meas : list (option (entry size));       (* measure_entries, length CACHE_SIZE *)
    is_empty_flag : bool                     (* is_empty (private field) *)
  }.

  (* abs(a - b) < f32::EPSILON *)
  Definition roughly (a b : T) : bool := ltb (fabs (sub a b)) epsilon.

  (* AvailableSpace::is_roughly_equal(self, other) *)
  Definition is_roughly_equal (a b : avail) : bool :=
    match a, b with
    | Definite x, Definite y => roughly x y
    | MinContent, MinContent => true
    | MaxContent, MaxContent => true
    | _, _ => false
    end.

  (* the condition of the filter / if in Cache::get; k = query, ek = entry.known_dimensions/available_space,
     cs = cached_size.  `==` on Option<f32> is the derived PartialEq (Num.opt_eqb). *)
  Definition compat (k ek : key) (cs : size) : bool :=
    (opt_eqb (kd_w k) (kd_w ek) || opt_eqb (kd_w k) (Some (width cs)))
    && (opt_eqb (kd_h k) (kd_h ek) || opt_eqb (kd_h k) (Some (height cs)))
    && (is_some (kd_w k) || is_roughly_equal (av_w ek) (av_w k))
    && (is_some (kd_h k) || is_roughly_equal (av_h ek) (av_h k)).

  Definition slot_of_key (k : key) : N :=
    slot (is_some (kd_w k)) (is_some (kd_h k)) (kind_of (av_w k)) (kind_of (av_h k)).

  Definition empty_meas : list (option (entry size)) := repeat None (N.to_nat CACHE_SIZE).

  Definition new : cache := {| final := None; meas := empty_meas; is_empty_flag := true |}.

  Definition from_outer_size (s : size) : output := {| o_size := s; o_payload := 0 |}.

  (* for entry in self.measure_entries.iter().flatten() { if <compat> { return Some(..) } }  None *)
  Fixpoint find_compat (k : key) (es : list (option (entry size))) : option size :=
    match es with
    | [] => None
    | None :: r => find_compat k r
    | Some e :: r => if compat k (e_key e) (e_content e) then Some (e_content e) else find_compat k r
    end.

  Definition get (c : cache) (k : key) (m : run_mode) : option output :=
    match m with
    | PerformLayout =>
        match final c with
        | Some e => if compat k (e_key e) (o_size (e_content e)) then Some (e_content e) else None
        | None => None
        end
    | ComputeSize => option_map from_outer_size (find_compat k (meas c))
    | PerformHiddenLayout => None
    end.

  Definition store (c : cache) (k : key) (m : run_mode) (o : output) : cache :=
    match m with
    | PerformLayout =>
        {| final := Some {| e_key := k; e_content := o |}; meas := meas c; is_empty_flag := false |}
    | ComputeSize =>
        {| final := final c;
           meas := set_nth (N.to_nat (slot_of_key k)) (Some {| e_key := k; e_content := o_size o |}) (meas c);
           is_empty_flag := false |}
    | PerformHiddenLayout => c
    end.

  Definition clear (c : cache) : cache * clear_state :=
    if is_empty_flag c then (c, AlreadyEmpty)
    else ({| final := None; meas := empty_meas; is_empty_flag := true |}, Cleared).

  (* pub fn is_empty(&self): structural, does not read the flag *)
  Definition is_empty (c : cache) : bool :=
    negb (is_some (final c)) && negb (existsb is_some (meas c)).

  (* ---- histories *)
  Inductive op :=
  | OGet (k : key) (m : run_mode)
  | OStore (k : key) (m : run_mode) (o : output)
  | OClear.

  Definition step (c : cache) (o : op) : cache :=
    match o with
    | OGet _ _ => c
    | OStore k m out => store c k m out
    | OClear => fst (clear c)
    end.

  Definition run_from (c : cache) (ops : list op) : cache := fold_left step ops c.
  Definition run (ops : list op) : cache := run_from new ops.
  (* ---- specification vocabulary used by the theorems *)

  (* the operation `OStore k m o` occurs in the history and no clear follows it *)
  Definition stored_live (ops : list op) (k : key) (m : run_mode) (o : output) : Prop :=
    exists pre post, ops = pre ++ OStore k m o :: post /\ Forall (fun x => x <> OClear) post.

  (* what a hit returns for an entry written by `store .. m so` *)
  Definition out_of (m : run_mode) (so : output) : output :=
    match m with PerformLayout => so | _ => from_outer_size (o_size so) end.

  Definition all_none (c : cache) : Prop := final c = None /\ Forall (fun e => e = None) (meas c).

  (* the key matches itself under the lookup predicate (irreflexive float values excluded, see refl_key) *)
  Definition self_compat (k : key) : Prop :=
    opt_eqb (kd_w k) (kd_w k) = true /\ opt_eqb (kd_h k) (kd_h k) = true /\
    (kd_w k = None -> is_roughly_equal (av_w k) (av_w k) = true) /\
    (kd_h k = None -> is_roughly_equal (av_h k) (av_h k) = true).

  (* known dimensions satisfy `nonnan`; on an axis without known dimension a definite available space satisfies `fin` *)
  Definition refl_key (nonnan fin : T -> Prop) (k : key) : Prop :=
    (forall x, kd_w k = Some x -> nonnan x) /\ (forall x, kd_h k = Some x -> nonnan x) /\
    (kd_w k = None -> forall v, av_w k = Definite v -> fin v) /\
    (kd_h k = None -> forall v, av_h k = Definite v -> fin v).

  (* an operation that does not displace the result stored under key k in mode m *)
  Definition no_displace (k : key) (m : run_mode) (x : op) : Prop :=
    match x with
    | OClear => False
    | OGet _ _ => True
    | OStore k' m' _ =>
        match m, m' with
        | PerformLayout, PerformLayout => False
        | ComputeSize, ComputeSize => slot_of_key k' <> slot_of_key k
        | _, _ => True
        end
    end.
End CacheModel.

Arguments avail T : clear implicits.
Arguments size T : clear implicits.
Arguments output T : clear implicits.
Arguments key T : clear implicits.
Arguments entry T C : clear implicits.
Arguments cache T : clear implicits.
Arguments op T : clear implicits.
Arguments e_key {T C}.
Arguments e_content {T C}.
