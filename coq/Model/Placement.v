(* Executable model of taffy's grid item placement in CHECKED machine arithmetic (definitions only).

   Hand-transcribed from (normalised token text fingerprinted by translator/gen_placement.py, keys `hand:*`):
     src/compute/grid/implicit_grid.rs   compute_grid_size_estimate, get_known_child_positions
     src/compute/grid/types/cell_occupancy.rs   CellOccupancyMatrix::{with_track_counts, is_area_in_range, expand_to_fit_range,
                                         mark_area_as, line_area_is_unoccupied, track_area_is_unoccupied, track_counts, last_of_type}
     src/compute/grid/placement.rs       place_grid_items (3 phases), place_definite_grid_item, place_definite_secondary_axis_item,
                                         place_indefinitely_positioned_item, record_grid_placement
     src/compute/grid/track_sizing.rs    resolve_item_track_indexes
     src/compute/grid/mod.rs             the placement section of compute_grid_layout (estimate over all box-generating children, placement over
                                         the in-flow children, sort by source order) and DetailedGridItemsInfo::from_grid_item
   Every table / conversion helper comes from Gen/PlacementGen.v (regenerated from the source on every run).

   Result conventions: [Err Overflow] = `attempt to add/subtract/... with overflow` (debug) / silent wrap (release);
   [Err OutOfBounds] = unwrap on None / Grid row or column index assertion; [Err Panic] = panic!/assert!;
   [Err NegativeExpansion] = expand_to_fit_range asked to grow the matrix towards negative indices: in the Rust the
   requested count `min(start, 0)` is negative and is cast `as usize`, giving a count near 2^64 -- the build then
   panics (`old + huge` / `huge * new_col_count` overflow, capacity overflow), aborts on allocation, or (release)
   corrupts the matrix; [Err OutOfFuel] = a search `loop` did not finish within its termination bound (a hang). *)
From Coq Require Import ZArith Bool List.
From TV Require Import Model.PlacementBase Gen.PlacementGen.
Import ListNotations.
Open Scope Z_scope.

(* ---------------------------------------------------------------------------------------------- small helpers *)

Fixpoint foldM {A S} (f : S -> A -> res S) (l : list A) (s : S) : res S :=
  match l with
  | [] => Ok s
  | x :: t => do s' <- f s x; foldM f t s'
  end.

(* lo, lo+1, ..., hi-1 : a Rust `lo..hi` over i16 (empty when hi <= lo) *)
Definition zrange (lo hi : Z) : list Z := map (fun i => lo + Z.of_nat i) (seq 0 (Z.to_nat (hi - lo))).

Fixpoint mapi_from {A B} (f : Z -> A -> B) (i : Z) (l : list A) : list B :=
  match l with
  | [] => []
  | x :: t => f i x :: mapi_from f (i + 1) t
  end.

Definition in_rng (i : Z) (r : Z * Z) : bool := (fst r <=? i) && (i <? snd r).

(* ---------------------------------------------------------------------------------------------- styles *)

(* a grid child's placement style: grid_row, grid_column (GridLine coordinates) *)
Record child := mkChild { c_row : Ln GP; c_col : Ln GP }.

(* GridItemStyle::grid_placement *)
Definition grid_placement (c : child) (a : axis) : Ln GP :=
  match a with Horizontal => c_col c | Vertical => c_row c end.

(* InBothAbsAxis<Line<OriginZeroGridPlacement>> and ::get *)
Record both := mkBoth { b_horizontal : Ln GP; b_vertical : Ln GP }.
Definition both_get (b : both) (a : axis) : Ln GP :=
  match a with Horizontal => b_horizontal b | Vertical => b_vertical b end.

(* ---------------------------------------------------------------------------------------------- size estimate *)

Definition known_positions := (Z * Z * Z * Z * Z * Z)%type.

Definition get_known_child_positions (children : list child) (explicit_col_count explicit_row_count : Z)
  : res known_positions :=
  foldM (fun '(col_min, col_max, col_max_span, row_min, row_max, row_max_span) c =>
           do '(child_col_min, child_col_max, child_col_span) <- child_min_line_max_line_span (c_col c) explicit_col_count;
           do '(child_row_min, child_row_max, child_row_span) <- child_min_line_max_line_span (c_row c) explicit_row_count;
           Ok (Z.min col_min child_col_min, Z.max col_max child_col_max, Z.max col_max_span child_col_span,
               Z.min row_min child_row_min, Z.max row_max child_row_max, Z.max row_max_span child_row_span))
        children (0, 0, 0, 0, 0, 0).

(* one axis of compute_grid_size_estimate *)
Definition estimate_axis (lmin lmax max_span explicit : Z) : res TrackCounts :=
  let negative_implicit := implied_negative_implicit_tracks lmin in
  do positive_implicit <- implied_positive_implicit_tracks lmax explicit;
  do t <- u16_add negative_implicit explicit;
  do tot <- u16_add t positive_implicit;
  do positive_implicit' <- (if tot <? max_span
                            then (do a <- u16_sub max_span explicit; u16_sub a negative_implicit)
                            else Ok positive_implicit);
  Ok (mkTC negative_implicit explicit positive_implicit').

(* returns (column_counts, row_counts) *)
Definition compute_grid_size_estimate (explicit_col_count explicit_row_count : Z) (children : list child)
  : res (TrackCounts * TrackCounts) :=
  do '(col_min, col_max, col_max_span, row_min, row_max, row_max_span)
     <- get_known_child_positions children explicit_col_count explicit_row_count;
  do column_counts <- estimate_axis col_min col_max col_max_span explicit_col_count;
  do row_counts <- estimate_axis row_min row_max row_max_span explicit_row_count;
  Ok (column_counts, row_counts).

(* ---------------------------------------------------------------------------------------------- occupancy matrix *)

(* grid::Grid<CellOccupancyState> as a list of rows; Grid::new / Grid::from_vec store a 0 x 0 grid when either dimension is 0 *)
Definition grid := list (list cell).

Definition grid_rows (g : grid) : Z := Z.of_nat (length g).
Definition grid_cols (g : grid) : Z := match g with [] => 0 | r :: _ => Z.of_nat (length r) end.

Definition grid_norm (rows cols : Z) (g : grid) : grid := if (rows =? 0) || (cols =? 0) then [] else g.

Definition grid_new (rows cols : Z) : grid :=
  grid_norm rows cols (repeat (repeat Unoccupied (Z.to_nat cols)) (Z.to_nat rows)).

(* Grid::get with usize indices (a negative i16 cast `as usize` is >= 2^63 and therefore out of bounds) *)
Definition grid_get (g : grid) (r c : Z) : option cell :=
  if (0 <=? r) && (r <? grid_rows g) && (0 <=? c) && (c <? grid_cols g)
  then nth_error (nth (Z.to_nat r) g []) (Z.to_nat c)
  else None.

Record matrix := mkM { m_inner : grid; m_cols : TrackCounts; m_rows : TrackCounts }.

Definition with_track_counts (columns rows : TrackCounts) : res matrix :=
  do rl <- tc_len rows;
  do cl <- tc_len columns;
  Ok (mkM (grid_new rl cl) columns rows).

Definition track_counts (m : matrix) (a : axis) : TrackCounts :=
  match a with Horizontal => m_cols m | Vertical => m_rows m end.

Definition is_area_in_range (m : matrix) (primary_axis : axis) (primary_range secondary_range : Z * Z) : res bool :=
  do out1 <- (if fst primary_range <? 0 then Ok true
              else (do l <- tc_len (track_counts m primary_axis); Ok (snd primary_range >? usize_as_i16 l)));
  if out1 then Ok false else
  do out2 <- (if fst secondary_range <? 0 then Ok true
              else (do l <- tc_len (track_counts m (other_axis primary_axis)); Ok (snd secondary_range >? usize_as_i16 l)));
  if out2 then Ok false else Ok true.

(* the copy loop `for row in 0..old_row_count { for col in 0..old_col_count { data.push( *self.inner.get(row, col).unwrap() ) } .. }` *)
Definition copy_row (g : grid) (old_col_count req_positive_cols : Z) (row : Z) : res (list cell) :=
  do old <- foldM (fun acc col => do x <- (match grid_get g row col with
                                           | Some x => Ok x
                                           | None => Err OutOfBounds
                                           end); Ok (acc ++ [x])) (zrange 0 old_col_count) [];
  Ok (old ++ repeat Unoccupied (Z.to_nat req_positive_cols)).

Definition expand_to_fit_range (m : matrix) (row_range col_range : Z * Z) : res matrix :=
  let req_negative_rows := Z.min (fst row_range) 0 in
  do rl <- tc_len (m_rows m);
  do dr <- i16_sub (snd row_range) (usize_as_i16 rl);
  let req_positive_rows := Z.max dr 0 in
  let req_negative_cols := Z.min (fst col_range) 0 in
  do cl <- tc_len (m_cols m);
  do dc <- i16_sub (snd col_range) (usize_as_i16 cl);
  let req_positive_cols := Z.max dc 0 in
  let old_row_count := rl in
  let old_col_count := cl in
  do sr <- i16_add req_negative_rows req_positive_rows;
  do sc <- i16_add req_negative_cols req_positive_cols;
  (* `(req_negative_rows + req_positive_rows) as usize`, `req_negative_rows as usize * new_col_count`, `0..req_negative_cols`:
     with a negative request the casts give counts near 2^64 (see the header); the model stops here *)
  if (req_negative_rows <? 0) || (req_negative_cols <? 0) then Err NegativeExpansion else
  do new_row_count <- usize_add old_row_count (i16_as_usize sr);
  do new_col_count <- usize_add old_col_count (i16_as_usize sc);
  do _capacity <- usize_mul new_row_count new_col_count;
  do negative_cells <- usize_mul (i16_as_usize req_negative_rows) new_col_count;
  do positive_cells <- usize_mul (i16_as_usize req_positive_rows) new_col_count;
  do existing <- foldM (fun acc row => do r <- copy_row (m_inner m) old_col_count req_positive_cols row; Ok (acc ++ [r]))
                       (zrange 0 old_row_count) [];
  (* negative_cells = 0 here; the flat `data` vector chunked by new_col_count (Grid::from_vec) is this list of rows *)
  let data := existing ++ repeat (repeat Unoccupied (Z.to_nat new_col_count)) (Z.to_nat req_positive_rows) in
  do rneg <- u16_add (tc_neg (m_rows m)) (i16_as_u16 req_negative_rows);
  do rpos <- u16_add (tc_pos (m_rows m)) (i16_as_u16 req_positive_rows);
  do cneg <- u16_add (tc_neg (m_cols m)) (i16_as_u16 req_negative_cols);
  do cpos <- u16_add (tc_pos (m_cols m)) (i16_as_u16 req_positive_cols);
  Ok (mkM (grid_norm new_row_count new_col_count data)
          (mkTC cneg (tc_explicit (m_cols m)) cpos)
          (mkTC rneg (tc_explicit (m_rows m)) rpos)).

(* `for x in row_range { for y in col_range { self.inner.get_mut(x as usize, y as usize).unwrap() := value } }` *)
Definition set_area (g : grid) (row_range col_range : Z * Z) (value : cell) : res grid :=
  if (snd row_range <=? fst row_range) || (snd col_range <=? fst col_range) then Ok g
  else if (0 <=? fst row_range) && (snd row_range <=? grid_rows g) && (0 <=? fst col_range) && (snd col_range <=? grid_cols g)
  then Ok (mapi_from (fun i row => if in_rng i row_range
                                   then mapi_from (fun j c => if in_rng j col_range then value else c) 0 row
                                   else row) 0 g)
  else Err OutOfBounds.

Definition mark_area_as (m : matrix) (primary_axis : axis) (primary_span secondary_span : Ln Z) (value : cell) : res matrix :=
  let '(row_span, column_span) := match primary_axis with
                                  | Horizontal => (secondary_span, primary_span)
                                  | Vertical => (primary_span, secondary_span)
                                  end in
  do col_range <- oz_line_range_to_track_range (m_cols m) column_span;
  do row_range <- oz_line_range_to_track_range (m_rows m) row_span;
  do is_in_range <- is_area_in_range m Horizontal col_range row_range;
  do '(m1, col_range1, row_range1) <-
     (if is_in_range then Ok (m, col_range, row_range)
      else (do m1 <- expand_to_fit_range m row_range col_range;
            do c1 <- oz_line_range_to_track_range (m_cols m1) column_span;
            do r1 <- oz_line_range_to_track_range (m_rows m1) row_span;
            Ok (m1, c1, r1)));
  do g <- set_area (m_inner m1) row_range1 col_range1 value;
  Ok (mkM g (m_cols m1) (m_rows m1)).

Definition cell_free (o : option cell) : bool :=
  match o with None | Some Unoccupied => true | _ => false end.

Definition track_area_is_unoccupied (m : matrix) (primary_axis : axis) (primary_range secondary_range : Z * Z) : bool :=
  let '(row_range, col_range) := match primary_axis with
                                 | Horizontal => (secondary_range, primary_range)
                                 | Vertical => (primary_range, secondary_range)
                                 end in
  forallb (fun x => forallb (fun y => cell_free (grid_get (m_inner m) (i16_as_usize x) (i16_as_usize y)))
                            (zrange (fst col_range) (snd col_range)))
          (zrange (fst row_range) (snd row_range)).

Definition line_area_is_unoccupied (m : matrix) (primary_axis : axis) (primary_span secondary_span : Ln Z) : res bool :=
  do primary_range <- oz_line_range_to_track_range (track_counts m primary_axis) primary_span;
  do secondary_range <- oz_line_range_to_track_range (track_counts m (other_axis primary_axis)) secondary_span;
  Ok (track_area_is_unoccupied m primary_axis primary_range secondary_range).

(* Iterator::rposition *)
Fixpoint rposition_from (kind : cell) (l : list cell) (i : Z) (acc : option Z) : option Z :=
  match l with
  | [] => acc
  | x :: t => rposition_from kind t (i + 1) (if cell_eqb x kind then Some i else acc)
  end.
Definition rposition (kind : cell) (l : list cell) : option Z := rposition_from kind l 0 None.

Definition last_of_type (m : matrix) (track_type : axis) (start_at : Z) (kind : cell) : res (option Z) :=
  let tcs := track_counts m (other_axis track_type) in
  do track_computed_index <- oz_line_to_next_track tcs start_at;
  let idx := i16_as_usize track_computed_index in
  do maybe_index <- match track_type with
                    | Horizontal => (* iter_row: asserts row < rows *)
                        if idx <? grid_rows (m_inner m)
                        then Ok (rposition kind (nth (Z.to_nat idx) (m_inner m) []))
                        else Err OutOfBounds
                    | Vertical => (* iter_col: asserts col < cols *)
                        if idx <? grid_cols (m_inner m)
                        then Ok (rposition kind (map (fun row => nth (Z.to_nat idx) row Unoccupied) (m_inner m)))
                        else Err OutOfBounds
                    end;
  match maybe_index with
  | None => Ok None
  | Some i => do l <- track_to_prev_oz_line (track_counts m track_type) (usize_as_u16 i); Ok (Some l)
  end.

(* ---------------------------------------------------------------------------------------------- placement *)

(* a placed item: source index, column span, row span (origin-zero lines) *)
Record item := mkItem { i_index : Z; i_col : Ln Z; i_row : Ln Z }.

Definition place_definite_grid_item (placement : both) (primary_axis : axis) : res (Ln Z * Ln Z) :=
  do primary_span <- resolve_definite_grid_lines (both_get placement primary_axis);
  do secondary_span <- resolve_definite_grid_lines (both_get placement (other_axis primary_axis));
  Ok (primary_span, secondary_span).

(* `loop { ...; if does_fit { return } else { position += 1 } }` *)
Fixpoint search_secondary_definite (fuel : nat) (m : matrix) (placement : both) (primary_axis : axis)
         (secondary_axis_placement : Ln Z) (position : Z) : res (Ln Z * Ln Z) :=
  match fuel with
  | O => Err OutOfFuel
  | S fuel' =>
      do primary_axis_placement <- resolve_indefinite_grid_tracks (both_get placement primary_axis) position;
      do does_fit <- line_area_is_unoccupied m primary_axis primary_axis_placement secondary_axis_placement;
      if does_fit then Ok (primary_axis_placement, secondary_axis_placement)
      else (do position' <- ozl_add_u16 position 1;
            search_secondary_definite fuel' m placement primary_axis secondary_axis_placement position')
  end.

Definition place_definite_secondary_axis_item (m : matrix) (placement : both) (auto_flow : flow) : res (Ln Z * Ln Z) :=
  let primary := primary_axis auto_flow in
  let secondary := other_axis primary in
  do secondary_axis_placement <- resolve_definite_grid_lines (both_get placement secondary);
  do primary_axis_grid_start_line <- implicit_start_line (track_counts m primary);
  do starting_position <- (if is_dense auto_flow then Ok primary_axis_grid_start_line
                           else (do lo <- last_of_type m primary (l_start secondary_axis_placement) AutoPlaced;
                                 Ok (match lo with Some l => l | None => primary_axis_grid_start_line end)));
  (* termination: at position = implicit end line every probed cell is out of range, hence unoccupied *)
  do len <- tc_len (track_counts m primary);
  search_secondary_definite (Z.to_nat (len + 2)) m placement primary secondary_axis_placement starting_position.

(* first loop of place_indefinitely_positioned_item (definite primary axis position) *)
Fixpoint search_secondary (fuel : nat) (m : matrix) (primary_axis : axis) (primary_span : Ln Z) (secondary_span : Z)
         (secondary_idx : Z) : res (Ln Z * Ln Z) :=
  match fuel with
  | O => Err OutOfFuel
  | S fuel' =>
      do e <- ozl_add_u16 secondary_idx secondary_span;
      let sspan := mkLn secondary_idx e in
      do free <- line_area_is_unoccupied m primary_axis primary_span sspan;
      if negb free then (do s' <- ozl_add_u16 secondary_idx 1;
                         search_secondary fuel' m primary_axis primary_span secondary_span s')
      else Ok (primary_span, sspan)
  end.

(* second loop (no fixed axis) *)
Fixpoint search_both (fuel : nat) (m : matrix) (primary_axis : axis) (primary_span secondary_span : Z)
         (primary_axis_grid_start_line primary_axis_grid_end_line : Z) (primary_idx secondary_idx : Z) : res (Ln Z * Ln Z) :=
  match fuel with
  | O => Err OutOfFuel
  | S fuel' =>
      do pe <- ozl_add_u16 primary_idx primary_span;
      let pspan := mkLn primary_idx pe in
      do se <- ozl_add_u16 secondary_idx secondary_span;
      let sspan := mkLn secondary_idx se in
      if pe >? primary_axis_grid_end_line
      then (do s' <- ozl_add_u16 secondary_idx 1;
            search_both fuel' m primary_axis primary_span secondary_span primary_axis_grid_start_line primary_axis_grid_end_line
                        primary_axis_grid_start_line s')
      else (do free <- line_area_is_unoccupied m primary_axis pspan sspan;
            if negb free
            then (do p' <- ozl_add_u16 primary_idx 1;
                  search_both fuel' m primary_axis primary_span secondary_span primary_axis_grid_start_line
                              primary_axis_grid_end_line p' secondary_idx)
            else Ok (pspan, sspan))
  end.

Definition place_indefinitely_positioned_item (m : matrix) (placement : both) (auto_flow : flow) (grid_position : Z * Z)
  : res (Ln Z * Ln Z) :=
  let primary := primary_axis auto_flow in
  let primary_placement_style := both_get placement primary in
  let secondary_placement_style := both_get placement (other_axis primary) in
  do secondary_span <- indefinite_span secondary_placement_style;
  let has_definite_primary_axis_position := is_definite_oz primary_placement_style in
  do primary_axis_grid_start_line <- implicit_start_line (track_counts m primary);
  do primary_axis_grid_end_line <- implicit_end_line (track_counts m primary);
  do secondary_axis_grid_start_line <- implicit_start_line (track_counts m (other_axis primary));
  let '(primary_idx, secondary_idx) := grid_position in
  do plen <- tc_len (track_counts m primary);
  do slen <- tc_len (track_counts m (other_axis primary));
  if has_definite_primary_axis_position then
    do primary_span <- resolve_definite_grid_lines primary_placement_style;
    do secondary_idx' <- (if is_dense auto_flow then Ok secondary_axis_grid_start_line
                          else if l_start primary_span <? primary_idx then ozl_add_u16 secondary_idx 1
                               else Ok secondary_idx);
    (* termination: at secondary_idx = implicit end line of the secondary axis the area is out of range *)
    search_secondary (Z.to_nat (slen + 2)) m primary primary_span secondary_span secondary_idx'
  else
    do primary_span <- indefinite_span primary_placement_style;
    (* termination: per secondary index at most plen + 2 probes; beyond the last secondary track the row is free and,
       the estimate having made the primary axis at least as long as the largest span, the first probe fits *)
    search_both (Z.to_nat ((plen + 2) * (slen + 2))) m primary primary_span secondary_span
                primary_axis_grid_start_line primary_axis_grid_end_line primary_idx secondary_idx.

Definition record_grid_placement (m : matrix) (items : list item) (index : Z) (primary_axis : axis)
           (primary_span secondary_span : Ln Z) (placement_type : cell) : res (matrix * list item) :=
  do m' <- mark_area_as m primary_axis primary_span secondary_span placement_type;
  let '(col_span, row_span) := match primary_axis with
                               | Horizontal => (primary_span, secondary_span)
                               | Vertical => (secondary_span, primary_span)
                               end in
  Ok (m', items ++ [mkItem index col_span row_span]).

(* map_child_style_to_origin_zero_placement *)
Definition origin_zero_placement (explicit_col_count explicit_row_count : Z) (c : child) : res both :=
  do h <- into_origin_zero (c_col c) explicit_col_count;
  do v <- into_origin_zero (c_row c) explicit_row_count;
  Ok (mkBoth h v).

Definition phase1_filter (c : Z * child) : bool := is_definite (c_row (snd c)) && is_definite (c_col (snd c)).
Definition phase2_filter (primary secondary : axis) (c : Z * child) : bool :=
  is_definite (grid_placement (snd c) secondary) && negb (is_definite (grid_placement (snd c) primary)).
Definition phase4_filter (secondary : axis) (c : Z * child) : bool :=
  negb (is_definite (grid_placement (snd c) secondary)).

Definition phase1_step (ecc erc : Z) (primary : axis) (st : matrix * list item) (c : Z * child) : res (matrix * list item) :=
  let '(m, items) := st in
  do placement <- origin_zero_placement ecc erc (snd c);
  do '(primary_span, secondary_span) <- place_definite_grid_item placement primary;
  record_grid_placement m items (fst c) primary primary_span secondary_span DefinitelyPlaced.

Definition phase2_step (ecc erc : Z) (auto_flow : flow) (st : matrix * list item) (c : Z * child) : res (matrix * list item) :=
  let '(m, items) := st in
  do placement <- origin_zero_placement ecc erc (snd c);
  do '(primary_span, secondary_span) <- place_definite_secondary_axis_item m placement auto_flow;
  record_grid_placement m items (fst c) (primary_axis auto_flow) primary_span secondary_span AutoPlaced.

Definition phase4_step (ecc erc : Z) (auto_flow : flow) (grid_start_position : Z * Z)
           (st : matrix * list item * (Z * Z)) (c : Z * child) : res (matrix * list item * (Z * Z)) :=
  let '(m, items, grid_position) := st in
  do placement <- origin_zero_placement ecc erc (snd c);
  do '(primary_span, secondary_span) <- place_indefinitely_positioned_item m placement auto_flow grid_position;
  do '(m', items') <- record_grid_placement m items (fst c) (primary_axis auto_flow) primary_span secondary_span AutoPlaced;
  Ok (m', items', if is_dense auto_flow then grid_start_position else (l_end primary_span, l_start secondary_span)).

(* children: the in-flow children with their index among all children *)
Definition place_grid_items (m0 : matrix) (children : list (Z * child)) (auto_flow : flow) : res (matrix * list item) :=
  let primary := primary_axis auto_flow in
  let secondary := other_axis primary in
  let explicit_col_count := tc_explicit (track_counts m0 Horizontal) in
  let explicit_row_count := tc_explicit (track_counts m0 Vertical) in
  (* 1. children with definite positions in both axes *)
  do st1 <- foldM (phase1_step explicit_col_count explicit_row_count primary) (filter phase1_filter children) (m0, []);
  (* 2. remaining children with a definite secondary axis position *)
  do st2 <- foldM (phase2_step explicit_col_count explicit_row_count auto_flow) (filter (phase2_filter primary secondary) children) st1;
  (* 4. the rest *)
  let '(m2, items2) := st2 in
  do primary_neg_tracks <- i16_neg (u16_as_i16 (tc_neg (track_counts m2 primary)));
  do secondary_neg_tracks <- i16_neg (u16_as_i16 (tc_neg (track_counts m2 secondary)));
  let grid_start_position := (primary_neg_tracks, secondary_neg_tracks) in
  do st4 <- foldM (phase4_step explicit_col_count explicit_row_count auto_flow grid_start_position)
                  (filter (phase4_filter secondary) children) (m2, items2, grid_start_position);
  Ok (fst st4).

(* ---------------------------------------------------------------------------------------------- report *)

(* items.sort_by_key(|item| item.source_order): stable insertion sort *)
Fixpoint insert_item (x : item) (l : list item) : list item :=
  match l with
  | [] => [x]
  | y :: t => if i_index x <? i_index y then x :: l else y :: insert_item x t
  end.
Definition sort_items (l : list item) : list item := fold_right insert_item [] l.

(* resolve_item_track_indexes (`... as u16`) followed by DetailedGridItemsInfo::from_grid_item *)
Definition reported_line (counts : TrackCounts) (l : Z) : res Z :=
  do idx <- into_track_vec_index l counts;
  to_one_indexed_grid_line (usize_as_u16 idx).

Record placed := mkPlaced {
  p_index : Z;
  p_row : Ln Z; p_col : Ln Z;                              (* origin-zero lines *)
  p_row_start : Z; p_row_end : Z; p_col_start : Z; p_col_end : Z   (* reported 1-based implicit-grid lines *)
}.

Definition report_item (col_counts row_counts : TrackCounts) (it : item) : res placed :=
  do cs <- reported_line col_counts (l_start (i_col it));
  do ce <- reported_line col_counts (l_end (i_col it));
  do rs <- reported_line row_counts (l_start (i_row it));
  do re <- reported_line row_counts (l_end (i_row it));
  Ok (mkPlaced (i_index it) (i_row it) (i_col it) rs re cs ce).

Fixpoint mapM {A B} (f : A -> res B) (l : list A) : res (list B) :=
  match l with
  | [] => Ok []
  | x :: t => do y <- f x; do ys <- mapM f t; Ok (y :: ys)
  end.

Record outcome := mkOutcome { o_items : list placed; o_cols : TrackCounts; o_rows : TrackCounts }.

(* in-flow: box_generation_mode != None && position != Absolute *)
Inductive child_kind := InFlow | Hidden | Absolute.
Definition is_in_flow (k : child_kind) : bool := match k with InFlow => true | _ => false end.

Fixpoint enumerate_from {A} (i : Z) (l : list A) : list (Z * A) :=
  match l with
  | [] => []
  | x :: t => (i, x) :: enumerate_from (i + 1) t
  end.

Definition in_flow_children (children : list (child_kind * child)) : list (Z * child) :=
  map (fun '(i, (_, c)) => (i, c)) (filter (fun '(_, (k, _)) => is_in_flow k) (enumerate_from 0 children)).

(* the children whose styles feed the size estimate: all box-generating ones (display:none children are filtered out,
   absolutely positioned ones are not) *)
Definition estimate_children (children : list (child_kind * child)) : list child :=
  map snd (filter (fun kc : child_kind * child => match fst kc with Hidden => false | _ => true end) children).

(* the placement section of compute_grid_layout + what detailed_layout_info reports *)
Definition grid_placement_run (explicit_col_count explicit_row_count : Z) (auto_flow : flow)
           (children : list (child_kind * child)) : res outcome :=
  do '(est_col_counts, est_row_counts) <- compute_grid_size_estimate explicit_col_count explicit_row_count (estimate_children children);
  do m0 <- with_track_counts est_col_counts est_row_counts;
  do '(m, items) <- place_grid_items m0 (in_flow_children children) auto_flow;
  let final_col_counts := track_counts m Horizontal in
  let final_row_counts := track_counts m Vertical in
  do reported <- mapM (report_item final_col_counts final_row_counts) (sort_items items);
  Ok (mkOutcome reported final_col_counts final_row_counts).
