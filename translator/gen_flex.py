"""Translate the alignment tables of src/compute/common/alignment.rs (`apply_alignment_fallback`,
`compute_alignment_offset`) and `sum_axis_gaps` of src/compute/flexbox.rs into `Num`-generic Gallina, and
fingerprint the hand-modelled flexbox functions (Model/Flex.v, Model/FlexRun.v, Model/FlexLines.v, Model/FlexBase.v,
Model/FlexContainer.v).

Source forms accepted (anything else: Refuse):
  * parameters of type f32 (-> T), usize (-> Z), bool, AlignContent
  * statements:  `let x = e;`   `if c { x = e }`   `if c { (x, y) = e }`   (mutable locals are threaded functionally)
  * expressions: float / integer literals, parameters and locals, + - * / on f32, + - on usize, comparisons,
    || &&, `e as f32` on usize expressions, `.max(e)` / `.min(e)` on f32, tuples, if/else, match over AlignContent
    paths with `_` default.
usize subtraction is rendered as Z.sub: the only occurrence (`num_items - 1`) is reached for a non-first item
(resp. num_items > 1 in sum_axis_gaps), so no wrap-around is modelled."""
import re
from rustparse import *

ALIGN_SRC = 'src/compute/common/alignment.rs'
FLEX_SRC = 'src/compute/flexbox.rs'
ENUM_SRC = 'src/style/alignment.rs'


class Refuse(Exception):
    pass


def split_params(params):
    """[(name, type_text, is_mut)] from a parameter token list."""
    parts, cur, depth = [], [], 0
    for t in params:
        if t[1] in '([{<':
            depth += 1
        elif t[1] in ')]}>':
            depth -= 1
        if t[1] == ',' and depth == 0:
            parts.append(cur)
            cur = []
        else:
            cur.append(t)
    if cur:
        parts.append(cur)
    out = []
    for p in parts:
        ws = [t[1] for t in p]
        if ':' not in ws:
            raise Refuse('parameter without type: %s' % ' '.join(ws))
        k = ws.index(':')
        names = [w for w in ws[:k] if w != 'mut']
        if len(names) != 1:
            raise Refuse('parameter pattern: %s' % ' '.join(ws))
        out.append((names[0], ' '.join(ws[k + 1:]), 'mut' in ws[:k]))
    return out


TYPES = {'f32': 'F', 'usize': 'Z', 'bool': 'B', 'AlignContent': 'E'}
COQ_TYPES = {'F': 'T', 'Z': 'Z', 'B': 'bool', 'E': 'AlignContent'}


def enum_variants(repo):
    src = open(repo + '/' + ENUM_SRC).read()
    toks = tokenize(src)
    i, b, e = find_block_after(toks, lambda t, i: seq_at(t, i, ['pub', 'enum', 'AlignContent']))
    body = toks[b + 1:e]
    vs = []
    j = 0
    while j < len(body):
        k, w = body[j]
        if w == '#':
            j = match_brace(body, j + 1) + 1
            continue
        if k == 'id':
            vs.append(w)
            j += 1
            if j < len(body) and body[j][1] == ',':
                j += 1
            elif j < len(body):
                raise Refuse('AlignContent variant %s is not a unit variant' % w)
            continue
        raise Refuse('AlignContent body: unexpected token %r' % w)
    if len(vs) != len(set(vs)) or not vs:
        raise Refuse('AlignContent variants: %r' % vs)
    return vs


class Emit:
    """Typed rendering of the accepted expression subset.  env: rust name -> (coq term, type)."""

    def __init__(self, env, variants):
        self.env = dict(env)
        self.variants = variants

    def lit(self, txt, want):
        if txt in ('true', 'false'):
            return txt, 'B'
        if re.match(r'^[0-9]+$', txt):
            if want == 'F':
                raise Refuse('integer literal %s in float position' % txt)
            return txt, 'Z'
        m = re.match(r'^([0-9]+)\.([0-9]*)$', txt)
        if not m:
            raise Refuse('literal %r' % txt)
        ip, fp = m.group(1), m.group(2).rstrip('0')
        if fp == '':
            n = int(ip)
            return ('zero' if n == 0 else 'one' if n == 1 else '(of_Z %d)' % n), 'F'
        return '(of_Q (%d # %d))' % (int(ip + fp), 10 ** len(fp)), 'F'

    def e(self, a, want=None):
        k = a[0]
        if k == 'lit':
            return self.lit(a[1], want)
        if k == 'path':
            segs = a[1]
            if len(segs) == 1:
                if segs[0] in ('true', 'false'):
                    return segs[0], 'B'
                if segs[0] in self.env:
                    return self.env[segs[0]]
                raise Refuse('unknown name %s' % segs[0])
            if len(segs) == 2 and segs[0] == 'AlignContent' and segs[1] in self.variants:
                return 'AC_' + segs[1], 'E'
            raise Refuse('unknown path %s' % '::'.join(segs))
        if k == 'tuple':
            parts = [self.e(x) for x in a[1]]
            return '(' + ', '.join(p[0] for p in parts) + ')', tuple(p[1] for p in parts)
        if k == 'cast':
            if a[2].replace(' ', '') != 'f32':
                raise Refuse('cast to %s' % a[2])
            t, ty = self.e(a[1], 'Z')
            if ty != 'Z':
                raise Refuse('`as f32` on a non-usize expression')
            return '(of_Z %s)' % t, 'F'
        if k == 'mcall':
            recv, nm, args = a[1], a[2], a[3]
            r, rt = self.e(recv, 'F')
            if nm in ('max', 'min') and rt == 'F' and len(args) == 1:
                x, xt = self.e(args[0], 'F')
                if xt != 'F':
                    raise Refuse('.%s argument type' % nm)
                return '(%s %s %s)' % ('fmax' if nm == 'max' else 'fmin', r, x), 'F'
            raise Refuse('method %s' % nm)
        if k == 'bin':
            op = a[1]
            if op in ('||', '&&'):
                l, lt = self.e(a[2], 'B')
                r, rt = self.e(a[3], 'B')
                if lt != 'B' or rt != 'B':
                    raise Refuse('boolean operator on non-bool')
                return '(%s %s %s)' % ('orb' if op == '||' else 'andb', l, r), 'B'
            # decide the operand type: a float literal / float-typed side decides
            l, lt = self.try_e(a[2])
            r, rt = self.try_e(a[3])
            ty = lt or rt or want
            if lt is None:
                l, lt = self.e(a[2], ty)
            if rt is None:
                r, rt = self.e(a[3], ty)
            if lt != rt:
                raise Refuse('operator %s on %s and %s' % (op, lt, rt))
            if lt == 'F':
                tab = {'+': 'add', '-': 'sub', '*': 'mul', '/': 'div'}
                cmp_ = {'<': ('ltb', 0), '<=': ('leb', 0), '>': ('ltb', 1), '>=': ('leb', 1), '==': ('eqb', 0)}
                if op in tab:
                    return '(%s %s %s)' % (tab[op], l, r), 'F'
                if op in cmp_:
                    f, sw = cmp_[op]
                    return ('(%s %s %s)' % ((f, r, l) if sw else (f, l, r))), 'B'
                if op == '!=':
                    return '(negb (eqb %s %s))' % (l, r), 'B'
            if lt == 'Z':
                tab = {'+': 'Z.add', '-': 'Z.sub'}
                cmp_ = {'<': ('Z.ltb', 0), '<=': ('Z.leb', 0), '>': ('Z.ltb', 1), '>=': ('Z.leb', 1), '==': ('Z.eqb', 0)}
                if op in tab:
                    return '(%s %s %s)' % (tab[op], l, r), 'Z'
                if op in cmp_:
                    f, sw = cmp_[op]
                    return ('(%s %s %s)' % ((f, r, l) if sw else (f, l, r))), 'B'
            raise Refuse('operator %s at type %s' % (op, lt))
        if k == 'if':
            c, ct = self.e(a[1], 'B')
            if ct != 'B' or a[3] is None:
                raise Refuse('if without else in value position / non-bool condition')
            t, tt = self.block(a[2], want)
            el = a[3]
            f, ft = self.block(el, want) if el[0] == 'block' else self.e(el, want)
            if tt != ft:
                raise Refuse('if branches of different type')
            return '(if %s then %s else %s)' % (c, t, f), tt
        if k == 'match':
            s, st = self.e(a[1])
            if st != 'E':
                raise Refuse('match on a non-AlignContent value')
            arms = []
            ty = None
            seen = set()
            for pat, guard, ex, _ in a[2]:
                if guard is not None:
                    raise Refuse('match guard')
                if pat[0] == 'pwild':
                    p = '_'
                elif pat[0] == 'ppath' and len(pat[1]) == 2 and pat[1][0] == 'AlignContent' and pat[1][1] in self.variants:
                    p = 'AC_' + pat[1][1]
                    if p in seen:
                        raise Refuse('duplicate arm %s' % p)
                    seen.add(p)
                else:
                    raise Refuse('match pattern %r' % (pat,))
                t, tt = self.block(ex, want) if ex[0] == 'block' else self.e(ex, want)
                if ty is not None and tt != ty:
                    raise Refuse('match arms of different type')
                ty = tt
                arms.append('| %s => %s' % (p, t))
                if p == '_':
                    break
            return '(match %s with %s end)' % (s, ' '.join(arms)), ty
        if k == 'block':
            return self.block(a, want)
        raise Refuse('expression kind %s' % k)

    def try_e(self, a):
        """type of a sub-expression when it is determined without context (else (None, None))."""
        if a[0] == 'lit' and re.match(r'^[0-9]+$', a[1]):
            return None, None
        return self.e(a)

    def assign(self, asg):
        """('assign','=',lhs,rhs) -> (names, term, types)"""
        if asg[0] != 'assign' or asg[1] != '=':
            raise Refuse('expected a plain assignment')
        lhs = asg[2]
        targets = lhs[1] if lhs[0] == 'tuple' else [lhs]
        names = []
        for t in targets:
            if t[0] != 'path' or len(t[1]) != 1 or t[1][0] not in self.env:
                raise Refuse('assignment target')
            names.append(t[1][0])
        term, ty = self.e(asg[3])
        tys = ty if isinstance(ty, tuple) else (ty,)
        if tuple(self.env[n][1] for n in names) != tuple(tys):
            raise Refuse('assignment types')
        return names, term

    def block(self, b, want=None):
        """let-chains, `if c { assignment }` statements, tail value."""
        saved = dict(self.env)
        prefix = []
        for st in b[1]:
            if st[0] == 'let':
                pat, rhs = st[1], st[2]
                if pat[0] != 'pident' or rhs is None:
                    raise Refuse('let pattern')
                t, ty = self.e(rhs)
                prefix.append('let %s := %s in' % (pat[1], t))
                self.env[pat[1]] = (pat[1], ty)
            elif st[0] == 'expr' and st[1][0] == 'if' and st[1][3] is None:
                c, ct = self.e(st[1][1], 'B')
                body = st[1][2]
                stmts = [s[1] for s in body[1]] + ([body[2]] if body[2] is not None else [])
                if ct != 'B' or len(stmts) != 1 or any(s[0] != 'expr' for s in body[1]):
                    raise Refuse('conditional statement shape')
                names, term = self.assign(stmts[0])
                cur = ', '.join(names)
                if len(names) > 1:
                    prefix.append("let '(%s) := if %s then %s else (%s) in" % (cur, c, term, cur))
                else:
                    prefix.append('let %s := if %s then %s else %s in' % (cur, c, term, cur))
            else:
                raise Refuse('statement %r' % (st[0],))
        if b[2] is None:
            raise Refuse('block without value')
        t, ty = self.e(b[2], want)
        self.env = saved
        if prefix:
            return '(' + ' '.join(prefix) + ' ' + t + ')', ty
        return t, ty


def translate_fn(toks, name, variants, ret):
    params, body, _ = find_fn(toks, name)
    ps = split_params(params)
    env = {}
    binders = []
    for nm, ty, _mut in ps:
        if ty not in TYPES:
            raise Refuse('%s: parameter type %s' % (name, ty))
        env[nm] = (nm, TYPES[ty])
        binders.append('(%s : %s)' % (nm, COQ_TYPES[TYPES[ty]]))
    em = Emit(env, variants)
    term, ty = em.block(parse_block(body), ret)
    if ty != ret:
        raise Refuse('%s: result type %s, expected %s' % (name, ty, ret))
    return 'Definition %s %s : %s :=\n  %s.' % (name, ' '.join(binders), COQ_TYPES[ret], term), norm_tokens(body)


FINGERPRINTED = ['resolve_flexible_lengths', 'distribute_remaining_free_space', 'calculate_flex_item', 'calculate_layout_line',
                 'determine_flex_base_size', 'generate_anonymous_flex_items', 'compute_constants',
                 # Model/FlexLines.v, Model/FlexBase.v, Model/FlexContainer.v (K2)
                 'collect_flex_lines', 'determine_available_space', 'compute_flexbox_layout', 'compute_preliminary',
                 'determine_hypothetical_cross_size', 'calculate_cross_size', 'handle_align_content_stretch',
                 'determine_used_cross_size', 'resolve_cross_axis_auto_margins', 'align_flex_items_along_cross_axis',
                 'determine_container_cross_size', 'align_flex_lines_per_align_content', 'final_layout_pass']


def generate(repo):
    variants = enum_variants(repo)
    atoks = tokenize(open(repo + '/' + ALIGN_SRC).read())
    ftoks = tokenize(open(repo + '/' + FLEX_SRC).read())
    fps = {}
    out = []
    w = out.append
    w('(* GENERATED on every run by /verif/translator/gen_flex.py from %s, %s and %s -- do not edit. *)' % (ALIGN_SRC, FLEX_SRC, ENUM_SRC))
    w('From Coq Require Import ZArith QArith Bool List.')
    w('From TV Require Import Num.Num.')
    w('Import ListNotations.')
    w('(* enum AlignContent (= JustifyContent), variants in declaration order *)')
    w('Inductive AlignContent := %s.' % ' | '.join('AC_' + v for v in variants))
    w('Definition all_align_content : list AlignContent := [%s].' % '; '.join('AC_' + v for v in variants))
    fps['AlignContent'] = ' '.join(variants)
    w('Section FlexGen.')
    w('Context {T : Type} `{Num T}.')
    for toks, name, ret in [(atoks, 'apply_alignment_fallback', 'E'), (atoks, 'compute_alignment_offset', 'F'), (ftoks, 'sum_axis_gaps', 'F')]:
        text, fp = translate_fn(toks, name, variants, ret)
        fps[name] = fp
        w(text)
    w('End FlexGen.')
    for fn in FINGERPRINTED:
        params, body, _ = find_fn(ftoks, fn)
        fps[fn] = norm_tokens(body)
    return '\n'.join(out) + '\n', fps


TARGETS = {'FlexGen.v': generate}
