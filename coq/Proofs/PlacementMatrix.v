(* Lemmas about the occupancy matrix of Model/Placement.v: cell lookup, set_area, positive-only expansion, mark_area_as,
   line_area_is_unoccupied.  Coordinates: [cellv m r c] is the state of the cell whose row track lies after origin-zero
   row line r and whose column track lies after origin-zero column line c, under the CURRENT track counts of m. *)
From Coq Require Import ZArith Bool List Lia.
From TV Require Import Model.PlacementBase Gen.PlacementGen Model.Placement Proofs.PlacementTables.
Import ListNotations.
Open Scope Z_scope.

(* ------------------------------------------------------------------ lists *)
Lemma zrange_In : forall lo hi x, In x (zrange lo hi) <-> lo <= x < hi.
Proof.
  intros lo hi x. unfold zrange. rewrite in_map_iff. split.
  - intros [i [Hi Hin]]. apply in_seq in Hin. lia.
  - intros H. exists (Z.to_nat (x - lo)). split; [lia|]. apply in_seq. lia.
Qed.

Lemma zrange_length : forall lo hi, length (zrange lo hi) = Z.to_nat (hi - lo).
Proof. intros. unfold zrange. rewrite map_length, seq_length. reflexivity. Qed.

Lemma map_nth_lt : forall A B (f : A -> B) l n d d', (n < length l)%nat -> nth n (map f l) d = f (nth n l d').
Proof. induction l; simpl; intros; [lia|]. destruct n; auto. apply IHl. lia. Qed.

Lemma zrange_nth : forall lo hi n d, (n < Z.to_nat (hi - lo))%nat -> nth n (zrange lo hi) d = lo + Z.of_nat n.
Proof.
  intros. unfold zrange. rewrite map_nth_lt with (d' := 0%nat) by (rewrite seq_length; auto).
  rewrite seq_nth by auto. f_equal.
Qed.

Lemma mapi_from_length : forall A B (f : Z -> A -> B) l i, length (mapi_from f i l) = length l.
Proof. induction l; simpl; intros; auto. Qed.

Lemma mapi_from_nth : forall A B (f : Z -> A -> B) l i n d d', (n < length l)%nat ->
  nth n (mapi_from f i l) d' = f (i + Z.of_nat n) (nth n l d).
Proof.
  induction l; simpl; intros; [lia|]. destruct n.
  - f_equal. lia.
  - rewrite IHl with (d := d) by lia. f_equal. lia.
Qed.

Lemma foldM_inv : forall A S (f : S -> A -> res S) (P : S -> Prop) l s0 s,
  (forall x s s', In x l -> P s -> f s x = Ok s' -> P s') -> P s0 -> foldM f l s0 = Ok s -> P s.
Proof.
  induction l; simpl; intros s0 s Hstep H0 H.
  - inversion H; subst; auto.
  - mon. eapply IHl; [| |eassumption]; eauto.
Qed.

(* folds that push one element per iteration *)
Lemma foldM_collect : forall A B (f : A -> res B) l acc res0,
  foldM (fun acc i => do x <- f i; Ok (acc ++ [x])) l acc = Ok res0 ->
  exists xs, res0 = acc ++ xs /\ Forall2 (fun i x => f i = Ok x) l xs.
Proof.
  induction l; simpl; intros acc res0 H.
  - inversion H; subst. exists []. rewrite app_nil_r. auto.
  - mon. apply IHl in E0. destruct E0 as [xs [Hr HF]]. subst.
    exists (v0 :: xs). rewrite <- app_assoc. simpl. split; auto.
Qed.

(* ------------------------------------------------------------------ grids *)
Definition gc (g : grid) (r c : Z) : cell :=
  if (r <? 0) || (c <? 0) then Unoccupied else nth (Z.to_nat c) (nth (Z.to_nat r) g []) Unoccupied.

(* a grid holding R x C cells the way grid::Grid does: 0 x 0 when either dimension is zero *)
Definition reg (g : grid) (R C : Z) : Prop :=
  0 <= R /\ 0 <= C /\ ((R = 0 \/ C = 0) -> g = []) /\
  (0 < R -> 0 < C -> Z.of_nat (length g) = R /\ Forall (fun row => Z.of_nat (length row) = C) g).

Lemma reg_rows : forall g R C, reg g R C -> grid_rows g = if (R =? 0) || (C =? 0) then 0 else R.
Proof.
  intros g R C (HR & HC & Hz & Hn). unfold grid_rows.
  destruct (Z.eqb_spec R 0); simpl; [rewrite Hz by auto; reflexivity|].
  destruct (Z.eqb_spec C 0); simpl; [rewrite Hz by auto; reflexivity|].
  apply Hn; lia.
Qed.

Lemma reg_cols : forall g R C, reg g R C -> grid_cols g = if (R =? 0) || (C =? 0) then 0 else C.
Proof.
  intros g R C (HR & HC & Hz & Hn). unfold grid_cols.
  destruct (Z.eqb_spec R 0); simpl; [rewrite Hz by auto; reflexivity|].
  destruct (Z.eqb_spec C 0); simpl; [rewrite Hz by auto; reflexivity|].
  destruct Hn as [Hl HF]; try lia. destruct g; simpl in *; [lia|]. inversion HF; auto.
Qed.

Lemma reg_row_length : forall g R C r, reg g R C -> 0 <= r < grid_rows g -> Z.of_nat (length (nth (Z.to_nat r) g [])) = grid_cols g.
Proof.
  intros g R C r Hreg Hr. pose proof (reg_rows _ _ _ Hreg) as HRr. pose proof (reg_cols _ _ _ Hreg) as HCc.
  destruct Hreg as (HR & HC & Hz & Hn).
  destruct (Z.eqb_spec R 0); simpl in *; [lia|]. destruct (Z.eqb_spec C 0); simpl in *; [lia|].
  destruct Hn as [Hl HF]; try lia. rewrite HCc.
  rewrite Forall_forall in HF. apply HF. apply nth_In. unfold grid_rows in Hr. lia.
Qed.

Definition oget (o : option cell) : cell := match o with Some x => x | None => Unoccupied end.

Lemma grid_get_gc : forall g R C r c, reg g R C -> oget (grid_get g r c) = gc g r c.
Proof.
  intros g R C r c Hreg. unfold grid_get, gc.
  destruct (Z.leb_spec 0 r); simpl; [|destruct (Z.ltb_spec r 0); simpl; auto; lia].
  destruct (Z.ltb_spec r 0); simpl; [lia|].
  destruct (Z.ltb_spec r (grid_rows g)); simpl.
  - pose proof (reg_row_length g R C r Hreg ltac:(lia)) as Hlen.
    destruct (Z.leb_spec 0 c); simpl; [|destruct (Z.ltb_spec c 0); simpl; auto; lia].
    destruct (Z.ltb_spec c 0); simpl; [lia|].
    destruct (Z.ltb_spec c (grid_cols g)); simpl.
    + rewrite nth_error_nth' with (d := Unoccupied) by lia. reflexivity.
    + rewrite nth_overflow by lia. reflexivity.
  - destruct (Z.ltb_spec c 0); simpl; auto.
    rewrite (nth_overflow g) by (unfold grid_rows in *; lia). destruct (Z.to_nat c); reflexivity.
Qed.

Lemma cell_free_oget : forall o, cell_free o = true <-> oget o = Unoccupied.
Proof. intros [[]|]; simpl; split; intros; auto; discriminate. Qed.

Lemma grid_get_usize : forall g R C x y, reg g R C -> R <= 65535 -> C <= 65535 ->
  -32768 <= x <= 32767 -> -32768 <= y <= 32767 ->
  oget (grid_get g (i16_as_usize x) (i16_as_usize y)) = gc g x y.
Proof.
  intros g R C x y Hreg HR HC Hx Hy.
  pose proof (reg_rows _ _ _ Hreg) as HRr. pose proof (reg_cols _ _ _ Hreg) as HCc.
  assert (grid_rows g <= 65535) by (rewrite HRr; destruct ((R =? 0) || (C =? 0)); lia).
  assert (grid_cols g <= 65535) by (rewrite HCc; destruct ((R =? 0) || (C =? 0)); lia).
  unfold i16_as_usize.
  destruct (Z.ltb_spec x 0).
  - replace (x mod 18446744073709551616) with (x + 18446744073709551616)
      by (apply Z.mod_unique with (-1); lia).
    unfold grid_get, gc. destruct (Z.ltb_spec x 0); [|lia]. simpl.
    destruct (Z.ltb_spec (x + 18446744073709551616) (grid_rows g)); [lia|]. rewrite andb_false_r. reflexivity.
  - rewrite (Z.mod_small x) by lia.
    destruct (Z.ltb_spec y 0).
    + replace (y mod 18446744073709551616) with (y + 18446744073709551616)
        by (apply Z.mod_unique with (-1); lia).
      unfold grid_get, gc. destruct (Z.ltb_spec y 0); [|lia]. rewrite orb_true_r.
      destruct (Z.ltb_spec (y + 18446744073709551616) (grid_cols g)); [lia|]. rewrite andb_false_r. reflexivity.
    + rewrite (Z.mod_small y) by lia. eapply grid_get_gc; eauto.
Qed.

Lemma gc_nil : forall r c, gc [] r c = Unoccupied.
Proof. intros. unfold gc. destruct ((r <? 0) || (c <? 0)); auto. destruct (Z.to_nat r), (Z.to_nat c); reflexivity. Qed.

Lemma reg_grid_norm : forall g R C, 0 <= R -> 0 <= C ->
  Z.of_nat (length g) = R -> Forall (fun row => Z.of_nat (length row) = C) g -> reg (grid_norm R C g) R C.
Proof.
  intros g R C HR HC Hl HF. unfold grid_norm, reg. repeat split; auto.
  - intros H. destruct (Z.eqb_spec R 0), (Z.eqb_spec C 0); simpl; auto; lia.
  - destruct (Z.eqb_spec R 0); [lia|]. destruct (Z.eqb_spec C 0); [lia|]. simpl. auto.
  - destruct (Z.eqb_spec R 0); [lia|]. destruct (Z.eqb_spec C 0); [lia|]. simpl. auto.
Qed.

Lemma reg_grid_norm_eq : forall g R C R' C', R = R' -> C = C' -> 0 <= R -> 0 <= C ->
  Z.of_nat (length g) = R -> Forall (fun row => Z.of_nat (length row) = C) g -> reg (grid_norm R C g) R' C'.
Proof. intros; subst; apply reg_grid_norm; auto. Qed.

Lemma gc_grid_norm : forall g R C r c, Z.of_nat (length g) = R -> Forall (fun row => Z.of_nat (length row) = C) g ->
  gc (grid_norm R C g) r c = gc g r c.
Proof.
  intros g R C r c Hl HF. unfold grid_norm.
  destruct (Z.eqb_spec R 0); simpl.
  - destruct g; simpl in *; [reflexivity|lia].
  - destruct (Z.eqb_spec C 0); simpl; auto. rewrite gc_nil. unfold gc.
    destruct ((r <? 0) || (c <? 0)); auto.
    destruct (Nat.lt_ge_cases (Z.to_nat r) (length g)).
    + rewrite Forall_forall in HF. assert (Hin : In (nth (Z.to_nat r) g []) g) by (apply nth_In; auto).
      apply HF in Hin. rewrite nth_overflow; auto. lia.
    + rewrite (nth_overflow g) by auto. destruct (Z.to_nat c); reflexivity.
Qed.

Lemma grid_new_reg : forall R C, 0 <= R -> 0 <= C -> reg (grid_new R C) R C.
Proof.
  intros. unfold grid_new. apply reg_grid_norm; auto.
  - rewrite repeat_length. lia.
  - apply Forall_forall. intros x Hx. apply repeat_spec in Hx. subst. rewrite repeat_length. lia.
Qed.

Lemma gc_repeat_rows : forall n k r c, gc (repeat (repeat Unoccupied k) n) r c = Unoccupied.
Proof.
  intros. unfold gc. destruct ((r <? 0) || (c <? 0)); auto.
  destruct (Nat.lt_ge_cases (Z.to_nat r) n).
  - rewrite nth_indep with (d' := repeat Unoccupied k) by (rewrite repeat_length; auto).
    rewrite nth_repeat. destruct (Nat.lt_ge_cases (Z.to_nat c) k).
    + rewrite nth_repeat. reflexivity.
    + rewrite nth_overflow; auto. rewrite repeat_length. auto.
  - rewrite (nth_overflow (repeat _ _)) by (rewrite repeat_length; auto). destruct (Z.to_nat c); reflexivity.
Qed.

Lemma grid_new_gc : forall R C r c, 0 <= R -> 0 <= C -> gc (grid_new R C) r c = Unoccupied.
Proof.
  intros. unfold grid_new. rewrite gc_grid_norm.
  - apply gc_repeat_rows.
  - rewrite repeat_length. lia.
  - apply Forall_forall. intros x Hx. apply repeat_spec in Hx. subst. rewrite repeat_length. lia.
Qed.

(* ------------------------------------------------------------------ set_area *)
Lemma mapi_from_Forall : forall A B (f : Z -> A -> B) (P : A -> Prop) (Q : B -> Prop) l i,
  Forall P l -> (forall j x, P x -> Q (f j x)) -> Forall Q (mapi_from f i l).
Proof. induction l; simpl; intros; constructor; inversion H; subst; auto. Qed.

Lemma in_rng_spec : forall i r, in_rng i r = true <-> fst r <= i < snd r.
Proof. intros. unfold in_rng. destruct (Z.leb_spec (fst r) i), (Z.ltb_spec i (snd r)); simpl; split; intros; try lia; auto; discriminate. Qed.

Lemma set_area_spec : forall g R C rr cr v g', reg g R C -> set_area g rr cr v = Ok g' ->
  fst rr < snd rr -> fst cr < snd cr ->
  reg g' R C /\ 0 <= fst rr /\ snd rr <= grid_rows g /\ 0 <= fst cr /\ snd cr <= grid_cols g /\
  forall r c, gc g' r c = if in_rng r rr && in_rng c cr then v else gc g r c.
Proof.
  intros g R C rr cr v g' Hreg H Hr Hc. unfold set_area in H.
  destruct (Z.leb_spec (snd rr) (fst rr)); [lia|]. destruct (Z.leb_spec (snd cr) (fst cr)); [lia|]. simpl in H.
  destruct (Z.leb_spec 0 (fst rr)); simpl in H; [|discriminate].
  destruct (Z.leb_spec (snd rr) (grid_rows g)); simpl in H; [|discriminate].
  destruct (Z.leb_spec 0 (fst cr)); simpl in H; [|discriminate].
  destruct (Z.leb_spec (snd cr) (grid_cols g)); simpl in H; [|discriminate].
  inversion H; subst g'; clear H.
  pose proof (reg_rows _ _ _ Hreg) as HRr. pose proof (reg_cols _ _ _ Hreg) as HCc.
  assert (HRC : R <> 0 /\ C <> 0).
  { destruct (Z.eqb_spec R 0); simpl in *; [lia|]. destruct (Z.eqb_spec C 0); simpl in *; [lia|]. auto. }
  destruct HRC as [HR0 HC0].
  destruct (Z.eqb_spec R 0); [lia|]. destruct (Z.eqb_spec C 0); [lia|]. simpl in HRr, HCc.
  destruct Hreg as (HR & HC & Hz & Hn). destruct Hn as [Hl HF]; try lia.
  split; [|repeat split; auto].
  - unfold reg. split; [auto|]. split; [auto|]. split; [intros [?|?]; lia|]. intros _ _. split.
    + rewrite mapi_from_length. auto.
    + eapply mapi_from_Forall; [exact HF|]. intros j x Hx. simpl in Hx.
      destruct (in_rng j rr); auto. rewrite mapi_from_length. auto.
  - intros r c. unfold gc.
    destruct (Z.ltb_spec r 0); simpl.
    { assert (Hx : in_rng r rr = false) by (apply not_true_is_false; rewrite in_rng_spec; lia). rewrite Hx. reflexivity. }
    destruct (Z.ltb_spec c 0); simpl.
    { assert (Hx : in_rng c cr = false) by (apply not_true_is_false; rewrite in_rng_spec; lia). rewrite Hx, andb_false_r. reflexivity. }
    destruct (Nat.lt_ge_cases (Z.to_nat r) (length g)) as [Hlt|Hge].
    + rewrite mapi_from_nth with (d := []) by auto. rewrite Z.add_0_l, Z2Nat.id by lia.
      assert (Hrow : Z.of_nat (length (nth (Z.to_nat r) g [])) = C).
      { rewrite Forall_forall in HF. apply HF. apply nth_In. auto. }
      destruct (in_rng r rr) eqn:Hir; simpl; auto.
      destruct (Nat.lt_ge_cases (Z.to_nat c) (length (nth (Z.to_nat r) g []))) as [Hlt2|Hge2].
      * rewrite mapi_from_nth with (d := Unoccupied) by auto. rewrite Z.add_0_l, Z2Nat.id by lia. reflexivity.
      * rewrite !nth_overflow; auto; [|rewrite mapi_from_length; auto].
        assert (Hx : in_rng c cr = false) by (apply not_true_is_false; rewrite in_rng_spec; lia). rewrite Hx. reflexivity.
    + assert (Hx : in_rng r rr = false) by (apply not_true_is_false; rewrite in_rng_spec; unfold grid_rows in *; lia).
      rewrite Hx. simpl. rewrite !(nth_overflow _ []); auto. rewrite mapi_from_length. auto.
Qed.

(* ------------------------------------------------------------------ matrices *)
Definition tc_nonneg (tc : TrackCounts) : Prop := 0 <= tc_neg tc /\ 0 <= tc_explicit tc /\ 0 <= tc_pos tc.
Definition tlen (tc : TrackCounts) : Z := tc_neg tc + tc_explicit tc + tc_pos tc.

(* well-formed matrix: counts are small non-negative numbers and the grid has exactly the counted dimensions *)
Definition wf (m : matrix) : Prop :=
  tc_nonneg (m_rows m) /\ tc_nonneg (m_cols m) /\ tlen (m_rows m) <= 32767 /\ tlen (m_cols m) <= 32767 /\
  reg (m_inner m) (tlen (m_rows m)) (tlen (m_cols m)).

Definition cellv (m : matrix) (r c : Z) : cell := gc (m_inner m) (r + tc_neg (m_rows m)) (c + tc_neg (m_cols m)).

Lemma tc_len_spec : forall tc v, tc_nonneg tc -> tc_len tc = Ok v -> v = tlen tc /\ tlen tc <= 65535.
Proof. intros tc v (H1 & H2 & H3) H. unfold tc_len in H. mon. unfold u16_as_usize, tlen. lia. Qed.

Lemma tc_len_intro : forall tc, tc_nonneg tc -> tlen tc <= 65535 -> tc_len tc = Ok (tlen tc).
Proof.
  intros tc (H1 & H2 & H3) H. unfold tc_len, u16_add, tlen in *.
  rewrite chk_u16_intro by lia. simpl. rewrite chk_u16_intro by lia. simpl. reflexivity.
Qed.

Lemma usize_as_i16_small : forall x, 0 <= x <= 32767 -> usize_as_i16 x = x.
Proof. intros. unfold usize_as_i16. rewrite Z.mod_small by lia. apply u16_as_i16_small. lia. Qed.
Lemma i16_as_usize_small : forall x, 0 <= x <= 32767 -> i16_as_usize x = x.
Proof. intros. unfold i16_as_usize. apply Z.mod_small. lia. Qed.
Lemma i16_as_u16_small : forall x, 0 <= x <= 32767 -> i16_as_u16 x = x.
Proof. intros. unfold i16_as_u16. apply Z.mod_small. lia. Qed.
Lemma usize_as_u16_small : forall x, 0 <= x <= 65535 -> usize_as_u16 x = x.
Proof. intros. unfold usize_as_u16. apply Z.mod_small. lia. Qed.

Lemma gc_out : forall g R C r c, reg g R C -> R <= r \/ C <= c -> gc g r c = Unoccupied.
Proof.
  intros g R C r c Hreg H. rewrite <- (grid_get_gc g R C) by auto. unfold grid_get.
  rewrite (reg_rows _ _ _ Hreg), (reg_cols _ _ _ Hreg).
  destruct ((R =? 0) || (C =? 0)).
  - destruct (Z.leb_spec 0 r), (Z.ltb_spec r 0), (Z.leb_spec 0 c), (Z.ltb_spec c 0); simpl; auto; lia.
  - destruct (Z.leb_spec 0 r), (Z.ltb_spec r R), (Z.leb_spec 0 c), (Z.ltb_spec c C); simpl; auto; lia.
Qed.

Lemma Forall2_nth' : forall A B (P : A -> B -> Prop) l l' n d d', Forall2 P l l' -> (n < length l)%nat -> P (nth n l d) (nth n l' d').
Proof. intros A B P l l' n d d' H. revert n. induction H; simpl; intros; [lia|]. destruct n; auto. apply IHForall2. lia. Qed.

Lemma Forall2_len : forall A B (P : A -> B -> Prop) l l', Forall2 P l l' -> length l = length l'.
Proof. induction 1; simpl; auto. Qed.

Lemma copy_row_spec : forall g R C k row x, reg g R C -> 0 <= row -> 0 <= k -> copy_row g C k row = Ok x ->
  Z.of_nat (length x) = C + k /\ forall c, 0 <= c -> nth (Z.to_nat c) x Unoccupied = gc g row c.
Proof.
  intros g R C k row x Hreg Hrow Hk H. unfold copy_row in H. mon.
  match goal with H : foldM _ _ _ = Ok _ |- _ => apply foldM_collect in H; destruct H as [xs [Hx HF]] end.
  simpl in Hx. subst. pose proof (Forall2_len _ _ _ _ _ HF) as Hlen. rewrite zrange_length in Hlen.
  assert (HC : 0 <= C) by (destruct Hreg as (_ & ? & _); auto).
  split.
  - rewrite app_length, repeat_length. lia.
  - intros c Hc. destruct (Z.ltb_spec c C).
    + rewrite app_nth1 by lia.
      pose proof (Forall2_nth' _ _ _ _ _ (Z.to_nat c) 0 Unoccupied HF) as Hn.
      rewrite zrange_length in Hn. specialize (Hn ltac:(lia)). rewrite zrange_nth in Hn by lia.
      rewrite Z.add_0_l, Z2Nat.id in Hn by lia. simpl in Hn.
      rewrite <- (grid_get_gc g R C) by auto.
      destruct (grid_get g row c); [inversion Hn; reflexivity|discriminate].
    + rewrite (gc_out g R C) by auto.
      destruct (Nat.lt_ge_cases (Z.to_nat c) (length xs + Z.to_nat k)).
      * rewrite app_nth2 by lia. apply nth_repeat.
      * apply nth_overflow. rewrite app_length, repeat_length. lia.
Qed.

Lemma expand_spec : forall m rr cr m', wf m -> expand_to_fit_range m rr cr = Ok m' ->
  -32768 <= snd rr <= 32767 -> -32768 <= snd cr <= 32767 ->
  wf m' /\ 0 <= fst rr /\ 0 <= fst cr /\
  tc_neg (m_rows m') = tc_neg (m_rows m) /\ tc_explicit (m_rows m') = tc_explicit (m_rows m) /\
  tc_pos (m_rows m') = tc_pos (m_rows m) + Z.max (snd rr - tlen (m_rows m)) 0 /\
  tc_neg (m_cols m') = tc_neg (m_cols m) /\ tc_explicit (m_cols m') = tc_explicit (m_cols m) /\
  tc_pos (m_cols m') = tc_pos (m_cols m) + Z.max (snd cr - tlen (m_cols m)) 0 /\
  forall r c, gc (m_inner m') r c = gc (m_inner m) r c.
Proof.
  intros m rr cr m' (Hnr & Hnc & Hlr & Hlc & Hreg) H Hsr Hsc. unfold expand_to_fit_range in H.
  apply bind_ok in H. destruct H as [rl [Erl H]]. apply tc_len_spec in Erl; auto. destruct Erl as [? _]; subst rl.
  apply bind_ok in H. destruct H as [dr [Edr H]].
  apply bind_ok in H. destruct H as [cl [Ecl H]]. apply tc_len_spec in Ecl; auto. destruct Ecl as [? _]; subst cl.
  apply bind_ok in H. destruct H as [dc [Edc H]].
  assert (Hr0 : 0 <= tlen (m_rows m)) by (destruct Hnr as (?&?&?); unfold tlen; lia).
  assert (Hc0 : 0 <= tlen (m_cols m)) by (destruct Hnc as (?&?&?); unfold tlen; lia).
  rewrite usize_as_i16_small in Edr, Edc by lia. mon.
  destruct (Z.ltb_spec (Z.min (fst rr) 0) 0); simpl in *; [discriminate|].
  destruct (Z.ltb_spec (Z.min (fst cr) 0) 0); simpl in *; [discriminate|].
  assert (Hfr : 0 <= fst rr) by lia. assert (Hfc : 0 <= fst cr) by lia.
  replace (Z.min (fst rr) 0) with 0 in * by lia. replace (Z.min (fst cr) 0) with 0 in * by lia.
  set (pr := Z.max (snd rr - tlen (m_rows m)) 0) in *. set (pc := Z.max (snd cr - tlen (m_cols m)) 0) in *.
  mon.
  rewrite !i16_as_usize_small in * by lia. rewrite !i16_as_u16_small in * by lia.
  match goal with H : foldM _ _ _ = Ok _ |- _ => apply foldM_collect in H; destruct H as [xs [Hx HF]] end.
  simpl in Hx. subst. simpl.
  pose proof (Forall2_len _ _ _ _ _ HF) as Hlen. rewrite zrange_length in Hlen.
  assert (Hrows : forall n, (n < length xs)%nat ->
            Z.of_nat (length (nth n xs [])) = tlen (m_cols m) + pc /\
            forall c, 0 <= c -> nth (Z.to_nat c) (nth n xs []) Unoccupied = gc (m_inner m) (Z.of_nat n) c).
  { intros n Hn. pose proof (Forall2_nth' _ _ _ _ _ n 0 [] HF) as Hc. rewrite zrange_length in Hc.
    specialize (Hc ltac:(lia)). rewrite zrange_nth in Hc by lia. rewrite Z.add_0_l in Hc.
    eapply copy_row_spec in Hc; eauto; lia. }
  assert (HFx : Forall (fun row => Z.of_nat (length row) = tlen (m_cols m) + pc) xs).
  { apply Forall_forall. intros x Hin. destruct (In_nth _ _ [] Hin) as [n [Hn Hnx]]. subst x. apply Hrows. auto. }
  assert (Hl : Z.of_nat (length (xs ++ repeat (repeat Unoccupied (Z.to_nat (0 + tlen (m_cols m) + (0 + pc)))) (Z.to_nat pr))) = 0 + tlen (m_rows m) + (0 + pr)).
  { rewrite app_length, repeat_length. lia. }
  assert (HFa : Forall (fun row => Z.of_nat (length row) = 0 + tlen (m_cols m) + (0 + pc)) (xs ++ repeat (repeat Unoccupied (Z.to_nat (0 + tlen (m_cols m) + (0 + pc)))) (Z.to_nat pr))).
  { apply Forall_app. split.
    - eapply Forall_impl; [|exact HFx]. simpl. intros; lia.
    - apply Forall_forall. intros x Hx. apply repeat_spec in Hx. subst. rewrite repeat_length. lia. }
  split.
  { unfold wf, tc_nonneg, tlen in *. simpl.
    split; [lia|]. split; [lia|]. split; [lia|]. split; [lia|].
    eapply reg_grid_norm_eq; [| | | |exact Hl|exact HFa]; lia. }
  unfold tc_nonneg, tlen in *. simpl.
  split; [lia|]. split; [lia|]. split; [lia|]. split; [lia|]. split; [lia|]. split; [lia|]. split; [lia|]. split; [lia|].
  intros r c. rewrite gc_grid_norm; auto.
  unfold gc at 1. destruct ((r <? 0) || (c <? 0)) eqn:Hneg.
  { unfold gc. rewrite Hneg. reflexivity. }
  apply orb_false_elim in Hneg. destruct Hneg as [Hr Hc]. apply Z.ltb_ge in Hr, Hc.
  destruct (Nat.lt_ge_cases (Z.to_nat r) (length xs)) as [Hlt|Hge].
  + rewrite app_nth1 by auto. destruct (Hrows (Z.to_nat r) Hlt) as [_ Hg]. rewrite Hg by auto. rewrite Z2Nat.id by lia. reflexivity.
  + rewrite app_nth2 by auto.
    rewrite (gc_out _ _ _ r c Hreg) by lia.
    destruct (Nat.lt_ge_cases (Z.to_nat r - length xs) (Z.to_nat pr)).
    * rewrite nth_indep with (d' := repeat Unoccupied (Z.to_nat (0 + (tc_neg (m_cols m) + tc_explicit (m_cols m) + tc_pos (m_cols m)) + (0 + pc)))) by (rewrite repeat_length; auto).
      rewrite nth_repeat.
      destruct (Nat.lt_ge_cases (Z.to_nat c) (Z.to_nat (0 + (tc_neg (m_cols m) + tc_explicit (m_cols m) + tc_pos (m_cols m)) + (0 + pc)))).
      -- apply nth_repeat.
      -- apply nth_overflow. rewrite repeat_length. auto.
    * rewrite (nth_overflow (repeat _ _)) by (rewrite repeat_length; auto). destruct (Z.to_nat c); reflexivity.
Qed.

(* ------------------------------------------------------------------ mark_area_as / line_area_is_unoccupied *)
Definition row_span_of (ax : axis) (ps ss : Ln Z) : Ln Z := match ax with Horizontal => ss | Vertical => ps end.
Definition col_span_of (ax : axis) (ps ss : Ln Z) : Ln Z := match ax with Horizontal => ps | Vertical => ss end.
Definition in_spanb (x : Z) (s : Ln Z) : bool := (l_start s <=? x) && (x <? l_end s).

Lemma in_spanb_spec : forall x s, in_spanb x s = true <-> l_start s <= x < l_end s.
Proof. intros. unfold in_spanb. destruct (Z.leb_spec (l_start s) x), (Z.ltb_spec x (l_end s)); simpl; split; intros; try lia; auto; discriminate. Qed.

Lemma track_range_spec : forall tc s rg, tc_nonneg tc -> tlen tc <= 32767 ->
  oz_line_range_to_track_range tc s = Ok rg ->
  rg = (l_start s + tc_neg tc, l_end s + tc_neg tc) /\
  -32768 <= l_start s + tc_neg tc <= 32767 /\ -32768 <= l_end s + tc_neg tc <= 32767.
Proof.
  intros tc s rg (Hn & He & Hp) Hl H. unfold oz_line_range_to_track_range, oz_line_to_next_track in H.
  unfold tlen in Hl. mon. rewrite !u16_as_i16_small in * by lia. auto.
Qed.

Lemma is_area_in_range_true : forall m cr rr, wf m -> is_area_in_range m Horizontal cr rr = Ok true ->
  0 <= fst cr /\ snd cr <= tlen (m_cols m) /\ 0 <= fst rr /\ snd rr <= tlen (m_rows m).
Proof.
  intros m cr rr (Hnr & Hnc & Hlr & Hlc & Hreg) H. unfold is_area_in_range in H. simpl in H.
  assert (Hr0 : 0 <= tlen (m_rows m)) by (destruct Hnr as (?&?&?); unfold tlen; lia).
  assert (Hc0 : 0 <= tlen (m_cols m)) by (destruct Hnc as (?&?&?); unfold tlen; lia).
  apply bind_ok in H. destruct H as [o1 [E1 H]]. destruct o1; [discriminate|].
  apply bind_ok in H. destruct H as [o2 [E2 H]]. destruct o2; [discriminate|].
  destruct (Z.ltb_spec (fst cr) 0); [discriminate|]. destruct (Z.ltb_spec (fst rr) 0); [discriminate|].
  apply bind_ok in E1. destruct E1 as [l1 [El1 E1]]. apply tc_len_spec in El1; auto. destruct El1 as [? _]; subst.
  apply bind_ok in E2. destruct E2 as [l2 [El2 E2]]. apply tc_len_spec in El2; auto. destruct El2 as [? _]; subst.
  rewrite usize_as_i16_small in E1, E2 by lia. inversion E1. inversion E2.
  repeat split; try lia.
Qed.

Lemma mark_area_spec : forall m ax ps ss v m', wf m -> mark_area_as m ax ps ss v = Ok m' ->
  let rs := row_span_of ax ps ss in let cs := col_span_of ax ps ss in
  l_start rs < l_end rs -> l_start cs < l_end cs ->
  wf m' /\
  tc_neg (m_rows m') = tc_neg (m_rows m) /\ tc_explicit (m_rows m') = tc_explicit (m_rows m) /\ tc_pos (m_rows m) <= tc_pos (m_rows m') /\
  tc_neg (m_cols m') = tc_neg (m_cols m) /\ tc_explicit (m_cols m') = tc_explicit (m_cols m) /\ tc_pos (m_cols m) <= tc_pos (m_cols m') /\
  (forall r c, cellv m' r c = if in_spanb r rs && in_spanb c cs then v else cellv m r c) /\
  - tc_neg (m_rows m') <= l_start rs /\ l_end rs <= tc_explicit (m_rows m') + tc_pos (m_rows m') /\
  - tc_neg (m_cols m') <= l_start cs /\ l_end cs <= tc_explicit (m_cols m') + tc_pos (m_cols m') /\
  tc_pos (m_rows m') = Z.max (tc_pos (m_rows m)) (l_end rs - tc_explicit (m_rows m)) /\
  tc_pos (m_cols m') = Z.max (tc_pos (m_cols m)) (l_end cs - tc_explicit (m_cols m)).
Proof.
  intros m ax ps ss v m' Hwf H rs cs Hrs Hcs. unfold mark_area_as in H.
  assert (Hspans : (let '(row_span, column_span) := match ax with Horizontal => (ss, ps) | Vertical => (ps, ss) end in (row_span, column_span)) = (rs, cs))
    by (destruct ax; reflexivity).
  destruct (match ax with Horizontal => (ss, ps) | Vertical => (ps, ss) end) as [row_span column_span].
  inversion Hspans; subst row_span column_span; clear Hspans.
  pose proof Hwf as (Hnr & Hnc & Hlr & Hlc & Hreg).
  apply bind_ok in H. destruct H as [col_range [Ec H]]. apply track_range_spec in Ec; auto. destruct Ec as (? & Hc1 & Hc2). subst col_range.
  apply bind_ok in H. destruct H as [row_range [Er H]]. apply track_range_spec in Er; auto. destruct Er as (? & Hr1 & Hr2). subst row_range.
  apply bind_ok in H. destruct H as [inr [Ein H]].
  apply bind_ok in H. destruct H as [[[m1 c1] r1] [E1 H]].
  apply bind_ok in H. destruct H as [g [Eg H]]. inversion H; subst m'; clear H.
  assert (Hm1 : wf m1 /\ tc_neg (m_rows m1) = tc_neg (m_rows m) /\ tc_explicit (m_rows m1) = tc_explicit (m_rows m) /\
                tc_neg (m_cols m1) = tc_neg (m_cols m) /\ tc_explicit (m_cols m1) = tc_explicit (m_cols m) /\
                (forall r c, gc (m_inner m1) r c = gc (m_inner m) r c) /\
                c1 = (l_start cs + tc_neg (m_cols m), l_end cs + tc_neg (m_cols m)) /\
                r1 = (l_start rs + tc_neg (m_rows m), l_end rs + tc_neg (m_rows m)) /\
                tc_pos (m_rows m1) = Z.max (tc_pos (m_rows m)) (l_end rs - tc_explicit (m_rows m)) /\
                tc_pos (m_cols m1) = Z.max (tc_pos (m_cols m)) (l_end cs - tc_explicit (m_cols m))).
  { destruct inr.
    - inversion E1; subst m1 c1 r1. apply is_area_in_range_true in Ein; auto. simpl in Ein.
      split; [exact Hwf|]. unfold tlen, tc_nonneg in *. repeat split; auto; lia.
    - apply bind_ok in E1. destruct E1 as [mx [Ex E1]].
      apply expand_spec in Ex; auto. simpl in Ex.
      destruct Ex as (Hwfx & Hf1 & Hf2 & Hn1 & He1 & Hp1 & Hn2 & He2 & Hp2 & Hgc).
      pose proof Hwfx as (Hnrx & Hncx & Hlrx & Hlcx & Hregx).
      apply bind_ok in E1. destruct E1 as [cx [Ecx E1]]. apply track_range_spec in Ecx; auto. destruct Ecx as (? & _ & _). subst cx.
      apply bind_ok in E1. destruct E1 as [rx [Erx E1]]. apply track_range_spec in Erx; auto. destruct Erx as (? & _ & _). subst rx.
      inversion E1; subst m1 c1 r1. rewrite Hn1, Hn2.
      split; [exact Hwfx|]. unfold tlen, tc_nonneg in *. repeat split; auto; lia. }
  destruct Hm1 as (Hwf1 & Hn1 & He1 & Hn2 & He2 & Hgc & ? & ? & Hp1 & Hp2). subst c1 r1.
  pose proof Hwf1 as (Hnr1 & Hnc1 & Hlr1 & Hlc1 & Hreg1).
  eapply set_area_spec in Eg; eauto; simpl; try lia. simpl in Eg.
  destruct Eg as (Hregg & Hb1 & Hb2 & Hb3 & Hb4 & Hset).
  rewrite (reg_rows _ _ _ Hreg1) in Hb2. rewrite (reg_cols _ _ _ Hreg1) in Hb4.
  assert (Hb2' : l_end rs + tc_neg (m_rows m) <= tlen (m_rows m1)) by (destruct ((tlen (m_rows m1) =? 0) || (tlen (m_cols m1) =? 0)); lia).
  assert (Hb4' : l_end cs + tc_neg (m_cols m) <= tlen (m_cols m1)).
  { destruct (Z.eqb_spec (tlen (m_rows m1)) 0); simpl in *; [lia|]. destruct (Z.eqb_spec (tlen (m_cols m1)) 0); simpl in *; lia. }
  assert (Hwf' : wf (mkM g (m_cols m1) (m_rows m1))) by (unfold wf; simpl; repeat (split; [assumption|]); assumption).
  unfold tlen, tc_nonneg in *. simpl.
  split; [exact Hwf'|].
  split; [lia|]. split; [lia|]. split; [lia|]. split; [lia|]. split; [lia|]. split; [lia|].
  split.
  { intros r c. unfold cellv. simpl. rewrite Hset, Hn1, Hn2, Hgc. unfold in_rng, in_spanb. simpl.
    replace (l_start rs + tc_neg (m_rows m) <=? r + tc_neg (m_rows m)) with (l_start rs <=? r) by (apply eq_true_iff_eq; rewrite !Z.leb_le; lia).
    replace (r + tc_neg (m_rows m) <? l_end rs + tc_neg (m_rows m)) with (r <? l_end rs) by (apply eq_true_iff_eq; rewrite !Z.ltb_lt; lia).
    replace (l_start cs + tc_neg (m_cols m) <=? c + tc_neg (m_cols m)) with (l_start cs <=? c) by (apply eq_true_iff_eq; rewrite !Z.leb_le; lia).
    replace (c + tc_neg (m_cols m) <? l_end cs + tc_neg (m_cols m)) with (c <? l_end cs) by (apply eq_true_iff_eq; rewrite !Z.ltb_lt; lia).
    reflexivity. }
  repeat split; lia.
Qed.

Lemma forallb_zrange : forall f lo hi, forallb f (zrange lo hi) = true <-> forall x, lo <= x < hi -> f x = true.
Proof. intros. rewrite forallb_forall. split; intros H x Hx; apply H; apply zrange_In; auto. Qed.

Lemma unoccupied_spec : forall m ax ps ss b, wf m -> line_area_is_unoccupied m ax ps ss = Ok b ->
  let rs := row_span_of ax ps ss in let cs := col_span_of ax ps ss in
  (b = true <-> forall r c, l_start rs <= r < l_end rs -> l_start cs <= c < l_end cs -> cellv m r c = Unoccupied).
Proof.
  intros m ax ps ss b Hwf H rs cs. pose proof Hwf as (Hnr & Hnc & Hlr & Hlc & Hreg).
  unfold line_area_is_unoccupied in H.
  apply bind_ok in H. destruct H as [pr [Ep H]]. apply bind_ok in H. destruct H as [sr [Es H]].
  inversion H; subst b; clear H.
  assert (Hrc : exists rr cr, track_area_is_unoccupied m ax pr sr =
             forallb (fun x => forallb (fun y => cell_free (grid_get (m_inner m) (i16_as_usize x) (i16_as_usize y)))
                                        (zrange (fst cr) (snd cr))) (zrange (fst rr) (snd rr)) /\
             rr = (l_start rs + tc_neg (m_rows m), l_end rs + tc_neg (m_rows m)) /\
             cr = (l_start cs + tc_neg (m_cols m), l_end cs + tc_neg (m_cols m)) /\
             -32768 <= l_start rs + tc_neg (m_rows m) /\ l_end rs + tc_neg (m_rows m) <= 32767 /\
             -32768 <= l_start cs + tc_neg (m_cols m) /\ l_end cs + tc_neg (m_cols m) <= 32767).
  { destruct ax; simpl in *; apply track_range_spec in Ep; auto; apply track_range_spec in Es; auto;
      destruct Ep as (? & ? & ?); destruct Es as (? & ? & ?); subst pr sr;
      [exists (l_start ss + tc_neg (m_rows m), l_end ss + tc_neg (m_rows m)), (l_start ps + tc_neg (m_cols m), l_end ps + tc_neg (m_cols m))
      |exists (l_start ps + tc_neg (m_rows m), l_end ps + tc_neg (m_rows m)), (l_start ss + tc_neg (m_cols m), l_end ss + tc_neg (m_cols m))];
      unfold track_area_is_unoccupied; simpl; unfold rs, cs; simpl; repeat split; auto; lia. }
  destruct Hrc as (rr & cr & Heq & ? & ? & B1 & B2 & B3 & B4). subst rr cr. rewrite Heq. simpl.
  rewrite forallb_zrange. split.
  - intros H r c Hr Hc. specialize (H (r + tc_neg (m_rows m)) ltac:(lia)). rewrite forallb_zrange in H.
    specialize (H (c + tc_neg (m_cols m)) ltac:(lia)). rewrite cell_free_oget in H.
    rewrite (grid_get_usize _ _ _ _ _ Hreg) in H by lia. exact H.
  - intros H x Hx. rewrite forallb_zrange. intros y Hy. rewrite cell_free_oget.
    rewrite (grid_get_usize _ _ _ _ _ Hreg) by lia.
    specialize (H (x - tc_neg (m_rows m)) (y - tc_neg (m_cols m)) ltac:(lia) ltac:(lia)). unfold cellv in H.
    replace (x - tc_neg (m_rows m) + tc_neg (m_rows m)) with x in H by lia.
    replace (y - tc_neg (m_cols m) + tc_neg (m_cols m)) with y in H by lia. exact H.
Qed.
