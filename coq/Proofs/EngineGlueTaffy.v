(* The translated dispatch table of TaffyView::compute_child_layout (Gen/EngineGlueGen.v `glue_dispatch`, arm order of the source)
   selects what Model/TaffyEngine.v selects (`t_is_none` first, then `taffy_dispatch`), and the complete translated
   compute_child_layout -- hidden-mode guard, compute_cached_layout around the dispatching closure -- IS one step of `taffy_memo`. *)
From Coq Require Import ZArith Bool List.
From TV Require Import Model.Common Model.Leaf Model.FlexAlgBase Model.BlockFlexEngine Model.TaffyEngine.
From TV Require Import Gen.EngineGlueGen Model.EngineGlue Model.EngineGlueTaffy Proofs.EngineGlueProofs.
From TV Require Model.Engine.
Import ListNotations.
Close Scope Z_scope.
Close Scope N_scope.

Section GlueTaffy.
  Context {T : Type} `{Num T}.
  Notation ttree := (Engine.tree (TStyle T) (FIn T) (LayoutOutput T) (FLay T)).

  Theorem translated_dispatch_is_model (s : TStyle T) (n : nat) :
    glue_dispatch (glue_display_of (display (t_core s))) (glue_has_children n) = model_kind s n.
  Proof.
    unfold model_kind, taffy_dispatch, t_is_none, bf_is_none, f_is_none, ItemFilters.s_hidden, f_bgm, f_gdisplay, t_core, glue_has_children.
    destruct (display (fs_core (bf_flex (ts_bf s)))); destruct n; reflexivity.
  Qed.

  Lemma translated_uncached_is_model pre abs_child leaf ev (t : ttree) u i :
    eg_uncached _ _ _ _ t_is_none output_HIDDEN (f_with_order 0) (taffy_algo taffy_dispatch pre abs_child leaf) ev t u i =
    glue_compute_uncached ttree unit (FIn T) (LayoutOutput T)
      (eg_hidden _ _ _ _ output_HIDDEN (f_with_order 0))
      tg_display_of tg_child_count
      (eg_run _ _ _ _ (block_alg_t pre abs_child) ev) (eg_run _ _ _ _ flex_alg_t ev) (eg_run _ _ _ _ grid_alg_t ev)
      (eg_run _ _ _ _ (fun s _ i => Engine.Ret (FIn T) (LayoutOutput T) (FLay T) (leaf s i)) ev) t u i.
  Proof.
    destruct t as [s c l kids].
    unfold glue_compute_uncached, eg_uncached, tg_display_of, tg_child_count. cbn [Engine.style_of Engine.kids_of].
    rewrite translated_dispatch_is_model. unfold model_kind.
    destruct (t_is_none s); [reflexivity|].
    unfold eg_run, taffy_algo. rewrite map_length.
    destruct (taffy_dispatch s (length kids)); reflexivity.
  Qed.

  Theorem translated_child_layout_is_model teq pre abs_child leaf f (t : ttree) i :
    taffy_memo teq taffy_dispatch pre abs_child leaf (Datatypes.S f) t i =
    eg_swap _ _ _ _ (tg_compute_child_layout teq pre abs_child leaf (taffy_memo teq taffy_dispatch pre abs_child leaf f) t i).
  Proof.
    unfold taffy_memo. rewrite memo_is_translated_cached_layout.
    unfold tg_compute_child_layout, glue_compute_child_layout.
    destruct (eg_is_hidden (FIn T) qi_mode i); [reflexivity|].
    unfold eg_cached_layout, glue_compute_cached_layout.
    destruct (eg_cache_get _ _ _ _ qi_mode (fin_eqb_with teq) t tt i); [reflexivity|].
    rewrite translated_uncached_is_model. reflexivity.
  Qed.
End GlueTaffy.
