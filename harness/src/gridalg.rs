//! gridalg: the event trace of ONE evaluation of `compute_grid_layout` at the tree interface, for the correspondence with the
//! grid resumption of coq/Model/GridAlg.v (runner coq/Model/GridAlgRun.v).
//!
//! A random tree (treegen; root forced to display:grid; children of every kind incl. display:none and position:absolute, nested
//! containers, measured leaves) is built as a `c17::CTree`; `Rec` wraps it and implements the LayoutGridContainer interface by
//! delegation, RECORDING every `compute_child_layout` (input and output) and every `set_unrounded_layout` (the layout) the root's grid
//! algorithm issues.  `taffy::compute_grid_layout(&mut rec, root, input)` is then called directly with a random LayoutInput (both
//! run modes, both sizing modes, known dimensions / parent size present or absent, every kind of available space).
//! The recording is cross-checked against the hook trace (`taffy::verif_hooks::start_trace()`): the depth-0 Query / SetLayout events
//! must be the recorded ones, in order, with the same inputs.
//!
//! `vh gridalg cases <seed> <n>`:   per case
//!    C  <root style> <input 17> <n children> <child styles> <n answers> <answers 6 each, in query order>
//!    R  events: `0 child input(17)` per query, `1 child layout(21)` per stored layout, then `2 output(8)`
//!    (f32 as bit patterns, NaN canonical; layouts documented in coq/Model/GridAlgRun.v)
//!    `SKIP <idx> <why>` for a case whose evaluation panicked; `XCHK <idx> ..` when the hook trace disagrees with the recording;
//!    final line `DONE <cases> <skipped> <xchk failures> <cases in ComputeSize mode> <ComputeSize cases with a PerformLayout query>`
//! `vh gridalg one <seed> <idx>`:   the same case, human readable
//! `vh gridalg witness <name>`:     deterministic witnesses: `abs` (C06 grid-estimate-absolute on the resumption level: three runs),
//!                                  `baseline` (a ComputeSize evaluation that lays children out)
use crate::c17::CTree;
use crate::f32ops::canon;
use crate::rng::Rng;
use crate::treegen::*;
use taffy::prelude::*;
use taffy::{
    compute_grid_layout, BoxSizing, CompactLength, GridTrackRepetition, Layout, LayoutInput, LayoutOutput, NonRepeatedTrackSizingFunction, Overflow,
    RequestedAxis, RunMode, SizingMode, TrackSizingFunction,
};

pub enum Ev {
    Query(usize, LayoutInput, LayoutOutput),
    Set(usize, Layout),
}

pub struct Rec {
    pub t: CTree,
    pub root: usize,
    pub log: Vec<Ev>,
}

impl Rec {
    fn child_index(&self, node: NodeId) -> usize {
        let n = usize::from(node);
        self.t.nodes[self.root].children.iter().position(|c| *c == n).expect("gridalg: call on a node that is not a child of the root")
    }
}

impl taffy::TraversePartialTree for Rec {
    type ChildIter<'a> = crate::c17::ChildIter<'a>;
    fn child_ids(&self, node_id: NodeId) -> Self::ChildIter<'_> {
        self.t.child_ids(node_id)
    }
    fn child_count(&self, node_id: NodeId) -> usize {
        self.t.child_count(node_id)
    }
    fn get_child_id(&self, node_id: NodeId, index: usize) -> NodeId {
        self.t.get_child_id(node_id, index)
    }
}

impl taffy::LayoutPartialTree for Rec {
    type CoreContainerStyle<'a>
        = &'a Style
    where
        Self: 'a;
    fn get_core_container_style(&self, node_id: NodeId) -> Self::CoreContainerStyle<'_> {
        self.t.get_core_container_style(node_id)
    }
    fn set_unrounded_layout(&mut self, node_id: NodeId, layout: &Layout) {
        let c = self.child_index(node_id);
        self.log.push(Ev::Set(c, *layout));
        self.t.set_unrounded_layout(node_id, layout);
    }
    fn resolve_calc_value(&self, _val: *const (), _basis: f32) -> f32 {
        0.0
    }
    fn compute_child_layout(&mut self, node_id: NodeId, inputs: LayoutInput) -> LayoutOutput {
        let c = self.child_index(node_id);
        let out = self.t.compute_child_layout(node_id, inputs);
        self.log.push(Ev::Query(c, inputs, out));
        out
    }
}

impl taffy::LayoutGridContainer for Rec {
    type GridContainerStyle<'a>
        = &'a Style
    where
        Self: 'a;
    type GridItemStyle<'a>
        = &'a Style
    where
        Self: 'a;
    fn get_grid_container_style(&self, node_id: NodeId) -> Self::GridContainerStyle<'_> {
        assert_eq!(usize::from(node_id), self.root, "gridalg: container style of a node that is not the root");
        &self.t.nodes[usize::from(node_id)].style
    }
    fn get_grid_child_style(&self, child_node_id: NodeId) -> Self::GridItemStyle<'_> {
        let _ = self.child_index(child_node_id);
        &self.t.nodes[usize::from(child_node_id)].style
    }
}

// ------------------------------------------------------------------------------------------------ encoding

fn enc_raw(c: CompactLength, out: &mut Vec<i64>) {
    let t = c.tag();
    if t == CompactLength::AUTO_TAG {
        out.extend([0, 0]);
    } else if t == CompactLength::LENGTH_TAG {
        out.extend([1, canon(c.value()) as i64]);
    } else if t == CompactLength::PERCENT_TAG {
        out.extend([2, canon(c.value()) as i64]);
    } else {
        panic!("gridalg: style value outside the modelled class");
    }
}

/// track sizing function: kinds as coq/Model/GridTracksRun.v dec_sfn
fn enc_sfn(c: CompactLength, out: &mut Vec<i64>) {
    let t = c.tag();
    let v = |c: CompactLength| canon(c.value()) as i64;
    if t == CompactLength::LENGTH_TAG {
        out.extend([0, v(c)]);
    } else if t == CompactLength::PERCENT_TAG {
        out.extend([1, v(c)]);
    } else if t == CompactLength::FR_TAG {
        out.extend([2, v(c)]);
    } else if t == CompactLength::FIT_CONTENT_PX_TAG {
        out.extend([3, v(c)]);
    } else if t == CompactLength::FIT_CONTENT_PERCENT_TAG {
        out.extend([4, v(c)]);
    } else if t == CompactLength::AUTO_TAG {
        out.extend([5, 0]);
    } else if t == CompactLength::MIN_CONTENT_TAG {
        out.extend([6, 0]);
    } else if t == CompactLength::MAX_CONTENT_TAG {
        out.extend([7, 0]);
    } else {
        panic!("gridalg: track sizing function outside the modelled class");
    }
}

fn enc_track(t: &NonRepeatedTrackSizingFunction, out: &mut Vec<i64>) {
    enc_sfn(t.min.into_raw(), out);
    enc_sfn(t.max.into_raw(), out);
}

/// as coq/Model/GridTracksRun.v take_template
fn enc_template(t: &[TrackSizingFunction], out: &mut Vec<i64>) {
    out.push(t.len() as i64);
    for e in t {
        match e {
            TrackSizingFunction::Single(tr) => {
                out.push(0);
                enc_track(tr, out);
            }
            TrackSizingFunction::Repeat(GridTrackRepetition::Count(c), ts) => {
                out.extend([1, *c as i64, ts.len() as i64]);
                ts.iter().for_each(|tr| enc_track(tr, out));
            }
            TrackSizingFunction::Repeat(GridTrackRepetition::AutoFill, ts) => {
                out.extend([2, ts.len() as i64]);
                ts.iter().for_each(|tr| enc_track(tr, out));
            }
            TrackSizingFunction::Repeat(GridTrackRepetition::AutoFit, ts) => {
                out.extend([3, ts.len() as i64]);
                ts.iter().for_each(|tr| enc_track(tr, out));
            }
        }
    }
}

fn enc_autos(t: &[NonRepeatedTrackSizingFunction], out: &mut Vec<i64>) {
    out.push(t.len() as i64);
    t.iter().for_each(|tr| enc_track(tr, out));
}

fn enc_overflow(o: Overflow) -> i64 {
    match o {
        Overflow::Visible => 0,
        Overflow::Clip => 1,
        Overflow::Hidden => 2,
        Overflow::Scroll => 3,
    }
}

fn enc_align_items(a: Option<AlignItems>) -> i64 {
    match a {
        None => 7,
        Some(AlignItems::Start) => 0,
        Some(AlignItems::End) => 1,
        Some(AlignItems::FlexStart) => 2,
        Some(AlignItems::FlexEnd) => 3,
        Some(AlignItems::Center) => 4,
        Some(AlignItems::Baseline) => 5,
        Some(AlignItems::Stretch) => 6,
    }
}

/// as coq/Model/GridTracksRun.v dec_align (0 = unset)
fn enc_align_content(a: Option<AlignContent>) -> i64 {
    match a {
        None => 0,
        Some(AlignContent::Start) => 1,
        Some(AlignContent::End) => 2,
        Some(AlignContent::FlexStart) => 3,
        Some(AlignContent::FlexEnd) => 4,
        Some(AlignContent::Center) => 5,
        Some(AlignContent::Stretch) => 6,
        Some(AlignContent::SpaceBetween) => 7,
        Some(AlignContent::SpaceEvenly) => 8,
        Some(AlignContent::SpaceAround) => 9,
    }
}

fn enc_placement(p: GridPlacement, out: &mut Vec<i64>) {
    match p {
        GridPlacement::Auto => out.extend([0, 0]),
        GridPlacement::Line(l) => out.extend([1, l.as_i16() as i64]),
        GridPlacement::Span(s) => out.extend([2, s as i64]),
    }
}

pub const FIXED_STYLE_INTS: usize = 72;

/// 72 integers + the four track lists (children are encoded with empty lists: their own templates are invisible to the parent);
/// decoded by coq/Model/GridAlgRun.v `dec_style`
pub fn enc_style(s: &Style, with_tracks: bool, out: &mut Vec<i64>) {
    let n0 = out.len();
    out.push(match s.display {
        Display::Block => 0,
        Display::Flex => 1,
        Display::Grid => 2,
        Display::None => 3,
    });
    out.push((s.position == Position::Absolute) as i64);
    out.push((s.box_sizing == BoxSizing::ContentBox) as i64);
    out.push(enc_overflow(s.overflow.x));
    out.push(enc_overflow(s.overflow.y));
    out.push(canon(s.scrollbar_width) as i64);
    for sz in [s.size, s.min_size, s.max_size] {
        enc_raw(sz.width.into_raw(), out);
        enc_raw(sz.height.into_raw(), out);
    }
    match s.aspect_ratio {
        Some(r) => out.extend([1, canon(r) as i64]),
        None => out.extend([0, 0]),
    }
    for v in [s.margin.left, s.margin.right, s.margin.top, s.margin.bottom] {
        enc_raw(v.into_raw(), out);
    }
    for v in [s.padding.left, s.padding.right, s.padding.top, s.padding.bottom] {
        enc_raw(v.into_raw(), out);
    }
    for v in [s.border.left, s.border.right, s.border.top, s.border.bottom] {
        enc_raw(v.into_raw(), out);
    }
    for v in [s.inset.left, s.inset.right, s.inset.top, s.inset.bottom] {
        enc_raw(v.into_raw(), out);
    }
    out.push(match s.grid_auto_flow {
        GridAutoFlow::Row => 0,
        GridAutoFlow::Column => 1,
        GridAutoFlow::RowDense => 2,
        GridAutoFlow::ColumnDense => 3,
    });
    enc_raw(s.gap.width.into_raw(), out);
    enc_raw(s.gap.height.into_raw(), out);
    out.push(enc_align_items(s.align_items));
    out.push(enc_align_items(s.justify_items));
    out.push(enc_align_items(s.align_self));
    out.push(enc_align_items(s.justify_self));
    out.push(enc_align_content(s.align_content));
    out.push(enc_align_content(s.justify_content));
    enc_placement(s.grid_row.start, out);
    enc_placement(s.grid_row.end, out);
    enc_placement(s.grid_column.start, out);
    enc_placement(s.grid_column.end, out);
    out.push(s.item_is_replaced as i64);
    assert_eq!(out.len() - n0, FIXED_STYLE_INTS);
    if with_tracks {
        enc_template(&s.grid_template_columns, out);
        enc_template(&s.grid_template_rows, out);
        enc_autos(&s.grid_auto_columns, out);
        enc_autos(&s.grid_auto_rows, out);
    } else {
        out.extend([0, 0, 0, 0]);
    }
}

fn enc_opt(v: Option<f32>, out: &mut Vec<i64>) {
    match v {
        Some(x) => out.extend([1, canon(x) as i64]),
        None => out.extend([0, 0]),
    }
}

fn enc_avail(a: AvailableSpace, out: &mut Vec<i64>) {
    match a {
        AvailableSpace::Definite(v) => out.extend([0, canon(v) as i64]),
        AvailableSpace::MinContent => out.extend([1, 0]),
        AvailableSpace::MaxContent => out.extend([2, 0]),
    }
}

/// 17 integers
fn enc_input(i: &LayoutInput, out: &mut Vec<i64>) {
    out.push(match i.run_mode {
        RunMode::PerformLayout => 0,
        RunMode::ComputeSize => 1,
        RunMode::PerformHiddenLayout => 2,
    });
    out.push(match i.sizing_mode {
        SizingMode::InherentSize => 0,
        SizingMode::ContentSize => 1,
    });
    out.push(match i.axis {
        RequestedAxis::Horizontal => 0,
        RequestedAxis::Vertical => 1,
        RequestedAxis::Both => 2,
    });
    enc_opt(i.known_dimensions.width, out);
    enc_opt(i.known_dimensions.height, out);
    enc_opt(i.parent_size.width, out);
    enc_opt(i.parent_size.height, out);
    enc_avail(i.available_space.width, out);
    enc_avail(i.available_space.height, out);
    out.push(i.vertical_margins_are_collapsible.start as i64);
    out.push(i.vertical_margins_are_collapsible.end as i64);
}

fn c(x: f32) -> i64 {
    canon(x) as i64
}

/// 6 integers: what the grid algorithm can read of a child's output
fn enc_answer(o: &LayoutOutput, out: &mut Vec<i64>) {
    out.extend([c(o.size.width), c(o.size.height), c(o.content_size.width), c(o.content_size.height)]);
    enc_opt(o.first_baselines.y, out);
}

/// 8 integers: the container's own output (margins are ZERO, collapse-through false for a grid container: checked)
fn enc_output(o: &LayoutOutput, out: &mut Vec<i64>) {
    out.extend([c(o.size.width), c(o.size.height), c(o.content_size.width), c(o.content_size.height)]);
    enc_opt(o.first_baselines.x, out);
    enc_opt(o.first_baselines.y, out);
}

/// 21 integers
fn enc_layout(l: &Layout, out: &mut Vec<i64>) {
    out.push(l.order as i64);
    for v in [l.location.x, l.location.y, l.size.width, l.size.height, l.content_size.width, l.content_size.height, l.scrollbar_size.width, l.scrollbar_size.height] {
        out.push(c(v));
    }
    for r in [&l.border, &l.padding, &l.margin] {
        out.extend([c(r.left), c(r.right), c(r.top), c(r.bottom)]);
    }
}

// ------------------------------------------------------------------------------------------------ cases

fn opt_len(rng: &mut Rng, cfg: &GenCfg, p_none: u64) -> Option<f32> {
    if rng.chance(p_none, 100) {
        None
    } else {
        Some(len_value(rng, cfg, 300))
    }
}

pub fn gen_input(rng: &mut Rng, cfg: &GenCfg) -> LayoutInput {
    let run_mode = if rng.chance(2, 5) { RunMode::ComputeSize } else { RunMode::PerformLayout };
    let sizing_mode = if rng.chance(1, 4) { SizingMode::ContentSize } else { SizingMode::InherentSize };
    let axis = if run_mode == RunMode::PerformLayout {
        RequestedAxis::Both
    } else {
        *rng.pick(&[RequestedAxis::Horizontal, RequestedAxis::Vertical, RequestedAxis::Both])
    };
    let known_dimensions = Size { width: opt_len(rng, cfg, 75), height: opt_len(rng, cfg, 75) };
    let parent_size = Size { width: opt_len(rng, cfg, 35), height: opt_len(rng, cfg, 50) };
    LayoutInput { run_mode, sizing_mode, axis, known_dimensions, parent_size, available_space: avail(rng, cfg), vertical_margins_are_collapsible: Line::FALSE }
}

pub struct Case {
    pub spec: NodeSpec,
    pub input: LayoutInput,
}

/// family 0: anything; 1 (C05's K): hidden children but no absolute ones; 2 (C06's K): absolute children but no hidden ones
pub fn gen_case(seed: u64, idx: u64, family: u64) -> Case {
    let mut rng = Rng::new(seed.wrapping_mul(0x9E37_79B9).wrapping_add(idx) ^ 0x6A1D);
    let mut cfg = GenCfg::default();
    cfg.fractional = idx % 4 == 3;
    cfg.max_nodes = 10;
    cfg.max_depth = 3;
    cfg.max_children = 6;
    cfg.p_hidden = if family == 2 { 0 } else { 150 };
    cfg.p_absolute = if family == 1 { 0 } else { 150 };
    let mut spec = tree(&mut rng, &cfg);
    spec.style.display = Display::Grid;
    if spec.children.is_empty() {
        for _ in 0..1 + rng.below(3) {
            let st = style(&mut rng, &cfg, false, true);
            let cx = ctx(&mut rng, &cfg);
            spec.children.push(NodeSpec { style: st, ctx: cx, children: vec![] });
        }
    }
    // the direct children: more leaves with text (min-content != max-content), more explicit lines, replaced items
    for ch in spec.children.iter_mut() {
        if ch.children.is_empty() && rng.chance(1, 3) {
            ch.ctx = Some(Ctx::Text(1 + rng.below(30) as u32, *rng.pick(&[4.0, 8.0, 10.0])));
            if rng.chance(1, 2) {
                ch.style.size.width = Dimension::auto();
            }
            if rng.chance(1, 2) {
                ch.style.size.height = Dimension::auto();
            }
        }
        if rng.chance(1, 8) {
            ch.style.item_is_replaced = true;
        }
        // an absolute child's line outside the implicit grid panics (assert in into_track_vec_index): keep most of them near
        if ch.style.position == Position::Absolute && rng.chance(1, 2) {
            ch.style.grid_row = Line { start: GridPlacement::Auto, end: GridPlacement::Auto };
            ch.style.grid_column = Line { start: GridPlacement::Auto, end: GridPlacement::Auto };
        }
    }
    // baseline alignment makes track sizing lay children out (resolve_item_baselines): raise its frequency
    if idx % 5 == 0 {
        spec.style.align_items = Some(AlignItems::Baseline);
    }
    // indefinite container sizes exercise the intrinsic passes and the re-runs
    if idx % 2 == 0 {
        spec.style.size.width = Dimension::auto();
    }
    if idx % 3 == 0 {
        spec.style.size.height = Dimension::auto();
    }
    // auto-repeat tracks on an axis whose size is indefinite but bounded by BOTH a min- and a max-size that fit different numbers
    // of repetitions (which of the two bounds stands in for the missing size decides the explicit track count)
    let auto_repeat_bounds = idx % 7 == 1;
    if auto_repeat_bounds {
        let tr = *rng.pick(&[10.0f32, 20.0, 30.0]);
        let kind = if rng.chance(1, 2) { GridTrackRepetition::AutoFill } else { GridTrackRepetition::AutoFit };
        let lo = tr * (1.0 + rng.below(2) as f32) + *rng.pick(&[0.0f32, 3.0]);
        let hi = lo + tr * (1.0 + rng.below(3) as f32);
        let rep = TrackSizingFunction::Repeat(kind, vec![length(tr)]);
        if rng.chance(1, 2) {
            spec.style.grid_template_columns = vec![rep];
            spec.style.size.width = Dimension::auto();
            spec.style.min_size.width = Dimension::length(lo);
            spec.style.max_size.width = Dimension::length(hi);
        } else {
            spec.style.grid_template_rows = vec![rep];
            spec.style.size.height = Dimension::auto();
            spec.style.min_size.height = Dimension::length(lo);
            spec.style.max_size.height = Dimension::length(hi);
        }
    }
    let mut input = gen_input(&mut rng, &cfg);
    if auto_repeat_bounds {
        input.known_dimensions = Size::NONE;
    }
    if idx % 2 == 0 && rng.chance(2, 3) {
        input.known_dimensions.width = None;
    }
    if idx % 3 == 0 && rng.chance(2, 3) {
        input.known_dimensions.height = None;
    }
    Case { spec, input }
}

pub struct Outcome {
    pub c: Vec<i64>,
    pub r: Vec<i64>,
    pub xchk: Vec<String>,
    pub compute_size: bool,
    pub layout_query_in_compute_size: bool,
}

fn same_input(a: &LayoutInput, b: &LayoutInput) -> bool {
    let (mut x, mut y) = (vec![], vec![]);
    enc_input(a, &mut x);
    enc_input(b, &mut y);
    x == y
}

pub fn run_spec(spec: &NodeSpec, input: LayoutInput) -> Result<Outcome, String> {
    let t = CTree::from_spec(spec);
    let mut rec = Rec { t, root: 0, log: vec![] };
    #[cfg(taffy_verif)]
    taffy::verif_hooks::start_trace();
    let res = std::panic::catch_unwind(std::panic::AssertUnwindSafe(|| compute_grid_layout(&mut rec, NodeId::from(0usize), input)));
    #[cfg(taffy_verif)]
    let trace = taffy::verif_hooks::take_trace();
    let out = match res {
        Ok(o) => o,
        Err(_) => return Err("panic".into()),
    };
    let kids: Vec<usize> = rec.t.nodes[0].children.clone();
    // ---- cross-check with the hook trace
    #[allow(unused_mut)]
    let mut xchk = vec![];
    #[cfg(taffy_verif)]
    {
        use taffy::verif_hooks::Event;
        let mut depth = 0usize;
        let mut hooked: Vec<(u8, usize, Option<LayoutInput>)> = vec![];
        for ev in trace.iter() {
            match ev {
                Event::Query { node, input, .. } => {
                    if depth == 0 {
                        hooked.push((0, usize::from(*node), Some(*input)));
                    }
                    depth += 1;
                }
                Event::Return { .. } => depth -= 1,
                Event::SetLayout { node } => {
                    if depth == 0 {
                        hooked.push((1, usize::from(*node), None));
                    }
                }
                Event::Hidden { .. } => {}
            }
        }
        if hooked.len() != rec.log.len() {
            xchk.push(format!("hook trace has {} depth-0 events, recording has {}", hooked.len(), rec.log.len()));
        } else {
            for (k, (h, e)) in hooked.iter().zip(rec.log.iter()).enumerate() {
                let ok = match (h, e) {
                    ((0, n, Some(i)), Ev::Query(c, j, _)) => *n == kids[*c] && same_input(i, j),
                    ((1, n, None), Ev::Set(c, _)) => *n == kids[*c],
                    _ => false,
                };
                if !ok {
                    xchk.push(format!("event {k} differs between hook trace and recording"));
                    break;
                }
            }
        }
    }
    if out.top_margin != taffy::CollapsibleMarginSet::ZERO || out.bottom_margin != taffy::CollapsibleMarginSet::ZERO || out.margins_can_collapse_through {
        xchk.push("grid container returned non-zero margin sets / collapse-through".into());
    }
    // ---- encode
    let mut c = vec![];
    enc_style(&spec.style, true, &mut c);
    enc_input(&input, &mut c);
    c.push(kids.len() as i64);
    for k in &kids {
        enc_style(&rec.t.nodes[*k].style, false, &mut c);
    }
    let nq = rec.log.iter().filter(|e| matches!(e, Ev::Query(..))).count();
    c.push(nq as i64);
    let mut r = vec![];
    let mut lq = false;
    for e in &rec.log {
        match e {
            Ev::Query(ch, i, o) => {
                enc_answer(o, &mut c);
                r.push(0);
                r.push(*ch as i64);
                enc_input(i, &mut r);
                if i.run_mode == RunMode::PerformLayout {
                    lq = true;
                }
            }
            Ev::Set(ch, l) => {
                r.push(1);
                r.push(*ch as i64);
                enc_layout(l, &mut r);
            }
        }
    }
    r.push(2);
    enc_output(&out, &mut r);
    let cs = input.run_mode == RunMode::ComputeSize;
    Ok(Outcome { c, r, xchk, compute_size: cs, layout_query_in_compute_size: cs && lq })
}

fn join(v: &[i64]) -> String {
    v.iter().map(|x| x.to_string()).collect::<Vec<_>>().join(" ")
}

fn plain_input(run_mode: RunMode) -> LayoutInput {
    LayoutInput {
        run_mode,
        sizing_mode: SizingMode::InherentSize,
        axis: RequestedAxis::Both,
        known_dimensions: Size::NONE,
        parent_size: Size::NONE,
        available_space: Size::MAX_CONTENT,
        vertical_margins_are_collapsible: Line::FALSE,
    }
}

/// C06 grid-estimate-absolute at the level of the resumption: grid-auto-rows 7px, no template, ONE child, absolute:
/// (a) with grid_row: 4 / auto, (b) a bare absolute child, and (c) no child at all
pub fn abs_witness(variant: u32) -> (NodeSpec, LayoutInput) {
    let mut root = Style::default();
    root.display = Display::Grid;
    root.grid_auto_rows = vec![length(7.0)];
    let mut a = Style::default();
    a.position = Position::Absolute;
    if variant == 0 {
        a.grid_row = Line { start: GridPlacement::from_line_index(4), end: GridPlacement::Auto };
    }
    let children = if variant == 2 { vec![] } else { vec![NodeSpec::leaf(a)] };
    (NodeSpec { style: root, ctx: None, children }, plain_input(RunMode::PerformLayout))
}

/// NS witness: two baseline-aligned children in one row, ComputeSize
pub fn baseline_witness() -> (NodeSpec, LayoutInput) {
    let mut root = Style::default();
    root.display = Display::Grid;
    root.align_items = Some(AlignItems::Baseline);
    root.grid_template_columns = vec![auto(), auto()];
    let mut a = Style::default();
    a.size = Size { width: Dimension::length(10.0), height: Dimension::length(20.0) };
    let mut b = Style::default();
    b.size = Size { width: Dimension::length(10.0), height: Dimension::length(30.0) };
    let mut g = Style::default();
    g.size = Size { width: Dimension::length(4.0), height: Dimension::length(4.0) };
    let spec = NodeSpec {
        style: root,
        ctx: None,
        children: vec![NodeSpec::leaf(a), NodeSpec { style: b, ctx: None, children: vec![NodeSpec::leaf(g)] }],
    };
    (spec, plain_input(RunMode::ComputeSize))
}

fn describe(r: &[i64]) {
    let f = |b: i64| f32::from_bits(b as u32);
    let mut k = 0;
    while k < r.len() {
        match r[k] {
            0 => {
                let i = &r[k + 2..k + 19];
                let o = |h: i64, v: i64| if h == 0 { "-".to_string() } else { format!("{}", f(v)) };
                let a = |t: i64, v: i64| match t {
                    0 => format!("{}", f(v)),
                    1 => "min".into(),
                    _ => "max".into(),
                };
                println!(
                    "  Query child {} {} {} axis{} known=({},{}) parent=({},{}) avail=({},{})",
                    r[k + 1],
                    ["PerformLayout", "ComputeSize", "Hidden"][i[0] as usize],
                    ["Inherent", "Content"][i[1] as usize],
                    i[2],
                    o(i[3], i[4]),
                    o(i[5], i[6]),
                    o(i[7], i[8]),
                    o(i[9], i[10]),
                    a(i[11], i[12]),
                    a(i[13], i[14])
                );
                k += 19;
            }
            1 => {
                let l = &r[k + 2..k + 23];
                println!("  SetLayout child {} order {} at ({},{}) size ({},{}) content ({},{})", r[k + 1], l[0], f(l[1]), f(l[2]), f(l[3]), f(l[4]), f(l[5]), f(l[6]));
                k += 23;
            }
            _ => {
                println!("  Ret size ({},{}) content ({},{}) baseline_y {}", f(r[k + 1]), f(r[k + 2]), f(r[k + 3]), f(r[k + 4]), if r[k + 7] == 0 { "-".into() } else { format!("{}", f(r[k + 8])) });
                k += 9;
            }
        }
    }
}

pub fn main(args: &[String]) {
    if std::env::var("VH_PANIC").is_err() {
        std::panic::set_hook(Box::new(|_| {}));
    }
    match args[0].as_str() {
        "cases" => {
            let seed: u64 = args[1].parse().unwrap();
            let n: u64 = args[2].parse().unwrap();
            let family: u64 = args.get(3).map(|s| s.parse().unwrap()).unwrap_or(0);
            let (mut done, mut skipped, mut nx, mut ncs, mut nlq) = (0u64, 0u64, 0u64, 0u64, 0u64);
            for idx in 0..n {
                let case = gen_case(seed, idx, family);
                match run_spec(&case.spec, case.input) {
                    Ok(o) => {
                        println!("C {}", join(&o.c));
                        println!("R {}", join(&o.r));
                        for x in &o.xchk {
                            println!("XCHK {idx} {x}");
                            nx += 1;
                        }
                        done += 1;
                        ncs += o.compute_size as u64;
                        nlq += o.layout_query_in_compute_size as u64;
                    }
                    Err(why) => {
                        println!("SKIP {idx} {why}");
                        skipped += 1;
                    }
                }
            }
            println!("DONE {done} {skipped} {nx} {ncs} {nlq}");
        }
        "one" => {
            let seed: u64 = args[1].parse().unwrap();
            let idx: u64 = args[2].parse().unwrap();
            let family: u64 = args.get(3).map(|s| s.parse().unwrap()).unwrap_or(0);
            let case = gen_case(seed, idx, family);
            println!("root style: {:?}", case.spec.style);
            for (k, c) in case.spec.children.iter().enumerate() {
                println!("child {k}: {} nodes, style {:?} ctx {:?}", c.count(), c.style, c.ctx);
            }
            println!("input: {:?}", case.input);
            match run_spec(&case.spec, case.input) {
                Ok(o) => {
                    describe(&o.r);
                    for x in &o.xchk {
                        println!("XCHK {x}");
                    }
                    println!("C {}", join(&o.c));
                    println!("R {}", join(&o.r));
                }
                Err(why) => println!("SKIP {why}"),
            }
        }
        "witness" => match args[1].as_str() {
            "abs" => {
                for v in 0..3 {
                    let (spec, input) = abs_witness(v);
                    let o = run_spec(&spec, input).unwrap();
                    println!("VARIANT {v}");
                    describe(&o.r);
                    println!("C {}", join(&o.c));
                    println!("R {}", join(&o.r));
                }
            }
            "baseline" => {
                let (spec, input) = baseline_witness();
                let o = run_spec(&spec, input).unwrap();
                describe(&o.r);
                println!("C {}", join(&o.c));
                println!("R {}", join(&o.r));
            }
            _ => std::process::exit(2),
        },
        _ => std::process::exit(2),
    }
}
