(* Executable driver of the grid resumption correspondence (`vh gridalg cases`, lib/props/_gridalg.py): `grid_alg` of
   Model/GridAlg.v -- the definition the theorems of Props/C05.v / C06.v are about -- instantiated at F32 and walked with the
   recorded child answers: the i-th recorded output answers the i-th query.  Everything else (which child is queried, with which
   LayoutInput, which layouts are stored, the container's output) is computed by the model and printed as the event list.

   case   = <style root> <input 17> n <style child>*n nq <answer 6>*nq
     style  = display(0 block 1 flex 2 grid 3 none) absolute content_box overflow_x overflow_y scrollbar_width
              size min_size max_size (w h, each kind bits: 0 auto 1 length 2 percent) aspect(flag bits)
              margin padding border inset (l r t b, each kind bits)
              auto_flow(0 row 1 column 2 row-dense 3 column-dense) gap(w h) align_items justify_items align_self justify_self (7 = unset)
              align_content justify_content (0 = unset, as GridTracksRun.dec_align) grid_row(start end: 0 auto / 1 line n / 2 span n)
              grid_column replaced  = 72 integers, then <template columns> <template rows> <auto columns> <auto rows>
              (GridTracksRun.take_template / take_tracks, each with its length first; children carry empty lists)
     input  = mode(0 PerformLayout 1 ComputeSize 2 Hidden) sizing(0 inherent 1 content) axis(0 h 1 v 2 both) known(w h: flag bits)
              parent(w h) avail(w h: 0 definite bits / 1 min / 2 max) collapsible(start end)
     answer = size(w h) content_size(w h) first_baselines.y(flag bits)
   result = events: `0 child input` per Query, `1 child layout(21)` per SetLayout, `2 output(8)`.
   Markers (never a normal-looking value; lib/props/_gridalg.py counts every one as a STRUCTURAL disagreement):
     [-2] the recorded answers ran out (the resumption asks more than the implementation did; printed after the events so far)
     [-3] the model of a Rust panic was evaluated (Model/GridAlg.v `grid_no_panic` fails: `grid_alg` answers `Ret panic_out` there -- the
          harness never prints a case on which the implementation panicked, so this is a disagreement about WHETHER it panics);
          printed INSTEAD of the events
     [-4] the case does not decode
     [-5; n] n recorded answers were left over when the resumption returned (it asks less than the implementation did)
   NOT marked: exhaustion of the fuel of the sizing loops (Model/GridTracks.v distribute_loop / fr_loop, Model/GridIntrinsic.v batch_loop,
   Model/GridAlg.v m_batch_loop / m_baseline_rows return the state reached so far): exposing it needs an option-valued model. *)
From Coq Require Import ZArith NArith Bool List.
From TV Require Import Num.Num Num.F32 Model.Common Model.Leaf Gen.GridTracksGen Model.GridTracks Model.GridTracksRun.
From TV Require Import Model.GridAlgBase Model.GridAlg.
Import ListNotations.
Open Scope Z_scope.

Definition nz (l : list Z) (i : nat) : Z := nth i l 0.
Definition fb (l : list Z) (i : nat) : f32 := f_of_bits (nz l i).

Definition dec_lpa (l : list Z) (i : nat) : LengthPercentageAuto f32 :=
  match nz l i with 0 => Auto | 1 => Length (fb l (S i)) | _ => Percent (fb l (S i)) end.
Definition dec_lp (l : list Z) (i : nat) : LengthPercentage f32 :=
  match nz l i with 2 => LpPercent (fb l (S i)) | _ => LpLength (fb l (S i)) end.
Definition dec_overflow (z : Z) : Overflow := match z with 0 => Visible | 1 => Clip | 2 => Hidden | _ => Scroll end.
Definition dec_ai (z : Z) : option AE.AlignItems :=
  match z with
  | 0 => Some AE.AI_Start | 1 => Some AE.AI_End | 2 => Some AE.AI_FlexStart | 3 => Some AE.AI_FlexEnd | 4 => Some AE.AI_Center
  | 5 => Some AE.AI_Baseline | 6 => Some AE.AI_Stretch | _ => None
  end.
Definition dec_ac (z : Z) : option align_content := match z with 0 => None | _ => Some (dec_align z) end.
Definition dec_gp (l : list Z) (i : nat) : PB.GP :=
  match nz l i with 0 => PB.Auto | 1 => PB.Line (nz l (S i)) | _ => PB.Span (nz l (S i)) end.
Definition dec_opt (l : list Z) (i : nat) : option f32 := match nz l i with 0 => None | _ => Some (fb l (S i)) end.
Definition dec_rect_lpa (l : list Z) (i : nat) : Rect (LengthPercentageAuto f32) :=
  mkRect (dec_lpa l i) (dec_lpa l (i + 2)) (dec_lpa l (i + 4)) (dec_lpa l (i + 6)).
Definition dec_rect_lp (l : list Z) (i : nat) : Rect (LengthPercentage f32) :=
  mkRect (dec_lp l i) (dec_lp l (i + 2)) (dec_lp l (i + 4)) (dec_lp l (i + 6)).

Definition dec_style (l : list Z) : GStyle f32 * list Z :=
  let core := mkStyle (match nz l 0 with 0 => DBlock | 1 => DFlex | 2 => DGrid | _ => DNone end)
                      (match nz l 1 with 0 => Relative | _ => Absolute end)
                      (match nz l 2 with 0 => BorderBox | _ => ContentBox end)
                      (mkPoint (dec_overflow (nz l 3)) (dec_overflow (nz l 4))) (fb l 5)
                      (mkSize (dec_lpa l 6) (dec_lpa l 8)) (mkSize (dec_lpa l 10) (dec_lpa l 12)) (mkSize (dec_lpa l 14) (dec_lpa l 16))
                      (dec_opt l 18) (dec_rect_lpa l 20) (dec_rect_lp l 28) (dec_rect_lp l 36) in
  let r0 := skipn 72 l in
  match r0 with
  | ncols :: r0' =>
      let '(cols, r1) := take_template (Z.to_nat ncols) r0' in
      match r1 with
      | nrows :: r1' =>
          let '(rows, r2) := take_template (Z.to_nat nrows) r1' in
          match r2 with
          | nac :: r2' =>
              let '(acols, r3) := take_tracks (Z.to_nat nac) r2' in
              match r3 with
              | nar :: r3' =>
                  let '(arows, r4) := take_tracks (Z.to_nat nar) r3' in
                  (mkGStyle core (dec_rect_lpa l 44) cols rows acols arows
                            (match nz l 52 with 0 => PB.FRow | 1 => PB.FColumn | 2 => PB.FRowDense | _ => PB.FColumnDense end)
                            (mkSize (dec_lp l 53) (dec_lp l 55)) (dec_ai (nz l 57)) (dec_ai (nz l 58)) (dec_ac (nz l 61)) (dec_ac (nz l 62))
                            (PB.mkLn (dec_gp l 63) (dec_gp l 65)) (PB.mkLn (dec_gp l 67) (dec_gp l 69))
                            (dec_ai (nz l 59)) (dec_ai (nz l 60)) (negb (nz l 71 =? 0)), r4)
              | [] => (bare_none_gstyle, [])
              end
          | [] => (bare_none_gstyle, [])
          end
      | [] => (bare_none_gstyle, [])
      end
  | [] => (bare_none_gstyle, [])
  end.

Fixpoint dec_styles (n : nat) (l : list Z) : list (GStyle f32) * list Z :=
  match n with
  | O => ([], l)
  | S n' => let '(s, r) := dec_style l in let '(ss, r') := dec_styles n' r in (s :: ss, r')
  end.

Definition dec_avail (l : list Z) (i : nat) : AvailableSpace f32 :=
  match nz l i with 0 => Types.Definite (fb l (S i)) | 1 => MinContent | _ => MaxContent end.

Definition dec_input (l : list Z) : GIn f32 * list Z :=
  (mkGIn (match nz l 0 with 0 => Engine.PerformLayout | 1 => Engine.ComputeSize | _ => Engine.PerformHiddenLayout end)
         (match nz l 1 with 0 => InherentSize | _ => ContentSize end)
         (match nz l 2 with 0 => AxHorizontal | 1 => AxVertical | _ => AxBoth end)
         (mkSize (dec_opt l 3) (dec_opt l 5)) (mkSize (dec_opt l 7) (dec_opt l 9))
         (mkSize (dec_avail l 11) (dec_avail l 13)) (mkLine (negb (nz l 15 =? 0)) (negb (nz l 16 =? 0))),
   skipn 17 l).

Fixpoint dec_answers (n : nat) (l : list Z) : list (LayoutOutput f32) :=
  match n with
  | O => []
  | S n' =>
      mkOutput (mkSize (fb l 0) (fb l 1)) (mkSize (fb l 2) (fb l 3)) (mkPoint None (dec_opt l 4)) margin_set_ZERO margin_set_ZERO false
        :: dec_answers n' (skipn 6 l)
  end.

Definition enc_opt (o : option f32) : list Z := match o with Some v => [1; f_to_bits v] | None => [0; 0] end.
Definition enc_avail (a : AvailableSpace f32) : list Z :=
  match a with Types.Definite v => [0; f_to_bits v] | MinContent => [1; 0] | MaxContent => [2; 0] end.
Definition b2z (b : bool) : Z := if b then 1 else 0.
Definition enc_input (i : GIn f32) : list Z :=
  [match gi_mode i with Engine.PerformLayout => 0 | Engine.ComputeSize => 1 | Engine.PerformHiddenLayout => 2 end;
   match gi_sizing i with InherentSize => 0 | ContentSize => 1 end;
   match gi_axis i with AxHorizontal => 0 | AxVertical => 1 | AxBoth => 2 end]
  ++ enc_opt (width (gi_known i)) ++ enc_opt (height (gi_known i)) ++ enc_opt (width (gi_parent i)) ++ enc_opt (height (gi_parent i))
  ++ enc_avail (width (gi_avail i)) ++ enc_avail (height (gi_avail i))
  ++ [b2z (l_start (gi_collapsible i)); b2z (l_end (gi_collapsible i))].
Definition enc_rect (r : Rect f32) : list Z := [f_to_bits (r_left r); f_to_bits (r_right r); f_to_bits (r_top r); f_to_bits (r_bottom r)].
Definition enc_layout (l : GLay f32) : list Z :=
  [gl_order l; f_to_bits (px (gl_location l)); f_to_bits (py (gl_location l)); f_to_bits (width (gl_size l)); f_to_bits (height (gl_size l));
   f_to_bits (width (gl_content_size l)); f_to_bits (height (gl_content_size l));
   f_to_bits (width (gl_scrollbar_size l)); f_to_bits (height (gl_scrollbar_size l))]
  ++ enc_rect (gl_border l) ++ enc_rect (gl_padding l) ++ enc_rect (gl_margin l).
Definition enc_output (o : LayoutOutput f32) : list Z :=
  [f_to_bits (width (out_size o)); f_to_bits (height (out_size o)); f_to_bits (width (out_content_size o)); f_to_bits (height (out_content_size o))]
  ++ enc_opt (px (first_baselines o)) ++ enc_opt (py (first_baselines o)).

(* walk the resumption, answering the i-th query with the i-th recorded output; the events, most recent first *)
Fixpoint walk (a : Engine.Alg (GIn f32) (LayoutOutput f32) (GLay f32)) (answers : list (LayoutOutput f32)) (acc : list (list Z))
  : list (list Z) :=
  match a with
  | Engine.Ret _ _ _ o =>
      match answers with
      | [] => (2 :: enc_output o) :: acc
      | _ => [-5; Z.of_nat (length answers)] :: (2 :: enc_output o) :: acc
      end
  | Engine.Query _ _ _ c i k =>
      match answers with
      | o :: rest => walk (k o) rest ((0 :: Z.of_nat c :: enc_input i) :: acc)
      | [] => [-2] :: (0 :: Z.of_nat c :: enc_input i) :: acc
      end
  | Engine.SetLayout _ _ _ c l k => walk k answers ((1 :: Z.of_nat c :: enc_layout l) :: acc)
  end.

Definition run_case (c : list Z) : list Z :=
  let '(st, r1) := dec_style c in
  let '(inp, r2) := dec_input r1 in
  match r2 with
  | n :: r3 =>
      let '(kids, r4) := dec_styles (Z.to_nat n) r3 in
      match r4 with
      | nq :: r5 =>
          if Z.of_nat (length r5) <? 6 * nq then [-4]
          else if negb (grid_no_panic st kids inp) then [-3]
          else concat (rev (walk (grid_alg st kids inp) (dec_answers (Z.to_nat nq) r5) []))
      | [] => [-4]
      end
  | [] => [-4]
  end.
