//! C04 search: homogeneity of the whole engine under uniform scaling by a power of two.
//!
//! `vh c04 oracle <seed> <start> <n>`  for idx in start..start+n: a random tree (treegen, all displays, measure contexts,
//!     definite / min-content / max-content available space, dyadic lengths) is laid out from scratch twice with rounding
//!     disabled: as generated, and with every absolute length of every Style, the measure contexts and the definite
//!     available space multiplied by k (k = one of 1/8 1/4 1/2 2 4 16, chosen by the case).  Percentages, flex factors, fr
//!     factors, aspect ratios, enums, grid lines are left alone.  Every f32 field of every node's unrounded layout of the
//!     scaled run must equal k * the field of the original run BIT FOR BIT (scaling by a power of two is exact in binary32
//!     away from overflow / underflow, and commutes with + - * / min max compare, so no tolerance is needed).
//!     Output: `FAIL <idx> k=<k> class=<class> node=<i> field=<name> orig=<x> scaled=<y> expected=<k*x>` per failing case
//!     (first differing field), `ORACLE cases=.. nodes=.. fields=.. exact=.. fail=.. known_flex=.. ...` at the end.
//!     class (see `classify`): `flex-intrinsic-shrink` = the style tree is in the class of the known finding
//!     flex-intrinsic-shrink-factor-floor (`has_known_flex_class`); `grid-threshold` = a tree with grid containers where
//!     some mismatch is within a few hundredths of a pixel (known finding grid-track-threshold-absolute); else `unexplained`.
//! `vh c04 one <seed> <idx> [k]`  the same for one case, verbose.
//! `vh c04 witness`  the minimal reproducer of the known finding (flex-intrinsic-shrink-factor-floor).
//! `vh c04 show <seed> <idx>`  prints the generated tree.
use crate::rng::Rng;
use crate::treegen::*;
use taffy::prelude::*;
use taffy::{CompactLength, MaxTrackSizingFunction, MinTrackSizingFunction, NonRepeatedTrackSizingFunction, TrackSizingFunction};

pub const KS: [f32; 6] = [0.125, 0.25, 0.5, 2.0, 4.0, 16.0];

pub fn case(seed: u64, idx: u64) -> (NodeSpec, Size<AvailableSpace>, f32) {
    let mut rng = Rng::new(seed.wrapping_mul(0x9E37_79B9).wrapping_add(idx).wrapping_add(0xC04));
    let mut cfg = GenCfg::default();
    cfg.fractional = false;
    match idx % 4 {
        1 => {
            cfg.displays = vec![Display::Flex];
            cfg.max_depth = 3;
        }
        2 => {
            cfg.displays = vec![Display::Grid];
            cfg.max_depth = 2;
        }
        3 => {
            cfg.displays = vec![Display::Block, Display::Block, Display::Flex];
        }
        _ => {}
    }
    if idx % 8 >= 4 {
        cfg.max_nodes = 20;
        cfg.max_children = 5;
    }
    let t = tree(&mut rng, &cfg);
    let a = avail(&mut rng, &cfg);
    let k = *rng.pick(&KS);
    (t, a, k)
}

// ------------------------------------------------------------------------------------------------ scaling a style

fn scale_cl(c: CompactLength, k: f32) -> CompactLength {
    if c.is_calc() {
        return c;
    }
    match c.tag() {
        CompactLength::LENGTH_TAG => CompactLength::length(c.value() * k),
        CompactLength::FIT_CONTENT_PX_TAG => CompactLength::fit_content_px(c.value() * k),
        _ => c, // percent, fr, auto, min-/max-content, fit-content(percent)
    }
}
fn sd(d: Dimension, k: f32) -> Dimension {
    unsafe { Dimension::from_raw(scale_cl(d.into_raw(), k)) }
}
fn slp(d: LengthPercentage, k: f32) -> LengthPercentage {
    unsafe { LengthPercentage::from_raw(scale_cl(d.into_raw(), k)) }
}
fn slpa(d: LengthPercentageAuto, k: f32) -> LengthPercentageAuto {
    unsafe { LengthPercentageAuto::from_raw(scale_cl(d.into_raw(), k)) }
}
fn strack(t: &NonRepeatedTrackSizingFunction, k: f32) -> NonRepeatedTrackSizingFunction {
    NonRepeatedTrackSizingFunction {
        min: unsafe { MinTrackSizingFunction::from_raw(scale_cl(t.min.into_raw(), k)) },
        max: unsafe { MaxTrackSizingFunction::from_raw(scale_cl(t.max.into_raw(), k)) },
    }
}
fn stemplate(v: &[TrackSizingFunction], k: f32) -> Vec<TrackSizingFunction> {
    v.iter()
        .map(|t| match t {
            TrackSizingFunction::Single(s) => TrackSizingFunction::Single(strack(s, k)),
            TrackSizingFunction::Repeat(r, ts) => TrackSizingFunction::Repeat(*r, ts.iter().map(|s| strack(s, k)).collect()),
        })
        .collect()
}

/// Every absolute length of the style multiplied by k; everything dimensionless untouched.
pub fn scale_style(s: &Style, k: f32) -> Style {
    let mut r = s.clone();
    r.scrollbar_width = s.scrollbar_width * k;
    r.size = s.size.map(|d| sd(d, k));
    r.min_size = s.min_size.map(|d| sd(d, k));
    r.max_size = s.max_size.map(|d| sd(d, k));
    r.margin = s.margin.map(|d| slpa(d, k));
    r.inset = s.inset.map(|d| slpa(d, k));
    r.padding = s.padding.map(|d| slp(d, k));
    r.border = s.border.map(|d| slp(d, k));
    r.gap = s.gap.map(|d| slp(d, k));
    r.flex_basis = sd(s.flex_basis, k);
    r.grid_template_rows = stemplate(&s.grid_template_rows, k);
    r.grid_template_columns = stemplate(&s.grid_template_columns, k);
    r.grid_auto_rows = s.grid_auto_rows.iter().map(|t| strack(t, k)).collect();
    r.grid_auto_columns = s.grid_auto_columns.iter().map(|t| strack(t, k)).collect();
    r
}

pub fn scale_ctx(c: &Ctx, k: f32) -> Ctx {
    match c {
        Ctx::Fixed(w, h) => Ctx::Fixed(w * k, h * k),
        Ctx::Text(n, unit) => Ctx::Text(*n, unit * k),
        Ctx::Echo(base) => Ctx::Echo(base * k),
    }
}

pub fn scale_spec(s: &NodeSpec, k: f32) -> NodeSpec {
    NodeSpec { style: scale_style(&s.style, k), ctx: s.ctx.as_ref().map(|c| scale_ctx(c, k)), children: s.children.iter().map(|c| scale_spec(c, k)).collect() }
}

pub fn scale_avail(a: Size<AvailableSpace>, k: f32) -> Size<AvailableSpace> {
    a.map(|x| match x {
        AvailableSpace::Definite(v) => AvailableSpace::Definite(v * k),
        o => o,
    })
}

// ------------------------------------------------------------------------------------------------ running

const FIELDS: [&str; 20] = [
    "location.x", "location.y", "size.width", "size.height", "content_size.width", "content_size.height", "scrollbar_size.width",
    "scrollbar_size.height", "border.left", "border.right", "border.top", "border.bottom", "padding.left", "padding.right",
    "padding.top", "padding.bottom", "margin.left", "margin.right", "margin.top", "margin.bottom",
];

/// unrounded layouts of all nodes in pre-order (None = panic)
pub fn layout_all(spec: &NodeSpec, a: Size<AvailableSpace>) -> Option<Vec<(u32, Vec<f32>)>> {
    let r = std::panic::catch_unwind(|| {
        let mut t: TaffyTree<Ctx> = TaffyTree::new();
        t.disable_rounding();
        let mut ids = vec![];
        let root = build(&mut t, spec, &mut ids);
        compute(&mut t, root, a);
        ids.iter()
            .map(|id| {
                let l = t.unrounded_layout(*id);
                (l.order, layout_floats(l))
            })
            .collect::<Vec<_>>()
    });
    r.ok()
}

#[derive(Debug, Clone)]
pub struct Mismatch {
    pub node: usize,
    pub field: String,
    pub orig: f32,
    pub scaled: f32,
    pub expected: f32,
}

/// zeros of either sign are one value (k * -0.0 = -0.0 and max(0.0, -0.0) may return either: a length of zero has no sign)
fn same(a: f32, b: f32) -> bool {
    a.to_bits() == b.to_bits() || (a == 0.0 && b == 0.0) || (a.is_nan() && b.is_nan())
}

pub struct Outcome {
    pub nodes: usize,
    pub fields: usize,
    pub mismatches: Vec<Mismatch>,
    pub max_rel: f64,
    pub max_abs: f64,
    pub min_abs: f64,
    pub out_of_range: bool,
    pub panicked: (bool, bool),
}

pub fn compare(spec: &NodeSpec, a: Size<AvailableSpace>, k: f32) -> Outcome {
    let o = layout_all(spec, a);
    let s = layout_all(&scale_spec(spec, k), scale_avail(a, k));
    let mut out = Outcome { nodes: 0, fields: 0, mismatches: vec![], max_rel: 0.0, max_abs: 0.0, min_abs: f64::INFINITY, out_of_range: false, panicked: (o.is_none(), s.is_none()) };
    let (o, s) = match (o, s) {
        (Some(o), Some(s)) => (o, s),
        _ => return out,
    };
    out.nodes = o.len();
    for (i, ((oo, of), (so, sf))) in o.iter().zip(s.iter()).enumerate() {
        if oo != so {
            out.mismatches.push(Mismatch { node: i, field: "order".into(), orig: *oo as f32, scaled: *so as f32, expected: *oo as f32 });
        }
        for (j, (x, y)) in of.iter().zip(sf.iter()).enumerate() {
            out.fields += 1;
            let e = x * k;
            // outside the range where scaling by k is exact (never reached with the generated magnitudes; counted, not compared)
            if x.is_finite() && *x != 0.0 && (x.abs() < 1e-30 || x.abs() > 1e30) {
                out.out_of_range = true;
                continue;
            }
            if !same(e, *y) {
                let rel = ((e as f64 - *y as f64).abs()) / (e.abs().max(y.abs()).max(1e-30) as f64);
                if rel > out.max_rel {
                    out.max_rel = rel;
                }
                let ab = (e as f64 - *y as f64).abs();
                if ab > out.max_abs || ab.is_nan() {
                    out.max_abs = ab;
                }
                if ab < out.min_abs {
                    out.min_abs = ab;
                }
                out.mismatches.push(Mismatch { node: i, field: FIELDS[j].into(), orig: *x, scaled: *y, expected: e });
            }
        }
    }
    out
}

// ------------------------------------------------------------------------------------------------ the known class

fn flatten<'a>(s: &'a NodeSpec, parent: Option<&'a NodeSpec>, out: &mut Vec<(&'a NodeSpec, Option<&'a NodeSpec>)>) {
    out.push((s, parent));
    for c in &s.children {
        flatten(c, Some(s), out);
    }
}

/// The class of the known finding `flex-intrinsic-shrink-factor-floor`, decided on the STYLE TREE alone.  The defect
/// (flexbox.rs determine_container_main_size, min-/max-content branch) needs
///   (a) a flex container F whose main size is computed intrinsically: F's main-axis style size is not a length (auto or
///       percent) or F is measured with SizingMode::ContentSize (child of a flex container / absolute child), and F is
///       not a root laid out under a definite available main size, and
///   (b) an in-flow item c of F with flex_shrink * inner_flex_basis < 1 at the smaller of the two scales (and a content
///       contribution below its flex basis, which is not decidable from the styles).
/// `flex_class` over-approximates (b) with a lower bound of the inner flex basis: the flex-basis / main size length minus
/// the main-axis padding and border (border-box), 0 when that is content- or percentage- or ratio-derived.
pub fn has_known_flex_class(spec: &NodeSpec, a: Size<AvailableSpace>, k: f32) -> bool {
    let mut all = vec![];
    flatten(spec, None, &mut all);
    all.iter().any(|(n, parent)| {
        if n.style.display != Display::Flex || n.children.is_empty() {
            return false;
        }
        let row = matches!(n.style.flex_direction, FlexDirection::Row | FlexDirection::RowReverse);
        let main = |s: Size<Dimension>| if row { s.width } else { s.height };
        let definite_main = main(n.style.size).into_raw().tag() == CompactLength::LENGTH_TAG;
        // a flex parent (automatic minimum size, hypothetical sizes) and a block parent of an absolute child measure with
        // SizingMode::ContentSize, which ignores the style size: only then can a styled main size still be sized by content
        let content_sized_by_parent = match parent {
            None => false,
            Some(p) => p.style.display == Display::Flex || n.style.position == Position::Absolute,
        };
        if definite_main && !content_sized_by_parent {
            return false;
        }
        if parent.is_none() {
            let am = if row { a.width } else { a.height };
            if matches!(am, AvailableSpace::Definite(_)) {
                return false;
            }
        }
        n.children.iter().any(|c| c.style.display != Display::None && c.style.position != Position::Absolute && item_may_floor(&c.style, row, k))
    })
}

/// flex_shrink * (lower bound of the inner flex basis at the smaller scale) < 1
fn item_may_floor(s: &Style, row: bool, k: f32) -> bool {
    let kk = k.min(1.0);
    let len = |c: CompactLength| if c.tag() == CompactLength::LENGTH_TAG { Some(c.value()) } else { None };
    let basis = len(s.flex_basis.into_raw()).or(len((if row { s.size.width } else { s.size.height }).into_raw()));
    let lower = match basis {
        Some(v) if s.aspect_ratio.is_none() || len(s.flex_basis.into_raw()).is_some() => {
            let sides = if row { [s.padding.left, s.padding.right, s.border.left, s.border.right] } else { [s.padding.top, s.padding.bottom, s.border.top, s.border.bottom] };
            let mut pb = 0.0;
            let mut pct = false;
            for x in sides {
                match len(x.into_raw()) {
                    Some(l) => pb += l,
                    None => pct = true,
                }
            }
            if pct {
                0.0
            } else if s.box_sizing == taffy::BoxSizing::ContentBox && len(s.flex_basis.into_raw()).is_none() {
                v * kk
            } else {
                (v - pb).max(0.0) * kk
            }
        }
        _ => 0.0,
    };
    s.flex_shrink * lower < 1.0
}

/// number of grid containers (display:grid with children) in the tree
pub fn grid_containers(spec: &NodeSpec) -> usize {
    let mut all = vec![];
    flatten(spec, None, &mut all);
    all.iter().filter(|(n, _)| n.style.display == Display::Grid && !n.children.is_empty()).count()
}

/// The absolute thresholds of grid track sizing (track_sizing.rs: THRESHOLD = 0.01 in distribute_space_up_to_limits -- space
/// of at most 0.01 is left undistributed and a track may overshoot its limit by 0.01 -- and 0.000001 in
/// distribute_item_space_to_base_size) make a grid inexact by about a hundredth of a pixel at ONE of the two scales; the
/// deviation is then carried (percentages of it, sums) or amplified by discontinuities downstream (a text leaf wrapping
/// at floor(width / glyph), flex line breaking, auto-fit counts).  A mismatch is attributed to the thresholds only if the
/// tree has grid containers and SOME mismatching field -- the seed -- is within
/// 0.01 * max(1, k) * (2 + 2 * grid containers) of k * original (in the units of the scaled tree).
pub fn threshold_bound(spec: &NodeSpec, k: f32) -> f64 {
    0.01 * (k.max(1.0) as f64) * (2.0 + 2.0 * grid_containers(spec) as f64)
}

pub fn classify(spec: &NodeSpec, a: Size<AvailableSpace>, k: f32, out: &Outcome) -> &'static str {
    let grid = grid_containers(spec) > 0 && out.panicked == (false, false);
    if grid && out.max_abs <= threshold_bound(spec, k) {
        "grid-threshold"
    } else if has_known_flex_class(spec, a, k) {
        "flex-intrinsic-shrink"
    } else if grid && out.min_abs <= threshold_bound(spec, k) {
        "grid-threshold"
    } else if grid {
        // no mismatch is small: either a threshold effect amplified by a discontinuity in an intermediate pass (observed at
        // 2-3 per million cases on the pinned tree; each one inspected disappears when both THRESHOLDs are set to 0) or
        // something else in a tree with grids: the driver tolerates only a handful of these (lib/props/c04.py)
        "grid-amplified"
    } else {
        "unexplained"
    }
}

// ------------------------------------------------------------------------------------------------ compact printing

fn cl(c: CompactLength) -> String {
    match c.tag() {
        CompactLength::LENGTH_TAG => format!("{}", c.value()),
        CompactLength::PERCENT_TAG => format!("{}%", c.value() * 100.0),
        CompactLength::AUTO_TAG => "auto".into(),
        CompactLength::FR_TAG => format!("{}fr", c.value()),
        CompactLength::MIN_CONTENT_TAG => "min-c".into(),
        CompactLength::MAX_CONTENT_TAG => "max-c".into(),
        CompactLength::FIT_CONTENT_PX_TAG => format!("fit({})", c.value()),
        CompactLength::FIT_CONTENT_PERCENT_TAG => format!("fit({}%)", c.value() * 100.0),
        _ => "calc".into(),
    }
}
fn tr(t: &NonRepeatedTrackSizingFunction) -> String {
    format!("mm({},{})", cl(t.min.into_raw()), cl(t.max.into_raw()))
}
fn tpl(v: &[TrackSizingFunction]) -> String {
    v.iter()
        .map(|t| match t {
            TrackSizingFunction::Single(s) => tr(s),
            TrackSizingFunction::Repeat(r, ts) => format!("rep({:?};{})", r, ts.iter().map(tr).collect::<Vec<_>>().join(" ")),
        })
        .collect::<Vec<_>>()
        .join(" ")
}

/// one line per node, non-default fields only
pub fn brief(s: &NodeSpec, depth: usize, idx: &mut usize, out: &mut String) {
    let d = Style::default();
    let st = &s.style;
    let mut f = vec![format!("{:?}", st.display)];
    if st.position != d.position {
        f.push("abs".into());
    }
    if st.box_sizing != d.box_sizing {
        f.push("content-box".into());
    }
    let sz = |n: &str, v: Size<Dimension>, f: &mut Vec<String>| {
        if v != Size::auto() {
            f.push(format!("{}={}x{}", n, cl(v.width.into_raw()), cl(v.height.into_raw())));
        }
    };
    sz("size", st.size, &mut f);
    sz("min", st.min_size, &mut f);
    sz("max", st.max_size, &mut f);
    if let Some(r) = st.aspect_ratio {
        f.push(format!("ratio={}", r));
    }
    let r4 = |a: CompactLength, b: CompactLength, c: CompactLength, e: CompactLength| format!("[{} {} {} {}]", cl(a), cl(b), cl(c), cl(e));
    if st.margin != d.margin {
        f.push(format!("margin(lrtb)={}", r4(st.margin.left.into_raw(), st.margin.right.into_raw(), st.margin.top.into_raw(), st.margin.bottom.into_raw())));
    }
    if st.padding != d.padding {
        f.push(format!("padding={}", r4(st.padding.left.into_raw(), st.padding.right.into_raw(), st.padding.top.into_raw(), st.padding.bottom.into_raw())));
    }
    if st.border != d.border {
        f.push(format!("border={}", r4(st.border.left.into_raw(), st.border.right.into_raw(), st.border.top.into_raw(), st.border.bottom.into_raw())));
    }
    if st.inset != d.inset {
        f.push(format!("inset={}", r4(st.inset.left.into_raw(), st.inset.right.into_raw(), st.inset.top.into_raw(), st.inset.bottom.into_raw())));
    }
    if st.overflow != d.overflow {
        f.push(format!("overflow={:?}/{:?} sbw={}", st.overflow.x, st.overflow.y, st.scrollbar_width));
    }
    f.push(format!("{:?}/{:?} grow={} shrink={} basis={}", st.flex_direction, st.flex_wrap, st.flex_grow, st.flex_shrink, cl(st.flex_basis.into_raw())));
    if st.gap != d.gap {
        f.push(format!("gap={}x{}", cl(st.gap.width.into_raw()), cl(st.gap.height.into_raw())));
    }
    for (n, v) in [("ai", st.align_items), ("as", st.align_self), ("ji", st.justify_items), ("js", st.justify_self)] {
        if let Some(v) = v {
            f.push(format!("{}={:?}", n, v));
        }
    }
    for (n, v) in [("ac", st.align_content), ("jc", st.justify_content)] {
        if let Some(v) = v {
            f.push(format!("{}={:?}", n, v));
        }
    }
    if st.text_align != d.text_align {
        f.push(format!("{:?}", st.text_align));
    }
    if !st.grid_template_rows.is_empty() {
        f.push(format!("rows={}", tpl(&st.grid_template_rows)));
    }
    if !st.grid_template_columns.is_empty() {
        f.push(format!("cols={}", tpl(&st.grid_template_columns)));
    }
    if !st.grid_auto_rows.is_empty() {
        f.push(format!("auto_rows={}", st.grid_auto_rows.iter().map(tr).collect::<Vec<_>>().join(" ")));
    }
    if !st.grid_auto_columns.is_empty() {
        f.push(format!("auto_cols={}", st.grid_auto_columns.iter().map(tr).collect::<Vec<_>>().join(" ")));
    }
    if st.grid_row != d.grid_row || st.grid_column != d.grid_column {
        f.push(format!("row={:?}/{:?} col={:?}/{:?}", st.grid_row.start, st.grid_row.end, st.grid_column.start, st.grid_column.end));
    }
    if let Some(c) = &s.ctx {
        f.push(format!("{:?}", c));
    }
    out.push_str(&format!("{:>3} {}{}\n", *idx, "  ".repeat(depth), f.join(" ")));
    *idx += 1;
    for c in &s.children {
        brief(c, depth + 1, idx, out);
    }
}

// ------------------------------------------------------------------------------------------------ witness

/// Minimal reproducer of the known finding: a row flex container with auto width under max-content, one item with
/// flex-basis 100, flex_shrink 0.5 (scaled shrink factor 50) and a max-content contribution of 90 (measured 90x10).
/// The property demands width 2x at k = 2 ... which holds for THIS item (shrink*basis >= 1 at both scales); the finding
/// needs shrink*basis to cross 1: basis 1, shrink 0.5, content 0.5.
pub fn witness_spec(which: usize) -> (NodeSpec, Size<AvailableSpace>, f32) {
    let item = |basis: f32, shrink: f32, grow: f32, w: f32| NodeSpec {
        style: Style { flex_basis: Dimension::length(basis), flex_shrink: shrink, flex_grow: grow, ..Default::default() },
        ctx: Some(Ctx::Fixed(w, 10.0)),
        children: vec![],
    };
    let container = |children| NodeSpec { style: Style { display: Display::Flex, ..Default::default() }, ctx: None, children };
    match which {
        // shrink factor crosses 1: flex_shrink 0.5, basis 1 -> 4 at k = 4
        0 => (container(vec![item(1.0, 0.5, 1.0, 0.5)]), Size::MAX_CONTENT, 4.0),
        // flex_shrink 0 (spec: the item does not shrink): contribution = basis + basis * diff, quadratic in the lengths
        1 => (container(vec![item(4.0, 0.0, 1.0, 2.0), item(20.0, 1.0, 0.0, 20.0)]), Size::MAX_CONTENT, 2.0),
        // control: shrink * basis >= 1 at both scales -> homogeneous
        2 => (container(vec![item(100.0, 0.5, 1.0, 90.0)]), Size::MAX_CONTENT, 2.0),
        // control: the DESIGN.md witness (flex_shrink 1/2, negative margin) with a large basis -> homogeneous
        _ => {
            let mut it = item(100.0, 0.5, 0.0, 100.0);
            it.style.margin.left = LengthPercentageAuto::length(-10.0);
            (container(vec![it]), Size::MAX_CONTENT, 2.0)
        }
    }
}

fn report(idx: u64, spec: &NodeSpec, a: Size<AvailableSpace>, k: f32, out: &Outcome) -> String {
    let m = &out.mismatches[0];
    format!(
        "FAIL {} k={} class={} node={} field={} orig={} scaled={} expected={} mismatching_fields={} max_rel={:.3e} max_abs={:.4e} min_abs={:.4e} grids={}",
        idx,
        k,
        classify(spec, a, k, out),
        m.node,
        m.field,
        m.orig,
        m.scaled,
        m.expected,
        out.mismatches.len(),
        out.max_rel,
        out.max_abs,
        out.min_abs,
        grid_containers(spec)
    )
}

pub fn main(args: &[String]) {
    if std::env::var("VH_BACKTRACE").is_err() {
        std::panic::set_hook(Box::new(|_| {}));
    }
    match args[0].as_str() {
        "fullline" => {
            // deterministic family: wrapping flex rows whose items fill the line almost exactly (n items of 1/n of the width, as
            // percentages or as lengths: the f32 sums are within an ulp or two of the available width), at power-of-two scales
            // from 2^-14 to 2^10 -- whether the last item wraps must not depend on the scale
            let mut cases = 0u64;
            for n in [3usize, 6, 7, 9, 11, 13] {
                for w in [100.0f32, 90.0, 64.1, 33.3] {
                    for as_percent in [true, false] {
                        let item = |_: usize| NodeSpec {
                            style: Style {
                                size: Size {
                                    width: if as_percent { Dimension::percent(1.0 / n as f32) } else { Dimension::length(w / n as f32) },
                                    height: Dimension::length(20.0),
                                },
                                flex_shrink: 0.0,
                                ..Default::default()
                            },
                            ctx: None,
                            children: vec![],
                        };
                        let spec = NodeSpec {
                            style: Style {
                                display: Display::Flex,
                                flex_wrap: FlexWrap::Wrap,
                                size: Size { width: Dimension::length(w), height: Dimension::auto() },
                                border: Rect { left: LengthPercentage::length(1.0), right: LengthPercentage::length(1.0), top: LengthPercentage::length(0.0), bottom: LengthPercentage::length(0.0) },
                                box_sizing: BoxSizing::ContentBox,
                                ..Default::default()
                            },
                            ctx: None,
                            children: (0..n).map(item).collect(),
                        };
                        for e in [-14i32, -6, -3, -1, 1, 4, 10] {
                            let k = 2f32.powi(e);
                            cases += 1;
                            let out = compare(&spec, Size::MAX_CONTENT, k);
                            if out.panicked.0 != out.panicked.1 || !out.mismatches.is_empty() {
                                let m = out.mismatches.first().map(|m| format!("node {} {}: {} at scale 1, {} at scale {k} (expected {})", m.node, m.field, m.orig, m.scaled, m.expected)).unwrap_or_default();
                                println!("FAIL fullline n={n} width={w} {} k=2^{e}: {m}", if as_percent { "percent" } else { "length" });
                            }
                        }
                    }
                }
            }
            println!("FULLLINE {cases}");
        }
        "oracle" => {
            let seed: u64 = args[1].parse().unwrap();
            let start: u64 = args[2].parse().unwrap();
            let n: u64 = args[3].parse().unwrap();
            let mut thr = 0u64;
            let mut amp = 0u64;
            let (mut cases, mut nodes, mut fields, mut exact, mut fail, mut known, mut panics, mut oor) = (0u64, 0u64, 0u64, 0u64, 0u64, 0u64, 0u64, 0u64);
            let mut shapes = [0u64; 4]; // cases whose tree contains flex / grid / block containers / measured leaves
            let mut kcount = [0u64; 6];
            let mut in_class = 0u64;
            let mut seen: std::collections::HashSet<u64> = std::collections::HashSet::new();
            let mut nontrivial = 0u64;
            for idx in start..start + n {
                let (spec, a, k) = case(seed, idx);
                let out = compare(&spec, a, k);
                cases += 1;
                kcount[KS.iter().position(|x| *x == k).unwrap()] += 1;
                let mut all = vec![];
                flatten(&spec, None, &mut all);
                for (d, slot) in [(Display::Flex, 0), (Display::Grid, 1), (Display::Block, 2)] {
                    if all.iter().any(|(s, _)| !s.children.is_empty() && s.style.display == d) {
                        shapes[slot] += 1;
                    }
                }
                if all.iter().any(|(s, _)| s.ctx.is_some()) {
                    shapes[3] += 1;
                }
                if has_known_flex_class(&spec, a, k) {
                    in_class += 1;
                }
                // distinct non-trivial cases: at least two nodes; distinct by the printed style tree, available space and k
                if all.len() >= 2 {
                    use std::hash::{Hash, Hasher};
                    let mut txt = String::new();
                    brief(&spec, 0, &mut 0, &mut txt);
                    let mut h = std::collections::hash_map::DefaultHasher::new();
                    txt.hash(&mut h);
                    avail_str(a).hash(&mut h);
                    k.to_bits().hash(&mut h);
                    if seen.insert(h.finish()) {
                        nontrivial += 1;
                    }
                }
                if out.panicked.0 != out.panicked.1 {
                    println!("FAIL {} k={} class=unexplained panic orig={} scaled={}", idx, k, out.panicked.0, out.panicked.1);
                    fail += 1;
                    continue;
                }
                if out.panicked.0 {
                    panics += 1;
                    continue;
                }
                nodes += out.nodes as u64;
                fields += out.fields as u64;
                if out.out_of_range {
                    oor += 1;
                }
                if out.mismatches.is_empty() {
                    exact += 1;
                } else {
                    let cl = classify(&spec, a, k, &out);
                    if cl == "unexplained" {
                        fail += 1;
                    } else if cl == "grid-threshold" {
                        thr += 1;
                    } else if cl == "grid-amplified" {
                        amp += 1;
                    } else {
                        known += 1;
                    }
                    println!("{}", report(idx, &spec, a, k, &out));
                }
            }
            println!(
                "ORACLE cases={} distinct_nontrivial={} nodes={} fields={} exact={} fail={} known_flex={} grid_threshold={} grid_amplified={} both_panic={} out_of_range={} with_flex={} with_grid={} with_block={} with_measure={} in_known_class={} k8th={} k4th={} khalf={} k2={} k4={} k16={}",
                cases, nontrivial, nodes, fields, exact, fail, known, thr, amp, panics, oor, shapes[0], shapes[1], shapes[2], shapes[3], in_class,
                kcount[0], kcount[1], kcount[2], kcount[3], kcount[4], kcount[5]
            );
        }
        "one" | "show" => {
            let seed: u64 = args[1].parse().unwrap();
            let idx: u64 = args[2].parse().unwrap();
            let (spec, a, mut k) = case(seed, idx);
            if args.len() > 3 {
                k = args[3].parse().unwrap();
            }
            if args[0] == "show" {
                let mut txt = String::new();
                brief(&spec, 0, &mut 0, &mut txt);
                println!("{}avail={:?} k={}", txt, a, k);
                if let (Some(o), Some(sc)) = (layout_all(&spec, a), layout_all(&scale_spec(&spec, k), scale_avail(a, k))) {
                    for (i, (x, y)) in o.iter().zip(sc.iter()).enumerate() {
                        println!("  layout {:>2}: orig loc=({},{}) size={}x{} content={}x{}   scaled loc=({},{}) size={}x{} content={}x{}", i, x.1[0], x.1[1], x.1[2], x.1[3], x.1[4], x.1[5], y.1[0], y.1[1], y.1[2], y.1[3], y.1[4], y.1[5]);
                    }
                }
            }
            let out = compare(&spec, a, k);
            println!("CASE seed={} idx={} k={} avail={} nodes={} fields={} panicked={:?}", seed, idx, k, avail_str(a), out.nodes, out.fields, out.panicked);
            for m in out.mismatches.iter().take(12) {
                println!("  node={} field={} orig={} scaled={} expected={}", m.node, m.field, m.orig, m.scaled, m.expected);
            }
            if out.panicked.0 != out.panicked.1 {
                println!("FAIL {} k={} class=unexplained panic orig={} scaled={}", idx, k, out.panicked.0, out.panicked.1);
            } else if !out.mismatches.is_empty() {
                println!("{}", report(idx, &spec, a, k, &out));
            } else {
                println!("OK {}", idx);
            }
        }
        "gridwitness" => {
            // witness of C04_grid_maximise_refuted: one column minmax(0px, 1px), one row 50px, container 1/16 x 50, one empty
            // item, everything multiplied by k: prints the bit pattern of the column's size
            let k: f32 = args[1].parse().unwrap();
            let mut t: TaffyTree<Ctx> = TaffyTree::new();
            let item = t.new_leaf(Style { grid_row: line(1), grid_column: line(1), ..Default::default() }).unwrap();
            let root = t
                .new_with_children(
                    Style {
                        display: Display::Grid,
                        size: Size { width: length(0.0625 * k), height: length(50.0 * k) },
                        grid_template_columns: vec![minmax(length(0.0), length(1.0 * k))],
                        grid_template_rows: vec![length(50.0 * k)],
                        ..Default::default()
                    },
                    &[item],
                )
                .unwrap();
            t.disable_rounding();
            compute(&mut t, root, Size::MAX_CONTENT);
            match t.detailed_layout_info(root) {
                taffy::DetailedLayoutInfo::Grid(g) => println!("GRIDWITNESS {}", g.columns.sizes[0].to_bits()),
                _ => println!("GRIDWITNESS none"),
            }
        }
        "witness" => {
            for which in 0..4 {
                let (spec, a, k) = witness_spec(which);
                let out = compare(&spec, a, k);
                let o = layout_all(&spec, a).unwrap();
                let s = layout_all(&scale_spec(&spec, k), scale_avail(a, k)).unwrap();
                println!(
                    "WITNESS {} k={} container_width orig={} scaled={} expected={} item0_width orig={} scaled={} fails={}",
                    which,
                    k,
                    o[0].1[2],
                    s[0].1[2],
                    o[0].1[2] * k,
                    o[1].1[2],
                    s[1].1[2],
                    if out.mismatches.is_empty() { 0 } else { 1 }
                );
            }
        }
        other => {
            eprintln!("unknown c04 command {other}");
            std::process::exit(2);
        }
    }
}
