(* The combined algorithms of Model/TaffyEngine.v satisfy the premises of the engine-level theorems of C05 / C06:
     grid_leaf_algo_hidden_blind / _abs_blind_lines   engines of grid containers and leaves
     taffy_algo_hidden_blind                          engines of block, flex, grid containers and leaves: HiddenBlind with no premise left *)
From Coq Require Import ZArith Bool List.
From TV Require Import Model.Common Model.Leaf Model.FlexAlgBase Model.FlexAlg Model.EngineLift Model.BlockFlexEngine.
From TV Require Import Model.FiltersBase Gen.FiltersGen Model.ItemFilters.
From TV Require Import Model.GridAlgBase Model.GridAlg Model.TaffyEngine.
From TV Require Import Model.Engine Proofs.EngineMemo Proofs.EngineBlind Proofs.EngineAbs Proofs.EngineAbsKey Proofs.EngineLift.
From TV Require Import Proofs.BlockAlgBlind Proofs.BlockFlexEngine Proofs.GridAlgIface Proofs.GridAlgBlind.
Import ListNotations.
Close Scope Z_scope.

Section Taffy.
  Context {T : Type} `{Num T}.
  Notation Out := (LayoutOutput T).

  Lemma to_gstyle_is_none (s : TStyle T) : g_is_none (to_gstyle s) = t_is_none s.
  Proof. reflexivity. Qed.

  Theorem grid_alg_t_hidden_blind : HiddenBlind (TStyle T) (FIn T) Out (FLay T) t_is_none grid_alg_t.
  Proof. unfold grid_alg_t. eapply HiddenBlind_comap; [apply to_gstyle_is_none|apply grid_alg_hidden_blind]. Qed.

  Theorem blockflex_alg_t_hidden_blind kind pre abs_child leaf :
    HiddenBlind (TStyle T) (FIn T) Out (FLay T) t_is_none (blockflex_alg_t kind pre abs_child leaf).
  Proof. unfold blockflex_alg_t. eapply HiddenBlind_comap; [intros s; reflexivity|apply blockflex_algo_hidden_blind]. Qed.

  Theorem taffy_algo_hidden_blind is_grid kind pre abs_child leaf :
    HiddenBlind (TStyle T) (FIn T) Out (FLay T) t_is_none (taffy_algo is_grid kind pre abs_child leaf).
  Proof.
    unfold taffy_algo. apply (HiddenBlind_dispatch2 (TStyle T) (FIn T) Out (FLay T) t_is_none is_grid);
      [apply grid_alg_t_hidden_blind|apply blockflex_alg_t_hidden_blind].
  Qed.

  Theorem grid_leaf_algo_hidden_blind sel leaf :
    HiddenBlind (GStyle T) (GIn T) Out (GLay T) g_is_none (grid_leaf_algo sel leaf).
  Proof.
    unfold grid_leaf_algo. apply (HiddenBlind_dispatch2 (GStyle T) (GIn T) Out (GLay T) g_is_none sel);
      [apply grid_alg_hidden_blind|apply (HiddenBlind_leaf (GStyle T) (GIn T) Out (GLay T) g_is_none leaf)].
  Qed.

  Theorem grid_leaf_algo_abs_blind_lines sel leaf r c :
    AbsBlind (GStyle T) (GIn T) Out (GLay T) (grid_leaf_algo sel leaf) (ab_lines r c) gout_eq glay_eq.
  Proof.
    unfold grid_leaf_algo. apply (AbsBlind_dispatch2 (GStyle T) (GIn T) Out (GLay T) sel);
      [apply grid_alg_abs_blind_lines|apply (AbsBlind_leaf (GStyle T) (GIn T) Out (GLay T) leaf); apply gout_eq_refl].
  Qed.

  (* ---- C06, keyed by the grid lines: engines of grid containers and leaves, and of all four node kinds *)
  Notation LK := (PB.Ln PB.GP * PB.Ln PB.GP)%type.

  Lemma AbsBlindK_leaf (S In O Lay K : Type) (leaf : S -> In -> O) ab (key : S -> K) (oeq : O -> O -> Prop) leq :
    (forall o, oeq o o) -> AbsBlindK S In O Lay (fun s _ i => Engine.Ret In O Lay (leaf s i)) ab K key oeq leq.
  Proof. intros Hrefl s st st' i _. apply AB_ret. apply Hrefl. Qed.

  Theorem grid_leaf_algo_abs_blind_keyed sel leaf :
    AbsBlindK (GStyle T) (GIn T) Out (GLay T) (grid_leaf_algo sel leaf) g_visible_absolute LK g_lines gout_eq glay_eq.
  Proof.
    unfold grid_leaf_algo. apply (AbsBlindK_dispatch2 (GStyle T) (GIn T) Out (GLay T) LK sel);
      [apply grid_alg_abs_blind_keyed|apply AbsBlindK_leaf; apply gout_eq_refl].
  Qed.

  Theorem grid_alg_t_abs_blind_keyed : AbsBlindK (TStyle T) (FIn T) Out (FLay T) grid_alg_t t_visible_absolute LK t_lines fout_eq flay_eq.
  Proof.
    unfold grid_alg_t, style_comap.
    apply (AbsBlindK_comap (GStyle T) (TStyle T) (FIn T) Out (FLay T) LK to_gstyle g_visible_absolute t_visible_absolute g_lines t_lines);
      [intros s; reflexivity|intros s; reflexivity|apply grid_alg_abs_blind_keyed].
  Qed.

  Theorem blockflex_alg_t_abs_blind_keyed kind pre abs_child leaf : BlockAlg.AbsChildLocal abs_child ->
    AbsBlindK (TStyle T) (FIn T) Out (FLay T) (blockflex_alg_t kind pre abs_child leaf) t_visible_absolute LK t_lines fout_eq flay_eq.
  Proof.
    intros Hloc. apply AbsBlind_K. unfold blockflex_alg_t.
    eapply AbsBlind_comap; [intros s; reflexivity|apply blockflex_algo_abs_blind; exact Hloc].
  Qed.

  Theorem taffy_algo_abs_blind_keyed is_grid kind pre abs_child leaf : BlockAlg.AbsChildLocal abs_child ->
    AbsBlindK (TStyle T) (FIn T) Out (FLay T) (taffy_algo is_grid kind pre abs_child leaf) t_visible_absolute LK t_lines fout_eq flay_eq.
  Proof.
    intros Hloc. unfold taffy_algo. apply (AbsBlindK_dispatch2 (TStyle T) (FIn T) Out (FLay T) LK is_grid);
      [apply grid_alg_t_abs_blind_keyed|apply blockflex_alg_t_abs_blind_keyed; exact Hloc].
  Qed.
End Taffy.
