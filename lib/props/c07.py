"""C07 -- flex lines: order, no overlap, flexibility exhausted.
T (Gen/FlexGen.v: compute_alignment_offset, apply_alignment_fallback, sum_axis_gaps) + proofs (Props/C07.v, over XQ) +
K (whole-API: single-line flex containers of leaves, Model/FlexRun.v over F32, bit-exact) +
search (vh c07 oracle: the two laws on unrounded layouts of random trees, incl. wrap and nested content)."""
import struct
from ..common import *
from ..stages import *

ITEM_INTS = 19
JUSTIFY = ['Start', 'End', 'FlexStart', 'FlexEnd', 'Center', 'Stretch', 'SpaceBetween', 'SpaceEvenly', 'SpaceAround']
DIRS = ['Row', 'Column', 'RowReverse', 'ColumnReverse']

# witness of C07_exhausted_laid_out_sizes_refuted: row, 100 wide; A = basis 100 shrink 1; B = basis 50 shrink 1 min 5 max 10 padding-start 20
def fbits(x):
    return struct.unpack('I', struct.pack('f', x))[0]


def fl(z):
    return struct.unpack('f', struct.pack('I', z & 0xffffffff))[0]


def _item(basis=None, size=None, mn=None, mx=None, g=0.0, s=0.0, ms=0.0, me=0.0, pb=(0.0, 0.0, 0.0, 0.0), meas=0.0):
    o = lambda v: [int(v is not None), fbits(v) if v is not None else 0]
    m = lambda v: [int(v is None), fbits(v) if v is not None else 0]
    return o(basis) + o(size) + o(mn) + o(mx) + [fbits(g), fbits(s)] + m(ms) + m(me) + [fbits(x) for x in pb] + [fbits(meas)]


def _cont(d, jc, main, gap, items):
    c = [d, jc, fbits(main), fbits(40.0)] + [0] * 8 + [fbits(gap), len(items)]
    for it in items:
        c += it
    return c


PBFLOOR_WITNESS = _cont(0, 2, 100.0, 0.0, [_item(basis=100.0, s=1.0), _item(basis=50.0, mn=5.0, mx=10.0, s=1.0, pb=(20.0, 0.0, 0.0, 0.0))])

FINDINGS = [
    {'id': 'F-C07-pbfloor', 'status': 'known',
     'line': 'resolve_flexible_lengths step 4d floors the clamped target at 0 instead of padding+border: an item with an explicit '
             'min/max size below its padding+border is laid out larger than the size the line was balanced with, the line '
             'overflows although other items could still shrink (theorem C07_exhausted_laid_out_sizes_refuted)'},
    {'id': 'F-C07-autogap', 'status': 'known',
     'line': 'distribute_remaining_free_space: when auto margins absorb positive free space offset_main stays 0, so the gap is '
             'not inserted between the items of that line (margin boxes still do not overlap; '
             'theorem C07_gap_dropped_with_auto_margins_refuted)'},
]


def decode(c):
    d = {'dir': c[0], 'reverse': c[0] >= 2, 'jc': c[1], 'main': fl(c[2]), 'cross': fl(c[3]),
         'pms': fl(c[4]), 'pme': fl(c[5]), 'bms': fl(c[6]), 'bme': fl(c[7]), 'gap': fl(c[12]), 'n': c[13], 'items': []}
    for i in range(c[13]):
        it = c[14 + i * ITEM_INTS:14 + (i + 1) * ITEM_INTS]
        opt = lambda h, v: fl(v) if h else None
        d['items'].append({'basis': opt(it[0], it[1]), 'size': opt(it[2], it[3]), 'min': opt(it[4], it[5]), 'max': opt(it[6], it[7]),
                           'grow': fl(it[8]), 'shrink': fl(it[9]), 'ms_auto': bool(it[10]), 'ms': fl(it[11]), 'me_auto': bool(it[12]),
                           'me': fl(it[13]), 'pb': fl(it[14]) + fl(it[15]) + fl(it[16]) + fl(it[17]), 'meas': fl(it[18])})
    return d


def impl_violates(c, r):
    """The property stated directly on one implementation result of the K class.  Returns (message, known_tag) or None."""
    d = decode(c)
    n = d['n']
    if len(r) != 2 + 2 * n:
        return ('implementation returned %d fields for %d children' % (len(r), n), None)
    loc = [fl(r[2 + 2 * i]) for i in range(n)]
    size = [fl(r[3 + 2 * i]) for i in range(n)]
    its = d['items']
    tol = 1e-3
    any_auto = any(it['ms_auto'] or it['me_auto'] for it in its)
    sign = -1.0 if d['reverse'] else 1.0
    # order / no overlap (margins of the K class are >= 0; an auto margin resolves to >= 0: only its lower bound 0 is used)
    for i in range(n - 1):
        a, b = (i, i + 1)
        if d['reverse']:
            lo_end = loc[b] + size[b] + (0.0 if its[b]['me_auto'] else its[b]['me'])
            hi_start = loc[a] - (0.0 if its[a]['ms_auto'] else its[a]['ms'])
        else:
            lo_end = loc[a] + size[a] + (0.0 if its[a]['me_auto'] else its[a]['me'])
            hi_start = loc[b] - (0.0 if its[b]['ms_auto'] else its[b]['ms'])
        if hi_start < lo_end - tol:
            return ('children %d and %d: margin boxes overlap or are out of order on the main axis (%.4f < %.4f)' % (a, b, hi_start, lo_end), None)
    # conservation
    if any_auto:
        return None
    inner = fl(r[0]) - (d['pms'] + d['pme'] + d['bms'] + d['bme'])
    total = sum(size[i] + its[i]['ms'] + its[i]['me'] for i in range(n)) + d['gap'] * (n - 1)
    scale = max(abs(inner), abs(total), 1.0)
    if abs(total - inner) <= 1e-3 * scale:
        return None
    growing = total < inner
    fac = [it['grow'] if growing else it['shrink'] for it in its]
    if any(f != 0.0 and f < 1.0 for f in fac):
        return None
    known = None
    for i, it in enumerate(its):
        below = (it['min'] is not None and it['min'] < it['pb']) or (it['max'] is not None and it['max'] < it['pb'])
        if below:
            known = 'pb-floor'
    for i, it in enumerate(its):
        if fac[i] == 0.0:
            continue
        if growing:
            if it['max'] is None:
                return ('line under-filled (%.4f < %.4f) but child %d (grow %g) has no max size' % (total, inner, i, fac[i]), known)
            if size[i] < it['max'] - 1e-3 * scale:
                return ('line under-filled (%.4f < %.4f) but child %d (grow %g) has size %.4f < max %.4f' % (total, inner, i, fac[i], size[i], it['max']), known)
        else:
            if it['min'] is not None:
                mn = it['min']
            else:
                mn = it['meas'] + it['pb']
                if it['size'] is not None:
                    mn = min(mn, it['size'])
                if it['max'] is not None:
                    mn = min(mn, it['max'])
            eff = max(mn, it['pb'], 0.0)
            if size[i] > eff + 1e-3 * scale:
                return ('line over-filled (%.4f > %.4f) but child %d (shrink %g) has size %.4f > min %.4f' % (total, inner, i, fac[i], size[i], eff), known)
    return None


def shape(c):
    d = decode(c)
    return '%s/%s/n=%d' % (DIRS[d['dir']], 'None' if d['jc'] < 0 else JUSTIFY[d['jc']], d['n'])


def run(rep, tier, seed, replay=None):
    res, changed = proof_stage(rep, 'C07', extra_trusted=[
        'hand models Model/Flex.v (resolve_flexible_lengths, distribute_remaining_free_space, calculate_layout_line/'
        'calculate_flex_item main axis) and Model/FlexRun.v (prefix: compute_constants, generate_anonymous_flex_items, '
        'determine_flex_base_size and compute_leaf_layout for the K class): tied to the Rust only by bit-exact correspondence',
        'theorems are over the exact instance XQ; the F32 run differs by accumulated rounding (oracle tolerance 1e-3)',
        'K class: single-line containers of leaves with definite flex-basis or size, border-box, lengths only, no aspect ratio, '
        'align-self start; wrap / nested content / percentages are covered by the oracle only'])
    mine_changed = [k for k in changed if k.startswith('gen_flex:')]
    rep.cov['fingerprints_changed'] = mine_changed
    rc, out, binp, dt = build_harness('release')
    if rc != 0:
        rep.add_broken('build', 'harness', out[-1500:])
        return
    # ---------------------------------------------------------------- K
    n = 600 if tier == 'quick' else 20000
    if mine_changed and tier == 'quick':
        n = 5000
    oracle_replay = None
    if replay and 'case' in replay:
        rc, out = vh(binp, ['c07', 'one'] + replay['case'], timeout=60)
    elif replay and 'oracle' in replay:
        oracle_replay = replay['oracle']
        rc, out = vh(binp, ['c07', 'cases', seed, 0], timeout=120)
    else:
        rc, out = vh(binp, ['c07', 'cases', seed, n], timeout=300)
    try:
        cases, impl = parse_cr(out)
    except RuntimeError as ex:
        cases, impl = [], []
    if rc != 0 or not cases:
        rep.add_broken('correspondence', 'vh c07 cases', 'harness failed: ' + out[-500:])
        cases, impl = [], []
    # a case on which the implementation did not return (watchdog in the harness): a failure of its own
    hung = [c for c, a in zip(cases, impl) if a == [-2]]
    for c in hung[:1]:
        rep.add_violation('K case %s: the layout does not terminate (no result within the harness watchdog period): '
                          'resolve_flexible_lengths must exit after at most #items + 1 rounds (C07_loop_terminates)' % shape(c),
                          {'case': c, 'cmd': 'vh c07 one ' + ' '.join(str(x) for x in c)})
        rep.add_broken('correspondence', 'vh c07 cases', 'implementation hangs on case %s' % c)
    pairs = [(c, a) for c, a in zip(cases, impl) if a != [-2]]
    cases, impl = [p[0] for p in pairs], [p[1] for p in pairs]
    bad = []
    if cases:
        try:
            with Lock('coq'):
                rcm, outm, _ = coq_make(['Model/FlexRun.vo'])
            if rcm != 0:
                raise RuntimeError(outm[-1500:])
            model = run_model('C07', 'From TV Require Import Model.FlexRun.', 'run_case', cases, scope='Z', elem='list Z')
            bad = diff_results(rep, 'flex container of leaves (whole API) vs Model.FlexRun.layout_flex_container over F32', cases, impl, model)
        except RuntimeError as ex:
            rep.add_broken('correspondence', 'model evaluation', str(ex)[-1500:])
    shapes = {}
    for c in cases:
        k = shape(c)
        shapes[k] = shapes.get(k, 0) + 1
    hist = {}
    for c in cases:
        d = decode(c)
        key = 'n=%d' % d['n']
        hist[key] = hist.get(key, 0) + 1
        hist[DIRS[d['dir']]] = hist.get(DIRS[d['dir']], 0) + 1
    rep.cov['distinct_nontrivial'] = len(set(tuple(c) for c in cases))
    rep.cov['rule'] = ('K cases = (direction, justify-content, container size / padding / border / gap, 1..6 leaf items with basis|size, '
                       'min, max, grow, shrink in {0,0.3,1,2.5}, length|auto margins, padding/border, measured content); hand corpus '
                       '(every direction x justify-content with free / negative space, multi-round freezing, scaled shrink, factor sums '
                       '< 1, auto margins + gap, min > max, the refutation witnesses) first, then one PRNG stream; distinct = distinct C '
                       'lines; every case compares the container size and each child\'s unrounded main-axis location and size bit for bit')
    rep.cov['input_distribution'] = hist
    rep.cov['shapes_distinct'] = len(shapes)
    rep.cov['samples'] = [{'case': c, 'impl': a} for c, a in list(zip(cases, impl))[:2] + list(zip(cases, impl))[-2:]]
    rep.cov['samples'].append({'theorem': 'C07_exhausted : finite inputs, hyp = clamp(basis), factors 0 or >= 1 in the direction taken -> '
                                          'resolve_flexible_lengths = Some res, all frozen, and (gaps + sum outer targets == M \\/ '
                                          'growing /\\ every g<>0 item at effmax \\/ shrinking /\\ every s<>0, inner basis<>0 item at effmin)'})
    rep.cov['samples'].append({'theorem': 'C07_order_no_overlap : gap >= 0, margins >= 0 non-auto, inset = 0, sizes >= 0 -> for i < j: '
                                          'loc_i + size_i + margin_end_i + margin_start_j + gap <= loc_j (mirrored for *-reverse)'})
    rep.cov['samples'].append({'theorem': 'C07_loop_terminates : forall items gap M (any XQ values), resolve_flexible_lengths items gap M <> None'})
    # ---------------------------------------------------------------- known findings: the refutation witnesses must still fail on the implementation
    rc, out = vh(binp, ['c07', 'one'] + PBFLOOR_WITNESS, timeout=60)
    try:
        wc, wr = parse_cr(out)
        v = impl_violates(wc[0], wr[0]) if wr[0] != [-2] else ('hang', None)
    except Exception:
        v = None
    if v and v[1] == 'pb-floor':
        rep.known.append('F-C07-pbfloor reproduced: %s | %s' % (v[0], FINDINGS[0]['line']))
    else:
        rep.cov['stale_finding_pbfloor'] = 'witness of C07_exhausted_laid_out_sizes_refuted no longer fails on the implementation: %r' % (v,)
    rc, out = vh(binp, ['c07', 'probe'], timeout=60)
    m = re.search(r'b\.x=([0-9.eE+-]+)', out)
    if m and float(m.group(1)) < 80.0 - 1e-3:
        rep.known.append('F-C07-autogap reproduced: second item at %s, not 80 | %s' % (m.group(1), FINDINGS[1]['line']))
    else:
        rep.cov['stale_finding_autogap'] = 'witness of C07_gap_dropped_with_auto_margins_refuted no longer reproduces: %s' % out[-200:]
    # ---------------------------------------------------------------- search: the two laws directly on the implementation
    ntrees = 200000
    if tier == 'thorough':
        ntrees = 2000000
    if rep.broken or mine_changed:
        ntrees = max(ntrees, 600000)
    fails = []
    if oracle_replay:
        rc, out = vh(binp, ['c07', 'oracle', oracle_replay['seed'], 1, oracle_replay['idx']], timeout=600)
        oseed = oracle_replay['seed']
    else:
        rc, out = vh(binp, ['c07', 'oracle', seed, ntrees], timeout=1500)
        oseed = seed
    for l in out.split('\n'):
        if l.startswith('FAIL '):
            parts = l.split(' ', 2)
            fails.append((int(parts[1]), parts[2]))
    m = re.search(r'ORACLE (\d+) trees, (\d+) flex containers, (\d+) with known lines \((\d+) multi-line\), (\d+) neighbour pairs, (\d+) conservation checks \((\d+) not exactly filled\)', out)
    if m:
        rep.cov['oracle'] = {'trees': int(m.group(1)), 'flex_containers': int(m.group(2)), 'lines_known': int(m.group(3)),
                             'multi_line': int(m.group(4)), 'neighbour_pairs': int(m.group(5)), 'conservation_checks': int(m.group(6)),
                             'not_exactly_filled': int(m.group(7))}
    elif not fails:
        rep.add_broken('search', 'vh c07 oracle', out[-500:])
    nk = 0
    nv = 0
    for idx, msg in fails:
        if '[known:pb-floor]' in msg:
            nk += 1
            if nk <= 2:
                rep.known.append('F-C07-pbfloor (oracle seed %s tree %d): %s' % (oseed, idx, msg))
        elif nv < 3:
            nv += 1
            rep.add_violation(msg, {'oracle': {'seed': oseed, 'idx': idx}, 'cmd': 'vh c07 oracle-one %s %d' % (oseed, idx)})
    rep.cov['oracle_known_pbfloor_hits'] = nk
    # a K disagreement on a concrete input: decide on the implementation alone whether the property fails there
    nb = 0
    for c, a, b in bad:
        v = impl_violates(c, a)
        if v and v[1] is None and nb < 3:
            nb += 1
            rep.add_violation('K case %s: %s' % (shape(c), v[0]), {'case': c, 'impl': a, 'model': b, 'cmd': 'vh c07 one ' + ' '.join(str(x) for x in c)})
    # implementation-side check of the laws on every K case as well (they are layouts like any other)
    nk2 = 0
    for c, a in zip(cases, impl):
        v = impl_violates(c, a)
        if v and v[1] is None and (c, a) not in [(x, y) for x, y, _ in bad] and nk2 < 2 and not rep.violations:
            nk2 += 1
            rep.add_violation('K case %s: %s' % (shape(c), v[0]), {'case': c, 'impl': a, 'cmd': 'vh c07 one ' + ' '.join(str(x) for x in c)})
