(* C12 -- content-box and border-box sizing are interchangeable.
   Statements only; proofs in Proofs/BoxSizingProofs.v, Proofs/BoxSizingAbsProofs.v.

   Vocabulary (Model/BoxSizing.v, Model/BoxSizingAbs.v):
     bs_resolve bs pb raw ctx      = maybe_add (maybe_resolve raw ctx) (if bs = ContentBox then pb else 0): the idiom of every
                                     `box_sizing_adjustment` site (tables maybe_resolve_dim / maybe_add_of: Gen/MathGen.v)
     to_border_box st              = st with box_sizing := BorderBox and every LENGTH among size / min_size / max_size increased by
                                     padding+border of its axis (auto and percentages untouched)
     eligible st                   = box_sizing ContentBox, padding and border lengths, no aspect ratio, size / min / max auto or length
     box_sizing_sites, unsited_uses  Gen/BoxSizingSites.v: regenerated from src/compute/**.rs on every run
   Numbers: exact rationals XQ; `xeq` = equal as numbers (`(l + pb) + 0` and `l + pb` are different terms), lifted to options
   (opt_xeq), sizes (size_rel), layouts (layout_xeq), kernel results (result_xeq, absin_xeq).  No finiteness premise anywhere.

   FINDING (notes/C12.md): GridItem::minimum_contribution caps the content-based minimum of a compressible replaced item by
   its RAW max_size -- C12_minimum_contribution_refuted; everything else in that function is invariant
   (C12_minimum_contribution_partial). *)
From Coq Require Import QArith Bool List String.
From TV Require Import Num.QNum Model.Common Model.Leaf Model.Root Model.BoxSizing Model.BoxSizingSiteTypes Gen.BoxSizingSites.
From TV Require Import Proofs.LeafAxis Proofs.BoxSizingProofs.
From TV Require Gen.AbsPosEnums Model.AbsPosBase Gen.AbsPosGen Model.BoxSizingAbs Proofs.BoxSizingAbsProofs.
Import ListNotations.

(* ---------------------------------------------------------------------------------------------------------------- *)
(* the idiom: a length in content-box mode resolves like the length plus padding+border in border-box mode; auto stays
   None in both modes *)
Theorem C12_idiom : forall (pb l : XQ) (ctx : option XQ),
  opt_xeq (bs_resolve ContentBox pb (Length l) ctx) (bs_resolve BorderBox pb (Length (x_add l pb)) ctx) /\
  bs_resolve ContentBox pb Auto ctx = None /\ bs_resolve BorderBox pb Auto ctx = None.
Proof. intros. split; [exact (idiom_length pb l ctx) | split; reflexivity]. Qed.

(* ... for Sizes, and with the (absent) aspect-ratio transfer in between, on the eligible class: no percentages *)
Theorem C12_idiom_size : forall (pb : Size XQ) (raw : Size (Dimension XQ)) (ctx : Size (option XQ)),
  size_forallb dim_not_percent raw = true ->
  size_rel opt_xeq (bs_resolve_size ContentBox pb raw ctx) (bs_resolve_size BorderBox pb (grow_size pb raw) ctx) /\
  size_rel opt_xeq (bs_resolve_size_ar ContentBox pb raw ctx None) (bs_resolve_size_ar BorderBox pb (grow_size pb raw) ctx None).
Proof. intros. split; [exact (idiom_size pb raw ctx H) | exact (idiom_size_ar pb raw ctx H)]. Qed.

(* the restriction is necessary: the rewrite leaves a percentage alone, and then padding+border is missing *)
Theorem C12_idiom_percent_excluded :
  exists pb p ctx, ~ opt_xeq (bs_resolve ContentBox pb (Percent p) ctx) (bs_resolve BorderBox pb (grow_dim pb (Percent p)) ctx).
Proof. exact idiom_percent_counterexample. Qed.

(* flex_basis (determine_flex_base_size): a scalar, adjusted by the main-axis component of padding+border *)
Theorem C12_flex_basis : forall (pb : Size XQ) (is_row : bool) (fb : Dimension XQ) (container_main : option XQ),
  dim_not_percent fb = true ->
  opt_xeq (flex_basis_resolve ContentBox pb is_row fb container_main)
          (flex_basis_resolve BorderBox pb is_row (flex_basis_to_border_box pb is_row fb) container_main).
Proof. exact idiom_flex_basis. Qed.

(* ---------------------------------------------------------------------------------------------------------------- *)
(* the leaf kernel in full (Model/Leaf.v = compute_leaf_layout): every run mode, sizing mode, known dimensions, parent size,
   available space, display, overflow, margin ...; the output AND the arguments of the measure call agree *)
Theorem C12_leaf : forall (inputs : LayoutInput XQ) (st : Style XQ) (measure : MeasureFn XQ),
  eligible st -> measure_respects_xeq measure ->
  result_xeq (compute_leaf_layout inputs (to_border_box st) measure) (compute_leaf_layout inputs st measure).
Proof. exact leaf_invariant. Qed.

(* compute_root_layout's known dimensions of a display:block root (Model/Root.v) *)
Theorem C12_root : forall (st : Style XQ) (av : Size (AvailableSpace XQ)),
  eligible st -> size_rel opt_xeq (root_known_dimensions (to_border_box st) av) (root_known_dimensions st av).
Proof. exact root_known_dimensions_invariant. Qed.

(* the whole one-node tree: unrounded layout and measure calls *)
Theorem C12_root_leaf : forall (st : Style XQ) (measure : MeasureFn XQ) (av : Size (AvailableSpace XQ)),
  eligible st -> measure_respects_xeq measure ->
  root_result_xeq (root_leaf (to_border_box st) measure av) (root_leaf st measure av).
Proof. exact root_leaf_invariant. Qed.

(* the premises are satisfiable and the rewrite is not the identity *)
Theorem C12_premises_satisfiable :
  eligible ex12_style /\
  size (to_border_box ex12_style) = mkSize (Length (x_add (Fin 40) (Fin 5))) Auto /\
  measure_respects_xeq (measure_known_or (mkSize (Fin 30) (Fin 10))) /\
  BoxSizingAbs.abs_eligible BoxSizingAbsProofs.ex_abs_style.
Proof.
  split; [exact ex12_style_eligible | split; [exact (proj1 ex12_style_rewritten) | split;
    [exact (measure_known_or_respects _) | exact BoxSizingAbsProofs.ex_abs_style_eligible]]].
Qed.

(* ---------------------------------------------------------------------------------------------------------------- *)
(* the `*_resolve` parts of the three absolute-positioning kernels (GENERATED from block.rs, flexbox.rs,
   grid/alignment.rs: everything that reads the child's style): same AbsIn up to xeq in size / min / max *)
Theorem C12_abs_block : forall (area : AbsPosBase.Size XQ) (off : AbsPosBase.Point XQ) (st : AbsPosBase.AbsStyle XQ),
  BoxSizingAbs.abs_eligible st ->
  BoxSizingAbsProofs.absin_xeq (AbsPosGen.block_resolve area off (BoxSizingAbs.abs_to_border_box st)) (AbsPosGen.block_resolve area off st).
Proof. exact BoxSizingAbsProofs.block_resolve_invariant. Qed.

Theorem C12_abs_flex : forall (c : AbsPosBase.FlexConstants XQ) (st : AbsPosBase.AbsStyle XQ),
  BoxSizingAbs.abs_eligible st ->
  BoxSizingAbsProofs.absin_xeq (AbsPosGen.flex_resolve c (BoxSizingAbs.abs_to_border_box st)) (AbsPosGen.flex_resolve c st).
Proof. exact BoxSizingAbsProofs.flex_resolve_invariant. Qed.

Theorem C12_abs_grid : forall (area : AbsPosBase.Rect XQ) (st : AbsPosBase.AbsStyle XQ),
  BoxSizingAbs.abs_eligible st ->
  BoxSizingAbsProofs.absin_xeq (AbsPosGen.grid_resolve area (BoxSizingAbs.abs_to_border_box st)) (AbsPosGen.grid_resolve area st).
Proof. exact BoxSizingAbsProofs.grid_resolve_invariant. Qed.

(* ---------------------------------------------------------------------------------------------------------------- *)
(* the source, as scanned on this run.  Every function with a `let box_sizing_adjustment = ..` has exactly one, of the shape
   `if <style>.box_sizing() == ContentBox { padding+border per axis } else { Size::ZERO }`; every size / min_size / max_size /
   flex_basis it reads is either only tested for definiteness or resolved with exactly one `.maybe_add(box_sizing_adjustment)`
   of the right axis projection -- EXCEPT the uses recorded here (each entry covers one occurrence): *)
Definition recorded_omissions : list Use := [
  (* grid_item.rs l.518, inside `.unwrap_or_else(..)`: reached only when the adjusted `size` chain above gave None, i.e. for
     `auto` (both modes None) or an indefinite percentage (not eligible): harmless, C12_minimum_contribution_partial *)
  mkUse "grid/types/grid_item.rs" "minimum_contribution" "size" Unadjusted;
  (* grid_item.rs l.520: REAL OMISSION, C12_minimum_contribution_refuted; reproduced by `vh c12 demo` on every run *)
  mkUse "grid/types/grid_item.rs" "minimum_contribution" "max_size" Unadjusted
]%string.

Theorem C12_all_sites_adjust :
  forallb site_wellformed box_sizing_sites = true /\ submultiset (all_omissions box_sizing_sites) recorded_omissions = true.
Proof. split; vm_compute; reflexivity. Qed.

(* functions WITHOUT any box_sizing_adjustment that read a node's size / min_size / max_size / flex_basis: only these *)
Definition allowed_unsited : list Use := [
  (* explicit_grid.rs l.93/95: `.maybe_resolve(..).is_some()` -- only whether size / max_size is definite decides between
     floor and ceil of the auto-repeat count; definiteness of auto / length is the same in both modes *)
  mkUse "grid/explicit_grid.rs" "compute_explicit_grid_size_in_axis" "size" TestOnly;
  mkUse "grid/explicit_grid.rs" "compute_explicit_grid_size_in_axis" "max_size" TestOnly;
  (* grid_item.rs l.113-115: raw copies into the GridItem (together with box_sizing, padding, border); every read of the
     copies is scanned as `self.size` / `self.min_size` / `self.max_size` in known_dimensions and minimum_contribution *)
  mkUse "grid/types/grid_item.rs" "new_with_placement_style_and_order" "size" RawCopy;
  mkUse "grid/types/grid_item.rs" "new_with_placement_style_and_order" "min_size" RawCopy;
  mkUse "grid/types/grid_item.rs" "new_with_placement_style_and_order" "max_size" RawCopy
]%string.

Theorem C12_no_unadjusted_resolution : submultiset unsited_uses allowed_unsited = true.
Proof. vm_compute; reflexivity. Qed.

(* ---------------------------------------------------------------------------------------------------------------- *)
(* GridItem::minimum_contribution along one axis (hand model, Model/BoxSizing.v): invariant unless the item is
   compressible-replaced and has a length max_size ... *)
Theorem C12_minimum_contribution_partial :
  forall (pb : XQ) (sz mn mx : Dimension XQ) (ctx amin : option XQ) (use_content_based compressible : bool) (min_content : XQ)
         (limit : option XQ),
  dim_not_percent sz = true -> dim_not_percent mn = true -> dim_not_percent mx = true ->
  compressible = false \/ mx = Auto ->
  xeq (minimum_contribution_axis ContentBox pb sz mn mx ctx amin use_content_based compressible min_content limit)
      (minimum_contribution_axis BorderBox pb (grow_dim pb sz) (grow_dim pb mn) (grow_dim pb mx) ctx amin use_content_based
                                 compressible min_content limit).
Proof. exact minimum_contribution_invariant. Qed.

(* ... where it is not: padding+border 10, max-size 10 (content-box) resp. 20 (border-box), min-content contribution 20 ->
   10 resp. 20.  `vh c12 demo` shows the same numbers on the implementation. *)
Theorem C12_minimum_contribution_refuted :
  exists pb mx mc,
    ~ xeq (minimum_contribution_axis ContentBox pb Auto Auto mx None None true true mc None)
          (minimum_contribution_axis BorderBox pb (grow_dim pb Auto) (grow_dim pb Auto) (grow_dim pb mx) None None true true mc None).
Proof. exact minimum_contribution_refuted. Qed.

(* with the idiom in that branch the cap would be invariant (the repair) *)
Theorem C12_compressible_cap_adjusted : forall (pb : XQ) (sz mx : Dimension XQ) (c : XQ),
  dim_not_percent sz = true -> dim_not_percent mx = true ->
  xeq (compressible_cap_adjusted ContentBox pb sz mx c) (compressible_cap_adjusted BorderBox pb (grow_dim pb sz) (grow_dim pb mx) c).
Proof. exact compressible_cap_adjusted_invariant. Qed.

Print Assumptions C12_idiom.
Print Assumptions C12_idiom_size.
Print Assumptions C12_idiom_percent_excluded.
Print Assumptions C12_flex_basis.
Print Assumptions C12_leaf.
Print Assumptions C12_root.
Print Assumptions C12_root_leaf.
Print Assumptions C12_premises_satisfiable.
Print Assumptions C12_abs_block.
Print Assumptions C12_abs_flex.
Print Assumptions C12_abs_grid.
Print Assumptions C12_all_sites_adjust.
Print Assumptions C12_no_unadjusted_resolution.
Print Assumptions C12_minimum_contribution_partial.
Print Assumptions C12_minimum_contribution_refuted.
Print Assumptions C12_compressible_cap_adjusted.
