(* The one-node tree of Model/Root.v with the TRANSLATED leaf routine (Gen/LeafGen.v, regenerated from
   src/compute/leaf.rs on every run) in place of the hand model Model/Leaf.v:compute_leaf_layout, and with the TRANSLATED
   compute_root_layout (Gen/RootGen.v, regenerated from src/compute/mod.rs) around it.  Definitions only. *)
From Coq Require Import List Bool NArith.
From TV Require Import Model.Common Model.Leaf Model.Root Gen.LeafGen Gen.RootGen.
Import ListNotations.

Section LeafGenRoot.
  Context {T : Type} `{Num T}.

  (* Root.childless_child_layout, dispatching to the translated compute_leaf_layout *)
  Definition gen_childless_child_layout (inputs : LayoutInput T) (style : Style T) (measure : MeasureFn T)
    : option (LayoutOutput T * list (MeasureCall T)) :=
    match run_mode inputs with
    | PerformHiddenLayout => Some (output_HIDDEN, [])
    | _ =>
        match display style with
        | DNone => Some (output_HIDDEN, [])
        | _ => gen_compute_leaf_layout inputs style measure
        end
    end.

  (* Root.root_leaf over the translated leaf routine *)
  Definition gen_root_leaf (style : Style T) (measure : MeasureFn T) (available_space : Size (AvailableSpace T))
    : option (Layout T * list (MeasureCall T)) :=
    match gen_childless_child_layout (root_input style available_space) style measure with
    | Some (output, calls) => Some (root_assemble style available_space output, calls)
    | None => None
    end.

  (* the translated compute_root_layout whose perform_child_layout is the dispatch above: everything of a one-node tree
     except TaffyView::compute_child_layout's dispatch (hand-written in Root.childless_child_layout) is translated code *)
  Definition gen_root_gen_leaf (style : Style T) (measure : MeasureFn T) (available_space : Size (AvailableSpace T))
    : option (Layout T * list (MeasureCall T)) :=
    gen_compute_root_layout style (fun inputs => gen_childless_child_layout inputs style measure) available_space.
End LeafGenRoot.
