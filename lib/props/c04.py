"""C04 -- layout is homogeneous under uniform scaling of all lengths (scale factors: powers of two).
P  Props/C04.v over exact rationals, k > 0: the primitive layer (+ - neg max min abs commute, comparisons invariant,
   len * factor, len / count, len / len), every generated MaybeMath / MaybeResolve / aspect-ratio table (Gen/MathGen.v),
   compute_leaf_layout and the one-node root layout (Model/Leaf.v, Model/Root.v), the three absolutely-positioned kernels
   incl. style resolution (Model/AbsPos.v over Gen/AbsPosGen.v); refuted: pixel rounding, is_roughly_equal, the grid
   THRESHOLD comparison, the flex intrinsic main-size step (Model/FlexFraction.v) with its two proved complements.
   Container KERNELS (Proofs/ScaleFlex.v, ScaleBlock.v, ScaleGrid.v): flex resolve_flexible_lengths / distribute_remaining_free_space /
   line_positions (Model/Flex.v), block margin sets / generate_item_list / block_inflow with scaled child outputs / compute_inner's
   decisions invariant (Model/Block.v), grid explicit count / track initialisation / find_size_of_fr / expand_flexible_tracks /
   stretch_auto_tracks / align_tracks and distribute_space_up_to_limits / maximise_tracks with the THRESHOLD as a length
   (dist THRESHOLD (scale k x) ~ scale k (dist (THRESHOLD / k) x)); refuted with the fixed threshold (witness replayed: vh c09 one).
T  Gen/MathGen.v, Gen/AbsPosGen.v, Gen/RoundingGen.v, Gen/CacheGen.v are regenerated from /repo on every run: the table
   and abspos theorems are about the regenerated terms, so a source edit there re-proves or breaks them.
K  the kernels the theorems are about are tied to the code by the correspondences of C19 (Model/LeafRun.v: one-node trees
   and direct compute_leaf_layout calls), C11 (Model/AbsPosRun.v), C07 (Model/FlexRun.v), C10 (Model/BlockRun.v: K1 container of
   leaves, K2 containers of nested trees with recorded child outputs) and C09 (Model/GridTracksRun.v), re-run here with a
   C04-specific seed over F32, bit for bit.
S  `vh c04 oracle`: random trees (all displays, measure functions, definite / min- / max-content available space) laid
   out from scratch as generated and with every absolute length multiplied by k in {1/8,1/4,1/2,2,4,16}; every f32 field
   of every node's unrounded layout must equal k * original bit for bit.  Mismatches are classified (harness/src/c04.rs):
   the two known findings (flex intrinsic shrink-factor floor; absolute grid thresholds) are reported as KNOWN-FINDING and
   rate-limited; anything else is a VIOLATION with replay {seed, idx, k}."""
from ..common import *
from ..stages import *

FLEX_ID = 'flex-intrinsic-shrink-factor-floor'
GRID_ID = 'grid-track-threshold-absolute'


def kernel_tie_leaf(rep, binp, seed, n):
    """C19's correspondence (leaf / root kernels of C04_leaf, C04_root_leaf) with our seed."""
    rc, out = vh(binp, ['c19', 'cases', seed, n])
    try:
        cases, impl = parse_cr(out)
    except RuntimeError as ex:
        cases, impl, out = [], [], out + str(ex)
    if rc != 0 or not cases:
        rep.add_broken('correspondence', 'vh c19 cases (leaf kernels)', 'harness failed: ' + out[-500:])
        return [], []
    try:
        with Lock('coq'):
            rcm, outm, _ = coq_make(['Model/LeafRun.vo'])
        if rcm != 0:
            raise RuntimeError(outm[-1500:])
        model = run_model('C04leaf', 'From TV Require Import Model.LeafRun.', 'run_case', cases, scope='Z', elem='list Z')
        bad = diff_results(rep, 'Model.Leaf / Model.Root over F32 vs compute_leaf_layout / one-node TaffyTree', cases, impl, model)
    except RuntimeError as ex:
        rep.add_broken('correspondence', 'model evaluation (leaf kernels)', str(ex)[-1500:])
        bad = []
    return cases, bad


def kernel_tie_abs(rep, binp, seed, n):
    """C11's correspondence (abs_block / abs_flex / abs_grid of C04_abs_*) with our seed."""
    rc, out = vh(binp, ['c11', 'cases', seed, n])
    try:
        cases, impl = parse_cr(out)
    except RuntimeError as ex:
        cases, impl, out = [], [], out + str(ex)
    if rc != 0 or not cases:
        rep.add_broken('correspondence', 'vh c11 cases (abspos kernels)', 'harness failed: ' + out[-500:])
        return [], []
    try:
        with Lock('coq'):
            rcm, outm, _ = coq_make(['Model/AbsPosRun.vo'])
        if rcm != 0:
            raise RuntimeError(outm[-1500:])
        model = run_model('C04abs', 'From TV Require Import Model.AbsPosRun.', 'run_case', [c + r[8:] for c, r in zip(cases, impl)],
                          scope='Z', elem='list Z')
        bad = diff_results(rep, 'Model.AbsPos.abs_{block,flex,grid}_style over F32 vs the implementation', cases, [r[:8] for r in impl], model)
    except RuntimeError as ex:
        rep.add_broken('correspondence', 'model evaluation (abspos kernels)', str(ex)[-1500:])
        bad = []
    return cases, bad


def kernel_tie_container(rep, binp, label, vh_args, target, imports, fn, desc, skip_model=None, batch=600):
    """Correspondence of another property (C07 / C10 / C09) for the container kernels of C04_flex_* / C04_block_* / C04_grid_*, our seed.
    Cases on which the implementation did not return ([-2], or a trailing C line) are the owning property's business: dropped here."""
    rc, out = vh(binp, vh_args, timeout=300)
    lines = [l for l in out.split('\n') if l[:2] in ('C ', 'R ')]
    if lines and lines[-1].startswith('C '):
        lines = lines[:-1]
    try:
        cases, impl = parse_cr('\n'.join(lines))
    except RuntimeError as ex:
        cases, impl, out = [], [], out + str(ex)
    pairs = [(c, a) for c, a in zip(cases, impl) if a != [-2]]
    cases, impl = [q[0] for q in pairs], [q[1] for q in pairs]
    if not cases:
        rep.add_broken('correspondence', 'vh %s (%s kernels)' % (' '.join(str(a) for a in vh_args[:2]), label), 'harness failed: ' + out[-500:])
        return [], []
    try:
        with Lock('coq'):
            rcm, outm, _ = coq_make([target])
        if rcm != 0:
            raise RuntimeError(outm[-1500:])
        model = run_model('C04' + label, imports, fn, cases, scope='Z', elem='list Z', batch=batch)
        keep = [i for i, m in enumerate(model) if skip_model is None or m != skip_model]
        bad = diff_results(rep, desc, [cases[i] for i in keep], [impl[i] for i in keep], [model[i] for i in keep])
        cases = [cases[i] for i in keep]
    except RuntimeError as ex:
        rep.add_broken('correspondence', 'model evaluation (%s kernels)' % label, str(ex)[-1500:])
        bad = []
    return cases, bad


def f32_bits(x):
    import struct
    return struct.unpack('<I', struct.pack('<f', x))[0]


def bits_f32(u):
    import struct
    return struct.unpack('<f', struct.pack('<I', u & 0xffffffff))[0]


def grid_threshold_witness(binp, k):
    """The witness of C04_grid_maximise_refuted on the implementation (`vh c04 gridwitness k`): one column minmax(0px, 1px), one row
    50px, container 1/16 x 50, one empty item at (1, 1); everything multiplied by k.  Returns the size of the column track or None."""
    rc, out = vh(binp, ['c04', 'gridwitness', repr(float(k))], timeout=60)
    m = re.search(r'GRIDWITNESS (\d+)', out)
    return bits_f32(int(m.group(1))) if m else None


def parse_fail(line):
    """FAIL <idx> k=<k> class=<c> node=.. field=.. orig=.. scaled=.. expected=.. ..."""
    p = line.split()
    d = {'idx': int(p[1])}
    for kv in p[2:]:
        if '=' in kv:
            a, b = kv.split('=', 1)
            d[a] = b
    d['text'] = line[5:]
    return d


def run(rep, tier, seed, replay=None):
    trusted = [
        'hand models Model/Leaf.v, Model/Root.v, Model/Common.v, Model/AbsPos.v, Model/AbsPosBase.v: tied to the source by the C19 / C11 '
        'correspondences (re-run here) and fingerprints; Model/FlexFraction.v (12 lines of determine_container_main_size): tied by the '
        'replayed witnesses only',
        'theorems are over exact rationals (XQ); that scaling by a power of two is exact in binary32 away from overflow/underflow is '
        'not proved here (the oracle compares bit for bit and observes it)',
        'measure functions are pure and homogeneous (premise measure_homog; holds for the three measure functions of the harness)',
        'hand models Model/Flex.v, Model/Block.v, Model/GridTracks.v (container kernels of C04_flex_* / C04_block_* / C04_grid_*): tied to '
        'the source by the C07 / C10 / C09 correspondences (re-run here) and, for the alignment tables, margin sets and thresholds, by '
        'regeneration (Gen/FlexGen.v, Gen/BlockGen.v, Gen/GridTracksGen.v)',
        'over binary32 `free_space.is_normal()` (flex 9.7) is false for subnormal values, a set that is not closed under scaling; over XQ '
        'it is `finite and non-zero` and invariant',
        'whole trees: C04_engine (any homogeneous algorithms, engine skeleton Model/Engine.v with the EXACT-KEY memo) and, premise-free, '
        'C04_block_engine_instance for engines of block containers and leaves: Model/BlockAlg.v (compute_inner as a resumption incl. the '
        'content-based width queries; in-flow step = the function C10 K2 runs) + Model/BlockEngine.v (block_pre = compute_block_layout\'s '
        'known-dimension preprocessing, for InherentSize the block_styled_known of C10 K1; the adapter to Model/Leaf.v; dispatch on '
        'has_children) are hand models; the absolute pass is the parameter abs_child: premise AbsChildRel, discharged for the REAL routine '
        'abs_child_block (Model/BlockAbs.v: the translated kernel Gen/AbsPosGen.v + 20 lines of hand glue for the query inputs and the stored '
        'layout) and for the old simple one; compute_root_layout glue Model/BlockRoot.v (C04_block_layout_pass); the whole instance is tied '
        'to TaffyTree::compute_layout_with_measure bit for bit by the whole-tree correspondence `vh blocktree cases` (exact-key hook)',
        'whole FLEX containers (wave 6): Model/FlexAlg.v flex_alg = ALL of compute_flexbox_layout as a resumption (hand model + translated '
        'tables / pipeline / absolute kernel), tied event by event and bit for bit by `vh flexalg cases` (re-run here, payload included); '
        'Model/FlexAlgT.v flex_alg_t is flex_alg with the one absolute constant (the floor 1.0 of the scaled shrink factor) as a parameter '
        '(flex_alg_t one = flex_alg by reflexivity: C04_flex_floor_form); the block + flex engine Model/BlockFlexK.v (dispatch no children -> '
        'leaf / display:flex -> flex / else block, compute_leaf_layout on the CoreStyle part, exact-key memo) has no runner of its '
        'own; since the audit of wave 7b it is PROVED to be the complete engine Model/TaffyRoot.v real_memo (the one `vh taffytree` runs, '
        './check C01 / C05 / C06) on every tree without display:grid containers, styles embedded by bfn_emb: same resumption per node '
        '(C04_blockflex_node_is_taffy_node), same key function, lockstep of the memoised evaluations for any cache contents '
        '(C04_blockflex_engine_is_taffy_engine); C04_taffy_engine_scaled_layouts_partial is the whole-tree statement about real_memo. '
        'Left out of that tie: the runner compares key numbers by representation (f32_seqb) and runs binary32, the theorems use the numeric '
        'eqb over XQ; compute_root_layout is not composed in; the insensitivity premise mentions bf_memo_t (Fin k), which nothing runs',
        'still covered by the implementation-side oracle only: grid placement and step 11.5 (a premise of C04_grid_track_sizing_partial) -- '
        'for grid containers `Homogeneous` is a premise of C04_engine; flex containers in the known-finding class (refuted: '
        'C04_flex_algorithm_homogeneous_refuted); the real lossy cache key (is_roughly_equal: refuted) and pixel rounding (refuted)',
        'classification of oracle mismatches into the two known findings is decided on the style tree (over-approximation, rate-limited)']
    res, changed = proof_stage(rep, 'C04', extra_trusted=trusted)
    if not res['compiled'] and 'Error' not in res.get('output', ''):
        log('[C04] proof build stopped without a Coq error; retrying once')
        rep.broken = [b for b in rep.broken if b['kind'] != 'proof']
        res, changed = proof_stage(rep, 'C04', extra_trusted=trusted)
    rc, out, binp, dt = build_harness('release')
    if rc != 0:
        rep.add_broken('build', 'harness', out[-1500:])
        return
    mine = [c for c in changed if c.split(':')[0] in ('gen_math', 'gen_flex', 'gen_block', 'gen_gridtracks') or c.startswith('gen_abspos')]
    rep.cov['fingerprints_changed'] = mine
    big = tier == 'thorough' or bool(rep.broken) or bool(mine)
    kseed = (seed ^ 0xC04) & 0x7fffffff

    # ---- K: the kernels of the theorems vs the implementation (C19 / C11 correspondences, our seed)
    samples = []
    if not (replay and 'idx' in replay):
        lc, lbad = kernel_tie_leaf(rep, binp, kseed, 6000 if big else 700)
        ac, abad = kernel_tie_abs(rep, binp, kseed, 3000 if big else 450)
        rep.cov['kernel_tie'] = {'leaf_root_cases': len(lc), 'leaf_root_disagreements': len(lbad),
                                 'abspos_cases': len(ac), 'abspos_disagreements': len(abad), 'seed': kseed}
        if lc:
            samples.append({'kernel_tie_leaf_case': lc[0]})
        if ac:
            samples.append({'kernel_tie_abspos_case': ac[0]})
        fc, fbad = kernel_tie_container(rep, binp, 'flex', ['c07', 'cases', kseed, 3000 if big else 200], 'Model/FlexRun.vo',
                                        'From TV Require Import Model.FlexRun.', 'run_case',
                                        'Model.Flex (resolve_flexible_lengths, distribute_remaining_free_space, line_positions) over F32 vs a flex '
                                        'container of leaves through the public API')
        bc, bbad = kernel_tie_container(rep, binp, 'block', ['c10', 'cases', kseed, 3000 if big else 300], 'Model/BlockRun.vo',
                                        'From TV Require Import Model.BlockRun.', 'run_case',
                                        'Model.Block (generate_item_list, block_inflow, compute_inner decisions) over F32 vs a block container of leaves')
        b2c, b2bad = kernel_tie_container(rep, binp, 'block2', ['c10', 'kcases2', kseed, 1500 if big else 150], 'Model/BlockRun.vo',
                                          'From TV Require Import Model.BlockRun.', 'run_case2',
                                          'Model.Block.block_inflow with recorded child outputs (oracle values) over F32 vs block containers of nested trees',
                                          skip_model=[-1])
        gc, gbad = kernel_tie_container(rep, binp, 'grid', ['c09', 'cases', kseed, 2000 if big else 150], 'Model/GridIntrinsicRun.vo',
                                        'From TV Require Import Model.GridIntrinsicRun.', 'run_case2',
                                        'Model.GridTracks (track initialisation, track sizing, alignment) over F32 vs DetailedGridInfo', batch=200)
        rep.cov['kernel_tie'].update({'flex_cases': len(fc), 'flex_disagreements': len(fbad), 'block_cases': len(bc),
                                      'block_disagreements': len(bbad), 'block_nested_containers': len(b2c),
                                      'block_nested_disagreements': len(b2bad), 'grid_cases': len(gc), 'grid_disagreements': len(gbad)})
        for tag, cs in (('flex', fc), ('block', bc), ('grid', gc)):
            if cs:
                samples.append({'kernel_tie_%s_case' % tag: cs[-1]})
        # ---- whole-tree tie of the block engine instance the C04_block_engine_real_* / C04_block_layout_pass theorems are about
        from . import _blocktree
        _blocktree.tree_k(rep, 'C04', binp, kseed, 3000 if big else 300)
        # ---- the flex resumption the C04_flex_algorithm_* / C04_blockflex_engine_* theorems are about: event by event, bit for bit
        from . import _flexalg as FA
        rep.cov.setdefault('samples', [])
        FA.flexalg_k(rep, 'C04', binp, (kseed + 404) & 0x7fffffff, 1500 if big else 300, payload_is_broken=True)
        samples.extend(rep.cov.get('samples', []))

    # ---- deterministic family: wrapping flex rows filled almost exactly (n items of 1/n of the width) at power-of-two scales 2^-14 .. 2^10
    if not replay:
        rcf, outf = vh(binp, ['c04', 'fullline'], timeout=120)
        if 'FULLLINE' not in outf:
            rep.add_broken('search', 'vh c04 fullline', outf[-400:])
        for l_ in [l_ for l_ in outf.split('\n') if l_.startswith('FAIL fullline')][:3]:
            rep.add_violation('scaling changes which items fit on a flex line: ' + l_[:300], {'cmd': 'vh c04 fullline'})
        rep.cov['fullline_family_cases'] = 336
    # ---- S: the property on the implementation
    n = 2000000 if big else 150000
    fails, summary = [], {}
    if replay and 'idx' in replay:
        args = ['c04', 'one', replay.get('seed', seed), replay['idx']] + ([replay['k']] if 'k' in replay else [])
        rc, oout = vh(binp, args)
        fails = [parse_fail(l) for l in oout.split('\n') if l.startswith('FAIL ')]
        oseed = replay.get('seed', seed)
    else:
        oseed = seed
        rc, oout = vh(binp, ['c04', 'oracle', oseed, 0, n], timeout=1500)
        for l in oout.split('\n'):
            if l.startswith('FAIL '):
                fails.append(parse_fail(l))
            elif l.startswith('ORACLE '):
                summary = dict((kv.split('=')[0], int(kv.split('=')[1])) for kv in l.split()[1:])
        if rc != 0 or not summary:
            rep.add_broken('search', 'vh c04 oracle', oout[-500:])
        rep.cov['oracle'] = summary
        rep.cov['evaluations'] = rep.cov.get('evaluations', 0) + summary.get('cases', 0)
        rep.cov['distinct_nontrivial'] = summary.get('distinct_nontrivial', 0)
        if summary.get('cases'):
            rep.cov['exact_match_rate'] = round(summary.get('exact', 0) / summary['cases'], 6)

    def rp(f):
        return {'seed': oseed, 'idx': f['idx'], 'k': f.get('k'), 'class': f.get('class'), 'cmd': 'vh c04 show %d %d' % (oseed, f['idx']),
                'first_mismatch': f['text'][:400]}

    kf = {k['id']: k for k in known_findings('C04') if k.get('status') == 'known'}
    by = {}
    for f in fails:
        by.setdefault(f.get('class', 'unexplained'), []).append(f)
    for f in by.get('unexplained', [])[:3]:
        rep.add_violation('scaled layout differs from k * original: ' + f['text'][:300], rp(f))
    cases = summary.get('cases', 0)
    # known finding 1: flex intrinsic shrink-factor floor
    flex = by.get('flex-intrinsic-shrink', [])
    if flex:
        limit = 10 + 0.015 * summary.get('in_known_class', 0)
        if FLEX_ID not in kf:
            for f in flex[:3]:
                rep.add_violation('scaled layout differs from k * original: ' + f['text'][:300], rp(f))
        elif not replay and len(flex) > limit:
            f = max(flex, key=lambda x: float(x.get('max_abs', 0)))
            rep.add_violation('%d mismatches in the class of the known finding %s (%d cases in the class): more than it explains (limit %d); '
                              'largest: %s' % (len(flex), FLEX_ID, summary.get('in_known_class', 0), limit, f['text'][:300]), rp(f))
        else:
            rep.known.append('%s [%d of %d generated trees in the class (%d trees in all) mismatch; first: seed %d idx %d k=%s]'
                             % (kf[FLEX_ID]['line'].replace('known: property=C04 ', ''), len(flex), summary.get('in_known_class', 0), cases,
                                oseed, flex[0]['idx'], flex[0].get('k')))
    # known finding 2: absolute grid thresholds
    thr, amp = by.get('grid-threshold', []), by.get('grid-amplified', [])
    if thr or amp:
        lim_thr = 5 + 6e-4 * summary.get('with_grid', 0)
        lim_amp = 2 + 2e-5 * cases
        if GRID_ID not in kf:
            for f in (amp + thr)[:3]:
                rep.add_violation('scaled layout differs from k * original: ' + f['text'][:300], rp(f))
        elif not replay and (len(thr) > lim_thr or len(amp) > lim_amp):
            f = max(amp + thr, key=lambda x: float(x.get('max_abs', 0)))
            rep.add_violation('%d small and %d large mismatches in trees with grid containers (%d such trees): more than the absolute '
                              'track-sizing thresholds explain (limits %d / %d); largest: %s'
                              % (len(thr), len(amp), summary.get('with_grid', 0), lim_thr, lim_amp, f['text'][:300]), rp(f))
        else:
            first = (thr + amp)[0]
            rep.known.append('%s [%d within a few hundredths of a pixel, %d amplified, of %d generated trees with grid containers; first: '
                             'seed %d idx %d k=%s]' % (kf[GRID_ID]['line'].replace('known: property=C04 ', ''), len(thr), len(amp),
                                                     summary.get('with_grid', 0), oseed, first['idx'], first.get('k')))
    # the witnesses of C04_flex_intrinsic_refuted on the implementation: 0 and 1 must fail, the controls 2 and 3 must not
    rc, wout = vh(binp, ['c04', 'witness'])
    w = dict((int(a), int(b)) for a, b in re.findall(r'WITNESS (\d) .*fails=(\d)', wout))
    rep.cov['known_finding_witnesses'] = {'output': [l for l in wout.split('\n') if l.startswith('WITNESS')], 'fails': w}
    # ... and the NUMBERS of the model witnesses (Props/C04.v C04_flex_intrinsic_witness_values) must be the implementation's: Model/FlexFraction.v
    # is not run by any correspondence, this replay is its only tie.  Witness 0: item target 1/2 at k = 1, 0 at k = 4 (one item: container
    # width = item target).  Witness 1 (flex_shrink 0): item target -4 -> -24 next to a 20 -> 40 sibling: container width 16 at both scales.
    wv = dict((int(a), (float(b), float(c))) for a, b, c in re.findall(r'WITNESS (\d) k=\S+ container_width orig=(\S+) scaled=(\S+)', wout))
    expect = {0: (0.5, 0.0), 1: (16.0, 16.0)}
    rep.cov['known_finding_witnesses']['model_values'] = {str(k): v for k, v in expect.items()}
    # witness 0 is also the witness of the whole-resumption / whole-tree refutations: C04_flex_algorithm_witness_values (flex_alg: widths 1/2
    # and 0) and C04_blockflex_engine_refuted (engine: 1/2 and 0; 2 with the floor scaled by k = 4) predict the same implementation values
    rep.cov['known_finding_witnesses']['also_predicted_by'] = ['C04_flex_algorithm_witness_values', 'C04_blockflex_engine_refuted']
    for c, ev in expect.items():
        if c in wv and wv[c] != ev:
            rep.add_broken('correspondence', 'flex intrinsic witness %d: model values vs implementation' % c,
                           'C04_flex_intrinsic_witness_values predicts container widths %r (original, scaled), the implementation gives %r' % (ev, wv[c]))
    if len(w) != 4 or len(wv) != 4:
        rep.add_broken('search', 'vh c04 witness', wout[-500:])
    else:
        for c in (2, 3):
            if w[c]:
                rep.add_violation('control witness %d (flex_shrink * basis >= 1 at both scales: proved homogeneous in the model, '
                                  'C04_flex_intrinsic_floor_inactive) is not homogeneous on the implementation' % c,
                                  {'cmd': 'vh c04 witness', 'output': wout})
        if (w[0] or w[1]) and FLEX_ID in kf:
            if not flex:
                rep.known.append(kf[FLEX_ID]['line'].replace('known: property=C04 ', '') + ' [witness only]')
        elif w[0] or w[1]:
            rep.add_violation('flex intrinsic main size is not homogeneous (witness of C04_flex_intrinsic_refuted)', {'cmd': 'vh c04 witness', 'output': wout})
        elif FLEX_ID in kf:
            rep.cov.setdefault('stale_known_findings', []).append(FLEX_ID)
            log('[C04] known finding %s did not reproduce: the entry in known_findings.json is stale' % FLEX_ID)

    # the witness of C04_grid_maximise_refuted on the implementation: column minmax(0px, 1px) in a 1/16 px container, k = 1/8
    g1, g8 = grid_threshold_witness(binp, 1.0), grid_threshold_witness(binp, 0.125)
    rep.cov['grid_threshold_witness'] = {'column_px': g1, 'column_px_scaled_by_1_8': g8, 'expected_scaled': 0.0078125,
                                         'model': 'C04_grid_maximise_witness_values: 1/16 and 0'}
    if g1 is None or g8 is None:
        rep.add_broken('search', 'vh c09 one (grid threshold witness)', 'no result: %r %r' % (g1, g8))
    elif g1 != 0.0625:
        rep.add_broken('correspondence', 'grid threshold witness', 'the model (C04_grid_maximise_witness_values) says 1/16, the implementation %r' % g1)
    elif g8 == 0.0078125:
        if GRID_ID in kf:
            rep.cov.setdefault('stale_known_findings', []).append(GRID_ID + ' (kernel witness)')
            log('[C04] the witness of C04_grid_maximise_refuted is homogeneous on the implementation: stale')
        rep.add_broken('correspondence', 'grid threshold witness', 'the model says 0 at k = 1/8 (C04_grid_maximise_witness_values), the implementation 1/128')
    elif g8 == 0.0:
        if GRID_ID in kf:
            if not (thr or amp):
                rep.known.append(kf[GRID_ID]['line'].replace('known: property=C04 ', '') + ' [kernel witness only: column minmax(0,1px) in 1/16 px '
                                 'is 0.0625 px, at k = 1/8 it is 0 px instead of 0.0078125 px]')
        else:
            rep.add_violation('grid track sizing is not homogeneous (witness of C04_grid_maximise_refuted): column minmax(0,1px) in a 1/16 px '
                              'container is 0.0625 px, everything scaled by 1/8 it is 0 px instead of 0.0078125 px', {'cmd': 'vh c09 one', 'k': 0.125})
    else:
        rep.add_broken('correspondence', 'grid threshold witness', 'the model says 0 at k = 1/8, the implementation %r' % g8)

    rep.cov['rule'] = ('oracle case = (seed, idx): a treegen tree (up to 12 / 20 nodes; idx mod 4 selects all displays / flex only / grid only / '
                       'block+flex; dyadic lengths in quarters below 2^9, dyadic percentages, flex factors in {0,1/2,1,2}, fr, aspect ratios, '
                       'absolute and hidden nodes, Fixed / Text / Echo measure contexts), an available space (definite / min-content / '
                       'max-content per axis) and k in {1/8,1/4,1/2,2,4,16}; both trees are built and laid out from scratch with rounding '
                       'disabled; all 20 f32 fields + order of every node are compared with k * original bit for bit (zeros of either sign '
                       'identified); distinct_nontrivial = distinct (printed style tree, available space, k) among trees with at least two '
                       'nodes, counted by the harness; kernel tie = C19, C11, C07, C10 (K1, K2) and C09 correspondence cases evaluated over F32 in Coq')
    if summary:
        rep.cov['input_distribution'] = {k: summary[k] for k in ('with_flex', 'with_grid', 'with_block', 'with_measure', 'in_known_class',
                                                                  'k8th', 'k4th', 'khalf', 'k2', 'k4', 'k16') if k in summary}
    # samples: actual oracle cases, printed by the harness
    if not replay:
        for idx in (0, 1):
            rc, sout = vh(binp, ['c04', 'show', oseed, idx])
            samples.append({'oracle_case': {'seed': oseed, 'idx': idx}, 'tree_and_layouts': sout.split('\n')[:14]})
    samples.append({'theorem': 'C04_leaf : forall k st i measure measure\', 0 < k -> measure_homog k measure measure\' -> result_rel (output_rel k) k '
                               '(compute_leaf_layout i st measure) (compute_leaf_layout (input_scale k i) (style_scale k st) measure\')'})
    samples.append({'theorem': 'C04_abs_flex : forall k c i measure measure\', 0 < k -> abs_measure_homog k measure measure\' -> absout_rel k '
                               '(abs_flex c i measure) (abs_flex (flexc_scale k c) (absin_scale k i) measure\')'})
    samples.append({'theorem': 'C04_flex_resolve_flexible_lengths : forall k items gap inner_main, 0 < k -> op_rel (items_rel k) '
                               '(resolve_flexible_lengths items gap inner_main) (resolve_flexible_lengths (map (item_scale k) items) '
                               '(x_scale k gap) (opt_scale k inner_main))'})
    samples.append({'theorem': 'C04_block_inflow : forall k P xs, 0 < k -> binflow_rel k (block_inflow P xs) (block_inflow (bparams_scale k P) '
                               '(map (bpair_scale k) xs))'})
    samples.append({'theorem': 'C04_block_engine_instance : forall k, 0 < k -> forall f t t\' i i\', trel (bnode_rel k) (bin_rel k) (bout_rel k) '
                               '(blay_rel k) t t\' -> bin_rel k i i\' -> oprel (res_rel ..) (bl_memo block_pre abs_child_simple f t i) '
                               '(bl_memo block_pre abs_child_simple f t\' i\')'})
    samples.append({'theorem': 'C04_flex_algorithm_floor_as_length : forall k tau tau\', 0 < k -> sc k tau tau\' -> gtb tau zero = true -> AlgoRel '
                               '(fstyle_rel k) (fin_rel k) (output_rel k) (flay_rel k) (flex_alg_t tau) (flex_alg_t tau\') -- all of '
                               'compute_flexbox_layout, every query / stored layout / result; C04_flex_algorithm_homogeneous_partial : .. -> '
                               'flex_main_not_intrinsic s i = true -> AlgRel .. (flex_alg s st i) (flex_alg s\' st\' i\'); '
                               'C04_blockflex_engine_partial : .. trel t t\' -> fin_rel k i i\' -> bf_memo_t (Fin k) f t\' i\' = bf_memo f t\' i\' -> '
                               'oprel res_rel (bf_memo f t i) (bf_memo f t\' i\')'})
    samples.append({'theorem': 'C04_grid_maximise_threshold : forall k inner a ts, 0 < k -> tracks_rel k (maximise_tracks_t (Fin '
                               '(DISTRIBUTE_THRESHOLD_Q / k)) inner a ts) (maximise_tracks (opt_scale k inner) (gavail_scale k a) (map (track_scale k) ts))'})
    samples.append({'theorem': 'C04_flex_intrinsic_refuted : exists k cc fb ifb g s, 0 < k /\\ finite .. /\\ ~ sc k (item_target_size cc fb ifb g s) '
                               '(item_target_size (x_scale k cc) (x_scale k fb) (x_scale k ifb) g s)'})
    rep.cov['samples'] = samples
