(* C11 -- flex containers.  About Gen.AbsPosGen.flex_place / flex_final_size (generated from flexbox.rs) with the
   constants built by Model.AbsPos.flex_constants from the container's reported geometry. *)
From Coq Require Import ZArith NArith QArith Bool List Lia Lqa.
From TV Require Import Num.Num Num.QNum Gen.AbsPosEnums Model.AbsPosBase Gen.AbsPosGen Model.AbsPos Proofs.AbsPosProofs Proofs.AbsPosBlockProofs.

Lemma flex_final_w c i measured :
  ai_aspect_ratio i = None -> fin_size (flex_inset_relative_size c) -> fin_in i -> fin_size measured ->
  s_width (flex_final_size c i measured) =
  maybe_clamp_FOO (axis_choice (s_width (flex_inset_relative_size c)) (s_width (ai_size i)) (r_left (ai_inset i)) (r_right (ai_inset i))
                               (r_left (ai_margin i)) (r_right (ai_margin i)) (s_width measured))
                  (bf_min (s_width (ai_min0 i)) (s_width (ai_pb_sum i))) (s_width (ai_max i)).
Proof.
  intros Har Ha Hi Hm.
  unfold flex_final_size. change (size_sub (size_sub (fc_container_size c) (rect_sum_axes (fc_border c))) (point_to_size (fc_scrollbar_gutter c)))
    with (flex_inset_relative_size c).
  destruct (flex_inset_relative_size c) as [aw ah].
  destruct i as [ar [mL mR mT mB] [iL iR iT iB] pad bor [pbw pbh] [sw sh] [mnw mnh] [mxw mxh] als jus pos].
  destruct measured as [mw mh].
  cbn in Har. subst ar. fin_unfold; cbn in Ha, Hi, Hm. fin_split.
  unfold bf_min, axis_choice, raw_from_insets.
  cbv beta iota zeta delta [size_zip3 size_zip2 size_or size_map size_set_width size_set_height size_unwrap_or
    size_maybe_apply_aspect_ratio s_width s_height r_left r_right r_top r_bottom ai_size ai_min0 ai_max ai_pb_sum ai_inset
    ai_margin ai_aspect_ratio opt_unwrap_or].
  destruct sw as [sw|], iL as [iL|], iR as [iR|]; known_norm;
  (destruct sh as [sh|], iT as [iT|], iB as [iB|]; known_norm;
    rewrite ?clamp_FOO_idem by fin_side; reflexivity).
Qed.

Lemma flex_final_h c i measured :
  ai_aspect_ratio i = None -> fin_size (flex_inset_relative_size c) -> fin_in i -> fin_size measured ->
  s_height (flex_final_size c i measured) =
  maybe_clamp_FOO (axis_choice (s_height (flex_inset_relative_size c)) (s_height (ai_size i)) (r_top (ai_inset i)) (r_bottom (ai_inset i))
                               (r_top (ai_margin i)) (r_bottom (ai_margin i)) (s_height measured))
                  (bf_min (s_height (ai_min0 i)) (s_height (ai_pb_sum i))) (s_height (ai_max i)).
Proof.
  intros Har Ha Hi Hm.
  unfold flex_final_size. change (size_sub (size_sub (fc_container_size c) (rect_sum_axes (fc_border c))) (point_to_size (fc_scrollbar_gutter c)))
    with (flex_inset_relative_size c).
  destruct (flex_inset_relative_size c) as [aw ah].
  destruct i as [ar [mL mR mT mB] [iL iR iT iB] pad bor [pbw pbh] [sw sh] [mnw mnh] [mxw mxh] als jus pos].
  destruct measured as [mw mh].
  cbn in Har. subst ar. fin_unfold; cbn in Ha, Hi, Hm. fin_split.
  unfold bf_min, axis_choice, raw_from_insets.
  cbv beta iota zeta delta [size_zip3 size_zip2 size_or size_map size_set_width size_set_height size_unwrap_or
    size_maybe_apply_aspect_ratio s_width s_height r_left r_right r_top r_bottom ai_size ai_min0 ai_max ai_pb_sum ai_inset
    ai_margin ai_aspect_ratio opt_unwrap_or].
  destruct sw as [sw|], iL as [iL|], iR as [iR|]; known_norm;
  (destruct sh as [sh|], iT as [iT|], iB as [iB|]; known_norm;
    rewrite ?clamp_FOO_idem by fin_side; reflexivity).
Qed.

Section FlexC.
  Variables (dir : FlexDirection) (wr : bool) (jc : option AlignContent) (ais : AlignItems).
  Definition fcs (ct : @Container XQ) : FlexConstants XQ := flex_constants ct dir wr jc ais.

  Lemma flex_area_fin ct : fin_container ct -> fin_size (flex_inset_relative_size (fcs ct)).
  Proof.
    destruct ct as [[W Hh] [bl br bt bb] [pl pr pt pb] [gx gy]]. fin_unfold. cbn. intros. split; xq_arith.
  Qed.
  Lemma flex_area_pbox ct : fin_container ct ->
    xeq (s_width (flex_inset_relative_size (fcs ct))) (pbox_w ct) /\ xeq (s_height (flex_inset_relative_size (fcs ct))) (pbox_h ct) /\
    finite (pbox_w ct) /\ finite (pbox_h ct).
  Proof.
    destruct ct as [[W Hh] [bl br bt bb] [pl pr pt pb] [gx gy]]. fin_unfold. cbn. intros. repeat split; xq_arith.
  Qed.
  Lemma flex_final_fin ct i measured :
    ai_aspect_ratio i = None -> fin_container ct -> fin_in i -> fin_size measured -> fin_size (flex_final_size (fcs ct) i measured).
  Proof.
    intros Har Hc Hi Hm. pose proof (flex_area_fin ct Hc) as Ha.
    split; [rewrite flex_final_w by assumption | rewrite flex_final_h by assumption];
      fin_unfold; fin_split; (apply clamp_FOO_fin; [apply axis_choice_fin | apply bf_min_fin |]; assumption).
  Qed.
End FlexC.

Ltac flex_go :=
  match goal with
  | P : block_premises ?ct ?i ?measured |- context [abs_flex_place (flex_constants ?ct ?dir ?wr ?jc ?ais) ?i ?measured] =>
      let Hc := fresh "Hc" in let Hi := fresh "Hi" in let Hm := fresh "Hm" in let Har := fresh "Har" in let HF := fresh "HF" in
      destruct P as (Hc & Hi & Hm & Har);
      pose proof (flex_final_fin dir wr jc ais ct i measured Har Hc Hi Hm) as HF;
      unfold abs_flex_place, fcs in *;
      destruct i as [ar [mL mR mT mB] [iL iR iT iB] pad bor [pbw pbh] [sw sh] [mnw mnh] [mxw mxh] als jus pos];
      cbn [ai_aspect_ratio ai_margin ai_inset ai_size ai_min0 ai_max ai_pb_sum r_left r_right r_top r_bottom s_width s_height] in * |-; subst;
      destruct dir; cbn -[flex_final_size] in HF; cbn -[flex_final_size];
      match goal with
      | HF' : fin_size ?F |- _ => destruct F as [fw fh]
      end;
      destruct ct as [[W Hh] [bl br bt bb] [pl pr pt pb] [gx gy]];
      fin_unfold; cbn in * |-; cbn
  end.

Lemma start_flex_x ct dir wr jc ais i measured s ml mr : block_premises ct i measured ->
  r_left (ai_inset i) = Some s -> r_left (ai_margin i) = Some ml -> r_right (ai_margin i) = Some mr ->
  let o := abs_flex_place (flex_constants ct dir wr jc ais) i measured in
  xeq (sub (p_x (o_location o)) (r_left (o_margin o))) (add (pbox_start_x ct) s).
Proof. intros P ? ? ? o; subst o. flex_go; xq_arith. Qed.

Lemma start_flex_y ct dir wr jc ais i measured s mt mb : block_premises ct i measured ->
  r_top (ai_inset i) = Some s -> r_top (ai_margin i) = Some mt -> r_bottom (ai_margin i) = Some mb ->
  let o := abs_flex_place (flex_constants ct dir wr jc ais) i measured in
  xeq (sub (p_y (o_location o)) (r_top (o_margin o))) (add (pbox_start_y ct) s).
Proof. intros P ? ? ? o; subst o. flex_go; xq_arith. Qed.

Lemma end_flex_x ct dir wr jc ais i measured e ml mr : block_premises ct i measured ->
  r_left (ai_inset i) = None -> r_right (ai_inset i) = Some e -> r_left (ai_margin i) = Some ml -> r_right (ai_margin i) = Some mr ->
  let o := abs_flex_place (flex_constants ct dir wr jc ais) i measured in
  xeq (sub (pbox_end_x ct) (add (add (p_x (o_location o)) (s_width (o_size o))) (r_right (o_margin o)))) e.
Proof. intros P ? ? ? ? o; subst o. flex_go; xq_arith. Qed.

Lemma end_flex_y ct dir wr jc ais i measured e mt mb : block_premises ct i measured ->
  r_top (ai_inset i) = None -> r_bottom (ai_inset i) = Some e -> r_top (ai_margin i) = Some mt -> r_bottom (ai_margin i) = Some mb ->
  let o := abs_flex_place (flex_constants ct dir wr jc ais) i measured in
  xeq (sub (pbox_end_y ct) (add (add (p_y (o_location o)) (s_height (o_size o))) (r_bottom (o_margin o)))) e.
Proof. intros P ? ? ? ? o; subst o. flex_go; xq_arith. Qed.

Lemma size_flex_x ct dir wr jc ais i measured s e ml mr : block_premises ct i measured ->
  r_left (ai_inset i) = Some s -> r_right (ai_inset i) = Some e -> s_width (ai_size i) = None ->
  r_left (ai_margin i) = Some ml -> r_right (ai_margin i) = Some mr ->
  xeq (s_width (o_size (abs_flex_place (flex_constants ct dir wr jc ais) i measured)))
      (inset_size (pbox_w ct) s e ml mr (s_width (ai_min0 i)) (s_width (ai_max i)) (s_width (ai_pb_sum i))).
Proof.
  intros (Hc & Hi & Hm & Har) Hl Hr Hs Hml Hmr.
  pose proof (flex_area_fin dir wr jc ais ct Hc) as Ha. destruct (flex_area_pbox dir wr jc ais ct Hc) as (Hw & _ & Hfw & _).
  unfold fcs in *.
  assert (o_size (abs_flex_place (flex_constants ct dir wr jc ais) i measured) = flex_final_size (flex_constants ct dir wr jc ais) i measured) as ->
    by (destruct dir; reflexivity).
  rewrite flex_final_w by assumption. rewrite Hl, Hr, Hs, Hml, Hmr. cbn [axis_choice].
  unfold fin_in, fin_orect, fin_osize, fin_size in Hi. rewrite Hl, Hr, Hml, Hmr in Hi. cbn [fin_opt] in Hi.
  apply clamp_inset_size; tauto.
Qed.

Lemma size_flex_y ct dir wr jc ais i measured s e mt mb : block_premises ct i measured ->
  r_top (ai_inset i) = Some s -> r_bottom (ai_inset i) = Some e -> s_height (ai_size i) = None ->
  r_top (ai_margin i) = Some mt -> r_bottom (ai_margin i) = Some mb ->
  xeq (s_height (o_size (abs_flex_place (flex_constants ct dir wr jc ais) i measured)))
      (inset_size (pbox_h ct) s e mt mb (s_height (ai_min0 i)) (s_height (ai_max i)) (s_height (ai_pb_sum i))).
Proof.
  intros (Hc & Hi & Hm & Har) Hl Hr Hs Hml Hmr.
  pose proof (flex_area_fin dir wr jc ais ct Hc) as Ha. destruct (flex_area_pbox dir wr jc ais ct Hc) as (_ & Hw & _ & Hfw).
  unfold fcs in *.
  assert (o_size (abs_flex_place (flex_constants ct dir wr jc ais) i measured) = flex_final_size (flex_constants ct dir wr jc ais) i measured) as ->
    by (destruct dir; reflexivity).
  rewrite flex_final_h by assumption. rewrite Hl, Hr, Hs, Hml, Hmr. cbn [axis_choice].
  unfold fin_in, fin_orect, fin_osize, fin_size in Hi. rewrite Hl, Hr, Hml, Hmr in Hi. cbn [fin_opt] in Hi.
  apply clamp_inset_size; tauto.
Qed.
