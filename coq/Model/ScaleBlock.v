(* C04 -- uniform scaling of the inputs of the block kernel (Model/Block.v over the regenerated Gen/BlockGen.v), over
   the exact instance XQ.  Definitions only.
   Lengths: `Len v` of every style length, scrollbar width, resolved padding / border / sizes, the members of the
   collapsible margin sets, every field of a child's LayoutOutput (the ORACLE VALUE of the in-flow loop: scaled too),
   container widths and content-box insets, positions.  Dimensionless: `Pct p`, the aspect ratio.  Enums, booleans,
   orders are copied.  `X_rel k x x'` says x' is x scaled by k, up to the equality of rationals; `X_scale k x` is the
   functional scaling, and `X_rel k x (X_scale k x)` always holds (Proofs/ScaleBlock.v). *)
From Coq Require Import QArith List Bool ZArith.
From TV Require Import Num.Num Num.QNum Gen.BlockGen Model.Block.
From TV Require Export Model.ScaleBase.
Import ListNotations.

(* ---- containers *)
Definition brc_rel {A} (R : A -> A -> Prop) (a a' : BRect A) : Prop :=
  R (r_left a) (r_left a') /\ R (r_right a) (r_right a') /\ R (r_top a) (r_top a') /\ R (r_bottom a) (r_bottom a').
Definition bsz_rel {A} (R : A -> A -> Prop) (a a' : BSize A) : Prop := R (s_w a) (s_w a') /\ R (s_h a) (s_h a').
Definition brc_map {A B} (f : A -> B) (a : BRect A) : BRect B := mkRect (f (r_left a)) (f (r_right a)) (f (r_top a)) (f (r_bottom a)).
Definition bsz_map {A B} (f : A -> B) (a : BSize A) : BSize B := mkSize (f (s_w a)) (f (s_h a)).

(* ---- style lengths *)
Definition blpa_rel (k : Q) (d d' : LPA XQ) : Prop :=
  match d, d' with
  | Len v, Len v' => sc k v v'
  | Pct p, Pct p' => dl p p'
  | Auto, Auto => True
  | _, _ => False
  end.
Definition blpa_scale (k : Q) (d : LPA XQ) : LPA XQ := match d with Len v => Len (x_scale k v) | o => o end.

(* ---- CollapsibleMarginSet *)
Definition bms_rel (k : Q) (m m' : MarginSet XQ) : Prop := sc k (ms_positive m) (ms_positive m') /\ sc k (ms_negative m) (ms_negative m').
Definition bms_scale (k : Q) (m : MarginSet XQ) : MarginSet XQ := mkMS (x_scale k (ms_positive m)) (x_scale k (ms_negative m)).

(* ---- Style *)
Definition bstyle_rel (k : Q) (s s' : BStyle XQ) : Prop :=
  st_display s' = st_display s /\ st_is_table s' = st_is_table s /\ st_content_box s' = st_content_box s /\
  st_overflow_x s' = st_overflow_x s /\ st_overflow_y s' = st_overflow_y s /\
  sc k (st_scrollbar_width s) (st_scrollbar_width s') /\ st_position s' = st_position s /\
  brc_rel (blpa_rel k) (st_inset s) (st_inset s') /\
  bsz_rel (blpa_rel k) (st_size s) (st_size s') /\ bsz_rel (blpa_rel k) (st_min_size s) (st_min_size s') /\
  bsz_rel (blpa_rel k) (st_max_size s) (st_max_size s') /\ op_rel dl (st_aspect_ratio s) (st_aspect_ratio s') /\
  brc_rel (blpa_rel k) (st_margin s) (st_margin s') /\ brc_rel (blpa_rel k) (st_padding s) (st_padding s') /\
  brc_rel (blpa_rel k) (st_border s) (st_border s') /\ st_text_align s' = st_text_align s.
Definition bstyle_scale (k : Q) (s : BStyle XQ) : BStyle XQ :=
  mkStyle (st_display s) (st_is_table s) (st_content_box s) (st_overflow_x s) (st_overflow_y s) (x_scale k (st_scrollbar_width s))
          (st_position s) (brc_map (blpa_scale k) (st_inset s)) (bsz_map (blpa_scale k) (st_size s))
          (bsz_map (blpa_scale k) (st_min_size s)) (bsz_map (blpa_scale k) (st_max_size s)) (st_aspect_ratio s)
          (brc_map (blpa_scale k) (st_margin s)) (brc_map (blpa_scale k) (st_padding s)) (brc_map (blpa_scale k) (st_border s))
          (st_text_align s).

(* ---- BlockItem *)
Definition bitem_rel (k : Q) (i i' : Item XQ) : Prop :=
  it_order i' = it_order i /\ it_is_table i' = it_is_table i /\
  bsz_rel (op_rel (sc k)) (it_size i) (it_size i') /\ bsz_rel (op_rel (sc k)) (it_min_size i) (it_min_size i') /\
  bsz_rel (op_rel (sc k)) (it_max_size i) (it_max_size i') /\
  it_overflow_x i' = it_overflow_x i /\ it_overflow_y i' = it_overflow_y i /\
  sc k (it_scrollbar_width i) (it_scrollbar_width i') /\ it_position i' = it_position i /\
  brc_rel (blpa_rel k) (it_inset i) (it_inset i') /\ brc_rel (blpa_rel k) (it_margin i) (it_margin i') /\
  brc_rel (sc k) (it_padding i) (it_padding i') /\ brc_rel (sc k) (it_border i) (it_border i') /\
  bsz_rel (sc k) (it_pb_sum i) (it_pb_sum i').
Definition bitem_scale (k : Q) (i : Item XQ) : Item XQ :=
  mkItem (it_order i) (it_is_table i) (bsz_map (opt_scale k) (it_size i)) (bsz_map (opt_scale k) (it_min_size i))
         (bsz_map (opt_scale k) (it_max_size i)) (it_overflow_x i) (it_overflow_y i) (x_scale k (it_scrollbar_width i))
         (it_position i) (brc_map (blpa_scale k) (it_inset i)) (brc_map (blpa_scale k) (it_margin i))
         (brc_map (x_scale k) (it_padding i)) (brc_map (x_scale k) (it_border i)) (bsz_map (x_scale k) (it_pb_sum i)).

(* ---- the child's LayoutOutput (oracle value of the loop) *)
Definition bout_rel (k : Q) (o o' : ChildOut XQ) : Prop :=
  bsz_rel (sc k) (co_size o) (co_size o') /\ bsz_rel (sc k) (co_content_size o) (co_content_size o') /\
  bms_rel k (co_top o) (co_top o') /\ bms_rel k (co_bottom o) (co_bottom o') /\ co_ct o' = co_ct o.
Definition bout_scale (k : Q) (o : ChildOut XQ) : ChildOut XQ :=
  mkOut (bsz_map (x_scale k) (co_size o)) (bsz_map (x_scale k) (co_content_size o)) (bms_scale k (co_top o))
        (bms_scale k (co_bottom o)) (co_ct o).
Definition bpair_rel (k : Q) (p p' : Item XQ * ChildOut XQ) : Prop := bitem_rel k (fst p) (fst p') /\ bout_rel k (snd p) (snd p').
Definition bpair_scale (k : Q) (p : Item XQ * ChildOut XQ) : Item XQ * ChildOut XQ := (bitem_scale k (fst p), bout_scale k (snd p)).

(* ---- per item result *)
Definition bres_rel (k : Q) (r r' : ItemResult XQ) : Prop :=
  ir_order r' = ir_order r /\ ir_inflow r' = ir_inflow r /\ sc k (ir_x r) (ir_x r') /\ sc k (ir_y r) (ir_y r') /\
  bsz_rel (sc k) (ir_size r) (ir_size r') /\ brc_rel (sc k) (ir_margin r) (ir_margin r') /\
  bsz_rel (sc k) (ir_scrollbar r) (ir_scrollbar r') /\ sc k (ir_static_x r) (ir_static_x r') /\
  sc k (ir_static_y r) (ir_static_y r') /\ ir_ct r' = ir_ct r /\
  bsz_rel (op_rel (sc k)) (ir_known r) (ir_known r') /\ sc k (ir_avail_w r) (ir_avail_w r') /\
  bms_rel k (ir_top_set r) (ir_top_set r') /\ bms_rel k (ir_bottom_set r) (ir_bottom_set r').

(* ---- loop constants, loop state, loop result *)
Definition bparams_rel (k : Q) (P P' : Params XQ) : Prop :=
  sc k (p_outer_width P) (p_outer_width P') /\ brc_rel (sc k) (p_cbi P) (p_cbi P') /\ brc_rel (sc k) (p_rcbi P) (p_rcbi P') /\
  p_text_align P' = p_text_align P /\ p_own_collapse P' = p_own_collapse P.
Definition bparams_scale (k : Q) (P : Params XQ) : Params XQ :=
  mkParams (x_scale k (p_outer_width P)) (brc_map (x_scale k) (p_cbi P)) (brc_map (x_scale k) (p_rcbi P)) (p_text_align P)
           (p_own_collapse P).
Definition bstate_rel (k : Q) (s s' : State XQ) : Prop :=
  bsz_rel (sc k) (s_content s) (s_content s') /\ sc k (s_committed s) (s_committed s') /\ sc k (s_abs_y s) (s_abs_y s') /\
  bms_rel k (s_first_set s) (s_first_set s') /\ bms_rel k (s_active s) (s_active s') /\ s_is_first s' = s_is_first s.
Definition binflow_rel (k : Q) (o o' : InflowOut XQ) : Prop :=
  Forall2 (bres_rel k) (io_results o) (io_results o') /\ bsz_rel (sc k) (io_content_size o) (io_content_size o') /\
  sc k (io_height o) (io_height o') /\ bms_rel k (io_first_set o) (io_first_set o') /\ bms_rel k (io_last_set o) (io_last_set o').

(* ---- compute_inner *)
Definition binput_rel (k : Q) (i i' : BInput XQ) : Prop :=
  bsz_rel (op_rel (sc k)) (in_known i) (in_known i') /\ bsz_rel (op_rel (sc k)) (in_parent i) (in_parent i') /\
  in_collapsible i' = in_collapsible i.
Definition binput_scale (k : Q) (i : BInput XQ) : BInput XQ :=
  mkInput (bsz_map (opt_scale k) (in_known i)) (bsz_map (opt_scale k) (in_parent i)) (in_collapsible i).
Definition bresolved_rel (k : Q) (r r' : Resolved XQ) : Prop :=
  brc_rel (sc k) (rs_padding r) (rs_padding r') /\ brc_rel (sc k) (rs_border r) (rs_border r') /\
  bsz_rel (sc k) (rs_pb_size r) (rs_pb_size r') /\ brc_rel (sc k) (rs_cbi r) (rs_cbi r') /\
  bsz_rel (op_rel (sc k)) (rs_size r) (rs_size r') /\ bsz_rel (op_rel (sc k)) (rs_min r) (rs_min r') /\
  bsz_rel (op_rel (sc k)) (rs_max r) (rs_max r').

(* the composition compute_inner performs around the in-flow loop (cf. Model/BlockRun.v, correspondence K2 of C10): the items
   from the children's styles, the loop constants from the container's style and outer width, the loop over the items
   paired with the children's LayoutOutputs, then the container's outer height, its two margin sets and its
   collapse-through flag *)
Definition block_container (st : BStyle XQ) (inp : BInput XQ) (outer_width : XQ) (styles : list (BStyle XQ))
           (outs : list (ChildOut XQ)) : InflowOut XQ * XQ * (MarginSet XQ * MarginSet XQ) * bool :=
  let items := generate_item_list styles (block_node_inner_size st inp) in
  let io := block_inflow (block_params st inp outer_width) (combine items outs) in
  (io, block_outer_height st inp (io_height io), block_output_margins st inp io,
   block_can_collapse_through st inp (io_results io)).
