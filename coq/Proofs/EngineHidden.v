(* display:none in the engine skeleton (C05), for EVERY algorithm:
   - compute_hidden_layout zeroes a whole subtree (AllZero (hide t));
   - HiddenZero (below every display:none node everything is zero, caches empty) is preserved by every evaluation --
     no interface hypothesis: the only thing an algorithm can write is a CHILD's own stored layout (SetLayout), and the
     invariant does not speak about the display:none node itself; with the interface hypothesis SetsZeroOnHidden
     (an algorithm stores only "zeroish" layouts -- Layout::with_order(i) -- on a display:none child) the node itself
     is covered too (HiddenSelf);
   - it is ESTABLISHED by a PerformLayout pass from any tree meeting the pass invariants (J, B of EngineDirty.v, e.g. a
     freshly built tree or one whose caches were all cleared), whatever garbage the stored layouts held before:
     with H1 every display:none node outside display:none regions is evaluated;
   - it is NOT preserved by the mutators: attaching a laid-out subtree two levels below a clean display:none node leaves
     it non-zero after the next pass (mark_dirty's early exit at the empty caches below the hidden node; known finding
     C01/hidden-region-stale) -- counter-example on the toy instance; mutators at nodes without a display:none
     ancestor do preserve the (cache-conditional) invariant HZc;
   - hidden blindness: an algorithm that reads its children's styles through a view collapsing all display:none styles
     (HiddenBlind) cannot tell a display:none subtree from any other display:none subtree: outputs, stored layouts and
     caches of all nodes outside display:none regions -- and of the display:none nodes themselves -- coincide (tsim). *)
From Coq Require Import List Bool Arith NArith Lia.
From TV Require Import Model.Engine Model.EngineToy Proofs.EngineMemo Proofs.EngineDirty.
Import ListNotations.

Section Hidden.
  Variables (S In Out Lay : Type).
  Variable mode : In -> RunMode.
  Variable in_eqb : In -> In -> bool.
  Variable is_none : S -> bool.
  Variable hidden_out : Out.
  Variable zero_lay : Lay.
  Variable algo : S -> list S -> In -> Alg In Out Lay.

  Notation tree := (tree S In Out Lay).
  Notation sk := (sk S).
  Notation Alg := (Alg In Out Lay).
  Notation cache := (cache In Out).
  Notation Node := (Node S In Out Lay).
  Notation SNode := (SNode S).
  Notation plain := (plain S In Out Lay mode is_none hidden_out algo).
  Notation memo := (memo S In Out Lay mode in_eqb is_none hidden_out zero_lay algo).
  Notation run_plain := (run_plain S In Out Lay).
  Notation run_memo := (run_memo S In Out Lay).
  Notation hide := (hide S In Out Lay zero_lay).
  Notation fresh := (fresh S In Out Lay zero_lay).
  Notation skel := (skel S In Out Lay).
  Notation cget := (cget In Out mode in_eqb).
  Notation cstore := (cstore In Out mode).
  Notation cempty := (cempty In Out).
  Notation is_empty := (is_empty In Out).
  Notation cache_of := (cache_of S In Out Lay).
  Notation lay_of := (lay_of S In Out Lay).
  Notation kids_of := (kids_of S In Out Lay).
  Notation style_of := (style_of S In Out Lay).
  Notation set_lay := (set_lay S In Out Lay).
  Notation subtree := (subtree S In Out Lay).
  Notation md := (md S In Out Lay).
  Notation update := (update S In Out Lay).
  Notation apply_edit := (apply_edit S In Out Lay).
  Notation mutate := (mutate S In Out Lay).
  Notation J := (J S In Out Lay is_none).
  Notation B := (B S In Out Lay is_none).
  Notation Full := (Full S In Out Lay is_none).

  Lemma tree_ind3 (P : tree -> Prop) :
    (forall s c l kids, Forall P kids -> P (Node s c l kids)) -> forall t, P t.
  Proof.
    intros H. fix IH 1. intros [s c l kids]. apply H.
    induction kids as [|k kids IHk]; constructor; [apply IH | exact IHk].
  Qed.

  Lemma sk_ind' (P : sk -> Prop) :
    (forall s kids, Forall P kids -> P (SNode s kids)) -> forall t, P t.
  Proof.
    intros H. fix IH 1. intros [s kids]. apply H.
    induction kids as [|k kids IHk]; constructor; [apply IH | exact IHk].
  Qed.

  (* ------------------------------------------------------------------------------------------------ zero subtrees *)

  (* the whole subtree: stored layout zero, cache empty *)
  Inductive AllZero : tree -> Prop :=
  | AZ_node s kids : Forall AllZero kids -> AllZero (Node s cempty zero_lay kids).

  Lemma all_zero_hide t : AllZero (hide t).
  Proof.
    induction t as [s c l kids IH] using tree_ind3. cbn. constructor. apply Forall_map. exact IH.
  Qed.

  Lemma all_zero_fresh k : AllZero (fresh k).
  Proof.
    induction k as [s kids IH] using sk_ind'. cbn. constructor. apply Forall_map. exact IH.
  Qed.

  (* every node reachable in an all-zero tree has the zero layout and an empty cache *)
  Lemma all_zero_at : forall p t u, AllZero t -> subtree t p = Some u -> lay_of u = zero_lay /\ cache_of u = cempty.
  Proof.
    induction p as [|x p IH]; intros t u HZ Hs; cbn in Hs.
    - injection Hs as <-. inversion HZ; subst. split; reflexivity.
    - inversion HZ as [s kids Hk]; subst. cbn in Hs.
      destruct (nth_error kids x) as [ch|] eqn:Ex; [|discriminate].
      eapply IH; [|exact Hs]. rewrite Forall_forall in Hk. apply Hk. eapply nth_error_In; eauto.
  Qed.

  (* below every display:none node everything is zero *)
  Inductive HiddenZero : tree -> Prop :=
  | HZ_node s c l kids :
      (is_none s = true -> Forall AllZero kids) -> Forall HiddenZero kids -> HiddenZero (Node s c l kids).

  Lemma all_zero_hidden_zero t : AllZero t -> HiddenZero t.
  Proof.
    induction t as [s c l kids IH] using tree_ind3. intros HZ. inversion HZ as [s0 k0 Hk]; subst.
    constructor; [intros _; exact Hk|].
    rewrite Forall_forall in *. intros x Hx. apply IH; auto.
  Qed.

  Lemma Forall_all_zero_hidden_zero kids : Forall AllZero kids -> Forall HiddenZero kids.
  Proof. intros H. eapply Forall_impl; [|exact H]. apply all_zero_hidden_zero. Qed.

  Lemma hidden_zero_set_lay t l : HiddenZero t -> HiddenZero (set_lay t l).
  Proof. destruct t. intros H. inversion H; subst. constructor; assumption. Qed.

  (* pointwise reading: a strict descendant of a display:none node has the zero layout and an empty cache *)
  Lemma hidden_zero_at : forall p t h x q u, HiddenZero t -> subtree t p = Some h -> is_none (style_of h) = true ->
    subtree h (x :: q) = Some u -> lay_of u = zero_lay /\ cache_of u = cempty.
  Proof.
    induction p as [|y p IH]; intros t h x q u HZ Hs Hn Hu; cbn in Hs.
    - injection Hs as <-. inversion HZ as [s c l kids Hh Hk]; subst. cbn in Hn, Hu.
      destruct (nth_error kids x) as [ch|] eqn:Ex; [|discriminate].
      eapply all_zero_at; [|exact Hu]. specialize (Hh Hn). rewrite Forall_forall in Hh. apply Hh. eapply nth_error_In; eauto.
    - inversion HZ as [s c l kids Hh Hk]; subst. cbn in Hs.
      destruct (nth_error kids y) as [ch|] eqn:Ey; [|discriminate].
      eapply (IH ch); [|exact Hs|exact Hn|exact Hu].
      rewrite Forall_forall in Hk. apply Hk. eapply nth_error_In; eauto.
  Qed.

  (* ------------------------------------------------------------------------------------------------ preservation *)

  Definition ev_hz (ev : tree -> In -> option (Out * tree)) : Prop :=
    forall t i o t', HiddenZero t -> ev t i = Some (o, t') -> HiddenZero t'.

  Lemma run_memo_hz ev : ev_hz ev ->
    forall a kids o kids', Forall HiddenZero kids -> run_memo ev kids a = Some (o, kids') -> Forall HiddenZero kids'.
  Proof.
    intros Hev a. induction a as [o0|c i k IH|c l k IH]; intros kids o kids' HK H; cbn in H.
    - injection H as <- <-. exact HK.
    - destruct (nth_error kids c) as [t|] eqn:En; [|discriminate].
      destruct (ev t i) as [[o1 t1]|] eqn:Ee; [|discriminate].
      eapply IH; [|exact H]. apply Forall_replace_nth; [exact HK|].
      eapply Hev; [|exact Ee]. rewrite Forall_forall in HK. apply HK. eapply nth_error_In; eauto.
    - destruct (nth_error kids c) as [t|] eqn:En; [|discriminate].
      eapply IH; [|exact H]. apply Forall_replace_nth; [exact HK|].
      apply hidden_zero_set_lay. rewrite Forall_forall in HK. apply HK. eapply nth_error_In; eauto.
  Qed.

  Lemma Forall_map_hide (P : tree -> Prop) (kids : list tree) : (forall t, P (hide t)) -> Forall P (map hide kids).
  Proof. intros H. apply Forall_map. apply Forall_forall. intros x _. apply H. Qed.

  Theorem memo_hidden_zero : forall f, ev_hz (memo f).
  Proof.
    induction f as [|f IH]; intros t i o t' HZ H; [discriminate|].
    destruct t as [s c l kids]. cbn [Engine.memo] in H.
    inversion HZ as [s0 c0 l0 k0 Hh Hk]; subst.
    assert (Hbody : mode i <> PerformHiddenLayout ->
              match cget c i with
              | Some o0 => Some (o0, Node s c l kids)
              | None => if is_none s then Some (hidden_out, Node s (cstore cempty i hidden_out) zero_lay (map hide kids))
                        else match run_memo (memo f) kids (algo s (map style_of kids) i) with
                             | Some (o0, kids') => Some (o0, Node s (cstore c i o0) l kids')
                             | None => None end
              end = Some (o, t') -> HiddenZero t').
    { intros _ Hb. destruct (cget c i) as [o1|].
      - injection Hb as <- <-. exact HZ.
      - destruct (is_none s) eqn:En.
        + injection Hb as <- <-. constructor.
          * intros _. apply Forall_map_hide. apply all_zero_hide.
          * apply Forall_map_hide. intros x. apply all_zero_hidden_zero. apply all_zero_hide.
        + destruct (run_memo (memo f) kids (algo s (map style_of kids) i)) as [[o1 kids1]|] eqn:Er; [|discriminate].
          injection Hb as <- <-. constructor; [intros E; congruence|].
          eapply run_memo_hz; [exact IH|exact Hk|exact Er]. }
    destruct (mode i) eqn:Em.
    - apply Hbody; [congruence|exact H].
    - apply Hbody; [congruence|exact H].
    - injection H as <- <-. apply all_zero_hidden_zero. apply (all_zero_hide (Node s c l kids)).
  Qed.

  (* what an evaluation returns at a display:none node: a hit leaves the tree alone, everything else is `hide` *)
  Lemma memo_at_none f s c l kids i o t' :
    is_none s = true -> memo f (Node s c l kids) i = Some (o, t') ->
    (t' = Node s c l kids /\ cget c i = Some o /\ mode i <> PerformHiddenLayout) \/
    (o = hidden_out /\ exists c', t' = Node s c' zero_lay (map hide kids)).
  Proof.
    intros En H. destruct f as [|f]; [discriminate|]. cbn [Engine.memo] in H.
    destruct (mode i) eqn:Em.
    - destruct (cget c i) as [o1|] eqn:Eg.
      + injection H as <- <-. left. repeat split; congruence.
      + rewrite En in H. injection H as <- <-. right. split; [reflexivity|]. eexists. reflexivity.
    - destruct (cget c i) as [o1|] eqn:Eg.
      + injection H as <- <-. left. repeat split; congruence.
      + rewrite En in H. injection H as <- <-. right. split; [reflexivity|]. eexists. reflexivity.
    - injection H as <- <-. right. split; [reflexivity|]. eexists. cbn. reflexivity.
  Qed.

  (* ------------------------------------------------------------------------------------------------ the node itself *)

  (* what "zero" means for the layout a parent stores on a display:none child: Layout::with_order(i) *)
  Variable zeroish : Lay -> Prop.
  Hypothesis zeroish_zero : zeroish zero_lay.

  (* interface hypothesis: on a display:none child an algorithm stores only zeroish layouts *)
  Inductive SZH (st : list S) : Alg -> Prop :=
  | SZH_ret o : SZH st (Ret In Out Lay o)
  | SZH_query c i k : (forall o, SZH st (k o)) -> SZH st (Query In Out Lay c i k)
  | SZH_set c l k :
      (forall sc, nth_error st c = Some sc -> is_none sc = true -> zeroish l) -> SZH st k -> SZH st (SetLayout In Out Lay c l k).
  Definition SetsZeroOnHidden : Prop := forall s st i, SZH st (algo s st i).

  (* every display:none node has a zeroish stored layout *)
  Inductive HiddenSelf : tree -> Prop :=
  | HS_node s c l kids : (is_none s = true -> zeroish l) -> Forall HiddenSelf kids -> HiddenSelf (Node s c l kids).

  Lemma hidden_self_hide t : HiddenSelf (hide t).
  Proof.
    induction t as [s c l kids IH] using tree_ind3. cbn. constructor; [intros _; exact zeroish_zero|].
    apply Forall_map. exact IH.
  Qed.

  Lemma memo_style f t i o t' : memo f t i = Some (o, t') -> style_of t' = style_of t.
  Proof.
    destruct f as [|f]; [discriminate|]. destruct t as [s c l kids]. cbn [Engine.memo].
    destruct (mode i).
    - destruct (cget c i); [intros H; injection H as <- <-; reflexivity|].
      destruct (is_none s); [intros H; injection H as <- <-; reflexivity|].
      destruct (run_memo _ _ _) as [[o1 k1]|]; [intros H; injection H as <- <-; reflexivity|discriminate].
    - destruct (cget c i); [intros H; injection H as <- <-; reflexivity|].
      destruct (is_none s); [intros H; injection H as <- <-; reflexivity|].
      destruct (run_memo _ _ _) as [[o1 k1]|]; [intros H; injection H as <- <-; reflexivity|discriminate].
    - intros H; injection H as <- <-; reflexivity.
  Qed.

  Definition ev_hs (ev : tree -> In -> option (Out * tree)) : Prop :=
    forall t i o t', HiddenSelf t -> ev t i = Some (o, t') -> HiddenSelf t' /\ style_of t' = style_of t.

  Lemma map_style_replace (kids : list tree) c t t1 :
    nth_error kids c = Some t -> style_of t1 = style_of t -> map style_of (replace_nth c t1 kids) = map style_of kids.
  Proof.
    intros En Hs. rewrite map_replace_nth, Hs. apply replace_nth_same. rewrite nth_error_map, En. reflexivity.
  Qed.

  Lemma run_memo_hs ev : ev_hs ev ->
    forall a kids st o kids', map style_of kids = st -> SZH st a -> Forall HiddenSelf kids ->
      run_memo ev kids a = Some (o, kids') -> Forall HiddenSelf kids'.
  Proof.
    intros Hev a. induction a as [o0|c i k IH|c l k IH]; intros kids st o kids' Hst HS HK H; cbn in H.
    - injection H as <- <-. exact HK.
    - inversion HS as [|c0 i0 k0 Hk|]; subst.
      destruct (nth_error kids c) as [t|] eqn:En; [|discriminate].
      destruct (ev t i) as [[o1 t1]|] eqn:Ee; [|discriminate].
      assert (Ht : HiddenSelf t) by (rewrite Forall_forall in HK; apply HK; eapply nth_error_In; eauto).
      destruct (Hev _ _ _ _ Ht Ee) as [H1 H2].
      eapply (IH o1); [|apply Hk| |exact H].
      + eapply map_style_replace; eauto.
      + apply Forall_replace_nth; assumption.
    - inversion HS as [| |c0 l0 k0 Hz Hk]; subst.
      destruct (nth_error kids c) as [t|] eqn:En; [|discriminate].
      assert (Ht : HiddenSelf t) by (rewrite Forall_forall in HK; apply HK; eapply nth_error_In; eauto).
      eapply IH; [|exact Hk| |exact H].
      + eapply map_style_replace; eauto. destruct t; reflexivity.
      + apply Forall_replace_nth; [exact HK|].
        destruct t as [s1 c1 l1 k1]. inversion Ht; subst. cbn. constructor; [|assumption].
        intros E1. apply (Hz s1); [|exact E1]. rewrite nth_error_map, En. reflexivity.
  Qed.

  Theorem memo_hidden_self : SetsZeroOnHidden -> forall f, ev_hs (memo f).
  Proof.
    intros HSZ. induction f as [|f IH]; intros t i o t' HS H; [discriminate|].
    split; [|eapply memo_style; exact H].
    destruct t as [s c l kids]. cbn [Engine.memo] in H.
    inversion HS as [s0 c0 l0 k0 Hl Hk]; subst.
    assert (Hbody : match cget c i with
              | Some o0 => Some (o0, Node s c l kids)
              | None => if is_none s then Some (hidden_out, Node s (cstore cempty i hidden_out) zero_lay (map hide kids))
                        else match run_memo (memo f) kids (algo s (map style_of kids) i) with
                             | Some (o0, kids') => Some (o0, Node s (cstore c i o0) l kids')
                             | None => None end
              end = Some (o, t') -> HiddenSelf t').
    { intros Hb. destruct (cget c i) as [o1|].
      - injection Hb as <- <-. exact HS.
      - destruct (is_none s) eqn:En.
        + injection Hb as <- <-. constructor; [intros _; exact zeroish_zero|].
          apply Forall_map_hide. apply hidden_self_hide.
        + destruct (run_memo (memo f) kids (algo s (map style_of kids) i)) as [[o1 kids1]|] eqn:Er; [|discriminate].
          injection Hb as <- <-. constructor; [intros E; congruence|].
          eapply run_memo_hs; [exact IH|reflexivity|apply HSZ|exact Hk|exact Er]. }
    destruct (mode i) eqn:Em.
    - apply Hbody; exact H.
    - apply Hbody; exact H.
    - injection H as <- <-. apply (hidden_self_hide (Node s c l kids)).
  Qed.

  (* ------------------------------------------------------------------------------------------------ establishment *)

  (* the cache-conditional form: a display:none node with a NON-EMPTY cache (i.e. one whose hidden layout is considered
     done) has zero children.  Holds of any tree whose caches are all empty, whatever its stored layouts. *)
  Inductive HZc : tree -> Prop :=
  | HZc_node s c l kids :
      (is_none s = true -> is_empty c = false -> Forall AllZero kids) -> Forall HZc kids -> HZc (Node s c l kids).

  Lemma all_zero_HZc t : AllZero t -> HZc t.
  Proof.
    induction t as [s c l kids IH] using tree_ind3. intros HZ. inversion HZ as [s0 k0 Hk]; subst.
    constructor; [intros _ E; cbn in E; discriminate|].
    rewrite Forall_forall in *. intros x Hx. apply IH; auto.
  Qed.

  Lemma HZc_set_lay t l : HZc t -> HZc (set_lay t l).
  Proof. destruct t. intros H. inversion H; subst. constructor; assumption. Qed.

  Definition ev_hzc (ev : tree -> In -> option (Out * tree)) : Prop :=
    forall t i o t', HZc t -> ev t i = Some (o, t') -> HZc t'.

  Lemma run_memo_hzc ev : ev_hzc ev ->
    forall a kids o kids', Forall HZc kids -> run_memo ev kids a = Some (o, kids') -> Forall HZc kids'.
  Proof.
    intros Hev a. induction a as [o0|c i k IH|c l k IH]; intros kids o kids' HK H; cbn in H.
    - injection H as <- <-. exact HK.
    - destruct (nth_error kids c) as [t|] eqn:En; [|discriminate].
      destruct (ev t i) as [[o1 t1]|] eqn:Ee; [|discriminate].
      eapply IH; [|exact H]. apply Forall_replace_nth; [exact HK|].
      eapply Hev; [|exact Ee]. rewrite Forall_forall in HK. apply HK. eapply nth_error_In; eauto.
    - destruct (nth_error kids c) as [t|] eqn:En; [|discriminate].
      eapply IH; [|exact H]. apply Forall_replace_nth; [exact HK|].
      apply HZc_set_lay. rewrite Forall_forall in HK. apply HK. eapply nth_error_In; eauto.
  Qed.

  Lemma cget_nonempty' c i o : cget c i = Some o -> is_empty c = false.
  Proof.
    unfold Engine.cget. destruct c as [[p|] m]; cbn; [reflexivity|].
    destruct (mode i); try discriminate. destruct m; [discriminate|reflexivity].
  Qed.

  Theorem memo_HZc : forall f, ev_hzc (memo f).
  Proof.
    induction f as [|f IH]; intros t i o t' HZ H; [discriminate|].
    destruct t as [s c l kids]. cbn [Engine.memo] in H.
    inversion HZ as [s0 c0 l0 k0 Hh Hk]; subst.
    assert (Hbody : match cget c i with
              | Some o0 => Some (o0, Node s c l kids)
              | None => if is_none s then Some (hidden_out, Node s (cstore cempty i hidden_out) zero_lay (map hide kids))
                        else match run_memo (memo f) kids (algo s (map style_of kids) i) with
                             | Some (o0, kids') => Some (o0, Node s (cstore c i o0) l kids')
                             | None => None end
              end = Some (o, t') -> HZc t').
    { intros Hb. destruct (cget c i) as [o1|].
      - injection Hb as <- <-. exact HZ.
      - destruct (is_none s) eqn:En.
        + injection Hb as <- <-. constructor.
          * intros _ _. apply Forall_map_hide. apply all_zero_hide.
          * apply Forall_map_hide. intros x. apply all_zero_HZc. apply all_zero_hide.
        + destruct (run_memo (memo f) kids (algo s (map style_of kids) i)) as [[o1 kids1]|] eqn:Er; [|discriminate].
          injection Hb as <- <-. constructor; [intros E; congruence|].
          eapply run_memo_hzc; [exact IH|exact Hk|exact Er]. }
    destruct (mode i) eqn:Em.
    - apply Hbody; exact H.
    - apply Hbody; exact H.
    - injection H as <- <-. apply all_zero_HZc. apply (all_zero_hide (Node s c l kids)).
  Qed.

  (* a pass leaves every display:none node outside display:none regions with a non-empty cache (Full): together *)
  Lemma Full_HZc_hidden_zero t : Full t -> HZc t -> HiddenZero t.
  Proof.
    induction t as [s c l kids IH] using tree_ind3. intros HF HZ.
    inversion HZ as [s0 c0 l0 k0 Hh Hk]; subst.
    inversion HF as [s1 c1 l1 k1 Hn Hne | s1 c1 l1 k1 Hn Hfin Hfk]; subst.
    - specialize (Hh Hn Hne). constructor; [intros _; exact Hh|]. apply Forall_all_zero_hidden_zero. exact Hh.
    - constructor; [intros E; congruence|].
      rewrite Forall_forall in *. intros x Hx. apply IH; auto.
  Qed.

  (* all caches empty (a freshly built tree; a tree after clearing every cache), stored layouts arbitrary *)
  Inductive Cold : tree -> Prop :=
  | Cold_node s l kids : Forall Cold kids -> Cold (Node s cempty l kids).

  Lemma Cold_J t : Cold t -> J t.
  Proof.
    induction t as [s c l kids IH] using tree_ind3. intros HC. inversion HC as [s0 l0 k0 Hk]; subst.
    constructor; [intros _ E; cbn in E; congruence|].
    rewrite Forall_forall in *. intros x Hx. apply IH; auto.
  Qed.
  Lemma Cold_B t : Cold t -> B t.
  Proof.
    induction t as [s c l kids IH] using tree_ind3. intros HC. inversion HC as [s0 l0 k0 Hk]; subst.
    constructor; [intros _ E; cbn in E; discriminate|].
    rewrite Forall_forall in *. intros x Hx. apply IH; auto.
  Qed.
  Lemma Cold_HZc t : Cold t -> HZc t.
  Proof.
    induction t as [s c l kids IH] using tree_ind3. intros HC. inversion HC as [s0 l0 k0 Hk]; subst.
    constructor; [intros _ E; cbn in E; discriminate|].
    rewrite Forall_forall in *. intros x Hx. apply IH; auto.
  Qed.
  Lemma Cold_fresh k : Cold (fresh k).
  Proof. induction k as [s kids IH] using sk_ind'. cbn. constructor. apply Forall_map. exact IH. Qed.

  Section Establish.
    Hypothesis WF : forall s st i, WFAlg In Out Lay mode (algo s st i).
    Hypothesis H1 : forall s st i, mode i = PerformLayout -> Visits In Out Lay mode (seq 0 (length st)) (algo s st i).

    (* a layout pass (PerformLayout at the root) establishes HiddenZero, and keeps what the next pass needs *)
    Theorem pass_establishes_hidden_zero f t i o t' :
      mode i = PerformLayout -> J t -> B t -> HZc t -> memo f t i = Some (o, t') ->
      HiddenZero t' /\ J t' /\ B t' /\ HZc t'.
    Proof.
      intros Hp HJ HB HZ H.
      destruct (pass_clean S In Out Lay mode in_eqb is_none hidden_out zero_lay algo WF H1 f t i o t' Hp HJ HB H)
        as [HF [HJ' HB']].
      pose proof (memo_HZc f _ _ _ _ HZ H) as HZ'.
      split; [apply Full_HZc_hidden_zero; assumption|]. repeat split; assumption.
    Qed.

    Corollary cold_pass_hidden_zero f t i o t' :
      mode i = PerformLayout -> Cold t -> memo f t i = Some (o, t') -> HiddenZero t'.
    Proof.
      intros Hp HC H.
      apply (pass_establishes_hidden_zero f t i o t' Hp (Cold_J _ HC) (Cold_B _ HC) (Cold_HZc _ HC) H).
    Qed.
  End Establish.

  (* ------------------------------------------------------------------------------------------------ mutators *)

  Notation visible_path := (visible_path S In Out Lay is_none).

  (* md only replaces caches by the empty cache *)
  Lemma md_all_zero : forall q u, AllZero u -> AllZero (fst (md u q)).
  Proof.
    induction q as [|y q IHq]; intros [s1 c1 l1 k1] Hu; inversion Hu as [s2 k2 Hk2]; subst; cbn [Engine.md].
    - cbn. constructor. exact Hk2.
    - destruct (nth_error k1 y) as [g|] eqn:Ey; [|exact Hu].
      assert (Hg : AllZero g) by (rewrite Forall_forall in Hk2; apply Hk2; eapply nth_error_In; eauto).
      specialize (IHq g Hg). destruct (md g q) as [g' b]. cbn in IHq.
      destruct b; cbn; constructor; apply Forall_replace_nth; assumption.
  Qed.

  (* clearing caches never hurts HZc *)
  Lemma md_HZc : forall p t, HZc t -> HZc (fst (md t p)).
  Proof.
    induction p as [|x p IH]; intros [s c l kids] HZ; inversion HZ as [s0 c0 l0 k0 Hh Hk]; subst; cbn [Engine.md].
    - cbn. constructor; [intros _ E; cbn in E; discriminate|exact Hk].
    - destruct (nth_error kids x) as [ch|] eqn:Ex; [|exact HZ].
      assert (Hc : HZc ch) by (rewrite Forall_forall in Hk; apply Hk; eapply nth_error_In; eauto).
      specialize (IH ch Hc). pose proof (md_all_zero p ch) as HAZ.
      destruct (md ch p) as [ch' cont]. cbn in IH, HAZ.
      destruct cont; cbn.
      + constructor; [intros _ E; cbn in E; discriminate|]. apply Forall_replace_nth; assumption.
      + constructor; [|apply Forall_replace_nth; assumption].
        intros En Hne. specialize (Hh En Hne). apply Forall_replace_nth; [exact Hh|].
        apply HAZ. rewrite Forall_forall in Hh. apply Hh. eapply nth_error_In; eauto.
  Qed.

  Lemma replace_nth_twice {A} n (a b : A) l t :
    nth_error l n = Some t -> replace_nth n a (replace_nth n b l) = replace_nth n a l.
  Proof.
    revert l; induction n as [|n IH]; intros [|x l] H; try discriminate; cbn in *.
    - reflexivity.
    - unfold replace_nth in *. cbn. f_equal. apply IH. exact H.
  Qed.

  Definition edit_kids_ok (e : edit S In Out Lay) : Prop :=
    match e with ESetKids _ _ _ _ ks => Forall HZc ks | _ => True end.

  (* every mutator ("edit the node, then mark_dirty") at a node WITHOUT a display:none ancestor keeps HZc, provided the
     subtrees it attaches satisfy it themselves (e.g. new leaves, or subtrees taken from a tree satisfying it) *)
  Theorem mutate_HZc : forall p t e, HZc t -> visible_path t p -> edit_kids_ok e -> HZc (mutate t p e).
  Proof.
    unfold Engine.mutate, Engine.mark_dirty.
    induction p as [|x p IH]; intros [s c l kids] e HZ Hv He; inversion HZ as [s0 c0 l0 k0 Hh Hk]; subst.
    - cbn [Engine.update]. destruct e as [s'|ks|]; cbn.
      + constructor; [intros _ E; cbn in E; discriminate|exact Hk].
      + constructor; [intros _ E; cbn in E; discriminate|exact He].
      + constructor; [intros _ E; cbn in E; discriminate|exact Hk].
    - cbn in Hv. destruct Hv as [En Hv].
      destruct (nth_error kids x) as [ch|] eqn:Ex; [|contradiction].
      cbn [Engine.update]. rewrite Ex. cbn [Engine.md].
      rewrite (nth_error_replace_same _ _ _ _ Ex).
      assert (Hc : HZc ch) by (rewrite Forall_forall in Hk; apply Hk; eapply nth_error_In; eauto).
      specialize (IH ch e Hc Hv He).
      destruct (md (update ch p (apply_edit e)) p) as [ch' cont]. cbn in IH.
      rewrite (replace_nth_twice _ _ _ _ _ Ex).
      destruct cont; cbn; (constructor; [intros E; congruence|apply Forall_replace_nth; assumption]).
  Qed.
End Hidden.
