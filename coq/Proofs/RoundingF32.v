(* C13 -- binary32: every field the rounding pass writes is an integer whenever it is finite (no bound on magnitudes).
   Uses Flocq's real-number layer: Print Assumptions shows the standard-library axioms of DESIGN.md section 5. *)
From Coq Require Import ZArith Reals Lia Lra List.
From Flocq Require Import Core.Core IEEE754.BinarySingleNaN.
From TV Require Import Num.Num Num.F32 Model.Rounding Proofs.RoundingProofs.
Import ListNotations.
Open Scope R_scope.

Definition f_integral (x : f32) : Prop := exists z : Z, B2R x = IZR z.

Lemma fix0_int (v : R) : generic_format radix2 (FIX_exp 0) v -> exists z : Z, v = IZR z.
Proof.
  intros G. exists (Ztrunc (scaled_mantissa radix2 (FIX_exp 0) v)).
  rewrite G at 1. unfold F2R, cexp, FIX_exp. simpl. lra.
Qed.

Lemma f_round_integral (x : f32) : f_integral (f_round x).
Proof.
  unfold f_integral, f_round.
  destruct (Bnearbyint_correct 24 128 emax32 mode_NA x) as [E _]. rewrite E.
  apply fix0_int. apply generic_format_round.
  - apply FIX_exp_valid.
  - apply valid_rnd_round_mode.
Qed.

Lemma round_int_is_int (fexp : Z -> Z) {V : Valid_exp fexp} (rnd : R -> Z) {VR : Valid_rnd rnd} (n : Z) :
  exists z : Z, round radix2 fexp rnd (IZR n) = IZR z.
Proof.
  destruct (Z_le_gt_dec 0 (cexp radix2 fexp (IZR n))) as [Hc | Hc].
  - exists (rnd (scaled_mantissa radix2 fexp (IZR n)) * 2 ^ cexp radix2 fexp (IZR n))%Z.
    unfold round, F2R. simpl Fnum. simpl Fexp. rewrite mult_IZR. f_equal.
    rewrite <- (IZR_Zpower radix2) by assumption. reflexivity.
  - exists n. apply round_generic; [assumption|].
    assert (E : IZR n = F2R (Float radix2 n 0)) by (unfold F2R; simpl; lra).
    rewrite E. apply generic_format_F2R. intros _. rewrite <- E. lia.
Qed.

Lemma f_sub_finite_args (a b : f32) : is_finite (f_sub a b) = true -> is_finite a = true /\ is_finite b = true.
Proof.
  destruct a as [sa | sa | | sa ma ea Ha]; destruct b as [sb | sb | | sb mb eb Hb]; try (intros _; split; reflexivity);
    try (destruct sa, sb; intros Hf; discriminate Hf); try (destruct sa; intros Hf; discriminate Hf);
    try (destruct sb; intros Hf; discriminate Hf); intros Hf; discriminate Hf.
Qed.

Lemma f_sub_integral (a b : f32) : f_integral a -> f_integral b -> is_finite (f_sub a b) = true -> f_integral (f_sub a b).
Proof.
  intros [za Ha] [zb Hb] Hf. destruct (f_sub_finite_args a b Hf) as [Fa Fb].
  pose proof (Bminus_correct 24 128 prec32 emax32 mode_NE a b Fa Fb) as C.
  destruct (Rlt_bool _ _) eqn:RB.
  - destruct C as [E _]. unfold f_integral, f_sub, NE. rewrite E, Ha, Hb, <- minus_IZR.
    apply round_int_is_int.
    + apply fexp_correct. reflexivity.
    + apply valid_rnd_round_mode.
  - destruct C as [E _]. exfalso. unfold f_sub, NE in Hf.
    rewrite <- is_finite_SF_B2SF, E in Hf. simpl in Hf. discriminate Hf.
Qed.

Lemma round_node_integral_f32 (cx cy : f32) (u : layout f32) :
  all_in (fun x : f32 => is_finite x = true -> f_integral x) (reported_floats (round_node cx cy u)).
Proof.
  cbv [all_in reported_floats fold_right]. rn_rewrite.
  repeat split; intros Hf;
    first [ apply f_round_integral
          | apply f_sub_integral; [apply f_round_integral | apply f_round_integral | exact Hf] ].
Qed.

Theorem integral_f32_all (t : tree f32) (p : list nat) (r : layout f32) :
  node_at (round_layout t) p = Some r ->
  all_in (fun x : f32 => is_finite x = true -> f_integral x) (reported_floats r).
Proof.
  intros E. rewrite round_layout_eq, node_at_round_tree in E.
  destruct (node_at t p) as [u|]; [|discriminate]. cbn [option_map] in E. inversion E; subst.
  apply round_node_integral_f32.
Qed.
