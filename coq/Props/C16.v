(* C16 -- layout cost.  Level `other`.  [This header describes the FIRST THREE statements (waves 1-5): none of them states a count or
   a bound.  The real-cache statements further down (module RealCache and after: the C16_real theorems) do have evaluation counters and state
   per-pass accounting identities and, for chains of block containers, a computed bound -- see their own comments.]  The three statements below are the
   accounting identities a bound would be built from (engine skeleton, every algorithm): a hit evaluates nothing; an evaluated
   query is answered from the cache afterwards; in the EXACT-KEY memo a size entry stays retrievable whatever is stored later
   (some entry answers it: the conclusion is `exists o2`, not "the same o"; a final-layout entry IS displaced by any later
   PerformLayout store).  There is no evaluation counter in the exact-key model and no theorem "each (node, input) is evaluated at most
   once" (audit, wave 5c: earlier comments suggested one).  The numeric bound of the property (64 x node count; no growth with
   chain depth) is a fact about the query sequences of the real flex/grid/block algorithms interacting with the 9 lossy cache
   slots -- NOT the exact-key memo these identities are about; it is explored on the implementation, not proved, and it does not
   hold on the pinned tree (known finding chain-measure-growth). *)
From Coq Require Import List Bool Arith.
From Coq Require Import NArith.
From TV Require Import Model.Engine Proofs.EngineCount Model.EngineToy Proofs.EngineToyProofs.
From TV Require Import Num.Num Num.F32.
From TV Require Model.TaffyEngineReal Proofs.TaffyEngineReal Model.TaffyChainReal Proofs.TaffyChainReal.
From TV Require Model.EngineReal Proofs.EngineReal Model.BlockEngineReal Proofs.BlockEngineReal Model.BlockChainReal Proofs.BlockChainReal
  Model.Block Model.BlockAlg Model.BlockEngine Model.BlockAbs.
From TV Require Model.BlockChainInduct Proofs.BlockChainInduct Proofs.BlockChainInductF32 Model.TaffyKey Proofs.TaffyKey.
Import ListNotations.

(* a cache hit evaluates nothing: the subtree (caches, layouts) is returned as it is *)
Theorem C16_hit_is_free :
  forall (S In Out Lay : Type) (mode : In -> RunMode) (in_eqb : In -> In -> bool) (is_none : S -> bool)
         (hidden_out : Out) (zero_lay : Lay) (algo : S -> list S -> In -> Alg In Out Lay) f s c l kids i o,
    mode i <> PerformHiddenLayout -> cget In Out mode in_eqb c i = Some o ->
    memo S In Out Lay mode in_eqb is_none hidden_out zero_lay algo (Datatypes.S f) (Node S In Out Lay s c l kids) i
      = Some (o, Node S In Out Lay s c l kids).
Proof. intros. apply hit_is_free; assumption. Qed.

(* once a query has been evaluated, the same query is answered from the cache *)
Theorem C16_evaluated_then_hit :
  forall (S In Out Lay : Type) (mode : In -> RunMode) (in_eqb : In -> In -> bool) (is_none : S -> bool)
         (hidden_out : Out) (zero_lay : Lay) (algo : S -> list S -> In -> Alg In Out Lay),
    (forall a, in_eqb a a = true) ->
    forall f t i o t', mode i <> PerformHiddenLayout ->
      memo S In Out Lay mode in_eqb is_none hidden_out zero_lay algo f t i = Some (o, t') ->
      cget In Out mode in_eqb (cache_of S In Out Lay t') i = Some o.
Proof. intros until algo. intros Hr. intros. eapply evaluated_then_hit; eauto. Qed.

(* with an exact memo a size query stays answered (by SOME entry) whatever is stored later: size entries are never displaced.
   ComputeSize only; a final-layout entry is displaced by any later PerformLayout store *)
Theorem C16_exact_memo_no_clobber :
  forall (In Out : Type) (mode : In -> RunMode) (in_eqb : In -> In -> bool),
    (forall a, in_eqb a a = true) ->
    forall c i o j o', mode i = ComputeSize -> cget In Out mode in_eqb c i = Some o ->
      exists o2, cget In Out mode in_eqb (cstore In Out mode c j o') i = Some o2.
Proof. intros In Out mode in_eqb Hr. intros. eapply compute_size_hit_persists; eauto. Qed.

(* computed instance of the three identities on a 6-node toy tree: the first pass succeeds (output 15) and fills the root cache;
   the same query is then a hit that returns the tree unchanged; two size queries and a final-layout query with another input
   later, the first size query is still answered from the cache (57) *)
Definition c16_k : sk TS :=
  SNode TS (0%N, false)
    [SNode TS (1%N, false) [SNode TS (2%N, false) [SNode TS (3%N, false) []]; SNode TS (4%N, false) []]; SNode TS (5%N, false) []].
Example C16_accounting_example :
  (forall a, t_in_eqb a a = true) /\
  exists o t1,
    t_memo 8 (fresh TS TIn TOut TLay 0%N c16_k) (PerformLayout, 5%N) = Some (o, t1) /\ o = 15%N /\
    cget TIn TOut t_mode t_in_eqb (cache_of TS TIn TOut TLay t1) (PerformLayout, 5%N) = Some o /\
    t_memo 8 t1 (PerformLayout, 5%N) = Some (o, t1) /\
    exists o2 t2 o3 t3 o4 t4,
      t_memo 8 t1 (ComputeSize, 1%N) = Some (o2, t2) /\ t_memo 8 t2 (ComputeSize, 2%N) = Some (o3, t3) /\
      t_memo 8 t3 (PerformLayout, 6%N) = Some (o4, t4) /\
      cget TIn TOut t_mode t_in_eqb (cache_of TS TIn TOut TLay t4) (ComputeSize, 1%N) = Some o2 /\ o2 = 57%N.
Proof.
  split; [exact t_in_eqb_refl|].
  eexists. eexists. split; [vm_compute; reflexivity|]. split; [reflexivity|]. split; [vm_compute; reflexivity|].
  split; [vm_compute; reflexivity|].
  do 6 eexists. split; [vm_compute; reflexivity|]. split; [vm_compute; reflexivity|]. split; [vm_compute; reflexivity|].
  split; vm_compute; reflexivity.
Qed.

(* ================================================================================================================
   An EXECUTABLE model of the cost (wave 6c; Model/EngineReal.v, notes/REALCACHE.md): the engine over a cache interface with per-node
   counters; its instance `memo_real` (src/tree/cache.rs: one final-layout entry, nine slots, the lossy compatibility test) with the
   block algorithm and the leaf kernel PREDICTS, per node and per pass, the number of compute_cached_layout calls, of cache hits and
   of measure-function calls of `TaffyTree::compute_layout_with_measure` without the exact-key hook, and is compared with it count for
   count on every run (`vh blocktree cases .. real`, `vh blocktree chains`).  The level stays `other`: the 64 x nodes bound for flex /
   grid trees is still only explored; what is new is that the counts of block trees are the counts of a model, and the statements
   below are about that model. *)
Module RealCache.
Import TV.Model.EngineReal TV.Proofs.EngineReal TV.Model.BlockEngineReal TV.Proofs.BlockEngineReal TV.Model.BlockChainReal
  TV.Proofs.BlockChainReal TV.Model.Block TV.Model.BlockAlg TV.Model.BlockEngine TV.Model.BlockAbs.
Import TV.Model.TaffyEngineReal TV.Proofs.TaffyEngineReal TV.Model.TaffyChainReal TV.Proofs.TaffyChainReal.
Import TV.Model.BlockChainInduct.

(* accounting, any algorithm, any cache behind the interface: at every node the evaluations of the node's algorithm are exactly the
   compute_cached_layout calls the cache did not answer, lossy hits are hits, and -- when ONE evaluation calls the measure function at
   most once -- the measure calls are at most the evaluations.  (Invariant of every evaluation; it holds at the start of a pass, where
   all counters are zero: C16_real_pass_miss_count.) *)
Theorem C16_real_miss_count :
  forall (S In Out Lay : Type) (mode : In -> RunMode) (is_none : S -> bool) (hidden_out : Out) (zero_lay : Lay)
         (algo : S -> list S -> In -> Alg In Out Lay) (mcalls : S -> list S -> In -> N)
         (C : Type) (cget : C -> In -> option Out) (clossy : C -> In -> bool) (cstore : C -> In -> Out -> C) (cclear : C -> C),
    (forall s kids i, (mcalls s kids i <= 1)%N) ->
    forall f t i o t',
      Forall (fun n => n_query n = n_hit n + n_eval n /\ n_lossy n <= n_hit n /\ n_meas n <= n_eval n)%N (gcounts S Lay C t) ->
      gmemo S In Out Lay mode is_none hidden_out zero_lay algo mcalls C cget clossy cstore cclear f t i = Some (o, t') ->
      Forall (fun n => n_query n = n_hit n + n_eval n /\ n_lossy n <= n_hit n /\ n_meas n <= n_eval n)%N (gcounts S Lay C t').
Proof.
  intros until cclear. intros Hm f t i o t' HA H.
  apply (GAll_counts S Lay C acct). apply (GAll_counts S Lay C acct) in HA.
  eapply gmemo_acct; eauto.
Qed.

Theorem C16_real_pass_miss_count :
  forall (S In Out Lay : Type) (mode : In -> RunMode) (is_none : S -> bool) (hidden_out : Out) (zero_lay : Lay)
         (algo : S -> list S -> In -> Alg In Out Lay) (mcalls : S -> list S -> In -> N)
         (C : Type) (cget : C -> In -> option Out) (clossy : C -> In -> bool) (cstore : C -> In -> Out -> C) (cclear : C -> C),
    (forall s kids i, (mcalls s kids i <= 1)%N) ->
    forall f t i o t',
      gmemo S In Out Lay mode is_none hidden_out zero_lay algo mcalls C cget clossy cstore cclear f (greset S Lay C t) i = Some (o, t') ->
      Forall (fun n => n_query n = n_hit n + n_eval n /\ n_lossy n <= n_hit n /\ n_meas n <= n_eval n)%N (gcounts S Lay C t').
Proof.
  intros until cclear. intros Hm f t i o t' H.
  apply (GAll_counts S Lay C acct). eapply gmemo_acct; [exact Hm| |exact H]. apply GAll_reset.
Qed.

(* the counters are GHOST: started from trees that agree up to their counters, two evaluations that differ only in the
   instrumentation (`mcalls`, `clossy`) return the same output and the same tree up to the counters -- so `memo_real` is "the
   engine" whatever is counted, and theorems about outputs / caches / layouts do not depend on the instrumentation *)
Theorem C16_real_counters_are_ghost :
  forall (S In Out Lay : Type) (mode : In -> RunMode) (is_none : S -> bool) (hidden_out : Out) (zero_lay : Lay)
         (algo : S -> list S -> In -> Alg In Out Lay)
         (C : Type) (cget : C -> In -> option Out) (cstore : C -> In -> Out -> C) (cclear : C -> C)
         (mcalls1 mcalls2 : S -> list S -> In -> N) (clossy1 clossy2 : C -> In -> bool) f t1 t2 i,
    greset S Lay C t1 = greset S Lay C t2 ->
    option_map (fun p => (fst p, greset S Lay C (snd p)))
               (gmemo S In Out Lay mode is_none hidden_out zero_lay algo mcalls1 C cget clossy1 cstore cclear f t1 i)
    = option_map (fun p => (fst p, greset S Lay C (snd p)))
                 (gmemo S In Out Lay mode is_none hidden_out zero_lay algo mcalls2 C cget clossy2 cstore cclear f t2 i).
Proof. intros. apply gmemo_counters_irrelevant. assumption. Qed.

(* the instance the correspondence runs (block containers + leaves, real cache, any number structure): no premise -- a container
   never measures, a leaf at most once per evaluation (the log of Leaf.compute_leaf_layout, C19's kernel) -- for a whole
   compute_layout (compute_root_layout on the tree with the counters of the pass reset) *)
Theorem C16_real_block_pass_counts :
  forall (T : Type) (NT : Num T) (teq : T -> T -> bool) (abs_child : @AbsChild T) f (t : @brtree T) avail t',
    blr_compute_root teq block_pre abs_child f (greset _ _ _ t) avail = Some t' ->
    Forall (fun n => n_query n = n_hit n + n_eval n /\ n_lossy n <= n_hit n /\ n_meas n <= n_eval n)%N (gcounts _ _ _ t').
Proof. intros. eapply blr_pass_acct; eauto. Qed.

(* the bound of the property for chains of block containers: for EVERY chain of 1..64 block containers of three style families
   (all defaults / width:200px / max-width:120px) over the harness's measured text leaf, under max-content, 300 x 200 and
   min-content x max-content, the real-cache model measures the leaf at most TWICE and makes at most 2 * depth + 1
   compute_cached_layout calls -- independent of the depth.  By computation over the bit-exact F32 instance (576 chains); the same
   chains up to depth 16 (and three more families) are compared count for count with the implementation on every run.
   `_partial`: bounded depth and these families only -- no induction over the depth; flex / grid containers are not in this model
   (there the count does grow: known finding chain-measure-growth). *)
Theorem C16_real_chain_bound_partial :
  forall mix k d, (1 <= d <= 64)%nat -> (k <= 2)%nat ->
    exists m q, @chain_leaf_meas f32 _ mix d k = Some m /\ (m <= 2)%N /\
                @chain_queries f32 _ mix d k = Some q /\ (q <= 2 * N.of_nat d + 1)%N.
Proof. exact chain_bound. Qed.

(* ---- wave 9a: the same bound for EVERY depth, by INDUCTION over the depth (Model/BlockChainInduct.v, Proofs/BlockChainInduct.v,
   Proofs/BlockChainInductF32.v).  For the chain families of `chain_rate` -- all defaults under all three available-space classes,
   width:200px under all three, max-width:120px under min-content x max-content (7 of the 9 (family, space) classes of the computed
   statement above; every k >= 2 is min-content x max-content) -- and EVERY depth d >= 1, over the bit-exact binary32 instance, the same
   definitions `chain_leaf_meas` / `chain_queries` (one compute_layout of the real-cache engine `blr_memo` on the fresh chain):
   the leaf is measured EXACTLY once and there are EXACTLY rate * d + 1 compute_cached_layout calls, rate <= 2 (1 where the container's width
   is known before its child is asked: 300 x 200 / width:200px; 2 otherwise: content-width query, then the final-layout query, which hits).
   How: everything below the root is evaluated with ONE input (`lvl_in`), a container answers it with ONE output (`o_blk`) whatever is
   below it, and the later queries of a parent are accepted by `Cache.compat` against the child's final-layout entry (the lossy clause
   "known dimension = cached size").  These facts about ONE level are a finite check (`family_ok_body`, evaluated by vm_compute:
   the only binary32 facts used); `grun_replay` / `level_step` turn them into an evaluation of `blr_memo` one level up, for any child tree
   that answers so, and `chain_level` is the induction over the depth.  The induction itself is generic in `Num` (C16_real_block_chain_step).
   Not covered: max-width:120px under max-content / 300 x 200 (the check fails there; the computed statement above covers d <= 64);
   flex / grid containers (the count grows: C16_real_chain_growth_refuted). *)
Theorem C16_real_block_chain_bound_all_depths :
  forall mix k r d, chain_rate mix k = Some r -> (1 <= d)%nat ->
    @chain_leaf_meas f32 _ mix d k = Some 1%N /\ @chain_queries f32 _ mix d k = Some (N.of_nat r * N.of_nat d + 1)%N /\ (r <= 2)%nat.
Proof.
  intros mix k r d Hr Hd. destruct (BlockChainInductF32.chain_counts_all_depths mix k r d Hr Hd) as [A B].
  split; [exact A|]. split; [exact B|]. apply (BlockChainInductF32.chain_rate_le2 mix k r Hr).
Qed.

(* ... in the form of C16_real_chain_bound_partial with the bound on the depth removed *)
Theorem C16_real_block_chain_bound_all_depths_le :
  forall mix k r d, chain_rate mix k = Some r -> (1 <= d)%nat ->
    exists m q, @chain_leaf_meas f32 _ mix d k = Some m /\ (m <= 2)%N /\
                @chain_queries f32 _ mix d k = Some q /\ (q <= 2 * N.of_nat d + 1)%N.
Proof. exact BlockChainInductF32.chain_bound_all_depths. Qed.

(* the induction, for any number structure: whenever the one-level check holds (for an exact equality `xeq` of numbers; any ghost
   equality `teq`), one compute_layout on the fresh chain of ANY depth d >= 1 succeeds with fuel d + 4, measures the leaf once and makes
   nqr + d + (nq - 1) * (d - 1) compute_cached_layout calls *)
Theorem C16_real_block_chain_step :
  forall (T : Type) (NT : Num T) (xeq : T -> T -> bool), (forall a b, xeq a b = true -> a = b) ->
  forall (teq : T -> T -> bool) mix k nq nqr, family_ok xeq mix k nq nqr = true ->
  forall d, (1 <= d)%nat ->
    exists lays ns, blr_layout_passes teq block_pre abs_child_block (d + 4) (chain mix d) [chain_avail k] = Some [(lays, ns)] /\
      n_meas (last ns stats0) = 1%N /\
      fold_right N.add 0%N (map n_query ns) = (N.of_nat nqr + N.of_nat d + N.of_nat (nq - 1) * N.of_nat (d - 1))%N.
Proof. intros T NT xeq Hseq teq mix k nq nqr Hok d Hd. apply (BlockChainInduct.chain_all_depths xeq Hseq teq mix k nq nqr Hok d Hd). Qed.

(* non-vacuity: the table covers all-defaults chains under every available space (rates 2, 1, 2), the premise of the generic step holds
   over binary32 (representation equality), and at depth 100 -- beyond the computed statement -- the plain chain under max-content
   makes 201 calls and measures the leaf once *)
Example C16_real_block_chain_all_depths_example :
  map (chain_rate CPlain) [0; 1; 2; 7]%nat = [Some 2; Some 1; Some 2; Some 2]%nat /\
  map (chain_rate CFixed) [0; 1; 2]%nat = [Some 1; Some 1; Some 1]%nat /\ chain_rate CCapped 2 = Some 2%nat /\
  (forall a b, TaffyKey.f32_seqb a b = true -> a = b) /\ family_ok TaffyKey.f32_seqb CPlain 0 2 2 = true /\
  @chain_leaf_meas f32 _ CPlain 100 0 = Some 1%N /\ @chain_queries f32 _ CPlain 100 0 = Some 201%N.
Proof.
  split; [reflexivity|]. split; [reflexivity|]. split; [reflexivity|]. split; [exact Proofs.TaffyKey.f32_seqb_eq|].
  split; [apply (BlockChainInductF32.family_ok_f32 CPlain 0 2); reflexivity|].
  destruct (BlockChainInductF32.chain_counts_all_depths CPlain 0 2 100) as [A B]; [reflexivity|repeat constructor|].
  split; [exact A|exact B].
Qed.

(* computed instance: the counters of one pass over the depth-3 plain chain under max-content, root first, leaf last:
   (queries, hits, lossy hits, evaluations, measure calls).  Every node below the root is asked twice (content-width pass, then
   final layout); the second call is answered by the final-layout entry through the clause "known dimension = cached size" -- a
   LOSSY hit, and the reason why the leaf is measured once whatever the depth *)
Example C16_real_chain_example :
  option_map (map (fun n => (n_query n, n_hit n, n_lossy n, n_eval n, n_meas n))) (@chain_counts f32 _ CPlain 3 0)
  = Some [(1, 0, 0, 1, 0); (2, 1, 1, 1, 0); (2, 1, 1, 1, 0); (2, 1, 1, 1, 1)]%N.
Proof. vm_compute. reflexivity. Qed.

(* ---- wave 7a: the COMPLETE engine (block + flex + grid + leaves: Model/TaffyRoot.v `real_algo`) under the real cache
   (Model/TaffyEngineReal.v `trl_memo`), the instance `vh taffytree cases .. real` / `vh taffytree chains` compare with the
   implementation layout for layout and count for count.  In flex / grid containers the nine measure slots get traffic. *)

(* accounting for a whole compute_layout of the complete engine, no premise: a node with children never measures, a childless node at
   most once per evaluation (the log of Leaf.compute_leaf_layout); any number structure, any ghost equality `teq` *)
Theorem C16_real_taffy_pass_counts :
  forall (T : Type) (NT : Num T) (teq : T -> T -> bool) f (t : @trtree T) avail t',
    trl_compute_root teq f (greset _ _ _ t) avail = Some t' ->
    Forall (fun n => n_query n = n_hit n + n_eval n /\ n_lossy n <= n_hit n /\ n_meas n <= n_eval n)%N (gcounts _ _ _ t').
Proof. intros. eapply trl_pass_acct; eauto. Qed.

(* THE KNOWN FINDING chain-measure-growth AS A THEOREM ABOUT THE MODEL.  The property says the number of measure calls for a leaf
   under a single-child chain does not grow with the depth of the chain and stays below 64 x node count.  The chain family number
   652 of corpus/C16-typical-baseline.json (grid{width:200px, align-items:center} directly above the leaf, then a default flex
   container, then block{margin:3px, min-width:10px}, repeating; default leaf with the harness's 17-glyph text; max-content) refutes
   both clauses IN THE MODEL THE CORRESPONDENCE RUNS, over binary32: (nodes, leaf measure calls) at depths 1, 4, 7, 10, 13 are
   (2, 6), (5, 23), (8, 96), (11, 387), (14, 1530) -- a factor 4 every three levels -- and 1530 > 64 x 14.  `./check C16` replays
   exactly these chains on the implementation (`vh taffytree chains`): same inputs (the integer encoding is compared), same counts. *)
Theorem C16_real_chain_growth_refuted :
  map (fun d => tchain_nodes_meas (growth_case d)) [1; 4; 7; 10; 13]%nat
  = [Some (2, 6); Some (5, 23); Some (8, 96); Some (11, 387); Some (14, 1530)]%N
  /\ exists d n m, tchain_nodes_meas (growth_case d) = Some (n, m) /\ (64 * n < m)%N.
Proof. split; [exact growth_table|exact growth_exceeds]. Qed.

(* the positive counterpart: chains of DEFAULT flex containers (resp. default grid, default block containers) of depth 1..16 over the
   same leaf: the model measures the leaf at most 6 (6, 1) times and makes at most 20 (26, 3) compute_cached_layout calls per level,
   whatever the depth; the flex counts are 3, 5, 6, 6, 6, 6 (compare tests/caching.rs, which pins such a count for one tree).
   By computation over F32; the same chains are compared count for count with the implementation on every run.
   `_partial`: bounded depth, default styles only, no induction over the depth. *)
Theorem C16_real_flex_chain_bound_partial :
  (forall k d, (1 <= d <= 16)%nat ->
     exists m q, tchain_leaf_meas (kind_case k d) = Some m /\ (m <= kind_meas_bound k)%N /\
                 tchain_queries (kind_case k d) = Some q /\ (q <= kind_query_rate k * N.of_nat d)%N)
  /\ map (fun d => tchain_leaf_meas (flex_case d)) (seq 1 6) = [Some 3; Some 5; Some 6; Some 6; Some 6; Some 6]%N.
Proof. split; [exact kchain_bound|exact flex_chain_counts]. Qed.
Print Assumptions C16_real_miss_count.
Print Assumptions C16_real_pass_miss_count.
Print Assumptions C16_real_counters_are_ghost.
Print Assumptions C16_real_block_pass_counts.
Print Assumptions C16_real_chain_bound_partial.
Print Assumptions C16_real_block_chain_bound_all_depths.
Print Assumptions C16_real_block_chain_bound_all_depths_le.
Print Assumptions C16_real_block_chain_step.
Print Assumptions C16_real_block_chain_all_depths_example.
Print Assumptions C16_real_taffy_pass_counts.
Print Assumptions C16_real_chain_growth_refuted.
Print Assumptions C16_real_flex_chain_bound_partial.
End RealCache.

Print Assumptions C16_hit_is_free.
Print Assumptions C16_evaluated_then_hit.
Print Assumptions C16_exact_memo_no_clobber.
