(* C12 -- content-box and border-box sizing are interchangeable.  Definitions only, generic over `Num`.

   The idiom every one of the 16 functions listed in Gen/BoxSizingSites.v uses for a node's size / min_size / max_size
   (and, projected on the main axis, flex_basis):

       let box_sizing_adjustment = if style.box_sizing() == BoxSizing::ContentBox { padding_border_sum } else { Size::ZERO };
       style.size().maybe_resolve(ctx, ..)[.maybe_apply_aspect_ratio(ar)].maybe_add(box_sizing_adjustment)

   `bs_resolve` is that expression (tables maybe_resolve_dim / maybe_add_of: Gen/MathGen.v, regenerated from the source).
   `to_border_box` is the rewrite the property speaks of: box_sizing := BorderBox, every LENGTH among size / min_size /
   max_size increased by padding+border of its axis; auto and percentages are left alone, which is why the class of
   eligible nodes excludes percentages (a percentage plus a length is not a style value). *)
From Coq Require Import List Bool.
From TV Require Import Model.Common Model.Leaf Model.Root.
Import ListNotations.

Section BoxSizing.
  Context {T : Type} `{Num T}.

  (* ---- the idiom *)
  Definition bs_adjustment (bs : BoxSizing) (pb : T) : T := match bs with ContentBox => pb | BorderBox => zero end.
  Definition bs_adjustment_size (bs : BoxSizing) (pb : Size T) : Size T :=
    match bs with ContentBox => pb | BorderBox => size_ZERO end.
  Definition bs_resolve (bs : BoxSizing) (pb : T) (raw : Dimension T) (ctx : option T) : option T :=
    maybe_add_of (maybe_resolve_dim raw ctx) (bs_adjustment bs pb).
  Definition bs_resolve_size (bs : BoxSizing) (pb : Size T) (raw : Size (Dimension T)) (ctx : Size (option T)) : Size (option T) :=
    size_maybe_add_of (size_maybe_resolve_dim raw ctx) (bs_adjustment_size bs pb).
  (* with the aspect-ratio transfer most sites put in between *)
  Definition bs_resolve_size_ar (bs : BoxSizing) (pb : Size T) (raw : Size (Dimension T)) (ctx : Size (option T)) (ar : option T)
    : Size (option T) :=
    size_maybe_add_of (maybe_apply_aspect_ratio (size_maybe_resolve_dim raw ctx) ar) (bs_adjustment_size bs pb).

  (* ---- the rewrite *)
  Definition grow_dim (pb : T) (d : Dimension T) : Dimension T :=
    match d with Length l => Length (add l pb) | other => other end.
  Definition grow_size (pb : Size T) (s : Size (Dimension T)) : Size (Dimension T) :=
    mkSize (grow_dim (width pb) (width s)) (grow_dim (height pb) (height s)).
  (* padding + border per axis as the sites compute it, `(padding + border).sum_axes()`; for length-valued padding and
     border the percentage basis is irrelevant *)
  Definition style_pb (st : Style T) : Size T :=
    sum_axes (rect_add (rect_resolve_or_zero_lp (padding st) None) (rect_resolve_or_zero_lp (border st) None)).
  Definition to_border_box (st : Style T) : Style T :=
    mkStyle (display st) (position st) BorderBox (overflow st) (scrollbar_width st)
            (grow_size (style_pb st) (size st)) (grow_size (style_pb st) (min_size st)) (grow_size (style_pb st) (max_size st))
            (aspect_ratio st) (margin st) (padding st) (border st).

  (* ---- the class of nodes the property quantifies over *)
  Definition lp_is_length (v : LengthPercentage T) : bool := match v with LpLength _ => true | LpPercent _ => false end.
  Definition dim_not_percent (d : Dimension T) : bool := match d with Percent _ => false | _ => true end.
  Definition rect_forallb {A} (p : A -> bool) (r : Rect A) : bool :=
    p (r_left r) && p (r_right r) && p (r_top r) && p (r_bottom r).
  Definition size_forallb {A} (p : A -> bool) (s : Size A) : bool := p (width s) && p (height s).
  Definition is_content_box (bs : BoxSizing) : bool := match bs with ContentBox => true | BorderBox => false end.
  Definition is_none {A} (o : option A) : bool := match o with None => true | Some _ => false end.
  Definition eligibleb (st : Style T) : bool :=
    is_content_box (box_sizing st)
    && rect_forallb lp_is_length (padding st) && rect_forallb lp_is_length (border st)
    && is_none (aspect_ratio st)
    && size_forallb dim_not_percent (size st) && size_forallb dim_not_percent (min_size st)
    && size_forallb dim_not_percent (max_size st).
  Definition eligible (st : Style T) : Prop := eligibleb st = true.

  (* ---- flex_basis (flexbox.rs determine_flex_base_size l.689-702): a scalar, adjusted by the MAIN-axis component.
     (Model/Leaf.v's Style has no flex_basis: a leaf never reads it.) *)
  Definition size_main (is_row : bool) (s : Size T) : T := if is_row then width s else height s.
  Definition flex_basis_resolve (bs : BoxSizing) (pb : Size T) (is_row : bool) (flex_basis : Dimension T) (container_main : option T)
    : option T :=
    maybe_add_of (maybe_resolve_dim flex_basis container_main) (size_main is_row (bs_adjustment_size bs pb)).
  Definition flex_basis_to_border_box (pb : Size T) (is_row : bool) (flex_basis : Dimension T) : Dimension T :=
    grow_dim (size_main is_row pb) flex_basis.

  (* ---- grid_item.rs GridItem::minimum_contribution, the `if self.is_compressible_replaced` branch (l.517-522), one axis:
         let size = self.size.get(axis).maybe_resolve(Some(0.0), ..);
         let max_size = self.max_size.get(axis).maybe_resolve(Some(0.0), ..);
         minimum_contribution = minimum_contribution.maybe_min(size).maybe_min(max_size);
     No box_sizing_adjustment here (Gen/BoxSizingSites.v lists the two uses as Unadjusted). *)
  Definition compressible_cap (size max_size : Dimension T) (minimum_contribution : T) : T :=
    let size := maybe_resolve_dim size (Some zero) in
    let max_size := maybe_resolve_dim max_size (Some zero) in
    maybe_min_fo (maybe_min_fo minimum_contribution size) max_size.
  (* what the branch would be with the idiom *)
  Definition compressible_cap_adjusted (bs : BoxSizing) (pb : T) (size max_size : Dimension T) (minimum_contribution : T) : T :=
    maybe_min_fo (maybe_min_fo minimum_contribution (bs_resolve bs pb size (Some zero))) (bs_resolve bs pb max_size (Some zero)).

  (* GridItem::minimum_contribution (l.459-538) along one axis, with what depends on the tracks and on the child's content
     as parameters: `automatic_min` = self.overflow.get(axis).maybe_into_automatic_min_size(), `use_content_based` =
     use_content_based_minimum, `min_content` = min_content_contribution_cached(..), `limit` = spanned_fixed_track_limit(..).
     (No aspect ratio: `maybe_apply_aspect_ratio(None)` is the identity.) *)
  Definition minimum_contribution_axis (bs : BoxSizing) (pb : T) (size min_size max_size : Dimension T) (ctx : option T)
      (automatic_min : option T) (use_content_based compressible : bool) (min_content : T) (limit : option T) : T :=
    let s := opt_or (opt_or (bs_resolve bs pb size ctx) (bs_resolve bs pb min_size ctx)) automatic_min in
    let v := match s with
             | Some v => v
             | None => if use_content_based
                       then (if compressible then compressible_cap size max_size min_content else min_content)
                       else zero
             end in
    maybe_min_fo v limit.
End BoxSizing.
