(* Proofs/BlockChainInduct.v instantiated over the bit-exact binary32 instance: the finite per-level check `family_ok` EVALUATED (vm_compute)
   for the families of Model/BlockChainInduct.v `chain_rate`, hence -- by the induction over the depth `chain_all_depths` -- for EVERY
   depth d >= 1: the leaf is measured exactly once and there are exactly rate * d + 1 compute_cached_layout calls. *)
From Coq Require Import ZArith NArith Bool List Arith Lia.
From TV Require Import Num.Num Num.F32 Model.TaffyKey Proofs.TaffyKey.
From TV Require Import Model.Block Model.BlockAlg Model.BlockEngine Model.BlockAbs Model.EngineReal Model.BlockEngineReal Model.BlockChainReal
  Model.BlockChainInduct Proofs.BlockChainInduct.
Import ListNotations.

Lemma family_ok_f32 mix k r : chain_rate mix k = Some r -> family_ok f32_seqb mix k r r = true.
Proof.
  destruct mix; destruct k as [|[|k]]; cbn [chain_rate]; intros E; try discriminate; injection E as <-; vm_compute; reflexivity.
Qed.

Lemma chain_rate_le2 mix k r : chain_rate mix k = Some r -> (1 <= r <= 2)%nat.
Proof. destruct mix; destruct k as [|[|k]]; cbn [chain_rate]; intros E; try discriminate; injection E as <-; lia. Qed.

Theorem chain_counts_all_depths mix k r d : chain_rate mix k = Some r -> (1 <= d)%nat ->
  @chain_leaf_meas f32 _ mix d k = Some 1%N /\ @chain_queries f32 _ mix d k = Some (N.of_nat r * N.of_nat d + 1)%N.
Proof.
  intros Hr Hd.
  destruct (chain_all_depths f32_seqb f32_seqb_eq eqb mix k r r (family_ok_f32 mix k r Hr) d Hd) as (lays & ns & E & Hm & Hq).
  unfold chain_leaf_meas, chain_queries, chain_counts. rewrite E. cbn [option_map]. rewrite Hm, Hq. split; [reflexivity|].
  f_equal. pose proof (chain_rate_le2 mix k r Hr). nia.
Qed.

(* in the form of C16_real_chain_bound_partial, without the bound on the depth *)
Corollary chain_bound_all_depths mix k r d : chain_rate mix k = Some r -> (1 <= d)%nat ->
  exists m q, @chain_leaf_meas f32 _ mix d k = Some m /\ (m <= 2)%N /\
              @chain_queries f32 _ mix d k = Some q /\ (q <= 2 * N.of_nat d + 1)%N.
Proof.
  intros Hr Hd. destruct (chain_counts_all_depths mix k r d Hr Hd) as [A B]. pose proof (chain_rate_le2 mix k r Hr).
  eexists. eexists. split; [exact A|]. split; [lia|]. split; [exact B|]. nia.
Qed.
