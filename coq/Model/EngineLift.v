(* Composing algorithms that were modelled over DIFFERENT presentations of the tree interface into one engine (definitions; the
   lemmas are in Proofs/EngineLift.v).

   `lift fi po eo el a` transports a resumption a : Alg In1 Out1 Lay1 to Alg In2 Out2 Lay2: queries carry `fi i`, answers are read through
   `po`, stored layouts are `el l`, the result is `eo o`.  (Model/BlockAlg.v speaks BIn / ChildOut / BLayout -- LayoutInput without `axis`,
   LayoutOutput without `first_baselines` --, Model/FlexAlg.v the complete records.)
   `style_comap g algo` reads the styles of a richer style type through a projection g. *)
From Coq Require Import List.
From TV Require Import Model.Engine.

Section Lift.
  Variables (In1 Out1 Lay1 In2 Out2 Lay2 : Type).
  Variable fi : In1 -> In2.
  Variable po : Out2 -> Out1.
  Variable eo : Out1 -> Out2.
  Variable el : Lay1 -> Lay2.

  Fixpoint lift (a : Alg In1 Out1 Lay1) : Alg In2 Out2 Lay2 :=
    match a with
    | Ret _ _ _ o => Ret In2 Out2 Lay2 (eo o)
    | Query _ _ _ c i k => Query In2 Out2 Lay2 c (fi i) (fun o => lift (k (po o)))
    | SetLayout _ _ _ c l k => SetLayout In2 Out2 Lay2 c (el l) (lift k)
    end.

  Variable S : Type.
  Variable bi : In2 -> In1.
  Definition lift_algo (algo : S -> list S -> In1 -> Alg In1 Out1 Lay1) : S -> list S -> In2 -> Alg In2 Out2 Lay2 :=
    fun s st i => lift (algo s st (bi i)).
End Lift.

Section StyleComap.
  Variables (S1 S2 In Out Lay : Type).
  Variable g : S2 -> S1.
  Definition style_comap (algo : S1 -> list S1 -> In -> Alg In Out Lay) : S2 -> list S2 -> In -> Alg In Out Lay :=
    fun s st i => algo (g s) (map g st) i.
End StyleComap.
