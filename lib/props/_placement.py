"""Shared by C08 and C03 (placement part): robust runs of `vh c08 cases|oracle|one` (a hang / abort of the implementation
must not kill the check) and the K comparison against Model/PlacementRun.v."""
import os
import select
import subprocess
import time

from ..common import *
from ..stages import *

IMPORTS = 'From TV Require Import Model.PlacementRun.'
MEM_KB = 4000000


def run_stream(cmd, idle_timeout=3.0, total_timeout=120.0):
    """Run a shell command, collecting stdout lines.  Stops (kills) when no output arrives for idle_timeout seconds or
    after total_timeout.  Returns (lines, status) with status in 'ok', 'idle', 'timeout', 'rc=<n>'."""
    e = dict(os.environ)
    p = subprocess.Popen(['sh', '-c', 'ulimit -v %d; exec %s' % (MEM_KB, cmd)], stdout=subprocess.PIPE, stderr=subprocess.DEVNULL, env=e)
    fd = p.stdout.fileno()
    buf = b''
    t0 = time.time()
    last = t0
    status = None
    while True:
        now = time.time()
        if now - t0 > total_timeout:
            status = 'timeout'
            break
        r, _, _ = select.select([fd], [], [], 0.25)
        if r:
            chunk = os.read(fd, 1 << 16)
            if not chunk:
                break
            buf += chunk
            last = time.time()
        elif p.poll() is not None:
            # drain
            while True:
                chunk = os.read(fd, 1 << 16)
                if not chunk:
                    break
                buf += chunk
            break
        elif time.time() - last > idle_timeout:
            status = 'idle'
            break
    if status:
        p.kill()
    p.wait()
    if status is None:
        status = 'ok' if p.returncode == 0 else 'rc=%d' % p.returncode
    return buf.decode(errors='replace').split('\n'), status


def gen_cases(binp, seed, n, max_deaths=4):
    """`vh c08 cases`: returns (cases, impl, deaths) where a case whose run killed / hung the process is recorded with the
    implementation result [0] (same marker as a caught panic) and listed in deaths."""
    cases, impl, deaths = [], [], []
    start = 0
    while start < n:
        lines, status = run_stream('%s c08 cases %d %d %d' % (binp, seed, n - start, start), idle_timeout=3.0)
        k = 0
        pending = None
        for line in lines:
            if line.startswith('C '):
                pending = [int(x) for x in line.split()[1:]]
            elif line.startswith('R ') and pending is not None:
                cases.append(pending)
                impl.append([int(x) for x in line.split()[1:]])
                pending = None
                k += 1
        if pending is not None:
            cases.append(pending)
            impl.append([0])
            deaths.append({'case': pending, 'status': status})
            start += k + 1
            if len(deaths) >= max_deaths:
                break
        else:
            if status != 'ok':
                raise RuntimeError('vh c08 cases: %s after %d cases' % (status, start + k))
            start += k
            if k == 0:
                break
    return cases, impl, deaths


def run_oracle(binp, seed, n, max_fail=6):
    """`vh c08 oracle`: returns (evaluated, failures) with failures = [{'idx', 'case', 'msg'}] (a death after START i is a failure of i)."""
    fails = []
    start = 0
    done = 0
    while start < n and len(fails) < max_fail:
        lines, status = run_stream('%s c08 oracle %d %d %d' % (binp, seed, n - start, start), idle_timeout=3.0, total_timeout=300)
        cur = None
        last_idx = start - 1
        for line in lines:
            if line.startswith('START '):
                f = line.split()
                cur = (int(f[1]), [int(x) for x in f[2:]])
            elif line.startswith('OK '):
                last_idx = int(line.split()[1])
                cur = None
                done += 1
            elif line.startswith('FAIL '):
                head, _, msg = line.partition(' :: ')
                f = head.split()
                fails.append({'idx': int(f[1]), 'case': [int(x) for x in f[2:]], 'msg': msg})
                last_idx = int(f[1])
                cur = None
                done += 1
        if cur is not None:
            fails.append({'idx': cur[0], 'case': cur[1], 'msg': 'layout did not return (%s): hang, abort or allocation blow-up' % status})
            start = cur[0] + 1
            done += 1
        elif status != 'ok':
            raise RuntimeError('vh c08 oracle: %s' % status)
        else:
            start = last_idx + 1
            if start < n and last_idx < 0:
                break
    return done, fails


def run_one(binp, ints):
    """`vh c08 one`: (impl result or [0] when the process died, failure message or None)"""
    lines, status = run_stream('%s c08 one %s' % (binp, ' '.join(str(x) for x in ints)), idle_timeout=3.0, total_timeout=20)
    res = None
    msg = None
    for line in lines:
        if line.startswith('R '):
            res = [int(x) for x in line.split()[1:]]
        elif line.startswith('FAIL '):
            msg = line.split(' ', 2)[2]
    if res is None:
        return [0], 'layout did not return (%s): hang, abort or allocation blow-up' % status
    return res, msg


def decode(ints):
    """case ints -> dict (ec, er, flow, children=[(kind, [(t,v)]*4)])"""
    n = ints[3]
    ch = []
    for i in range(n):
        b = 4 + 9 * i
        ch.append((ints[b], [(ints[b + 1 + 2 * k], ints[b + 2 + 2 * k]) for k in range(4)]))
    return {'ec': ints[0], 'er': ints[1], 'flow': ints[2], 'children': ch}


FLOWS = ['row', 'column', 'row dense', 'column dense']


def describe(ints):
    d = decode(ints)

    def gp(p):
        return 'auto' if p[0] == 0 else ('%d' % p[1] if p[0] == 1 else 'span %d' % p[1])
    kids = []
    for kind, p in d['children']:
        kids.append('%s{row %s / %s; col %s / %s}' % (['', 'display:none ', 'absolute '][kind], gp(p[0]), gp(p[1]), gp(p[2]), gp(p[3])))
    return 'grid %d cols x %d rows, auto-flow %s, children: %s' % (d['ec'], d['er'], FLOWS[d['flow']], ', '.join(kids))


def model_eval(tag, cases):
    with Lock('coq'):
        rcm, outm, _ = coq_make(['Model/PlacementRun.vo'])
    if rcm != 0:
        raise RuntimeError(outm[-1500:])
    return run_model(tag, IMPORTS, 'run_case', cases, scope='Z', elem='list Z')


def correspondence(rep, pid, tier, seed, changed, replay=None):
    """K: release run + debug run (overflow checks on: a model Err must be a panic there).
    Returns (release binary or None, list of (case, impl, model) disagreements, deaths)."""
    rc, out, binp, dt = build_harness('release')
    if rc != 0:
        rep.add_broken('build', 'harness (release)', out[-1500:])
        return None, [], []
    escalate = bool(changed) or tier == 'thorough'
    n = 20000 if escalate else 5000
    nd = 5000 if escalate else 1000
    bad_all = []
    deaths_all = []
    try:
        if replay and 'case' in replay:
            r, _ = run_one(binp, replay['case'])
            cases, impl, deaths = [replay['case']], [r], []
        else:
            cases, impl, deaths = gen_cases(binp, seed, n)
        model = model_eval(pid, cases)
        bad = diff_results(rep, 'grid placement via detailed_layout_info (release build) vs Model.Placement.grid_placement_run', cases, impl, model)
        bad_all += bad
        deaths_all += deaths
        rep.cov['release_cases'] = len(cases)
        rep.cov['release_panics_or_deaths'] = sum(1 for a in impl if a == [0])
        all_cases, all_impl = list(cases), list(impl)
        if not replay:
            rcd, outd, binpd, dtd = build_harness('debug')
            if rcd != 0:
                rep.add_broken('build', 'harness (debug)', outd[-1500:])
            else:
                cases_d, impl_d, deaths_d = gen_cases(binpd, seed + 1, nd)
                model_d = model_eval(pid + 'd', cases_d)
                bad_d = diff_results(rep, 'grid placement (debug build, overflow checks on: model Err <-> panic) vs Model.Placement.grid_placement_run',
                                     cases_d, impl_d, model_d)
                bad_all += bad_d
                deaths_all += deaths_d
                rep.cov['debug_cases'] = len(cases_d)
                rep.cov['debug_panics'] = sum(1 for a in impl_d if a == [0])
                all_cases += cases_d
                all_impl += impl_d
        coverage(rep, all_cases, all_impl)
    except RuntimeError as ex:
        rep.add_broken('correspondence', 'placement K', str(ex)[-1500:])
    return binp, bad_all, deaths_all


def coverage(rep, cases, impl):
    distinct = set(tuple(c) for c in cases)
    nontrivial = 0
    dist = {'flow': {}, 'children': {}, 'explicit': {}, 'phase': {'definite-both': 0, 'definite-one-axis': 0, 'indefinite-both': 0},
            'skipped_children(display:none/absolute)': 0, 'negative_line': 0, 'zero_line': 0, 'span': 0}
    for c in distinct:
        d = decode(list(c))
        dist['flow'][FLOWS[d['flow']]] = dist['flow'].get(FLOWS[d['flow']], 0) + 1
        k = str(len(d['children']))
        dist['children'][k] = dist['children'].get(k, 0) + 1
        e = '%dx%d' % (d['ec'], d['er'])
        dist['explicit'][e] = dist['explicit'].get(e, 0) + 1
        nt = False
        for kind, p in d['children']:
            if kind != 0:
                dist['skipped_children(display:none/absolute)'] += 1
                continue
            defs = [any(q[0] == 1 and q[1] != 0 for q in p[2 * ax:2 * ax + 2]) for ax in range(2)]
            key = 'definite-both' if all(defs) else ('definite-one-axis' if any(defs) else 'indefinite-both')
            dist['phase'][key] += 1
            for q in p:
                if q[0] == 1 and q[1] < 0:
                    dist['negative_line'] += 1
                if q[0] == 1 and q[1] == 0:
                    dist['zero_line'] += 1
                if q[0] == 2:
                    dist['span'] += 1
            if any(q[0] != 0 for q in p):
                nt = True
        if nt or len([1 for kind, _ in d['children'] if kind == 0]) >= 2:
            nontrivial += 1
    rep.cov['distinct_nontrivial'] = nontrivial
    rep.cov['rule'] = ('a case = (explicit column count, explicit row count, auto-flow, children with kind in-flow/display:none/absolute and '
                       '4 placements auto | line l | span s); first the regression corpus of the repaired defects, then one PRNG stream: 1/17 large (explicit up to 24, lines -30..30, spans up to 16, up to 6 children), of the rest 2/3 random (1-7 children, explicit 0-4, lines '
                       '-5..5 incl 0, spans 1-3, per-case definiteness profile), 1/3 drawn from the exhaustive family (1-2 children x 13^4 '
                       'placement combinations x explicit {0,1,3}^2 x 4 flows); counted: distinct cases that have a non-auto placement on an '
                       'in-flow child or at least two in-flow children (so that placement has something to decide)')
    rep.cov['input_distribution'] = dist
    z = list(zip(cases, impl))
    rep.cov['samples'] = [{'case': c, 'described': describe(c), 'impl': a} for c, a in z[:2] + z[len(z) // 2:len(z) // 2 + 2] + z[-2:]]
