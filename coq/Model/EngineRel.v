(* Relational reading of the engine skeleton (Model/Engine.v): when are two ALGORITHMS, two SKELETONS, two TREES related by
   a family of relations RS (styles) / RI (inputs) / RO (outputs) / RL (stored layouts).  Definitions only; the theorem
   ("related algorithms on related trees give related outputs, caches and stored layouts at every node") is in
   Proofs/EngineRelProofs.v.  Two properties instantiate it:
     C04  RS / RI / RO / RL = "scaled by k"                      AlgoRel = the algorithm is HOMOGENEOUS
     C12  RS = "the same style, or its content-box -> border-box rewrite"; RI / RO / RL = "equal as numbers"
                                                                  AlgoRel = the algorithm is BOX-SIZING BLIND
   The relations are parameters: nothing here depends on the number type. *)
From Coq Require Import List Bool.
From TV Require Import Model.Engine.
Import ListNotations.

(* both fail, or both succeed with related values *)
Definition oprel {A B} (R : A -> B -> Prop) (x : option A) (y : option B) : Prop :=
  match x, y with Some a, Some b => R a b | None, None => True | _, _ => False end.

Section EngineRel.
  Variables (S In Out Lay : Type).
  Variable RS : S -> S -> Prop.
  Variable RI : In -> In -> Prop.
  Variable RO : Out -> Out -> Prop.
  Variable RL : Lay -> Lay -> Prop.

  Notation Alg := (Alg In Out Lay).
  Notation tree := (tree S In Out Lay).
  Notation cache := (cache In Out).

  (* two resumptions in lockstep: the same shape, the same child addressed, related queries and stored layouts, related
     results -- and, GIVEN related answers, related continuations *)
  Inductive AlgRel : Alg -> Alg -> Prop :=
  | AR_ret o o' : RO o o' -> AlgRel (Ret In Out Lay o) (Ret In Out Lay o')
  | AR_query c i i' k k' :
      RI i i' -> (forall o o', RO o o' -> AlgRel (k o) (k' o')) -> AlgRel (Query In Out Lay c i k) (Query In Out Lay c i' k')
  | AR_set c l l' k k' : RL l l' -> AlgRel k k' -> AlgRel (SetLayout In Out Lay c l k) (SetLayout In Out Lay c l' k').

  (* related own style, related child styles, related input give related resumptions *)
  Definition AlgoRel (algo algo' : S -> list S -> In -> Alg) : Prop :=
    forall s s' st st' i i', RS s s' -> Forall2 RS st st' -> RI i i' -> AlgRel (algo s st i) (algo' s' st' i').

  (* skeletons: the same shape, related styles at every node *)
  Inductive skrel : sk S -> sk S -> Prop :=
  | skrel_node s s' kids kids' : RS s s' -> Forall2 skrel kids kids' -> skrel (SNode S s kids) (SNode S s' kids').

  (* caches: the same entries in the same order, related keys and related values *)
  Definition erel (x y : In * Out) : Prop := RI (fst x) (fst y) /\ RO (snd x) (snd y).
  Definition crel (c c' : cache) : Prop :=
    oprel erel (final In Out c) (final In Out c') /\ Forall2 erel (meas In Out c) (meas In Out c').

  (* trees: the same shape; related styles, caches and stored layouts at every node *)
  Inductive trel : tree -> tree -> Prop :=
  | trel_node s s' c c' l l' kids kids' :
      RS s s' -> crel c c' -> RL l l' -> Forall2 trel kids kids' -> trel (Node S In Out Lay s c l kids) (Node S In Out Lay s' c' l' kids').

  (* results of an evaluation *)
  Definition res_rel (x y : Out * tree) : Prop := RO (fst x) (fst y) /\ trel (snd x) (snd y).
  Definition resL_rel (x y : Out * list tree) : Prop := RO (fst x) (fst y) /\ Forall2 trel (snd x) (snd y).

  (* what is related at a node *)
  Definition node_rel (u u' : tree) : Prop :=
    RS (style_of S In Out Lay u) (style_of S In Out Lay u') /\ RL (lay_of S In Out Lay u) (lay_of S In Out Lay u') /\
    crel (cache_of S In Out Lay u) (cache_of S In Out Lay u').
End EngineRel.

(* C12: a style and its rewrite.  `ok` = the node is well behaved (its measure function does not distinguish equal numbers),
   `elig` = the class of nodes the property quantifies over, `tb` = the rewrite content-box -> border-box.  Two skeletons
   related by `skrel (bsrel ok tb elig)` differ by rewriting SOME SUBSET of the eligible nodes. *)
Definition bsrel {S : Type} (ok : S -> Prop) (tb : S -> S) (elig : S -> Prop) (s s' : S) : Prop :=
  ok s /\ (s' = s \/ (elig s /\ s' = tb s)).

(* an algorithm reads box_sizing / size / min_size / max_size (/ flex_basis) of a node -- its own and its children's -- only
   through the adjusted view: run on a node and child styles of which any eligible ones are rewritten, and on an input that is
   equal as numbers (EI), the resumption is the same up to EI on queries, EL on stored layouts, EO on the result, given
   answers equal up to EO *)
Definition BoxSizingBlind (S In Out Lay : Type) (ok : S -> Prop) (tb : S -> S) (elig : S -> Prop)
           (EI : In -> In -> Prop) (EO : Out -> Out -> Prop) (EL : Lay -> Lay -> Prop)
           (algo : S -> list S -> In -> Alg In Out Lay) : Prop :=
  AlgoRel S In Out Lay (bsrel ok tb elig) EI EO EL algo algo.

(* C04: an algorithm is homogeneous w.r.t. a scaling relation on styles / inputs / outputs / layouts *)
Definition Homogeneous (S In Out Lay : Type) (RS : S -> S -> Prop) (RI : In -> In -> Prop) (RO : Out -> Out -> Prop)
           (RL : Lay -> Lay -> Prop) (algo : S -> list S -> In -> Alg In Out Lay) : Prop :=
  AlgoRel S In Out Lay RS RI RO RL algo algo.

(* every stored layout of a tree, in preorder; a predicate holding at every node of a skeleton *)
Section Lays.
  Variables (S In Out Lay : Type).
  Fixpoint lays (t : tree S In Out Lay) : list Lay :=
    match t with Node _ _ _ _ _ _ l kids => l :: flat_map lays kids end.
  Inductive sk_all (P : S -> Prop) : sk S -> Prop :=
  | sk_all_node s kids : P s -> Forall (sk_all P) kids -> sk_all P (SNode S s kids).
End Lays.

Fixpoint sk_map {A B : Type} (f : A -> B) (t : sk A) : sk B :=
  match t with SNode _ s kids => SNode B (f s) (map (sk_map f) kids) end.

(* rewriting the styles of a skeleton at the paths selected by `w` (root = []) *)
Section MapFrom.
  Context {A B : Type}.
  Variable f : nat -> A -> B.
  Fixpoint map_from (n : nat) (l : list A) : list B :=
    match l with [] => [] | x :: r => f n x :: map_from (Datatypes.S n) r end.
End MapFrom.

Section MapWhere.
  Variable S : Type.
  Variable f : S -> S.
  Fixpoint sk_map_where (w : list nat -> bool) (t : sk S) {struct t} : sk S :=
    match t with
    | SNode _ s kids =>
        SNode S (if w [] then f s else s) (map_from (fun n x => sk_map_where (fun p => w (n :: p)) x) 0 kids)
    end.
End MapWhere.
