(* C10 -- block flow: children stack in document order, fill the width, sibling margins collapse.
   Statements only.  They are about Model/Block.v (perform_final_layout_on_in_flow_children as a fold in which every in-flow
   child's LayoutOutput is an oracle value), Gen/BlockGen.v (CollapsibleMarginSet, regenerated from src/tree/layout.rs on
   every run), Model/BlockLeaf.v and Model/BlockTree.v, over the exact instance XQ with explicit finiteness premises.
   Vocabulary (Proofs/BlockProofs.v):
     item_mt / item_mb P it   the item's own top / bottom margin as the loop resolves it (auto = 0)
     item_off_y it            the vertical offset of its relative inset
     fin_item P it co         those, the child's height and the child's reported margin sets are finite
     nonneg_item P it co      margins >= 0 (own and reported), no relative inset, height >= 0
     hct_item co              H_ct: margins_can_collapse_through -> height = 0
     wf_ms s                  positive part >= 0, negative part <= 0 (every set the code builds)
     mixed_ms s               positive part > 0 and negative part < 0
     through_union s rs       s joined with the top and bottom sets of the in-flow results rs *)
From Coq Require Import ZArith QArith Qminmax Bool List.
From TV Require Import Num.Num Num.QNum Gen.BlockGen Model.Block Model.BlockLeaf Model.BlockTree
                       Proofs.BlockProofs Proofs.BlockWitness Proofs.BlockAudit.
Import ListNotations.
Open Scope Q_scope.

(* resolve S = max(0, max S) + min(0, min S) for a set built by collapsing the margins l one by one (generated code) *)
Theorem C10_resolve_spec : forall l : list Q,
  exists r, ms_resolve (fold_left (fun acc m => ms_collapse_with_margin acc (Fin m)) l (@ms_ZERO XQ _)) = Fin r /\
            r == max0 l + min0 l.
Proof. exact resolve_spec_list. Qed.

(* clause 1: with non-negative margins, no relative insets and H_ct, in-flow children are stacked in document order
   without overlapping (absolute items may be interleaved).
   PARTIAL (renamed in the audit, wave 5c).  Missing with respect to the property text ("in-flow children with non-negative
   margins ... without overlapping"): (1) the premise H_ct (a child that reports margins_can_collapse_through has height 0) is
   NOT guaranteed by the implementation: C10_ct_refuted / known finding ct-positive-height -- a percentage-height child is
   overlapped by its sibling; (2) `nonneg_ok` also asks the margin sets the child REPORTS (co_top / co_bottom, which include
   margins of grandchildren collapsing through) to be non-negative, which non-negative margins of the children alone do not
   give; (3) no relative inset (a relatively positioned child is shifted after layout and may overlap: by design, not in the
   property's text). *)
Theorem C10_order_no_overlap_partial : forall (P : Params XQ) xs i j ri rj,
  fin_params P -> Forall (nonneg_ok P) xs ->
  nth_error (io_results (block_inflow P xs)) i = Some ri -> nth_error (io_results (block_inflow P xs)) j = Some rj ->
  (i < j)%nat -> ir_inflow ri = true -> ir_inflow rj = true ->
  val (ir_y ri) + val (s_h (ir_size ri)) <= val (ir_y rj).
Proof. exact order_no_overlap. Qed.

(* clause 2: auto width, no min/max width, non-auto margins, not a table: the width passed to the child as known is
   inner_width - (margin_left + margin_right); the stored size is what the child returned.  Any Num instance (F32 too).
   PARTIAL (renamed in the audit, wave 5c): "is exactly as wide as the container's content box minus its horizontal margins" is
   shown as far as the block algorithm goes -- that width is handed to the child as its KNOWN width and the child's answer is
   stored unchanged (`ir_size r = co_size co`, the oracle value).  That the child then IS that wide is closed only for leaves
   (C10_fill_width_leaf); for nested block / flex / grid children it is the KnownDimsRespected interface, not proved here.
   Extra premise: not a table. *)
Theorem C10_fill_width_partial : forall (T : Type) (N : Num T) (P : Params T) xs k it co ml mr,
  nth_error xs k = Some (it, co) -> position_is_absolute (it_position it) = false ->
  it_is_table it = false -> s_w (it_size it) = None -> s_w (it_min_size it) = None -> s_w (it_max_size it) = None ->
  r_left (item_margin P it) = Some ml -> r_right (item_margin P it) = Some mr ->
  exists r, nth_error (io_results (block_inflow P xs)) k = Some r /\ ir_inflow r = true /\
            s_w (ir_known r) = Some (sub (inner_width P) (add ml mr)) /\ ir_size r = co_size co.
Proof. intros T N. exact (@fill_width T N). Qed.

(* ... and the leaf model returns that width unless it is below its padding + border *)
Theorem C10_fill_width_leaf : forall (T : Type) (N : Num T) (st : BStyle T) m w kh parent,
  s_w (lf_min (leaf_resolve st (mkSize (Some w) kh) parent)) = None ->
  s_w (lf_max (leaf_resolve st (mkSize (Some w) kh) parent)) = None ->
  s_w (co_size (leaf_layout st m (mkSize (Some w) kh) parent PerformLayout)) =
  fmax w (h_sum (lf_pb (leaf_resolve st (mkSize (Some w) kh) parent))).
Proof. intros T N. exact (@leaf_known_width T N). Qed.

(* clause 3, general form: x_i not collapsed through, then boxes that are absolute or collapsed through, then x_j: the
   distance from x_i's bottom edge to x_j is (a) as implemented: the set {bottom_i} U through boxes, collapsed with the
   RESOLVED top set of x_j, and (b) the collapsed margin of the whole union provided x_j's top set is not mixed.
   _partial: the property has no such proviso; for a mixed top set (b) fails, see C10_margin_collapse_refuted. *)
Theorem C10_margin_collapse_through_partial : forall (P : Params XQ) pre it_i co_i mid it_j co_j post,
  fin_params P -> Forall (item_ok P) pre ->
  position_is_absolute (it_position it_i) = false -> fin_item P it_i co_i -> co_ct co_i = false ->
  val (item_off_y it_i) == 0 -> wf_ms (co_bottom co_i) ->
  Forall (through_ok P) mid ->
  position_is_absolute (it_position it_j) = false -> fin_item P it_j co_j ->
  val (item_off_y it_j) == 0 -> wf_ms (co_top co_j) ->
  exists rs_pre r_i rs_m r_j rs_post,
    io_results (block_inflow P (pre ++ (it_i, co_i) :: mid ++ (it_j, co_j) :: post)) = rs_pre ++ r_i :: rs_m ++ r_j :: rs_post /\
    length rs_pre = length pre /\ length rs_m = length mid /\
    val (ir_y r_j) - (val (ir_y r_i) + val (s_h (ir_size r_i))) ==
      val (ms_resolve (ms_collapse_with_margin (through_union (ir_bottom_set r_i) rs_m) (ms_resolve (ir_top_set r_j)))) /\
    (~ mixed_ms (ir_top_set r_j) ->
     val (ir_y r_j) - (val (ir_y r_i) + val (s_h (ir_size r_i))) ==
       val (ms_resolve (ms_collapse_with_set (through_union (ir_bottom_set r_i) rs_m) (ir_top_set r_j)))).
Proof. exact margin_collapse_through. Qed.

(* clause 3 for adjacent siblings *)
Theorem C10_margin_collapse_partial : forall (P : Params XQ) pre it_i co_i it_j co_j post,
  fin_params P -> Forall (item_ok P) pre ->
  position_is_absolute (it_position it_i) = false -> fin_item P it_i co_i -> co_ct co_i = false ->
  val (item_off_y it_i) == 0 -> wf_ms (co_bottom co_i) ->
  position_is_absolute (it_position it_j) = false -> fin_item P it_j co_j ->
  val (item_off_y it_j) == 0 -> wf_ms (co_top co_j) ->
  exists rs_pre r_i r_j rs_post,
    io_results (block_inflow P (pre ++ (it_i, co_i) :: (it_j, co_j) :: post)) = rs_pre ++ r_i :: r_j :: rs_post /\
    length rs_pre = length pre /\
    (~ mixed_ms (ir_top_set r_j) ->
     val (ir_y r_j) - (val (ir_y r_i) + val (s_h (ir_size r_i))) ==
       val (ms_resolve (ms_collapse_with_set (ir_bottom_set r_i) (ir_top_set r_j)))).
Proof. exact margin_collapse_adjacent. Qed.

(* the right-hand sides of the two theorems above in the words of the property text: collapsing two margin sets and resolving
   gives the larger of the two positive parts plus the most negative of the two negative parts -- for two positive margins the
   larger one, for a positive and a negative one their sum *)
Theorem C10_collapse_with_set_spec : forall a b : MarginSet XQ, fin_ms a -> fin_ms b ->
  exists r, ms_resolve (ms_collapse_with_set a b) = Fin r /\
            r == Qmax (val (ms_positive a)) (val (ms_positive b)) + Qmin (val (ms_negative a)) (val (ms_negative b)).
Proof. exact collapse_with_set_spec. Qed.

(* the proviso is needed: A {height 20, margin-bottom -10} followed by B {margin-top 20, first child with margin-top -5}
   (B's LayoutOutput computed by the model of compute_inner): every premise holds, B's top set {20, -5} is mixed, the
   distance is 5 but the adjoining margins {-10, 20, -5} collapse to 10.  Known finding `mixed-sign-top-set`. *)
Theorem C10_margin_collapse_refuted :
  exists (P : Params XQ) it_i co_i it_j co_j,
    fin_params P /\
    position_is_absolute (it_position it_i) = false /\ fin_item P it_i co_i /\ co_ct co_i = false /\
    val (item_off_y it_i) == 0 /\ wf_ms (co_bottom co_i) /\
    position_is_absolute (it_position it_j) = false /\ fin_item P it_j co_j /\ co_ct co_j = false /\
    val (item_off_y it_j) == 0 /\ wf_ms (co_top co_j) /\
    exists r_i r_j, io_results (block_inflow P [(it_i, co_i); (it_j, co_j)]) = [r_i; r_j] /\
      mixed_ms (ir_top_set r_j) /\
      ~ (val (ir_y r_j) - (val (ir_y r_i) + val (s_h (ir_size r_i))) ==
         val (ms_resolve (ms_collapse_with_set (ir_bottom_set r_i) (ir_top_set r_j)))).
Proof.
  pose proof mixed_refuted_witness as W. destruct mx_xs as [|[it_i co_i] [|[it_j co_j] [|]]]; try contradiction.
  destruct W as (A & B & C & D & E & F & G & H & I & J & r_i & r_j & K & L & M & N).
  exists w_P, it_i, co_i, it_j, co_j. repeat split; try assumption; try apply w_P_fin; try apply B; try apply G; try apply E; try apply J.
  exists r_i, r_j. split; [exact K|]. split; [exact L|]. rewrite M, N. intro Hc. discriminate Hc.
Qed.

(* H_ct is not guaranteed by compute_inner: its test resolves size.height against parent_size (height None in block
   flow); a child {height 50%, one empty block leaf} in a 100 x 100 container gets known height 50, reports
   margins_can_collapse_through = true, and its 10 px sibling is placed at y = 0 < 0 + 50.  All other premises of
   C10_order_no_overlap_partial hold.  Known finding `ct-positive-height`. *)
Theorem C10_ct_refuted :
  exists (P : Params XQ) xs ri rj,
    fin_params P /\ Forall (order_premises P) xs /\
    nth_error (io_results (block_inflow P xs)) 0 = Some ri /\ nth_error (io_results (block_inflow P xs)) 1 = Some rj /\
    ir_inflow ri = true /\ ir_inflow rj = true /\
    ir_ct ri = true /\ 0 < val (s_h (ir_size ri)) /\
    val (ir_y rj) < val (ir_y ri) + val (s_h (ir_size ri)).
Proof.
  destruct ct_refuted_witness as (A & ri & rj & B). exists w_P, ct_xs, ri, rj. split; [exact w_P_fin|]. split; [exact A | exact B].
Qed.

(* the decision itself, on the model of compute_inner: no preventing style is seen (the 50% height resolves to None against
   the parent size although the known height is 50), all children can be collapsed through, used height 50 > 0 *)
Theorem C10_ct_decision_refuted :
  exists (st : BStyle XQ) (inp : BInput XQ) avail kids,
    let t := block_compute_inner st inp avail kids in
    block_prevent_ct st inp = false /\ to_ct t = true /\ 0 < val (s_h (to_size t)) /\
    s_h (in_known inp) = Some (Fin (100 # 2)) /\ s_h (in_parent inp) = None.
Proof.
  pose proof ct_decision_witness as W. destruct ct_items as [|a l]; [contradiction|].
  exists ct_child, (child_input w_P a), (child_avail w_P a), [(ct_empty, MNone)]. exact W.
Qed.

(* the leaf's own test does imply a zero height (size.height == 0.0 is part of it) *)
Theorem C10_ct_leaf : forall (st : BStyle XQ) m known parent run,
  co_ct (leaf_layout st m known parent run) = true ->
  finite (s_h (co_size (leaf_layout st m known parent run))) /\ val (s_h (co_size (leaf_layout st m known parent run))) == 0.
Proof. intros st m known parent run Hc. apply xq_eqb_zero. apply (ct_leaf st m known parent run Hc). Qed.

(* ---- non-vacuity *)
(* A {h 20, mb 10}; E {empty box, mt 5, mb 7}; B {h 10, mt 3} satisfy every premise of the order clause (E is collapsed
   through and has height 0); they are placed at y = 0, 30, 30: the distance A..B is max(10, 5, 7, 3) = 10 *)
Example C10_example_order :
  Forall (nonneg_ok w_P) ex_xs /\
  map (fun r => (ir_y r, s_h (ir_size r), ir_ct r)) (io_results (block_inflow w_P ex_xs)) =
  [(Fin 0, Fin 20, false); (Fin 30, Fin 0, true); (Fin 30, Fin 10, false)].
Proof. split; [exact ex_order_premises | exact ex_values]. Qed.

(* with negative margins: A {mb -4}; E {empty, mt 6, mb -8}; B {mt 3}: premises of the general collapse theorem hold and
   B is placed 6 + (-8) = -2 below A's bottom edge (y = 18) *)
Example C10_example_collapse :
  map (fun r => (ir_y r, s_h (ir_size r), ir_ct r)) (io_results (block_inflow w_P ex2_xs)) =
  [(Fin 0, Fin 20, false); (Fin 22, Fin 0, true); (Fin 18, Fin 10, false)].
Proof. exact ex2_values. Qed.

(* fill width: margins 5 / 7 in the 100 px container: known width 88, and the leaf is 88 wide *)
Example C10_example_fill_width :
  match items_of [ex_fw] with
  | [it] => s_w (item_known_dims w_P it) = Some (Fin 88) /\ s_w (co_size (leaf_child w_P it ex_fw)) = Fin 88
  | _ => False
  end.
Proof. exact ex_fill_width. Qed.


(* ---------------------------------------------------------------------------------------------------------------------
   Computed instances of the premises (audit, wave 5c) *)

(* the premises of C10_margin_collapse_through_partial hold of the A / E / B example above (E is collapsed through) *)
Example C10_example_collapse_premises :
  match ex2_xs with
  | [(it_i, co_i); x_e; (it_j, co_j)] =>
      position_is_absolute (it_position it_i) = false /\ fin_item w_P it_i co_i /\ co_ct co_i = false /\
      val (item_off_y it_i) == 0 /\ wf_ms (co_bottom co_i) /\ Forall (through_ok w_P) [x_e] /\
      position_is_absolute (it_position it_j) = false /\ fin_item w_P it_j co_j /\
      val (item_off_y it_j) == 0 /\ wf_ms (co_top co_j)
  | _ => False
  end.
Proof. exact ex2_premises. Qed.

(* C10_margin_collapse_partial (adjacent siblings) with non-empty `pre` and `post`: P {h 5, mb 2} A {h 20, mb 10}
   B {h 10, mt -3} C {h 4}: y = 0, 7, 34, 44; the distance A..B is 10 + (-3) = 7 (one positive, one negative margin: their sum) *)
Definition ex3_p : BStyle XQ := base_style Auto (Len (qz 5)) 0 2.
Definition ex3_a : BStyle XQ := base_style Auto (Len (qz 20)) 0 10.
Definition ex3_b : BStyle XQ := base_style Auto (Len (qz 10)) (-3) 0.
Definition ex3_c : BStyle XQ := base_style Auto (Len (qz 4)) 0 0.
Definition ex3_xs : list (Item XQ * ChildOut XQ) :=
  match items_of [ex3_p; ex3_a; ex3_b; ex3_c] with
  | [p; a; b; c] => [(p, leaf_child w_P p ex3_p); (a, leaf_child w_P a ex3_a); (b, leaf_child w_P b ex3_b); (c, leaf_child w_P c ex3_c)]
  | _ => []
  end.
Example C10_example_adjacent :
  match ex3_xs with
  | [x_p; (it_i, co_i); (it_j, co_j); x_c] =>
      Forall (item_ok w_P) [x_p] /\
      position_is_absolute (it_position it_i) = false /\ fin_item w_P it_i co_i /\ co_ct co_i = false /\
      val (item_off_y it_i) == 0 /\ wf_ms (co_bottom co_i) /\
      position_is_absolute (it_position it_j) = false /\ fin_item w_P it_j co_j /\
      val (item_off_y it_j) == 0 /\ wf_ms (co_top co_j)
  | _ => False
  end /\
  map (fun r => (ir_y r, s_h (ir_size r), ir_top_set r, ir_bottom_set r)) (io_results (block_inflow w_P ex3_xs)) =
  [(Fin 0, Fin 5, mkMS (Fin 0) (Fin 0), mkMS (Fin 2) (Fin 0)); (Fin 7, Fin 20, mkMS (Fin 0) (Fin 0), mkMS (Fin 10) (Fin 0));
   (Fin 34, Fin 10, mkMS (Fin 0) (Fin (-3)), mkMS (Fin 0) (Fin 0)); (Fin 44, Fin 4, mkMS (Fin 0) (Fin 0), mkMS (Fin 0) (Fin 0))] /\
  ~ mixed_ms (mkMS (Fin 0) (Fin (-3))) /\
  val (ms_resolve (ms_collapse_with_set (mkMS (Fin 10) (Fin 0)) (mkMS (Fin 0) (Fin (-3))))) == 34 - (7 + 20).
Proof.
  split; [|split; [|split]].
  - vm_compute. repeat split; try reflexivity; try discriminate; try exact I; try (intro; discriminate).
    apply Forall_cons; [|apply Forall_nil]. right. repeat split; try reflexivity; try discriminate; try exact I.
  - vm_compute. reflexivity.
  - unfold mixed_ms, mixed_qs. vm_compute. intros [H _]. discriminate H.
  - vm_compute. reflexivity.
Qed.

(* C10_fill_width_partial on io_results (block_inflow ..) itself, for the second of two children *)
Definition ex4_p : BStyle XQ := base_style Auto (Len (qz 5)) 0 2.
Definition ex4_xs : list (Item XQ * ChildOut XQ) :=
  match items_of [ex4_p; ex_fw] with
  | [p; f] => [(p, leaf_child w_P p ex4_p); (f, leaf_child w_P f ex_fw)]
  | _ => []
  end.
Example C10_example_fill_width_inflow :
  (exists it co, nth_error ex4_xs 1 = Some (it, co) /\ position_is_absolute (it_position it) = false /\
     it_is_table it = false /\ s_w (it_size it) = None /\ s_w (it_min_size it) = None /\ s_w (it_max_size it) = None /\
     r_left (item_margin w_P it) = Some (Fin 5) /\ r_right (item_margin w_P it) = Some (Fin 7)) /\
  inner_width w_P = Fin 100 /\
  option_map (fun r => (ir_inflow r, s_w (ir_known r), s_w (ir_size r), ir_x r)) (nth_error (io_results (block_inflow w_P ex4_xs)) 1)
  = Some (true, Some (Fin 88), Fin 88, Fin 5).
Proof.
  split; [|split].
  - do 2 eexists. split; [vm_compute; reflexivity|]. vm_compute. repeat split; reflexivity.
  - vm_compute. reflexivity.
  - vm_compute. reflexivity.
Qed.
(* ------------------------------------------------------------------------------------------------------------ *)
(** * Whole trees (wave 5): the two laws over the outputs the engine REALLY computed

   Engine of block containers and leaves (Model/BlockEngine.v) with the real absolute-item routine (Model/BlockAbs.v) under
   compute_root_layout (Model/BlockRoot.v): the instance `vh blocktree cases` ties to TaffyTree::compute_layout_with_measure bit
   for bit (exact-key memo).  `flow_inv` (Proofs/BlockTreeOrder.v): every node that is not display:none and whose final-layout
   cache entry is (i, o) satisfies `flow_fact` (Proofs/BlockTreeFlow.v) -- there is a list `outs` such that each in-flow child
   holds, as stored layout, the ItemResult of Model/Block.v block_inflow (the function C10_order_no_overlap / C10_fill_width are
   about) run on (items, outs) with the loop constants of the container's own width, and, as final cache entry, (the input
   child_input P item, its element of `outs`): the children's outputs are no longer oracle values but what each child returned
   to this container.  Proved by induction over the block RESUMPTION alone through a Hoare-style reading of resumptions
   (Proofs/EnginePost.v: Post / run_memo_post / memo_tinv). *)
From TV Require Model.Engine Model.BlockAlg Model.BlockEngine Model.BlockAbs Model.BlockRoot Model.BlockTreeProps Model.BlockEngineExample Model.BlockAbsExample.
From TV Require Proofs.EnginePost Proofs.BlockTreeFlow Proofs.BlockTreeOrder.
From TV Require Model.BlockTreeExample.
Module WholeTrees.
  Import TV.Model.Engine TV.Model.BlockAlg TV.Model.BlockEngine TV.Model.BlockAbs TV.Model.BlockRoot TV.Model.BlockTreeProps.
  Import TV.Proofs.EnginePost TV.Proofs.BlockTreeFlow TV.Proofs.BlockTreeOrder TV.Model.BlockTreeExample.
  Close Scope Q_scope.

  (* the invariant holds for a freshly built tree and is kept by every memoised PerformLayout evaluation, by compute_root_layout
     (any available space), hence by any sequence of layout passes; any `Num` (F32 too) *)
  Theorem C10_block_tree_invariant : forall (T : Type) (N : Num T),
    (forall k, flow_inv (T := T) block_pre (bl_fresh k)) /\
    (forall f t i o t', bi_mode i = PerformLayout -> bl_memo block_pre abs_child_block f t i = Some (o, t') ->
                        flow_inv (T := T) block_pre t -> flow_inv block_pre t') /\
    (forall f t av t', block_compute_root block_pre abs_child_block f t av = Some t' -> flow_inv (T := T) block_pre t -> flow_inv block_pre t').
  Proof.
    intros T N. split; [apply flow_inv_fresh|]. split.
    - intros f t i o t' Hm Hrun. apply (flow_inv_memo block_pre abs_child_block (fun _ _ => eq_refl) abs_child_block_local_pl f t i o t' Hm Hrun).
    - intros f t av t' Hrun Hinv. unfold block_compute_root in Hrun.
      destruct (bl_memo block_pre abs_child_block f t _) as [[o t1]|] eqn:E; [|discriminate]. injection Hrun as <-.
      apply flow_inv_set_lay. refine (flow_inv_memo block_pre abs_child_block (fun _ _ => eq_refl) abs_child_block_local_pl f t _ o t1 _ E Hinv). reflexivity.
  Qed.
  Print Assumptions C10_block_tree_invariant.

  (* clause 1 on whole trees: in ANY tree satisfying the invariant (e.g. after any number of passes from a fresh tree), for every
     evaluated block container with finite top padding / border whose in-flow children have non-negative (or auto) vertical
     margins, no vertical inset, and whose REAL outputs -- their final cache entries, the values this container consumed -- are
     finite with non-negative margin sets and satisfy H_ct: the in-flow children are stacked in document order without overlap.
     PARTIAL (renamed by the audit of wave 7b: it carries every proviso for which the kernel theorem is C10_order_no_overlap_partial, and more).
     Missing w.r.t. the text: H_ct is a premise on the children's outputs that the implementation violates (known finding); the children's
     REPORTED margin sets must be non-negative, their outputs finite (premises inside kid_order_ok, not facts about styles); no relative
     inset; PERCENTAGE vertical margins are excluded (nice_margin (Pct _) = False: the kernel theorem allows them, it works on resolved
     margins); the container's top padding / border must be lengths (Pct excluded).  `kids_stacked` is written with `val` (0 on NaN / infinity)
     and does not itself assert that the y coordinates are finite. *)
  Theorem C10_block_tree_children_stacked_partial : forall t1 s c l kids i0 o0,
    flow_inv (T := XQ) block_pre t1 -> subtree_of (Node _ _ _ _ s c l kids) t1 ->
    final _ _ c = Some (i0, o0) -> bn_is_none s = false ->
    top_edge_finite (bn_style s) -> Forall kid_order_ok kids -> kids_stacked kids.
  Proof.
    intros t1 s c l kids i0 o0 Hinv Hsub Hf Hnone Htop Hkids.
    apply (block_tree_children_stacked block_pre s c l kids i0 o0); try assumption.
    exact (flow_inv_subtree block_pre _ _ Hsub Hinv).
  Qed.
  Print Assumptions C10_block_tree_children_stacked_partial.

  (* clause 2 on whole trees (any `Num`): an in-flow child with auto width, no min / max width, no aspect ratio, length horizontal
     margins, not a table was last laid out (its final cache entry, up to the memo's key equality) with known width =
     container inner width - (margin_left + margin_right) -- the inner width of the container's OWN computed width -- and its
     stored size is the size it returned.
     PARTIAL (renamed by the audit of wave 7b): the text says the child IS exactly that wide; this concludes that the child was ASKED with that
     known width and stored what it answered -- that a node answers its known width is proved for the leaf of the K1 model only
     (C10_fill_width_leaf: Model/BlockLeaf.v leaf_layout, not the Leaf.compute_leaf_layout behind leaf_out that bl_algo runs; C12_leaf / C19
     cover that function but no lemma is stated here), not for containers.  Premises the text does not grant: no aspect ratio, not a table,
     LENGTH horizontal margins (the text excludes auto margins only: percentages are left out here) *)
  Theorem C10_block_tree_fill_width_partial : forall (T : Type) (N : Num T) t1 s c l kids i0 o0 j tj ml mr,
    flow_inv (T := T) block_pre t1 -> subtree_of (Node _ _ _ _ s c l kids) t1 ->
    final _ _ c = Some (i0, o0) -> bn_is_none s = false ->
    nth_error kids j = Some tj -> bn_inflow (style_of _ _ _ _ tj) = true ->
    let sj := bn_style (style_of _ _ _ _ tj) in
    st_is_table sj = false -> st_aspect_ratio sj = None ->
    s_w (st_size sj) = Auto -> s_w (st_min_size sj) = Auto -> s_w (st_max_size sj) = Auto ->
    r_left (st_margin sj) = Len ml -> r_right (st_margin sj) = Len mr ->
    let inp := block_pre (bn_style s) i0 in
    let P := block_params (bn_style s) (mkInput (bi_known inp) (bi_parent inp) (bi_collapsible inp)) (s_w (co_size o0)) in
    exists i' iq co,
      last_entry tj = Some (i', co) /\ (i' = iq \/ bin_eqb i' iq = true) /\
      bi_mode iq = PerformLayout /\ s_w (bi_known iq) = Some (sub (inner_width P) (add ml mr)) /\
      bl_size (lay_of _ _ _ _ tj) = co_size co.
  Proof.
    intros T N t1 s c l kids i0 o0 j tj ml mr Hinv Hsub Hf Hnone Hj Hin sj.
    apply (block_tree_fill_width block_pre s c l kids i0 o0 j tj ml mr); try assumption.
    exact (flow_inv_subtree block_pre _ _ Hsub Hinv).
  Qed.
  Print Assumptions C10_block_tree_fill_width_partial.

  (* the two together for one layout pass on a fresh tree (TaffyTree::compute_layout on a new tree) *)
  Theorem C10_block_tree_fresh_pass_partial : forall f (k : sk (BNode XQ)) av t1,
    block_compute_root block_pre abs_child_block f (bl_fresh k) av = Some t1 ->
    forall s c l kids i0 o0, subtree_of (Node _ _ _ _ s c l kids) t1 -> final _ _ c = Some (i0, o0) -> bn_is_none s = false ->
      top_edge_finite (bn_style s) -> Forall kid_order_ok kids -> kids_stacked kids.
  Proof.
    intros f k av t1 Hrun s c l kids i0 o0 Hsub Hf Hnone Htop Hkids.
    destruct (C10_block_tree_invariant XQ _) as (Hfresh & _ & Hroot).
    exact (C10_block_tree_children_stacked_partial t1 s c l kids i0 o0 (Hroot f _ av t1 Hrun (Hfresh k)) Hsub Hf Hnone Htop Hkids).
  Qed.
  Print Assumptions C10_block_tree_fresh_pass_partial.

  (* non-vacuity (Model/BlockAbsExample.v: scroll container with two in-flow leaves A, F and three absolute children between
     them, after one layout pass): the root is evaluated, its top edge is finite, every child meets kid_order_ok -- A and F with
     the outputs they really returned (heights 24 and 12, zero margin sets beyond A's own margin-top 4) --, hence by the theorem
     the in-flow children are stacked; they sit at y = 10 (height 24) and y = 34 (height 12) *)
  Import TV.Model.BlockEngineExample TV.Model.BlockAbsExample.
  Example C10_block_tree_example :
    match block_compute_root block_pre abs_child_block ex_fuel (bl_fresh exr_tree) exr_avail with
    | Some (Node _ _ _ _ s c l kids) =>
        (exists i0 o0, final _ _ c = Some (i0, o0)) /\ bn_is_none s = false /\ top_edge_finite (bn_style s) /\
        Forall kid_order_ok kids /\ kids_stacked kids /\
        map (fun t => (bl_y (lay_of _ _ _ _ t), s_h (bl_size (lay_of _ _ _ _ t)))) (filter (fun t => bn_inflow (style_of _ _ _ _ t)) kids)
        = [(Fin 10, Fin 24); (Fin 34, Fin 12)]
    | None => False
    end.
  Proof.
    let v := eval vm_compute in (block_compute_root block_pre abs_child_block ex_fuel (bl_fresh exr_tree) exr_avail) in
      assert (E : block_compute_root block_pre abs_child_block ex_fuel (bl_fresh exr_tree) exr_avail = v) by (vm_compute; reflexivity).
    rewrite E. pose proof (C10_block_tree_fresh_pass_partial ex_fuel exr_tree exr_avail _ E) as Hthm. clear E. cbv beta iota.
    match goal with |- _ /\ _ /\ _ /\ ?K /\ _ /\ _ => assert (Hk : K) end.
    { repeat apply Forall_cons; try apply Forall_nil; intro Hin; try (vm_compute in Hin; discriminate Hin).
      all: split; [unfold order_style; cbn; repeat split; try exact I; try discriminate|].
      all: intros i o E; vm_compute in E; injection E as <- <-; unfold order_out, fin_ms_q; cbn; repeat split; try exact I; try discriminate.
      all: try (intro; discriminate). }
    split; [eexists; eexists; reflexivity|]. split; [reflexivity|]. split; [split; exact I|]. split; [exact Hk|].
    split; [|vm_compute; reflexivity].
    eapply Hthm; [apply sub_here|reflexivity|reflexivity|split; exact I|exact Hk].
  Qed.
  Print Assumptions C10_block_tree_example.

  (* ---- audit (wave 7b): C10_block_tree_example has only LEAVES as in-flow children (its one nested container is absolute), so no output the
     root consumed was computed by the block algorithm; and clause 2 had no computed instance *)

  (* nested: root > [A; B > [C; D (display:none); G]; E (absolute); F] (Model/BlockEngineExample.v ex_tree) with the REAL absolute
     routine under compute_root_layout: B is an IN-FLOW block container, so the root consumes an output (200 x 44, top set {6, 0})
     that the engine computed by running the block algorithm on B; the premises hold at the root AND at B (computed), hence by
     C10_block_tree_fresh_pass_partial both child lists are stacked; in-flow children of the root at y = 10 (h 24), 40 (h 44), 84 (h 12),
     of B at y = 4 (h 22), 26 (h 14) *)
  Example C10_block_tree_example_nested :
    match block_compute_root block_pre abs_child_block ex_fuel (bl_fresh ex_tree) exr_avail with
    | Some (Node _ _ _ _ s c l kids) =>
        Forall kid_order_ok kids /\ kids_stacked kids /\
        list_eqb yh_eqb (inflow_yh kids) [(Fin 10, Fin 24); (Fin 40, Fin 44); (Fin 84, Fin 12)] = true /\
        match kids with
        | _ :: Node _ _ _ _ sB cB lB kidsB :: _ =>
            (exists iB oB, final _ _ cB = Some (iB, oB)) /\ bn_is_none sB = false /\ top_edge_finite (bn_style sB) /\
            Forall kid_order_ok kidsB /\ kids_stacked kidsB /\
            list_eqb yh_eqb (inflow_yh kidsB) [(Fin 4, Fin 22); (Fin 26, Fin 14)] = true
        | _ => False
        end
    | None => False
    end.
  Proof.
    let v := eval vm_compute in (block_compute_root block_pre abs_child_block ex_fuel (bl_fresh ex_tree) exr_avail) in
      assert (E : block_compute_root block_pre abs_child_block ex_fuel (bl_fresh ex_tree) exr_avail = v) by (vm_compute; reflexivity).
    rewrite E. pose proof (C10_block_tree_fresh_pass_partial ex_fuel ex_tree exr_avail _ E) as Hthm. clear E. cbv beta iota.
    match goal with |- ?K /\ _ /\ _ /\ _ => assert (Hk : K) end.
    { repeat apply Forall_cons; try apply Forall_nil; intro Hin; try (vm_compute in Hin; discriminate Hin).
      all: split; [unfold order_style; cbn; repeat split; try exact I; try discriminate|].
      all: intros i o E; vm_compute in E; injection E as <- <-; unfold order_out, fin_ms_q; cbn; repeat split; try exact I; try discriminate.
      all: try (intro; discriminate). }
    split; [exact Hk|]. split; [eapply Hthm; [apply sub_here|reflexivity|reflexivity|split; exact I|exact Hk]|].
    split; [vm_compute; reflexivity|].
    match goal with |- _ /\ _ /\ _ /\ ?K /\ _ /\ _ => assert (HkB : K) end.
    { repeat apply Forall_cons; try apply Forall_nil; intro Hin; try (vm_compute in Hin; discriminate Hin).
      all: split; [unfold order_style; cbn; repeat split; try exact I; try discriminate|].
      all: intros i o E; vm_compute in E; injection E as <- <-; unfold order_out, fin_ms_q; cbn; repeat split; try exact I; try discriminate.
      all: try (intro; discriminate). }
    split; [eexists; eexists; reflexivity|]. split; [reflexivity|]. split; [split; exact I|]. split; [exact HkB|].
    split; [|vm_compute; reflexivity].
    eapply Hthm; [eapply sub_kid; [right; left; reflexivity|apply sub_here]|reflexivity|reflexivity|split; exact I|exact HkB].
  Qed.
  Print Assumptions C10_block_tree_example_nested.

  (* clause 2 on the same pass: the leaf A and the nested container B (auto width, no min / max width, margins 0 / 0) meet the premises
     of C10_block_tree_fill_width_partial; the root's own computed width is 212 (inner width 212 - 2 * (5 + 1) = 200); both were last laid
     out in PerformLayout mode with known width 200, returned width 200 and store width 200; and the theorem's conclusion for both *)
  Example C10_block_tree_fill_width_example :
    match block_compute_root block_pre abs_child_block ex_fuel (bl_fresh ex_tree) exr_avail with
    | Some (Node _ _ _ _ s c l kids) =>
        match kids with
        | tA :: tB :: _ =>
            fw_prem tA /\ fw_prem tB /\
            (exists i0 o0, final _ _ c = Some (i0, o0) /\ s_w (co_size o0) = Fin 212) /\
            fw_vals tA = (Some (PerformLayout, Some (Fin 200), Fin 200), Fin 200) /\
            fw_vals tB = (Some (PerformLayout, Some (Fin 200), Fin 200), Fin 200) /\
            (forall j tj, (j < 2)%nat -> nth_error kids j = Some tj ->
               exists i' iq co, last_entry tj = Some (i', co) /\ (i' = iq \/ bin_eqb i' iq = true) /\ bi_mode iq = PerformLayout /\
                                bl_size (lay_of _ _ _ _ tj) = co_size co)
        | _ => False
        end
    | None => False
    end.
  Proof.
    let v := eval vm_compute in (block_compute_root block_pre abs_child_block ex_fuel (bl_fresh ex_tree) exr_avail) in
      assert (E : block_compute_root block_pre abs_child_block ex_fuel (bl_fresh ex_tree) exr_avail = v) by (vm_compute; reflexivity).
    rewrite E.
    destruct (C10_block_tree_invariant XQ _) as (Hfresh & _ & Hroot).
    pose proof (Hroot ex_fuel _ exr_avail _ E (Hfresh ex_tree)) as Hinv. clear E. cbv beta iota.
    split; [vm_compute; repeat split; reflexivity|]. split; [vm_compute; repeat split; reflexivity|].
    split; [eexists; eexists; split; [reflexivity|vm_compute; reflexivity]|].
    split; [vm_compute; reflexivity|]. split; [vm_compute; reflexivity|].
    intros j tj Hj Hn.
    assert (P : fw_prem tj).
    { destruct j as [|[|j]]; [| |exfalso; inversion Hj as [|? H1]; inversion H1 as [|? H2]; inversion H2]; cbn in Hn; injection Hn as <-;
        vm_compute; repeat split; reflexivity. }
    destruct P as (P1 & P2 & P3 & P4 & P5 & P6 & P7 & P8).
    match type of Hinv with flow_inv _ (Node _ _ _ _ ?s ?c ?l ?kids) =>
      destruct (C10_block_tree_fill_width_partial XQ _ _ s c l kids _ _ j tj (Fin 0) (Fin 0) Hinv (sub_here _) eq_refl eq_refl Hn P1 P2 P3 P4 P5 P6 P7 P8)
        as (i' & iq & co & A & B & C & _ & D) end.
    exists i', iq, co. repeat split; assumption.
  Qed.
  Print Assumptions C10_block_tree_fill_width_example.
End WholeTrees.

Print Assumptions C10_resolve_spec.
Print Assumptions C10_order_no_overlap_partial.
Print Assumptions C10_fill_width_partial.
Print Assumptions C10_collapse_with_set_spec.
Print Assumptions C10_fill_width_leaf.
Print Assumptions C10_margin_collapse_through_partial.
Print Assumptions C10_margin_collapse_partial.
Print Assumptions C10_margin_collapse_refuted.
Print Assumptions C10_ct_refuted.
Print Assumptions C10_ct_decision_refuted.
Print Assumptions C10_ct_leaf.
