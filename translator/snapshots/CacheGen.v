(* GENERATED on every run by /verif/translator/gen_cache.py from src/tree/cache.rs -- do not edit. *)
From Coq Require Import NArith Bool List.
Import ListNotations.
Open Scope N_scope.
Definition CACHE_SIZE : N := 9.
(* enum AvailableSpace, payloads dropped *)
Inductive avail_kind := KDefinite | KMinContent | KMaxContent.
Definition avail_kind_eqb (a b : avail_kind) : bool :=
  match a, b with | KDefinite, KDefinite => true | KMinContent, KMinContent => true | KMaxContent, KMaxContent => true | _, _ => false end.
(* enum RunMode *)
Inductive run_mode := PerformLayout | ComputeSize | PerformHiddenLayout.
Definition bool_as_usize (b : bool) : N := if b then 1 else 0.   (* `bool as usize` *)
(* fn compute_cache_slot(known_dimensions, available_space): hw/hh = known_dimensions.width/height.is_some(), aw/ah = kind of available_space.width/height *)
Definition slot (hw hh : bool) (aw ah : avail_kind) : N :=
  (if (andb hw hh) then 0 else
  if (andb hw (negb hh)) then (1 + (bool_as_usize (avail_kind_eqb ah KMinContent))) else
  if (andb hh (negb hw)) then (3 + (bool_as_usize (avail_kind_eqb aw KMinContent))) else
  match aw, ah with
    | (KMaxContent | KDefinite), (KMaxContent | KDefinite) => 5
    | (KMaxContent | KDefinite), KMinContent => 6
    | KMinContent, (KMaxContent | KDefinite) => 7
    | KMinContent, KMinContent => 8
    end).
