(* C05 / C06: the item lists of the three container algorithms are functions of the box-generating (and, for flex / grid,
   in-flow) children's styles only.  The pipelines are GENERATED from the source (Gen/FiltersGen.v); each is first brought
   to a normal form `map build (filter class (enumerate children))` -- by induction with a case analysis on the enum values,
   so the proof does not depend on how the source spells the filter (two `.filter`s, one closure with `&&`, `matches!`, ..)
   -- and the blindness statements are then proved on the normal forms. *)
From Coq Require Import ZArith Bool List Lia.
From TV Require Import Num.Num Gen.BlockGen Model.Block Model.FiltersBase Gen.FiltersGen Model.ItemFilters.
From TV Require Import Model.PlacementBase Gen.PlacementGen Model.Placement.
Import ListNotations.
Close Scope Z_scope.   (* opened by Model/Placement.v *)

(* ------------------------------------------------------------------ lists *)

Lemma filter_ext_Forall {A} (f g : A -> bool) l : Forall (fun x => f x = g x) l -> filter f l = filter g l.
Proof. induction 1 as [|x l Hx Hl IH]; cbn; [reflexivity|]. rewrite Hx, IH. reflexivity. Qed.

Lemma map_ext_Forall {A B} (f g : A -> B) l : Forall (fun x => f x = g x) l -> map f l = map g l.
Proof. induction 1 as [|x l Hx Hl IH]; cbn; [reflexivity|]. rewrite Hx, IH. reflexivity. Qed.

Lemma Forall_enumerate_from {A} (P : A -> Prop) l : Forall P l -> forall n, Forall (fun ic => P (snd ic)) (g_enumerate_from n l).
Proof. induction 1 as [|x l Hx Hl IH]; intros n; cbn; constructor; [exact Hx|apply IH]. Qed.

Lemma enumerate_from_map_snd {A} (l : list A) n : map snd (g_enumerate_from n l) = l.
Proof. revert n. induction l as [|x l IH]; intros n; cbn; [reflexivity|]. rewrite IH. reflexivity. Qed.

Section Generic.
  Context {C S I : Type}.
  Variable position : S -> GPosition.
  Variable bgm : S -> GBoxGenerationMode.

  Notation hidden := (s_hidden bgm).
  Notation absolute := (s_absolute position).
  Notation in_flow := (s_in_flow position bgm).
  Notation out_of_flow := (s_out_of_flow position bgm).
  Notation visible_absolute := (s_visible_absolute position bgm).

  (* ---------------------------------------------------------------- normal forms of the generated pipelines *)

  (* flex: position != Absolute, box_generation_mode != None; `order` = the child's index in the container's child list *)
  Definition flex_nf (style_of : C -> S) (build : nat -> C -> S -> I) (n : nat) (cs : list C) : list I :=
    map (fun ic => build (fst ic) (snd ic) (style_of (snd ic)))
        (filter (fun ic => in_flow (style_of (snd ic))) (g_enumerate_from n cs)).

  Lemma flex_generate_items_nf style_of build cs :
    flex_generate_items style_of position bgm build cs = flex_nf style_of build 0 cs.
  Proof.
    unfold flex_generate_items, flex_nf, g_enumerate, s_in_flow, s_hidden, s_absolute, g_is_none, g_is_absolute. generalize 0%nat.
    induction cs as [|c cs IH]; intros n; [reflexivity|].
    cbn [g_enumerate_from map filter fst snd].
    destruct (position (style_of c)) eqn:Ep, (bgm (style_of c)) eqn:Eb; repeat (progress (cbn; rewrite ?Ep, ?Eb)); first [apply IH | f_equal; apply IH].
  Qed.

  (* block: box_generation_mode != None only; `order` = index among the box-generating children *)
  Definition block_nf (style_of : C -> S) (build : nat -> C -> S -> I) (n : nat) (cs : list C) : list I :=
    map (fun oc => build (fst oc) (snd oc) (style_of (snd oc)))
        (g_enumerate_from n (filter (fun c => negb (hidden (style_of c))) cs)).

  Lemma block_generate_items_nf style_of build cs :
    block_generate_items style_of position bgm build cs = block_nf style_of build 0 cs.
  Proof.
    unfold block_generate_items, block_nf, g_enumerate, s_hidden, g_is_none. generalize 0%nat.
    induction cs as [|c cs IH]; intros n; [reflexivity|].
    cbn [map filter].
    destruct (bgm (style_of c)) eqn:Eb; repeat (progress (cbn; rewrite ?Eb)); first [apply IH | f_equal; apply IH].
  Qed.

  (* grid: placement sees the in-flow children, with their index; the size estimate every box-generating child *)
  Lemma grid_in_flow_children_nf (style_of : C -> S) cs :
    grid_in_flow_children style_of position bgm cs =
    map (fun ic => (fst ic, snd ic, style_of (snd ic))) (filter (fun ic => in_flow (style_of (snd ic))) (g_enumerate cs)).
  Proof.
    unfold grid_in_flow_children, g_enumerate, s_in_flow, s_hidden, s_absolute, g_is_none, g_is_absolute. generalize 0%nat.
    induction cs as [|c cs IH]; intros n; [reflexivity|].
    cbn [g_enumerate_from map filter fst snd].
    destruct (position (style_of c)) eqn:Ep, (bgm (style_of c)) eqn:Eb; repeat (progress (cbn; rewrite ?Ep, ?Eb)); first [apply IH | f_equal; apply IH].
  Qed.

  Lemma grid_estimate_children_nf (style_of : C -> S) cs :
    grid_estimate_children style_of position bgm cs = filter (fun s => negb (hidden s)) (map style_of cs).
  Proof.
    unfold grid_estimate_children, s_hidden, g_is_none.
    induction cs as [|c cs IH]; [reflexivity|].
    cbn [map filter].
    destruct (bgm (style_of c)) eqn:Eb; repeat (progress (cbn; rewrite ?Eb)); first [apply IH | f_equal; apply IH].
  Qed.

  (* ---------------------------------------------------------------- classes *)

  Lemma hidden_out_of_flow s : hidden s = true -> out_of_flow s = true.
  Proof. unfold s_out_of_flow, s_in_flow. intros ->. reflexivity. Qed.
  Lemma absolute_out_of_flow s : absolute s = true -> out_of_flow s = true.
  Proof. unfold s_out_of_flow, s_in_flow. intros ->. rewrite andb_false_r. reflexivity. Qed.
  Lemma out_of_flow_in_flow s : out_of_flow s = true -> in_flow s = false.
  Proof. unfold s_out_of_flow. destruct (in_flow s); [discriminate|reflexivity]. Qed.

  Lemma agree_except_mono (ig ig' : S -> bool) (f f' : C -> S) cs :
    (forall s, ig s = true -> ig' s = true) -> agree_except ig f f' cs -> agree_except ig' f f' cs.
  Proof.
    intros Hi Ha. unfold agree_except in *. eapply Forall_impl; [|exact Ha].
    intros c [E|[A B]]; [left; exact E|right; split; apply Hi; assumption].
  Qed.

  (* ---------------------------------------------------------------- flex *)

  (* changing the styles of out-of-flow children (display:none or position:absolute, on both sides) leaves the item list
     unchanged -- `order` included, which is the child's index in the child list *)
  Lemma flex_nf_blind (f f' : C -> S) build cs : agree_except out_of_flow f f' cs -> forall n, flex_nf f build n cs = flex_nf f' build n cs.
  Proof.
    intros Ha n. unfold flex_nf.
    assert (Hf : Forall (fun ic : nat * C => in_flow (f (snd ic)) = in_flow (f' (snd ic))) (g_enumerate_from n cs)).
    { apply (Forall_enumerate_from (fun c => in_flow (f c) = in_flow (f' c))).
      eapply Forall_impl; [|exact Ha]. intros c [->|[A B]]; [reflexivity|].
      rewrite (out_of_flow_in_flow _ A), (out_of_flow_in_flow _ B). reflexivity. }
    rewrite (filter_ext_Forall _ _ _ Hf). apply map_ext_Forall.
    apply Forall_forall. intros [i c] Hin. apply filter_In in Hin. destruct Hin as [Hin Hk]. cbn [fst snd] in *.
    assert (Hc : In c cs).
    { rewrite <- (enumerate_from_map_snd cs n). apply (in_map snd) in Hin. exact Hin. }
    unfold agree_except in Ha. rewrite Forall_forall in Ha. destruct (Ha c Hc) as [->|[A B]]; [reflexivity|].
    rewrite (out_of_flow_in_flow _ B) in Hk. discriminate.
  Qed.

  (* deleting the out-of-flow children: the same items up to the index *)
  Lemma flex_nf_delete (f : C -> S) (build : C -> S -> I) cs : forall n m,
    flex_nf f (fun _ => build) n (filter (fun c => in_flow (f c)) cs) = flex_nf f (fun _ => build) m cs.
  Proof.
    unfold flex_nf. induction cs as [|c cs IH]; intros n m; [reflexivity|].
    cbn [filter g_enumerate_from]. destruct (in_flow (f c)) eqn:E.
    - cbn [g_enumerate_from filter map fst snd]. rewrite E. cbn [map fst snd]. rewrite (IH (Datatypes.S n) (Datatypes.S m)). reflexivity.
    - cbn [filter snd]. rewrite E. apply IH.
  Qed.

  (* ---------------------------------------------------------------- block *)

  Lemma block_nf_hidden_blind (f f' : C -> S) build cs : agree_except hidden f f' cs -> forall n, block_nf f build n cs = block_nf f' build n cs.
  Proof.
    intros Ha. unfold block_nf. induction Ha as [|c cs Hc Hl IH]; intros n; [reflexivity|].
    cbn [filter]. destruct Hc as [E|[A B]].
    - rewrite <- E. destruct (hidden (f c)); cbn [negb g_enumerate_from map fst snd]; [apply IH|]. rewrite <- E, IH. reflexivity.
    - rewrite A, B. cbn [negb]. apply IH.
  Qed.

  (* deleting the display:none children changes nothing at all (`order` counts box-generating children only) *)
  Lemma block_nf_delete_hidden (f : C -> S) build cs n :
    block_nf f build n (filter (fun c => negb (hidden (f c))) cs) = block_nf f build n cs.
  Proof.
    unfold block_nf. f_equal. f_equal. induction cs as [|c cs IH]; [reflexivity|].
    cbn [filter]. destruct (hidden (f c)) eqn:E; cbn [negb filter]; [exact IH|]. rewrite E. cbn [negb]. rewrite IH. reflexivity.
  Qed.

  (* absolute children ARE items of a block container (flagged by their `position`): changing the style of a
     box-generating absolute child changes that one item and nothing else -- same length, same `order`s, same children *)
  Lemma block_nf_absolute (f f' : C -> S) build cs : agree_except visible_absolute f f' cs -> forall n,
    Forall2 (fun x y => exists o c, x = build o c (f c) /\ y = build o c (f' c) /\
                                    (f c = f' c \/ (visible_absolute (f c) = true /\ visible_absolute (f' c) = true)))
            (block_nf f build n cs) (block_nf f' build n cs).
  Proof.
    intros Ha. unfold block_nf. induction Ha as [|c cs Hc Hl IH]; intros n; [constructor|].
    cbn [filter]. destruct Hc as [E|[A B]].
    - rewrite <- E. destruct (hidden (f c)); cbn [negb g_enumerate_from map fst snd]; [apply IH|].
      constructor; [|apply IH]. exists n, c. rewrite <- E. repeat split. left; reflexivity.
    - assert (A' : hidden (f c) = false) by (unfold s_visible_absolute in A; destruct (hidden (f c)); [discriminate|reflexivity]).
      assert (B' : hidden (f' c) = false) by (unfold s_visible_absolute in B; destruct (hidden (f' c)); [discriminate|reflexivity]).
      rewrite A', B'. cbn [negb g_enumerate_from map fst snd].
      constructor; [|apply IH]. exists n, c. repeat split. right; split; assumption.
  Qed.

End Generic.

(* ---------------------------------------------------------------- grid *)

Lemma grid_in_flow_blind {C S : Type} (position : S -> GPosition) (bgm : S -> GBoxGenerationMode) (f f' : C -> S) cs :
  agree_except (s_out_of_flow position bgm) f f' cs ->
  grid_in_flow_children f position bgm cs = grid_in_flow_children f' position bgm cs.
Proof.
  intros Ha. rewrite !(grid_in_flow_children_nf (C := C) (S := S)).
  exact (flex_nf_blind (I := nat * C * S) position bgm f f' (fun i c s => (i, c, s)) cs Ha 0).
Qed.

(* the grid size estimate: blind to display:none children (I plays no role) *)
Lemma grid_estimate_hidden_blind {C S : Type} (position : S -> GPosition) (bgm : S -> GBoxGenerationMode) (f f' : C -> S) cs :
  agree_except (s_hidden bgm) f f' cs ->
  grid_estimate_children f position bgm cs = grid_estimate_children f' position bgm cs.
Proof.
  intros Ha. rewrite !(grid_estimate_children_nf (C := C) (S := S)).
  induction Ha as [|c cs Hc Hl IH]; [reflexivity|]. cbn [map filter].
  destruct Hc as [E|[A B]].
  - rewrite <- E, IH. reflexivity.
  - rewrite A, B. cbn [negb]. exact IH.
Qed.

(* ------------------------------------------------------------------ Model/Block.v: its filter IS the generated one *)

Section BlockTie.
  Context {T : Type} `{Num T}.

  Lemma bs_hidden_display (st : BStyle T) :
    s_hidden bs_bgm st = match st_display st with DNone => true | _ => false end.
  Proof. unfold s_hidden, bs_bgm, g_is_none. destruct (st_display st); reflexivity. Qed.

  Lemma bs_absolute_position (st : BStyle T) : s_absolute bs_position st = position_is_absolute (st_position st).
  Proof. unfold s_absolute, bs_position, g_is_absolute. destruct (st_position st); reflexivity. Qed.

  Lemma generate_items_from_nf (sts : list (BStyle T)) nis : forall n,
    generate_items_from sts nis (Z.of_nat n) =
    block_nf bs_bgm (fun st => st) (fun order _ st => generate_item st nis (Z.of_nat order)) n sts.
  Proof.
    unfold block_nf. induction sts as [|st sts IH]; intros n; [reflexivity|].
    cbn [generate_items_from filter]. rewrite bs_hidden_display.
    destruct (st_display st); cbn [negb g_enumerate_from map fst snd]; try apply IH;
      (f_equal; replace (Z.of_nat n + 1)%Z with (Z.of_nat (Datatypes.S n)) by lia; apply IH).
  Qed.

  (* the hand-written generate_item_list of Model/Block.v (what K1 / K2 of C10 run) = the generated pipeline *)
  Lemma generate_item_list_is_generated (sts : list (BStyle T)) nis : generate_item_list sts nis = block_items_gen sts nis.
  Proof.
    unfold generate_item_list, block_items_gen. rewrite (block_generate_items_nf bs_position bs_bgm).
    exact (generate_items_from_nf sts nis 0).
  Qed.

  (* the item-level predicates of the source, against the hand-written tests of Model/Block.v / Model/BlockTree.v *)
  Lemma inflow_branch_is_generated (it : Item T) ct :
    position_is_absolute (it_position it) = block_inflow_absolute_branch_cond (gpos (it_position it)) ct.
  Proof. destruct (it_position it); reflexivity. Qed.

  Lemma content_width_filter_is_generated (it : Item T) ct :
    negb (position_is_absolute (it_position it)) = block_content_width_visits (gpos (it_position it)) ct.
  Proof. destruct (it_position it); reflexivity. Qed.

  (* block_can_collapse_through tests `negb ir_inflow || ir_ct` on the records; ir_inflow = negb (position == Absolute) *)
  Lemma all_collapsible_is_generated (p : BPosition) ct :
    orb (negb (negb (position_is_absolute p))) ct = block_all_collapsible_pred (gpos p) ct.
  Proof. destruct p, ct; reflexivity. Qed.

  Lemma absolute_branch_local : block_inflow_absolute_branch_is_local = true.
  Proof. reflexivity. Qed.

  (* Model/BlockAlg.v: which records the absolute pass visits, which children the hidden pass visits *)
  Lemma abs_pass_filter_is_generated (it : Item T) ct :
    position_is_absolute (it_position it) = block_absolute_pass_visits (gpos (it_position it)) ct.
  Proof. destruct (it_position it); reflexivity. Qed.

  Lemma hidden_pass_is_generated (s : BStyle T) p : s_hidden bs_bgm s = block_hidden_pass_visits (bs_bgm s) p.
  Proof. unfold s_hidden, g_is_none. destruct (bs_bgm s); reflexivity. Qed.

  Lemma tree_calls_local : block_tree_calls_address_item_only = true.
  Proof. reflexivity. Qed.
End BlockTie.

(* ------------------------------------------------------------------ Model/Placement.v: its filters ARE the generated ones *)

Lemma placement_in_flow_is_generated {C S} (position : S -> GPosition) (bgm : S -> GBoxGenerationMode) (style_of : C -> S)
      (placement : S -> child) (cs : list C) :
  in_flow_children (map (fun c => (kind_of (position (style_of c)) (bgm (style_of c)), placement (style_of c))) cs) =
  map (fun ics : nat * C * S => (Z.of_nat (fst (fst ics)), placement (snd ics))) (grid_in_flow_children style_of position bgm cs).
Proof.
  rewrite grid_in_flow_children_nf. unfold in_flow_children, g_enumerate, s_in_flow, s_hidden, s_absolute, g_is_none, g_is_absolute.
  assert (G : forall n z, z = Z.of_nat n ->
    map (fun '(i, (_, c)) => (i, c))
      (filter (fun '(_, (k, _)) => is_in_flow k)
         (enumerate_from z (map (fun c => (kind_of (position (style_of c)) (bgm (style_of c)), placement (style_of c))) cs))) =
    map (fun ics : nat * C * S => (Z.of_nat (fst (fst ics)), placement (snd ics)))
      (map (fun ic : nat * C => (fst ic, snd ic, style_of (snd ic)))
         (filter (fun ic : nat * C =>
                    negb (GBoxGenerationMode_eqb (bgm (style_of (snd ic))) BoxGenerationMode_None) &&
                    negb (GPosition_eqb (position (style_of (snd ic))) Position_Absolute)) (g_enumerate_from n cs)))).
  { induction cs as [|c cs IH]; intros n z Hz; [reflexivity|]. subst z.
    cbn [map enumerate_from g_enumerate_from filter fst snd]. unfold kind_of.
    destruct (position (style_of c)) eqn:Ep, (bgm (style_of c)) eqn:Eb; repeat (progress (cbn; rewrite ?Ep, ?Eb));
      first [apply IH; lia | f_equal; apply IH; lia]. }
  apply (G 0%nat 0%Z). reflexivity.
Qed.

Lemma placement_estimate_is_generated {C S} (position : S -> GPosition) (bgm : S -> GBoxGenerationMode) (style_of : C -> S)
      (placement : S -> child) (cs : list C) :
  estimate_children (map (fun c => (kind_of (position (style_of c)) (bgm (style_of c)), placement (style_of c))) cs) =
  map placement (grid_estimate_children style_of position bgm cs).
Proof.
  rewrite (grid_estimate_children_nf (C := C) (S := S)). unfold estimate_children.
  induction cs as [|c cs IH]; [reflexivity|]. cbn [map filter fst snd].
  unfold s_hidden, g_is_none, kind_of.
  destruct (position (style_of c)) eqn:Ep, (bgm (style_of c)) eqn:Eb; repeat (progress (cbn; rewrite ?Ep, ?Eb)); first [apply IH | f_equal; apply IH].
Qed.
