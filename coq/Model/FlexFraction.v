(* C04 -- the `content_flex_fraction` step of determine_container_main_size (src/compute/flexbox.rs, the
   `AvailableSpace::MinContent | AvailableSpace::MaxContent` branch: the intrinsic main size of a flex container), per item,
   generic over `Num`.  Definitions only; hand-transcribed, float operations in source order:

     item.content_flex_fraction = {
         let diff = content_contribution - item.flex_basis;
         if diff > 0.0 { diff / f32_max(1.0, item.flex_grow) }
         else if diff < 0.0 { let scaled_shrink_factor = f32_max(1.0, item.flex_shrink * item.inner_flex_basis);
                              diff / scaled_shrink_factor }
         else { 0.0 } };
     ...
     let flex_contribution = if item.content_flex_fraction > 0.0 { f32_max(1.0, item.flex_grow) * flex_fraction }
         else if item.content_flex_fraction < 0.0 {
             let scaled_shrink_factor = f32_max(1.0, item.flex_shrink) * item.inner_flex_basis;
             scaled_shrink_factor * flex_fraction }
         else { 0.0 };
     let size = item.flex_basis + flex_contribution;

   (f32_max(a, b) = a.max(b).)  content_contribution, flex_basis, inner_flex_basis are lengths; flex_grow, flex_shrink are
   dimensionless.  The floor `f32_max(1.0, flex_shrink * inner_flex_basis)` compares a LENGTH with the constant 1: when it
   is inactive the fraction is length / length (a pure number), when it is active the fraction is a length, and the second
   step multiplies it by the length `f32_max(1.0, flex_shrink) * inner_flex_basis` either way. *)
From TV Require Import Num.Num.

Section FlexFraction.
  Context {T : Type} `{Num T}.

  Definition fraction_of_diff (diff inner_flex_basis flex_grow flex_shrink : T) : T :=
    if gtb diff zero then div diff (fmax one flex_grow)
    else if ltb diff zero then div diff (fmax one (mul flex_shrink inner_flex_basis))
    else zero.

  Definition content_flex_fraction (content_contribution flex_basis inner_flex_basis flex_grow flex_shrink : T) : T :=
    fraction_of_diff (sub content_contribution flex_basis) inner_flex_basis flex_grow flex_shrink.

  Definition flex_contribution (inner_flex_basis flex_grow flex_shrink flex_fraction : T) : T :=
    if gtb flex_fraction zero then mul (fmax one flex_grow) flex_fraction
    else if ltb flex_fraction zero then mul (mul (fmax one flex_shrink) inner_flex_basis) flex_fraction
    else zero.

  (* the main size the item contributes to the container's min-/max-content size *)
  Definition item_target_size (content_contribution flex_basis inner_flex_basis flex_grow flex_shrink : T) : T :=
    add flex_basis
        (flex_contribution inner_flex_basis flex_grow flex_shrink
           (content_flex_fraction content_contribution flex_basis inner_flex_basis flex_grow flex_shrink)).
End FlexFraction.
