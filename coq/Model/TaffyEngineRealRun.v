(* Executable driver of the REAL-CACHE whole-tree correspondence of the COMPLETE engine: decodes a case printed by
   `vh taffytree cases <seed> <n> <start> <family> <maxnodes> real` or `vh taffytree chains ..` (same `C` line as the exact-key mode:
   Model/TaffyEngineRun.v), runs compute_root_layout + `trl_memo f32_seqb` (Model/TaffyEngineReal.v = the generic engine of
   Model/EngineReal.v with the real cache of src/tree/cache.rs, over `real_algo`) over the bit-exact F32 instance, starting from a fresh
   tree, once per pass on the same tree, and encodes what the harness prints after `R` (implementation run WITHOUT the exact-key hook):
   per pass, per node, pre-order: the 21 layout integers, then the number of compute_cached_layout calls on the node in that pass, the
   number of those answered by the cache, and the number of measure-function calls for the node.
   The model's output is preceded by two integers the implementation cannot observe: the number of LOSSY hits of the case (ghost) and
   the number of evaluations.  Markers as Model/TaffyEngineRun.v: [-1] out of fuel, [-3] the stand-in for a Rust panic was evaluated,
   [-4] the case does not decode. *)
From Coq Require Import ZArith NArith Bool List.
From TV Require Import Num.Num Num.F32 Model.Common Model.Leaf.
From TV Require Import Model.FlexAlgBase Model.BlockFlexEngine Model.GridAlg Model.TaffyEngine Model.TaffyRoot Model.TaffyKey.
From TV Require Import Model.EngineReal Model.TaffyEngineReal Model.TaffyEngineRun.
From TV Require Model.Engine.
Import ListNotations.
Open Scope Z_scope.

Definition enc_stats (n : stats) : list Z := [Z.of_N (n_query n); Z.of_N (n_hit n); Z.of_N (n_meas n)].

Fixpoint enc_nodes (ls : list (FLay f32)) (ns : list stats) : list Z :=
  match ls, ns with
  | l :: ls', n :: ns' => enc_layout l ++ enc_stats n ++ enc_nodes ls' ns'
  | _, _ => []
  end.

(* trees of `vh taffytree cases` are at most 5 levels deep, the chains of `vh taffytree chains` at most 17 *)
Definition REAL_FUEL : nat := 20.

Definition sumN (f : stats -> N) (ps : list (list (FLay f32) * list stats)) : Z :=
  Z.of_N (fold_right N.add 0%N (map (fun p => fold_right N.add 0%N (map f (snd p))) ps)).

Notation rtree32 := (trtree (T := f32)).

(* ---- has the model of a Rust panic been evaluated?  As Model/TaffyEngineRun.v: (a) the inputs still in the caches of grid containers
   after the passes are re-checked with grid_no_panic; (b) trees that can panic by construction are evaluated a second time with the
   TAINTED copy of the algorithm under the same real cache (the flag travels through every query; a measure entry keeps it: ghost) *)
Fixpoint rcache_panics (t : rtree32) : bool :=
  match t with
  | GNode _ _ _ s c _ _ kids =>
      let st := map (gstyle _ _ _) kids in
      (if t_is_none s then false
       else existsb (fun e => node_panics s st (re_in _ _ e)) (rentries _ _ c))
      || existsb rcache_panics kids
  end.

Definition tainted_memo_real :=
  memo_real (TStyle f32) (FIn f32) (LayoutOutput f32 * bool) (FLay f32) qi_mode t_is_none (output_HIDDEN, false) (f_with_order 0)
            tainted_algo (fun _ _ _ => 0%N) tkey_of (fun o => tosize (fst o)) (fun s => (t_from_outer s, false))
            (fin_eqb_with f32_seqb) (fun o => t_is_outer f32_seqb (fst o)).
(* the flag of a measure entry: `from_outer` above drops it, so a ComputeSize hit on a tainted entry would lose the taint; the entry's
   ghost output still has it: the final check looks at every entry left in every cache *)
Fixpoint rcache_tainted (t : gtree (TStyle f32) (FLay f32) (rcache (FIn f32) (LayoutOutput f32 * bool))) : bool :=
  match t with
  | GNode _ _ _ _ c _ _ kids => existsb (fun e => snd (re_out _ _ e)) (rentries _ _ c) || existsb rcache_tainted kids
  end.
Fixpoint tainted_passes_real (t : gtree (TStyle f32) (FLay f32) (rcache (FIn f32) (LayoutOutput f32 * bool)))
         (avails : list (Size (AvailableSpace f32))) : bool :=
  match avails with
  | [] => false
  | a :: rest =>
      match tainted_memo_real REAL_FUEL t (taffy_root_input (gstyle _ _ _ t) a) with
      | Some ((_, b), t') => b || rcache_tainted t' || tainted_passes_real t' rest
      | None => false
      end
  end.

Definition run_case_real (c : list Z) : list Z :=
  match c with
  | np :: rest0 =>
      let '(avails, rest) := dec_avails (Z.to_nat np) rest0 in
      match dec_tree REAL_FUEL rest with
      | Some (t, []) =>
          match trl_layout_passes f32_seqb REAL_FUEL t avails with
          | Some (ps, t') =>
              let res := sumN n_lossy ps :: sumN n_eval ps :: flat_map (fun p => enc_nodes (fst p) (snd p)) ps in
              if rcache_panics t' then [-3]
              else if may_panic t
                   then (if tainted_passes_real
                              (fresh_real (TStyle f32) (FIn f32) (LayoutOutput f32 * bool) (FLay f32) (f_with_order 0) t) avails
                         then [-3] else res)
                   else res
          | None => [-1]
          end
      | _ => [-4]
      end
  | _ => [-4]
  end.
