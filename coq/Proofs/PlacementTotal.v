(* Totality of grid placement on the domain: the size estimate covers every definite item (so the occupancy matrix is
   never asked to expand towards negative indices), no machine arithmetic overflows, no index is out of bounds, every
   search loop finishes within its fuel. *)
From Coq Require Import ZArith Bool List Lia Permutation.
From TV Require Import Model.PlacementBase Gen.PlacementGen Model.Placement
  Proofs.PlacementTables Proofs.PlacementMatrix Proofs.PlacementProofs.
Import ListNotations.
Open Scope Z_scope.

Ltac unfold_ops := unfold ozl_add_u16, ozl_sub_u16, i16_add, i16_sub, i16_neg, u16_add, u16_sub, usize_add, usize_mul in *.
Ltac ok_step :=
  first [ rewrite chk_i16_intro by lia | rewrite chk_u16_intro by lia | rewrite chk_usize_intro by lia
        | rewrite u16_as_i16_small by lia ]; cbn [bind].
Ltac ok_steps := unfold_ops; repeat ok_step.

(* ------------------------------------------------------------------ tables are total on the domain *)
Definition ozln (ln : Ln GP) (e : Z) : Ln GP := mkLn (ozp_spec (l_start ln) e) (ozp_spec (l_end ln) e).

Lemma into_origin_zero_line_total : forall l e, 0 <= e <= 64 -> -64 <= l <= 64 -> l <> 0 ->
  into_origin_zero_line l e = Ok (oz l e).
Proof.
  intros l e He Hl Hn. unfold into_origin_zero_line, oz. ok_steps.
  destruct (Z.compare_spec l 0); [lia| |]; destruct (Z.ltb_spec 0 l); try lia; ok_steps; f_equal; lia.
Qed.

Lemma into_origin_zero_placement_total : forall p e, 0 <= e <= 64 -> gp_ok p ->
  into_origin_zero_placement p e = Ok (ozp_spec p e).
Proof.
  intros [|l|s] e He Hp; simpl in *; auto.
  destruct (Z.eqb_spec l 0).
  - subst. reflexivity.
  - unfold into_origin_zero_placement. destruct l; [lia| |]; rewrite into_origin_zero_line_total by (auto; lia); reflexivity.
Qed.

Lemma into_origin_zero_total : forall ln e, 0 <= e <= 64 -> ln_ok ln -> into_origin_zero ln e = Ok (ozln ln e).
Proof.
  intros ln e He [Hs Ht]. unfold into_origin_zero. rewrite !into_origin_zero_placement_total by auto. reflexivity.
Qed.

(* what the estimate knows about one axis of one child *)
Definition axis_cover (ln : Ln GP) (e mn mx sp : Z) : Prop :=
  (is_definite ln = true -> exists r, resolve_definite_grid_lines (ozln ln e) = Ok r /\ mn <= l_start r /\ l_end r <= mx) /\
  (is_definite ln = false -> exists s, indefinite_span (ozln ln e) = Ok s /\ s <= sp).

Definition mms_bounds (mn mx sp : Z) : Prop := -127 <= mn <= 128 /\ -127 <= mx <= 192 /\ 1 <= sp <= 64.

Lemma child_mms_total : forall ln e, 0 <= e <= 64 -> ln_ok ln ->
  exists mn mx sp, child_min_line_max_line_span ln e = Ok (mn, mx, sp) /\ axis_cover ln e mn mx sp /\ mms_bounds mn mx sp.
Proof.
  intros ln e He Hln. unfold child_min_line_max_line_span. rewrite into_origin_zero_total by auto. cbn [bind].
  unfold axis_cover, mms_bounds. rewrite <- (is_definite_oz_spec ln e). fold (ozln ln e).
  assert (Hok : ozln_ok (ozln ln e)) by (destruct Hln; split; simpl; apply ozp_spec_ok; auto).
  destruct (ozln ln e) as [s t]. destruct Hok as [Hs Ht]. simpl in Hs, Ht.
  unfold is_definite_oz, resolve_definite_grid_lines, indefinite_span. simpl.
  destruct s as [|a|a], t as [|b|b]; simpl in *; ok_steps.
  all: try (destruct (Z.eqb_spec a b); ok_steps).
  all: do 3 eexists; (split; [reflexivity|]);
       (split; [split; intros; first [discriminate | eexists; split; [reflexivity|simpl; lia]]|]); lia.
Qed.

Lemma axis_cover_mono : forall ln e mn mx sp mn' mx' sp', axis_cover ln e mn mx sp -> mn' <= mn -> mx <= mx' -> sp <= sp' ->
  axis_cover ln e mn' mx' sp'.
Proof.
  intros ln e mn mx sp mn' mx' sp' [H1 H2] A B C. split.
  - intros Hd. destruct (H1 Hd) as [r [Hr [? ?]]]. exists r. split; auto. lia.
  - intros Hd. destruct (H2 Hd) as [s [Hs ?]]. exists s. split; auto. lia.
Qed.

Definition kp_cover (ec er : Z) (k : known_positions) (c : child) : Prop :=
  let '(cmin, cmax, cspan, rmin, rmax, rspan) := k in
  axis_cover (c_col c) ec cmin cmax cspan /\ axis_cover (c_row c) er rmin rmax rspan.

Definition kp_le (k k' : known_positions) : Prop :=
  let '(cmin, cmax, cspan, rmin, rmax, rspan) := k in
  let '(cmin', cmax', cspan', rmin', rmax', rspan') := k' in
  cmin' <= cmin /\ cmax <= cmax' /\ cspan <= cspan' /\ rmin' <= rmin /\ rmax <= rmax' /\ rspan <= rspan'.

Lemma known_positions_fold_total : forall ec er children k0, 0 <= ec <= 64 -> 0 <= er <= 64 -> Forall child_ok children -> kp_ok k0 ->
  exists k, foldM (fun '(col_min, col_max, col_max_span, row_min, row_max, row_max_span) c =>
           do '(child_col_min, child_col_max, child_col_span) <- child_min_line_max_line_span (c_col c) ec;
           do '(child_row_min, child_row_max, child_row_span) <- child_min_line_max_line_span (c_row c) er;
           Ok (Z.min col_min child_col_min, Z.max col_max child_col_max, Z.max col_max_span child_col_span,
               Z.min row_min child_row_min, Z.max row_max child_row_max, Z.max row_max_span child_row_span))
        children k0 = Ok k /\ kp_ok k /\ kp_le k0 k /\ Forall (kp_cover ec er k) children.
Proof.
  intros ec er children. induction children as [|c t IH]; intros k0 Hec Her Hch Hk0.
  - exists k0. simpl. split; auto. split; auto. split; [|constructor].
    destruct k0 as [[[[[a b] c] d] e] f]. unfold kp_le. lia.
  - inversion Hch as [|? ? [Hr Hc] Ht]; subst.
    destruct k0 as [[[[[cmin cmax] cspan] rmin] rmax] rspan]. simpl.
    destruct (child_mms_total (c_col c) ec Hec Hc) as (a1 & a2 & a3 & Ea & Ca & Ba). rewrite Ea. cbn [bind].
    destruct (child_mms_total (c_row c) er Her Hr) as (b1 & b2 & b3 & Eb & Cb & Bb). rewrite Eb. cbn [bind].
    unfold mms_bounds in *. unfold kp_ok in Hk0.
    destruct (IH (Z.min cmin a1, Z.max cmax a2, Z.max cspan a3, Z.min rmin b1, Z.max rmax b2, Z.max rspan b3) Hec Her Ht) as (k & Ek & Hk & Hle & Hcov).
    { unfold kp_ok. lia. }
    exists k. split; [exact Ek|]. split; [exact Hk|].
    destruct k as [[[[[cmin' cmax'] cspan'] rmin'] rmax'] rspan']. unfold kp_le in *. split; [lia|].
    constructor; auto. unfold kp_cover. split; eapply axis_cover_mono; eauto; lia.
Qed.

Lemma known_positions_total : forall ec er children, 0 <= ec <= 64 -> 0 <= er <= 64 -> Forall child_ok children ->
  exists k, get_known_child_positions children ec er = Ok k /\ kp_ok k /\ Forall (kp_cover ec er k) children.
Proof.
  intros ec er children Hec Her Hch. unfold get_known_child_positions.
  destruct (known_positions_fold_total ec er children (0, 0, 0, 0, 0, 0) Hec Her Hch) as (k & Ek & Hk & _ & Hcov).
  { unfold kp_ok. lia. }
  exists k. auto.
Qed.

(* one axis of the estimate: the counts cover [lmin, lmax] and are at least max_span long *)
Lemma estimate_axis_total : forall lmin lmax sp e, -127 <= lmin <= 0 -> 0 <= lmax <= 192 -> 0 <= sp <= 64 -> 0 <= e <= 64 ->
  exists tc, estimate_axis lmin lmax sp e = Ok tc /\
    tc_nonneg tc /\ tc_neg tc = - lmin /\ tc_explicit tc = e /\ lmax <= tc_explicit tc + tc_pos tc /\ sp <= tlen tc /\ tlen tc <= 400.
Proof.
  intros lmin lmax sp e H1 H2 H3 H4. unfold estimate_axis.
  unfold implied_negative_implicit_tracks, implied_positive_implicit_tracks, i16_unsigned_abs.
  set (ng := if lmin <? 0 then Z.abs lmin else 0).
  assert (Hng : ng = - lmin) by (unfold ng; destruct (Z.ltb_spec lmin 0); lia).
  rewrite u16_as_i16_small by lia.
  set (pi := if lmax >? e then lmax - e else 0).
  assert (Hpi : (if lmax >? e then u16_sub (i16_as_u16 lmax) e else Ok 0) = Ok pi).
  { unfold pi. destruct (Z.gtb_spec lmax e); auto. rewrite i16_as_u16_small by lia. ok_steps. reflexivity. }
  rewrite Hpi. cbn [bind]. assert (0 <= pi <= 192) by (unfold pi; destruct (Z.gtb_spec lmax e); lia).
  assert (lmax <= e + pi) by (unfold pi; destruct (Z.gtb_spec lmax e); lia).
  ok_steps. destruct (Z.ltb_spec (ng + e + pi) sp).
  - ok_steps. eexists. split; [reflexivity|]. unfold tc_nonneg, tlen. simpl. lia.
  - cbn [bind]. eexists. split; [reflexivity|]. unfold tc_nonneg, tlen. simpl. lia.
Qed.

Definition axis_fits (ln : Ln GP) (e : Z) (tc : TrackCounts) : Prop :=
  (is_definite ln = true -> exists r, resolve_definite_grid_lines (ozln ln e) = Ok r /\
                                      - tc_neg tc <= l_start r /\ l_end r <= tc_explicit tc + tc_pos tc) /\
  (is_definite ln = false -> exists s, indefinite_span (ozln ln e) = Ok s /\ s <= tlen tc).

(* estimate_covers: every child's definite area lies inside the estimated track range; every indefinite span fits *)
Theorem estimate_covers : forall ec er children, 0 <= ec <= 64 -> 0 <= er <= 64 -> Forall child_ok children ->
  exists cc rc, compute_grid_size_estimate ec er children = Ok (cc, rc) /\
    tc_nonneg cc /\ tc_neg cc <= 127 /\ tc_explicit cc = ec /\ tlen cc <= 400 /\
    tc_nonneg rc /\ tc_neg rc <= 127 /\ tc_explicit rc = er /\ tlen rc <= 400 /\
    Forall (fun c => axis_fits (c_col c) ec cc /\ axis_fits (c_row c) er rc) children.
Proof.
  intros ec er children Hec Her Hch. unfold compute_grid_size_estimate.
  destruct (known_positions_total ec er children Hec Her Hch) as (k & Ek & Hk & Hcov). rewrite Ek. cbn [bind].
  destruct k as [[[[[cmin cmax] cspan] rmin] rmax] rspan]. unfold kp_ok in Hk.
  destruct (estimate_axis_total cmin cmax cspan ec) as (cc & Ec & C1 & C2 & C3 & C4 & C5 & C6); try lia. rewrite Ec. cbn [bind].
  destruct (estimate_axis_total rmin rmax rspan er) as (rc & Er & R1 & R2 & R3 & R4 & R5 & R6); try lia. rewrite Er. cbn [bind].
  exists cc, rc. split; [reflexivity|]. repeat (split; [first [assumption | lia]|]).
  eapply Forall_impl; [|exact Hcov]. intros c [[Hc1 Hc2] [Hr1 Hr2]]. split; split.
  - intros Hd. destruct (Hc1 Hd) as [r [Hr [? ?]]]. exists r. split; auto. lia.
  - intros Hd. destruct (Hc2 Hd) as [s [Hs ?]]. exists s. split; auto. lia.
  - intros Hd. destruct (Hr1 Hd) as [r [Hr [? ?]]]. exists r. split; auto. lia.
  - intros Hd. destruct (Hr2 Hd) as [s [Hs ?]]. exists s. split; auto. lia.
Qed.
