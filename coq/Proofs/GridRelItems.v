(* The item contribution functions of the grid sizing phase (Model/GridAlg.v: GridItem::known_dimensions, available_space, min / max content
   contribution, minimum_contribution, the IntrisicSizeMeasurer wrappers, resolve_item_baselines, the re-run test) are relational: related
   items / tracks / sizes give programs in lockstep (Model/GridAlgRel.v `ProgRel`) with related results. *)
From Coq Require Import QArith Bool List ZArith Lia.
From TV Require Import Num.Num Num.QNum Model.Common Model.Leaf Gen.GridTracksGen Model.GridTracks Model.GridIntrinsic.
From TV Require Import Model.GridAlgBase Model.GridAlg Model.FlexAlgBase Model.FlexAlgRel Model.GridAlgRel.
From TV Require Import Model.Scale Model.ScaleGrid Model.Engine Model.EngineRel.
From TV Require Import Proofs.ScalePrim Proofs.ScaleKit Proofs.ScaleProofs Proofs.ScaleGrid Proofs.GridRelKit.
Import Model.GridAlg.   (* set_cache: the grid item's, not Model/Engine.v's *)
Import ListNotations.
Close Scope Z_scope.

Ltac gi_open H :=
  let H' := fresh in pose proof H as H';
  destruct H' as (?Egn & ?Hgst & ?Egl & ?Ega & ?Egj & ?Egix & ?Egxf & ?Egxi & ?Hgb & ?Hgsh & ?Hgc).
Ltac ws_open H :=
  let H' := fresh in pose proof H as H';
  destruct H' as (?Wdisp & ?Wpos & ?Wov & ?Wsw & ?War & ?Wmar & ?Wtc & ?Wtr & ?Wac & ?Warw & ?Wfl & ?Wgap & ?Wai & ?Wji & ?Walc & ?Wjc &
                  ?Wrow & ?Wcol & ?Wals & ?Wjs & ?Wrep & ?Wpre & ?Wdims & ?Wres & ?Wcaps & ?Wabs).
Ltac ic_open H :=
  let H' := fresh in pose proof H as H'; destruct H' as (?Hica & ?Hicmin & ?Hicminimum & ?Hicmax).
Ltac g_fields :=
  cbn [g_node g_style g_line g_align g_justify g_ix g_xflex g_xintr g_baseline g_shim g_cache ic_avail ic_min ic_minimum ic_max] in *.

(* a generic fact about the stable insertion sort: a comparison that cannot tell related elements apart sorts related lists alike *)
Section SortBy.
  Context {X : Type}.
  Variable R : X -> X -> Prop.
  Variables lt lt' : X -> X -> bool.
  Hypothesis Hlt : forall a a' b b', R a a' -> R b b' -> lt' a' b' = lt a b.
  Lemma rel_insert_by_items x x' l l' : R x x' -> Forall2 R l l' -> Forall2 R (insert_by lt x l) (insert_by lt' x' l').
  Proof.
    intros Hx Hl. induction Hl as [|y y' r r' Hy Hr IH]; cbn [insert_by].
    - constructor; [exact Hx|constructor].
    - rewrite (Hlt _ _ _ _ Hx Hy). destruct (lt x y).
      + constructor; [exact Hx|]. constructor; assumption.
      + constructor; assumption.
  Qed.
  Lemma rel_sort_by_items l l' : Forall2 R l l' -> Forall2 R (sort_by lt l) (sort_by lt' l').
  Proof.
    unfold sort_by. intros Hl. assert (Hnil : Forall2 R (@nil X) (@nil X)) by constructor. revert Hnil.
    generalize (@nil X) at 1 3. generalize (@nil X).
    induction Hl as [|y y' r r' Hy Hr IH]; intros acc' acc Hacc; cbn [fold_left].
    - exact Hacc.
    - apply IH. apply rel_insert_by_items; assumption.
  Qed.
End SortBy.

Section Items.
  Variable k : Q.
  Hypothesis Hk : (0 < k)%Q.
  Notation L := (sc k).
  Notation O := (op_rel (sc k)).
  Notation VI := (pair_rel (sc k) (gitem_rel k)).

  (* ---- setters *)
  Lemma rel_set_cache g g' c c' : gitem_rel k g g' -> icache_rel k c c' -> gitem_rel k (set_cache g c) (set_cache g' c').
  Proof. intros Hg Hc. gi_open Hg. unfold gitem_rel, set_cache. g_fields. do 10 (split; [assumption|]). assumption. Qed.
  Lemma rel_set_baseline g g' b b' : gitem_rel k g g' -> O b b' -> gitem_rel k (set_baseline g b) (set_baseline g' b').
  Proof. intros Hg Hc. gi_open Hg. unfold gitem_rel, set_baseline. g_fields. do 10 (split; [assumption|]). assumption. Qed.
  Lemma rel_set_shim g g' s s' : gitem_rel k g g' -> L s s' -> gitem_rel k (set_shim g s) (set_shim g' s').
  Proof. intros Hg Hc. gi_open Hg. unfold gitem_rel, set_shim. g_fields. do 10 (split; [assumption|]). assumption. Qed.
  Lemma rel_g_cache g g' : gitem_rel k g g' -> icache_rel k (g_cache g) (g_cache g').
  Proof. intros Hg. gi_open Hg. assumption. Qed.
  Lemma rel_set_ic_avail g g' a a' : gitem_rel k g g' -> op_rel (sz_rel O) a a' -> gitem_rel k (set_ic_avail g a) (set_ic_avail g' a').
  Proof.
    intros Hg Ha. unfold set_ic_avail. apply rel_set_cache; [exact Hg|]. apply rel_g_cache in Hg. ic_open Hg.
    unfold icache_rel. g_fields. repeat split; assumption || apply Hicmin || apply Hicminimum || apply Hicmax.
  Qed.
  Lemma rel_set_ic_min g g' ax v v' : gitem_rel k g g' -> O v v' -> gitem_rel k (set_ic_min g ax v) (set_ic_min g' ax v').
  Proof.
    intros Hg Ha. unfold set_ic_min. apply rel_set_cache; [exact Hg|]. apply rel_g_cache in Hg. ic_open Hg.
    unfold icache_rel. g_fields. split; [assumption|]. split; [apply rel_set_ax; assumption|]. split; assumption.
  Qed.
  Lemma rel_set_ic_minimum g g' ax v v' : gitem_rel k g g' -> O v v' -> gitem_rel k (set_ic_minimum g ax v) (set_ic_minimum g' ax v').
  Proof.
    intros Hg Ha. unfold set_ic_minimum. apply rel_set_cache; [exact Hg|]. apply rel_g_cache in Hg. ic_open Hg.
    unfold icache_rel. g_fields. split; [assumption|]. split; [assumption|]. split; [apply rel_set_ax; assumption|assumption].
  Qed.
  Lemma rel_set_ic_max g g' ax v v' : gitem_rel k g g' -> O v v' -> gitem_rel k (set_ic_max g ax v) (set_ic_max g' ax v').
  Proof.
    intros Hg Ha. unfold set_ic_max. apply rel_set_cache; [exact Hg|]. apply rel_g_cache in Hg. ic_open Hg.
    unfold icache_rel. g_fields. split; [assumption|]. split; [assumption|]. split; [assumption|apply rel_set_ax; assumption].
  Qed.
  Lemma rel_clear_axis_caches ax g g' : gitem_rel k g g' -> gitem_rel k (clear_axis_caches ax g) (clear_axis_caches ax g').
  Proof.
    intros Hg. unfold clear_axis_caches.
    apply rel_set_ic_minimum; [|exact I]. apply rel_set_ic_max; [|exact I]. apply rel_set_ic_min; [|exact I].
    apply rel_set_ic_avail; [exact Hg|exact I].
  Qed.

  (* ---- what Model/GridIntrinsic.v reads of an item is the same data *)
  Lemma view_rel ax g g' : gitem_rel k g g' -> view ax g' = view ax g.
  Proof.
    intros Hg. gi_open Hg. ws_open Hgst. unfold view, g_core. rewrite Egn, Egl, Egix, Egxf, Egxi, Wov. reflexivity.
  Qed.
  Lemma rel_g_scroll ax g g' : gitem_rel k g g' -> g_scroll ax g' = g_scroll ax g.
  Proof. intros Hg. gi_open Hg. ws_open Hgst. unfold g_scroll, g_core. rewrite Wov. reflexivity. Qed.

  Lemma rel_lpa_is_auto d d' : lpa_rel k d d' -> lpa_is_auto d' = lpa_is_auto d.
  Proof. destruct d, d'; cbn; intros; try contradiction; reflexivity. Qed.

  (* ---- 1. margins *)
  Lemma rel_item_margin_sums iw iw' g g' : O iw iw' -> gitem_rel k g g' -> sz_rel L (item_margin_sums iw g) (item_margin_sums iw' g').
  Proof.
    intros Hiw Hg. gi_open Hg. ws_open Hgst. unfold item_margin_sums, g_core. destruct Wmar as (Hml & Hmr & Hmt & Hmb).
    unfold_lifts. hm k Hk.
  Qed.
  (* ---- 2. GridItem::known_dimensions: the style's size / min_size / max_size enter only through `item_resolved` *)
  Definition ikd_rest (g : @GItem XQ) (inner area inherent mn mx : Size (option XQ)) : Size (option XQ) :=
    let c := g_core g in
    let margins := item_margin_sums (width inner) g in
    let ar := aspect_ratio c in
    let area_minus := size_maybe_sub_of area margins in
    let w := opt_or (width inherent)
                    (if negb (lpa_is_auto (r_left (margin c))) && negb (lpa_is_auto (r_right (margin c))) && ai_is_stretch (g_justify g)
                     then width area_minus else None) in
    let s1 := maybe_apply_aspect_ratio (mkSize w (height inherent)) ar in
    let h := opt_or (height s1)
                    (if negb (lpa_is_auto (r_top (margin c))) && negb (lpa_is_auto (r_bottom (margin c))) && ai_is_stretch (g_align g)
                     then height area_minus else None) in
    let s2 := maybe_apply_aspect_ratio (mkSize (width s1) h) ar in
    size_maybe_clamp_oo s2 mn mx.
  Lemma item_known_dimensions_unfold inner area (g : @GItem XQ) :
    item_known_dimensions inner area g =
    ikd_rest g inner area (fst (fst (item_resolved (g_core g) area))) (snd (fst (item_resolved (g_core g) area)))
             (snd (item_resolved (g_core g) area)).
  Proof. reflexivity. Qed.

  Lemma rel_item_resolved g g' ctx ctx' : gitem_rel k g g' -> sz_rel O ctx ctx' ->
    triple_rel k (item_resolved (g_core g) ctx) (item_resolved (g_core g') ctx').
  Proof. intros Hg Hc. gi_open Hg. ws_open Hgst. apply Wres. exact Hc. Qed.

  Lemma rel_item_known_dimensions inner inner' area area' g g' :
    sz_rel O inner inner' -> sz_rel O area area' -> gitem_rel k g g' ->
    sz_rel O (item_known_dimensions inner area g) (item_known_dimensions inner' area' g').
  Proof.
    intros Hin Har Hg. rewrite !item_known_dimensions_unfold.
    pose proof (rel_item_resolved g g' area area' Hg Har) as (Hinh & Hmn & Hmx).
    revert Hinh Hmn Hmx.
    generalize (fst (fst (item_resolved (g_core g) area))) (snd (fst (item_resolved (g_core g) area))) (snd (item_resolved (g_core g) area)).
    generalize (fst (fst (item_resolved (g_core g') area'))) (snd (fst (item_resolved (g_core g') area'))) (snd (item_resolved (g_core g') area')).
    intros inh' mn' mx' inh mn mx Hinh Hmn Hmx.
    pose proof (rel_item_margin_sums (width inner) (width inner') g g' (proj1 Hin) Hg) as Hms.
    gi_open Hg. ws_open Hgst. unfold ikd_rest, g_core. destruct Wmar as (Hml & Hmr & Hmt & Hmb).
    rewrite (rel_lpa_is_auto _ _ Hml), (rel_lpa_is_auto _ _ Hmr), (rel_lpa_is_auto _ _ Hmt), (rel_lpa_is_auto _ _ Hmb), Egj, Ega.
    revert Hms. generalize (item_margin_sums (width inner) g) (item_margin_sums (width inner') g'). intros ms ms' Hms.
    clear - Hk Hin Har Hinh Hmn Hmx Hms War.
    destruct (negb (lpa_is_auto (r_left _)) && _ && ai_is_stretch (g_justify g)), (negb (lpa_is_auto (r_top _)) && _ && ai_is_stretch (g_align g));
      unfold_lifts; hm k Hk.
  Qed.
  (* ---- 3. GridItem::available_space *)
  Lemma rel_all_some l l' : Forall2 O l l' -> op_rel (Forall2 L) (all_some l) (all_some l').
  Proof.
    induction 1 as [|o o' r r' Ho Hr IH]; cbn [all_some op_rel]; [constructor|].
    destruct o, o'; cbn [op_rel] in Ho; try contradiction; [|exact I].
    destruct (all_some r), (all_some r'); cbn [op_rel] in *; try contradiction; [|exact I]. constructor; assumption.
  Qed.
  Lemma rel_osum l l' : Forall2 O l l' -> O (osum l) (osum l').
  Proof.
    intros Hl. apply rel_all_some in Hl. unfold osum. destruct (all_some l), (all_some l'); cbn [op_rel option_map] in *; try contradiction; [|exact I].
    apply rel_fsum. exact Hl.
  Qed.
  Lemma rel_track_estimate fp t t' p p' : track_rel k t t' -> O p p' -> O (track_estimate fp t p) (track_estimate fp t' p').
  Proof.
    intros Ht Hp. track_open Ht. unfold track_estimate. destruct fp; [apply (rel_definite_value k Hk); assumption|exact Hbase].
  Qed.
  Lemma rel_adj_at a a' i : L a a' -> L (adj_at a i) (adj_at a' i).
  Proof. intros Ha. unfold adj_at. destruct (Nat.even i && Nat.leb 2 i); [exact Ha|apply sc_zero]. Qed.

  Definition ixtrack_rel (p p' : nat * track XQ) : Prop := fst p' = fst p /\ track_rel k (snd p) (snd p').
  Lemma rel_enum_from i ts ts' : tracks_rel k ts ts' -> Forall2 ixtrack_rel (enum_from i ts) (enum_from i ts').
  Proof.
    intros Hts. revert i. induction Hts as [|t t' r r' Ht Hr IH]; intros i; cbn [enum_from]; constructor; [split; [reflexivity|exact Ht]|apply IH].
  Qed.

  Lemma rel_item_available_space ax fp ot ot' oadj oadj' oav oav' g g' :
    tracks_rel k ot ot' -> L oadj oadj' -> O oav oav' -> gitem_rel k g g' ->
    sz_rel O (item_available_space ax fp ot oadj oav g) (item_available_space ax fp ot' oadj' oav' g').
  Proof.
    intros Hot Hadj Hav Hg. gi_open Hg. unfold item_available_space. rewrite Egix. destruct (get_ax (g_ix g) (other_ax ax)) as [s e].
    apply rel_set_ax; [apply rel_size_NONE|]. apply rel_osum.
    eapply rel_map; [|apply rel_firstn, rel_skipn, rel_enum_from; exact Hot].
    intros [i t] [i' t'] [Ei Ht]. cbn [fst snd] in Ei, Ht. subst i'.
    eapply rel_option_map; [apply rel_track_estimate; assumption|]. intros v v' Hv. apply sc_add; [exact Hv|apply rel_adj_at; exact Hadj].
  Qed.

  Lemma rel_space_avail d d' s s' : av_rel L d d' -> sz_rel O s s' -> sz_rel (av_rel L) (space_avail d s) (space_avail d' s').
  Proof.
    intros Hd [Hw Hh]. unfold space_avail, size_map, sz_rel. cbn [width height].
    split; [destruct (width s), (width s')|destruct (height s), (height s')]; cbn [op_rel] in *; try contradiction; assumption.
  Qed.
  (* ---- 4. GridItem::available_space_cached *)
  Lemma rel_avail_cached ax inner inner' fp ot ot' oadj oadj' g g' :
    sz_rel O inner inner' -> tracks_rel k ot ot' -> L oadj oadj' -> gitem_rel k g g' ->
    pair_rel (sz_rel O) (gitem_rel k) (avail_cached ax inner fp ot oadj g) (avail_cached ax inner' fp ot' oadj' g').
  Proof.
    intros Hin Hot Hadj Hg. unfold avail_cached. pose proof (rel_g_cache _ _ Hg) as Hc. ic_open Hc.
    destruct (ic_avail (g_cache g)) as [a|], (ic_avail (g_cache g')) as [a'|]; cbn [op_rel] in Hica; try contradiction.
    - split; cbn [fst snd]; assumption.
    - assert (Ha : sz_rel O (item_available_space ax fp ot oadj (get_ax inner (other_ax ax)) g)
                            (item_available_space ax fp ot' oadj' (get_ax inner' (other_ax ax)) g')).
      { apply rel_item_available_space; try assumption. apply rel_get_ax. exact Hin. }
      split; cbn [fst snd]; [exact Ha|]. apply rel_set_ic_avail; [exact Hg|exact Ha].
  Qed.

  (* ---- 5. min / max content contribution *)
  Lemma rel_min_content_contribution ax inner inner' g g' space space' :
    sz_rel O inner inner' -> gitem_rel k g g' -> sz_rel O space space' ->
    ProgRel k L (min_content_contribution ax inner g space) (min_content_contribution ax inner' g' space').
  Proof.
    intros Hin Hg Hsp. unfold min_content_contribution. gi_open Hg. rewrite Egn.
    constructor; [apply rel_item_known_dimensions; assumption|exact Hin|apply rel_space_avail; [exact I|exact Hsp]|].
    intros v v' Hv. constructor. exact Hv.
  Qed.
  Lemma rel_max_content_contribution ax inner inner' g g' space space' :
    sz_rel O inner inner' -> gitem_rel k g g' -> sz_rel O space space' ->
    ProgRel k L (max_content_contribution ax inner g space) (max_content_contribution ax inner' g' space').
  Proof.
    intros Hin Hg Hsp. unfold max_content_contribution. gi_open Hg. rewrite Egn.
    constructor; [apply rel_item_known_dimensions; assumption|exact Hin|apply rel_space_avail; [exact I|exact Hsp]|].
    intros v v' Hv. constructor. exact Hv.
  Qed.
  Lemma rel_min_content_contribution_cached ax inner inner' g g' space space' :
    sz_rel O inner inner' -> gitem_rel k g g' -> sz_rel O space space' ->
    ProgRel k VI (min_content_contribution_cached ax inner g space) (min_content_contribution_cached ax inner' g' space').
  Proof.
    intros Hin Hg Hsp. unfold min_content_contribution_cached. pose proof (rel_g_cache _ _ Hg) as Hc. ic_open Hc.
    pose proof (rel_get_ax _ _ _ ax Hicmin) as Hv.
    destruct (get_ax (ic_min (g_cache g)) ax) as [v|], (get_ax (ic_min (g_cache g')) ax) as [v'|]; cbn [op_rel] in Hv; try contradiction.
    - constructor. split; cbn [fst snd]; assumption.
    - eapply pbind_rel; [apply rel_min_content_contribution; eassumption|]. intros v v' Hvv. constructor.
      split; cbn [fst snd]; [exact Hvv|apply rel_set_ic_min; [exact Hg|exact Hvv]].
  Qed.
  Lemma rel_max_content_contribution_cached ax inner inner' g g' space space' :
    sz_rel O inner inner' -> gitem_rel k g g' -> sz_rel O space space' ->
    ProgRel k VI (max_content_contribution_cached ax inner g space) (max_content_contribution_cached ax inner' g' space').
  Proof.
    intros Hin Hg Hsp. unfold max_content_contribution_cached. pose proof (rel_g_cache _ _ Hg) as Hc. ic_open Hc.
    pose proof (rel_get_ax _ _ _ ax Hicmax) as Hv.
    destruct (get_ax (ic_max (g_cache g)) ax) as [v|], (get_ax (ic_max (g_cache g')) ax) as [v'|]; cbn [op_rel] in Hv; try contradiction.
    - constructor. split; cbn [fst snd]; assumption.
    - eapply pbind_rel; [apply rel_max_content_contribution; eassumption|]. intros v v' Hvv. constructor.
      split; cbn [fst snd]; [exact Hvv|apply rel_set_ic_max; [exact Hg|exact Hvv]].
  Qed.
  (* ---- 6. GridItem::minimum_contribution *)
  Lemma rel_spanned_fixed_track_limit inner inner' it ts ts' :
    O inner inner' -> tracks_rel k ts ts' -> O (spanned_fixed_track_limit inner it ts) (spanned_fixed_track_limit inner' it ts').
  Proof.
    intros Hin Hts. unfold spanned_fixed_track_limit, item_slice.
    pose proof (rel_slice k ts ts' (range_start it) (range_len it) Hts) as Hsl.
    revert Hsl. generalize (slice ts (range_start it) (range_len it)) (slice ts' (range_start it) (range_len it)). intros sl sl' Hsl.
    assert (Hdv : forall t t', track_rel k t t' -> O (definite_value inner (maxf t)) (definite_value inner' (maxf t'))).
    { intros t t' Ht. track_open Ht. apply (rel_definite_value k Hk); assumption. }
    rewrite (rel_forallb (track_rel k) (fun t => match definite_value inner (maxf t) with Some _ => true | None => false end)
                         (fun t => match definite_value inner' (maxf t) with Some _ => true | None => false end) sl sl'); [|..|exact Hsl].
    - destruct (forallb _ sl); [|exact I]. cbn [op_rel]. apply rel_fsum. eapply rel_map; [|exact Hsl].
      intros t t' Ht. specialize (Hdv t t' Ht). destruct (definite_value inner (maxf t)), (definite_value inner' (maxf t')); cbn [op_rel] in Hdv;
        try contradiction; [exact Hdv|apply sc_zero].
    - intros t t' Ht. specialize (Hdv t t' Ht). destruct (definite_value inner (maxf t)), (definite_value inner' (maxf t')); cbn [op_rel] in Hdv;
        try contradiction; reflexivity.
  Qed.

  Definition mc_rest (ax : GAxis) (inner : Size (option XQ)) (g : @GItem XQ) (tracks : list (track XQ)) (space : Size (option XQ))
             (from_size from_min : option XQ) (caps : option XQ * option XQ) : Prog (XQ * GItem) :=
    let c := g_core g in
    let from_overflow := if is_scroll_container (point_get_ax (overflow c) ax) then Some zero else None in
    pbind
      match opt_or from_size (opt_or from_min from_overflow) with
      | Some v => PRet (v, g)
      | None =>
          let spans_auto_min_track := existsb (fun t => is_auto (minf t)) tracks in
          let only_span_one_track := Nat.eqb (range_len (view ax g)) 1 in
          let spans_a_flexible_track := existsb (fun t => is_fr (maxf t)) tracks in
          if spans_auto_min_track && (only_span_one_track || negb spans_a_flexible_track) then
            pbind (min_content_contribution_cached ax inner g space)
                  (fun p => let '(mc, g1) := p in
                            PRet (if gs_replaced (g_style g) then maybe_min_fo (maybe_min_fo mc (fst caps)) (snd caps) else mc, g1))
          else PRet (zero, g)
      end
      (fun p => let '(sz, g1) := p in PRet (maybe_min_fo sz (spanned_fixed_track_limit (get_ax inner ax) (view ax g1) tracks), g1)).

  Lemma minimum_contribution_unfold ax inner (g : @GItem XQ) ts space :
    minimum_contribution ax inner g ts space =
    mc_rest ax inner g ts space (get_ax (fst (fst (item_resolved (g_core g) inner))) ax) (get_ax (snd (fst (item_resolved (g_core g) inner))) ax)
            (replaced_caps (g_core g) ax).
  Proof. reflexivity. Qed.
  Lemma rel_spans_auto ts ts' : tracks_rel k ts ts' -> existsb (fun t => is_auto (minf t)) ts' = existsb (fun t => is_auto (minf t)) ts.
  Proof. apply rel_existsb. intros t t' Ht. track_open Ht. apply (rel_is_auto k). exact Hmin. Qed.
  Lemma rel_spans_fr ts ts' : tracks_rel k ts ts' -> existsb (fun t => is_fr (maxf t)) ts' = existsb (fun t => is_fr (maxf t)) ts.
  Proof. apply rel_existsb. intros t t' Ht. track_open Ht. apply (rel_is_fr k). exact Hmax. Qed.

  Lemma rel_mc_rest ax inner inner' g g' ts ts' space space' fs fs' fm fm' caps caps' :
    sz_rel O inner inner' -> gitem_rel k g g' -> tracks_rel k ts ts' -> sz_rel O space space' -> O fs fs' -> O fm fm' ->
    (gs_replaced (g_style g) = true -> O (fst caps) (fst caps') /\ O (snd caps) (snd caps')) ->
    ProgRel k VI (mc_rest ax inner g ts space fs fm caps) (mc_rest ax inner' g' ts' space' fs' fm' caps').
  Proof.
    intros Hin Hg Hts Hsp Hfs Hfm Hcaps. unfold mc_rest. gi_open Hg. ws_open Hgst. unfold g_core. rewrite Wov, Wrep.
    rewrite (view_rel ax g g' Hg), (rel_spans_auto _ _ Hts), (rel_spans_fr _ _ Hts).
    eapply pbind_rel with (RA := VI).
    - assert (Ho : O (opt_or fs (opt_or fm (if is_scroll_container (point_get_ax (overflow (gs_core (g_style g))) ax) then Some zero else None)))
                     (opt_or fs' (opt_or fm' (if is_scroll_container (point_get_ax (overflow (gs_core (g_style g))) ax) then Some zero else None)))).
      { apply rel_opt_or; [exact Hfs|]. apply rel_opt_or; [exact Hfm|]. destruct (is_scroll_container _); [apply sc_zero|exact I]. }
      revert Ho. generalize (opt_or fs (opt_or fm (if is_scroll_container (point_get_ax (overflow (gs_core (g_style g))) ax) then Some zero else None))).
      generalize (opt_or fs' (opt_or fm' (if is_scroll_container (point_get_ax (overflow (gs_core (g_style g))) ax) then Some zero else None))).
      intros o' o Ho. destruct o as [v|], o' as [v'|]; cbn [op_rel] in Ho; try contradiction.
      + constructor. split; cbn [fst snd]; assumption.
      + destruct (existsb (fun t => is_auto (minf t)) ts && (Nat.eqb (range_len (view ax g)) 1 || negb (existsb (fun t => is_fr (maxf t)) ts))).
        * eapply pbind_rel; [apply rel_min_content_contribution_cached; eassumption|].
          intros [mc g1] [mc' g1'] [Hmc Hg1]. cbn [fst snd] in Hmc, Hg1. constructor. split; cbn [fst snd]; [|exact Hg1].
          destruct (gs_replaced (g_style g)); [|exact Hmc]. destruct (Hcaps eq_refl) as [Hc1 Hc2].
          apply (rel_maybe_min_fo k Hk); [apply (rel_maybe_min_fo k Hk)|]; assumption.
        * constructor. split; cbn [fst snd]; [apply sc_zero|exact Hg].
    - intros [sz g1] [sz' g1'] [Hsz Hg1]. cbn [fst snd] in Hsz, Hg1. constructor. split; cbn [fst snd]; [|exact Hg1].
      rewrite (view_rel ax g1 g1' Hg1). apply (rel_maybe_min_fo k Hk); [exact Hsz|].
      apply rel_spanned_fixed_track_limit; [apply rel_get_ax; exact Hin|exact Hts].
  Qed.

  Lemma rel_minimum_contribution ax inner inner' g g' ts ts' space space' :
    sz_rel O inner inner' -> gitem_rel k g g' -> tracks_rel k ts ts' -> sz_rel O space space' ->
    ProgRel k VI (minimum_contribution ax inner g ts space) (minimum_contribution ax inner' g' ts' space').
  Proof.
    intros Hin Hg Hts Hsp. rewrite !minimum_contribution_unfold.
    pose proof (rel_item_resolved g g' inner inner' Hg Hin) as (Hinh & Hmn & _).
    apply rel_mc_rest; try assumption; try (apply rel_get_ax; assumption).
    intros Hrep. gi_open Hg. ws_open Hgst. apply (Wcaps Hrep ax).
  Qed.

  Lemma rel_minimum_contribution_cached ax inner inner' g g' ts ts' space space' :
    sz_rel O inner inner' -> gitem_rel k g g' -> tracks_rel k ts ts' -> sz_rel O space space' ->
    ProgRel k VI (minimum_contribution_cached ax inner g ts space) (minimum_contribution_cached ax inner' g' ts' space').
  Proof.
    intros Hin Hg Hts Hsp. unfold minimum_contribution_cached. pose proof (rel_g_cache _ _ Hg) as Hc. ic_open Hc.
    pose proof (rel_get_ax _ _ _ ax Hicminimum) as Hv.
    destruct (get_ax (ic_minimum (g_cache g)) ax) as [v|], (get_ax (ic_minimum (g_cache g')) ax) as [v'|]; cbn [op_rel] in Hv; try contradiction.
    - constructor. split; cbn [fst snd]; assumption.
    - eapply pbind_rel; [apply rel_minimum_contribution; eassumption|]. intros [v g1] [v' g1'] [Hvv Hg1]. cbn [fst snd] in Hvv, Hg1. constructor.
      split; cbn [fst snd]; [exact Hvv|apply rel_set_ic_minimum; [exact Hg1|exact Hvv]].
  Qed.
  (* ---- 7. IntrisicSizeMeasurer *)
  Lemma rel_margin_ax ax inner inner' g g' : sz_rel O inner inner' -> gitem_rel k g g' -> L (margin_ax ax inner g) (margin_ax ax inner' g').
  Proof. intros Hin Hg. unfold margin_ax. apply rel_get_ax. apply rel_item_margin_sums; [apply Hin|exact Hg]. Qed.

  Lemma rel_m_min_content ax inner inner' fp ot ot' oadj oadj' g g' :
    sz_rel O inner inner' -> tracks_rel k ot ot' -> L oadj oadj' -> gitem_rel k g g' ->
    ProgRel k VI (m_min_content ax inner fp ot oadj g) (m_min_content ax inner' fp ot' oadj' g').
  Proof.
    intros Hin Hot Hadj Hg. unfold m_min_content.
    pose proof (rel_avail_cached ax inner inner' fp ot ot' oadj oadj' g g' Hin Hot Hadj Hg) as Hac.
    destruct (avail_cached ax inner fp ot oadj g) as [space g0], (avail_cached ax inner' fp ot' oadj' g') as [space' g0'].
    destruct Hac as [Hsp Hg0]. cbn [fst snd] in Hsp, Hg0.
    eapply pbind_rel; [apply rel_min_content_contribution_cached; eassumption|].
    intros [v g1] [v' g1'] [Hv Hg1]. cbn [fst snd] in Hv, Hg1. constructor. split; cbn [fst snd]; [|exact Hg1].
    apply sc_add; [exact Hv|apply rel_margin_ax; assumption].
  Qed.
  Lemma rel_m_max_content ax inner inner' fp ot ot' oadj oadj' g g' :
    sz_rel O inner inner' -> tracks_rel k ot ot' -> L oadj oadj' -> gitem_rel k g g' ->
    ProgRel k VI (m_max_content ax inner fp ot oadj g) (m_max_content ax inner' fp ot' oadj' g').
  Proof.
    intros Hin Hot Hadj Hg. unfold m_max_content.
    pose proof (rel_avail_cached ax inner inner' fp ot ot' oadj oadj' g g' Hin Hot Hadj Hg) as Hac.
    destruct (avail_cached ax inner fp ot oadj g) as [space g0], (avail_cached ax inner' fp ot' oadj' g') as [space' g0'].
    destruct Hac as [Hsp Hg0]. cbn [fst snd] in Hsp, Hg0.
    eapply pbind_rel; [apply rel_max_content_contribution_cached; eassumption|].
    intros [v g1] [v' g1'] [Hv Hg1]. cbn [fst snd] in Hv, Hg1. constructor. split; cbn [fst snd]; [|exact Hg1].
    apply sc_add; [exact Hv|apply rel_margin_ax; assumption].
  Qed.
  Lemma rel_m_minimum ax inner inner' fp ot ot' oadj oadj' g g' ts ts' :
    sz_rel O inner inner' -> tracks_rel k ot ot' -> L oadj oadj' -> gitem_rel k g g' -> tracks_rel k ts ts' ->
    ProgRel k VI (m_minimum ax inner fp ot oadj g ts) (m_minimum ax inner' fp ot' oadj' g' ts').
  Proof.
    intros Hin Hot Hadj Hg Hts. unfold m_minimum.
    pose proof (rel_avail_cached ax inner inner' fp ot ot' oadj oadj' g g' Hin Hot Hadj Hg) as Hac.
    destruct (avail_cached ax inner fp ot oadj g) as [space g0], (avail_cached ax inner' fp ot' oadj' g') as [space' g0'].
    destruct Hac as [Hsp Hg0]. cbn [fst snd] in Hsp, Hg0.
    eapply pbind_rel; [apply rel_minimum_contribution_cached; eassumption|].
    intros [v g1] [v' g1'] [Hv Hg1]. cbn [fst snd] in Hv, Hg1. constructor. split; cbn [fst snd]; [|exact Hg1].
    apply sc_add; [exact Hv|apply rel_margin_ax; assumption].
  Qed.

  (* ---- 8. the minimum space of steps 2 and 3.1 *)
  Lemma rel_avail_is_intrinsic a a' : gavail_rel k a a' -> avail_is_intrinsic a' = avail_is_intrinsic a.
  Proof. destruct a, a'; cbn; intros; try contradiction; reflexivity. Qed.

  Lemma rel_m_intrinsic_minimum_space ax inner inner' avail avail' fp ot ot' oadj oadj' g g' ts ts' (limit limit' : @GItem XQ -> option XQ) :
    sz_rel O inner inner' -> gavail_rel k avail avail' -> tracks_rel k ot ot' -> L oadj oadj' -> gitem_rel k g g' -> tracks_rel k ts ts' ->
    (forall g g', gitem_rel k g g' -> O (limit g) (limit' g')) ->
    ProgRel k VI (m_intrinsic_minimum_space ax inner avail fp ot oadj g ts limit)
                 (m_intrinsic_minimum_space ax inner' avail' fp ot' oadj' g' ts' limit').
  Proof.
    intros Hin Hav Hot Hadj Hg Hts Hlim. unfold m_intrinsic_minimum_space.
    rewrite (rel_avail_is_intrinsic _ _ Hav), (rel_g_scroll ax g g' Hg).
    destruct (avail_is_intrinsic avail && negb (g_scroll ax g)); [|apply rel_m_minimum; assumption].
    eapply pbind_rel; [apply rel_m_minimum; eassumption|]. intros [mn g1] [mn' g1'] [Hmn Hg1]. cbn [fst snd] in Hmn, Hg1.
    eapply pbind_rel; [apply rel_m_min_content; eassumption|]. intros [mc g2] [mc' g2'] [Hmc Hg2]. cbn [fst snd] in Hmc, Hg2.
    constructor. split; cbn [fst snd]; [|exact Hg2].
    apply (sc_max k); [exact Hk| |exact Hmn]. apply (rel_maybe_min_fo k Hk); [exact Hmc|apply Hlim; exact Hg2].
  Qed.
  (* ---- 9. expand_flexible_tracks: the items crossing a flexible track *)
  Lemma rel_m_flex_items ax inner inner' a a' items items' :
    sz_rel O inner inner' -> gavail_rel k a a' -> Forall2 (gitem_rel k) items items' ->
    ProgRel k (pair_rel (Forall2 (fitem_rel k)) (Forall2 (gitem_rel k))) (m_flex_items ax inner a items) (m_flex_items ax inner' a' items').
  Proof.
    intros Hin Ha Hit. unfold m_flex_items.
    destruct a, a'; cbn [gavail_rel] in Ha; try contradiction; try (constructor; split; cbn [fst snd]; [constructor|exact Hit]).
    eapply pbind_rel with (RA := pair_rel (Forall2 (fitem_rel k)) (Forall2 (gitem_rel k))).
    - apply pmap_acc_rel with (RS := Forall2 (fitem_rel k)) (RX := gitem_rel k); [|exact Hit|constructor].
      intros acc acc' g g' Hacc Hg. gi_open Hg. rewrite Egxf. destruct (get_ax (g_xflex g) ax).
      + eapply pbind_rel; [apply rel_max_content_contribution_cached; [exact Hin|exact Hg|apply rel_size_NONE]|].
        intros [v g1] [v' g1'] [Hv Hg1]. cbn [fst snd] in Hv, Hg1. constructor. split; cbn [fst snd]; [|exact Hg1].
        apply rel_app; [exact Hacc|]. constructor; [|constructor]. rewrite (view_rel ax g1 g1' Hg1). split; cbn [fst snd]; [reflexivity|exact Hv].
      + constructor. split; cbn [fst snd]; assumption.
    - intros [acc its] [acc' its'] [Hacc Hits]. cbn [fst snd] in Hacc, Hits. constructor. split; cbn [fst snd]; assumption.
  Qed.

  (* ---- 10. the re-run test *)
  Lemma rel_opt_eqb a a' b b' : O a a' -> O b b' -> opt_eqb a' b' = opt_eqb a b.
  Proof.
    destruct a, a', b, b'; cbn [op_rel opt_eqb]; intros Ha Hb; try contradiction; try reflexivity. apply (sc_eqb k); assumption.
  Qed.

  Lemma rel_m_rerun_any ax inner inner' ot ot' oadj oadj' items items' :
    sz_rel O inner inner' -> tracks_rel k ot ot' -> L oadj oadj' -> Forall2 (gitem_rel k) items items' ->
    ProgRel k (pair_rel eq (Forall2 (gitem_rel k))) (m_rerun_any ax inner ot oadj items) (m_rerun_any ax inner' ot' oadj' items').
  Proof.
    intros Hin Hot Hadj Hit. induction Hit as [|g g' r r' Hg Hr IH]; cbn [m_rerun_any].
    - constructor. split; cbn [fst snd]; [reflexivity|constructor].
    - gi_open Hg. rewrite Egxi. destruct (width (g_xintr g)).
      + assert (Hsp : sz_rel O (item_available_space ax false ot oadj (get_ax inner (other_ax ax)) g)
                               (item_available_space ax false ot' oadj' (get_ax inner' (other_ax ax)) g')).
        { apply rel_item_available_space; try assumption. apply rel_get_ax. exact Hin. }
        revert Hsp. generalize (item_available_space ax false ot oadj (get_ax inner (other_ax ax)) g)
                               (item_available_space ax false ot' oadj' (get_ax inner' (other_ax ax)) g'). intros space space' Hsp.
        eapply pbind_rel; [apply rel_min_content_contribution; eassumption|]. intros v v' Hv.
        assert (Hg1 : gitem_rel k (set_ic_minimum (set_ic_max (set_ic_min (set_ic_avail g (Some space)) ax (Some v)) ax None) ax None)
                                  (set_ic_minimum (set_ic_max (set_ic_min (set_ic_avail g' (Some space')) ax (Some v')) ax None) ax None)).
        { apply rel_set_ic_minimum; [|exact I]. apply rel_set_ic_max; [|exact I]. apply rel_set_ic_min; [|exact Hv].
          apply rel_set_ic_avail; [exact Hg|exact Hsp]. }
        ic_open Hgc.
        rewrite (rel_opt_eqb (Some v) (Some v') (get_ax (ic_min (g_cache g)) ax) (get_ax (ic_min (g_cache g')) ax));
          [|exact Hv|apply rel_get_ax; exact Hicmin].
        destruct (negb (opt_eqb (Some v) (get_ax (ic_min (g_cache g)) ax))).
        * constructor. split; cbn [fst snd]; [reflexivity|constructor; assumption].
        * eapply pbind_rel; [exact IH|]. intros [b r1] [b' r1'] [Hb Hr1]. cbn [fst snd] in Hb, Hr1. constructor.
          split; cbn [fst snd]; [exact Hb|constructor; assumption].
      + eapply pbind_rel; [exact IH|]. intros [b r1] [b' r1'] [Hb Hr1]. cbn [fst snd] in Hb, Hr1. constructor.
        split; cbn [fst snd]; [exact Hb|constructor; assumption].
  Qed.
  (* ---- 11. resolve_item_baselines *)
  Lemma rel_take_row st l l' : Forall2 (gitem_rel k) l l' ->
    pair_rel (Forall2 (gitem_rel k)) (Forall2 (gitem_rel k)) (take_row st l) (take_row st l').
  Proof.
    induction 1 as [|g g' r r' Hg Hr IH]; cbn [take_row].
    - split; constructor.
    - gi_open Hg. rewrite Egl. destruct (Z.eqb _ st).
      + destruct (take_row st r) as [a b], (take_row st r') as [a' b']. destruct IH as [Ha Hb]. cbn [fst snd] in *.
        split; cbn [fst snd]; [constructor; assumption|exact Hb].
      + split; cbn [fst snd]; constructor; assumption.
  Qed.

  Lemma rel_m_baseline_row inner inner' row row' :
    sz_rel O inner inner' -> Forall2 (gitem_rel k) row row' -> ProgRel k (Forall2 (gitem_rel k)) (m_baseline_row inner row) (m_baseline_row inner' row').
  Proof.
    intros Hin Hrow. unfold m_baseline_row.
    rewrite (rel_length (gitem_rel k) _ _ (rel_filter (gitem_rel k) (fun g => ai_is_baseline (g_align g)) (fun g => ai_is_baseline (g_align g)) row row'
               (fun g g' Hg => match Hg with conj _ (conj _ (conj _ (conj Ega _))) => f_equal ai_is_baseline Ega end) Hrow)).
    destruct (Nat.leb _ 1); [constructor; exact Hrow|].
    eapply pbind_rel with (RA := pair_rel (fun _ _ : unit => True) (Forall2 (gitem_rel k))).
    - apply pmap_acc_rel with (RS := fun _ _ : unit => True) (RX := gitem_rel k); [|exact Hrow|exact I].
      intros u u' g g' _ Hg. gi_open Hg. ws_open Hgst. rewrite Egn. constructor; [exact Hin|]. intros h h' b b' Hh Hb.
      constructor. split; cbn [fst snd]; [exact I|]. apply rel_set_baseline; [exact Hg|]. cbn [op_rel].
      apply sc_add; [apply rel_opt_unwrap_or; assumption|]. apply (rel_resolve_or_zero_lpa k Hk); [apply Wmar|apply Hin].
    - intros [u row1] [u' row1'] [_ Hrow1]. cbn [fst snd] in Hrow1. constructor.
      assert (Hmx : L (max_by_last (map (fun g => opt_unwrap_or (g_baseline g) zero) row1))
                      (max_by_last (map (fun g => opt_unwrap_or (g_baseline g) zero) row1'))).
      { first [apply (rel_max_by_last k Hk)|apply (rel_max_by_last k)]. eapply rel_map; [|exact Hrow1].
        intros g g' Hg. gi_open Hg. apply rel_opt_unwrap_or; [exact Hgb|apply sc_zero]. }
      revert Hmx. generalize (max_by_last (map (fun g => opt_unwrap_or (g_baseline g) zero) row1))
                             (max_by_last (map (fun g => opt_unwrap_or (g_baseline g) zero) row1')). intros mx mx' Hmx.
      eapply rel_map; [|exact Hrow1]. intros g g' Hg. apply rel_set_shim; [exact Hg|]. gi_open Hg.
      apply sc_sub; [exact Hmx|]. apply rel_opt_unwrap_or; [exact Hgb|apply sc_zero].
  Qed.

  Lemma rel_m_baseline_rows fuel inner inner' l l' :
    sz_rel O inner inner' -> Forall2 (gitem_rel k) l l' -> ProgRel k (Forall2 (gitem_rel k)) (m_baseline_rows fuel inner l) (m_baseline_rows fuel inner' l').
  Proof.
    intros Hin. revert l l'. induction fuel as [|f IH]; intros l l' Hl.
    - cbn [m_baseline_rows]. constructor. exact Hl.
    - destruct Hl as [|g g' r r' Hg Hr].
      + cbn [m_baseline_rows]. constructor. constructor.
      + change (m_baseline_rows (S f) inner (g :: r)) with
          (let '(row, rest) := take_row (PlacementBase.l_start (get_ax (g_line g) Block)) (g :: r) in
           pbind (m_baseline_row inner row) (fun row' => pbind (m_baseline_rows f inner rest) (fun rest' => PRet (row' ++ rest')))).
        change (m_baseline_rows (S f) inner' (g' :: r')) with
          (let '(row, rest) := take_row (PlacementBase.l_start (get_ax (g_line g') Block)) (g' :: r') in
           pbind (m_baseline_row inner' row) (fun row' => pbind (m_baseline_rows f inner' rest) (fun rest' => PRet (row' ++ rest')))).
        assert (Hgr : Forall2 (gitem_rel k) (g :: r) (g' :: r')) by (constructor; assumption).
        gi_open Hg. rewrite Egl.
        pose proof (rel_take_row (PlacementBase.l_start (get_ax (g_line g) Block)) _ _ Hgr) as Htr.
        destruct (take_row _ (g :: r)) as [row rest], (take_row _ (g' :: r')) as [row' rest']. destruct Htr as [Hrow Hrest]. cbn [fst snd] in Hrow, Hrest.
        eapply pbind_rel; [apply rel_m_baseline_row; eassumption|]. intros row1 row1' Hrow1.
        eapply pbind_rel; [apply IH; exact Hrest|]. intros rest1 rest1' Hrest1. constructor. apply rel_app; assumption.
  Qed.

  Lemma rel_m_resolve_item_baselines inner inner' items items' :
    sz_rel O inner inner' -> Forall2 (gitem_rel k) items items' ->
    ProgRel k (Forall2 (gitem_rel k)) (m_resolve_item_baselines inner items) (m_resolve_item_baselines inner' items').
  Proof.
    intros Hin Hit. unfold m_resolve_item_baselines.
    assert (Hs : Forall2 (gitem_rel k)
                   (sort_by (fun a b : @GItem XQ => Z.ltb (PlacementBase.l_start (get_ax (g_line a) Block)) (PlacementBase.l_start (get_ax (g_line b) Block))) items)
                   (sort_by (fun a b : @GItem XQ => Z.ltb (PlacementBase.l_start (get_ax (g_line a) Block)) (PlacementBase.l_start (get_ax (g_line b) Block))) items')).
    { apply rel_sort_by_items; [|exact Hit]. intros a a' b b' Ha Hb. gi_open Ha. gi_open Hb. rewrite Egl, Egl0. reflexivity. }
    rewrite (rel_length _ _ _ Hs). apply rel_m_baseline_rows; assumption.
  Qed.
End Items.
