(* C11 correspondence runner: decodes one harness case (the 88 `C` integers of harness/src/c11.rs followed by the 12
   container integers of the `R` line: size w h, border l r t b, padding l r t b, scrollbar_size w h) and evaluates the
   SAME kernels the theorems are about (Model.AbsPos abs_*_style = generated resolve + child stages) over F32.
   The container's size / border / padding / scrollbar_size are taken from the implementation's own result: the kernel
   under test is the placement of the absolute child, not the sizing of the container.
   The measured size of the child is computed by `leaf_measure`, a transcription of compute_leaf_layout (leaf.rs) for
   RunMode::PerformLayout and a measure function that returns a fixed size; the block algorithm calls it with
   SizingMode::ContentSize, flex and grid with InherentSize.  Output: location x y, size w h, margin l r t b. *)
From Coq Require Import ZArith NArith QArith Bool List.
From TV Require Import Num.Num Num.F32 Gen.AbsPosEnums Model.AbsPosBase Gen.AbsPosGen Model.AbsPos.
Import ListNotations.
Open Scope Z_scope.

Section Leaf.
  Context {T : Type} `{Num T}.
  Definition leaf_measure (inherent : bool) (parent : Size (option T)) (st : AbsStyle T) (mw mh : T)
      (known : Size (option T)) : Size T :=
    let padding := rect_map (fun d => dim_resolve_or_zero d (s_width parent)) (st_padding st) in
    let border := rect_map (fun d => dim_resolve_or_zero d (s_width parent)) (st_border st) in
    let padding_border := rect_add padding border in
    let pb_sum := rect_sum_axes padding_border in
    let bsa := if BoxSizing_eqb (st_box_sizing st) BS_ContentBox then pb_sum else size_zero in
    let none2 : Size (option T) := mkSize None None in
    let '(node_size, node_min, node_max, aspect) :=
      if inherent then
        let aspect := st_aspect_ratio st in
        let style_size := size_zip2 maybe_add_OF (size_maybe_apply_aspect_ratio (size_zip2 dim_maybe_resolve (st_size st) parent) aspect) bsa in
        let style_min := size_zip2 maybe_add_OF (size_maybe_apply_aspect_ratio (size_zip2 dim_maybe_resolve (st_min_size st) parent) aspect) bsa in
        let style_max := size_zip2 maybe_add_OF (size_zip2 dim_maybe_resolve (st_max_size st) parent) bsa in
        (size_or known style_size, style_min, style_max, aspect)
      else (known, none2, none2, None) in
    (* content_box_inset = padding_border; .right += scrollbar_gutter.x (0.0: the child does not scroll); .bottom += 0.0 *)
    let cbi := mkRect (r_left padding_border) (add (r_right padding_border) zero) (r_top padding_border) (add (r_bottom padding_border) zero) in
    let measured := mkSize mw mh in
    let clamped := size_zip3 maybe_clamp_FOO (size_unwrap_or (size_or known node_size) (size_add measured (rect_sum_axes cbi))) node_min node_max in
    let size := mkSize (s_width clamped)
                       (fmax (s_height clamped) (opt_unwrap_or (option_map (fun r => div (s_width clamped) r) aspect) zero)) in
    size_zip2 maybe_max_FO size (size_map Some pb_sum).
End Leaf.

Definition nz (l : list Z) (i : nat) : Z := nth i l 0.
Definition fb (l : list Z) (i : nat) : f32 := f_of_bits (nz l i).
Definition dimv (l : list Z) (i : nat) : Dim f32 :=
  match nz l i with 0 => DAuto | 1 => DLength (fb l (S i)) | _ => DPercent (fb l (S i)) end.
Definition dim2 (l : list Z) (i : nat) : Size (Dim f32) := mkSize (dimv l i) (dimv l (i + 2)).
Definition dim4 (l : list Z) (i : nat) : Rect (Dim f32) := mkRect (dimv l i) (dimv l (i + 2)) (dimv l (i + 4)) (dimv l (i + 6)).
Definition ai_of (z : Z) : option AlignItems :=
  match z with
  | 0 => Some AI_Start | 1 => Some AI_End | 2 => Some AI_FlexStart | 3 => Some AI_FlexEnd | 4 => Some AI_Center
  | 5 => Some AI_Baseline | 6 => Some AI_Stretch | _ => None
  end.
Definition ac_of (z : Z) : option AlignContent :=
  match z with
  | 0 => Some AC_Start | 1 => Some AC_End | 2 => Some AC_FlexStart | 3 => Some AC_FlexEnd | 4 => Some AC_Center
  | 5 => Some AC_Stretch | 6 => Some AC_SpaceBetween | 7 => Some AC_SpaceEvenly | 8 => Some AC_SpaceAround | _ => None
  end.
Definition dir_of (z : Z) : FlexDirection :=
  match z with 0 => FD_Row | 1 => FD_Column | 2 => FD_RowReverse | _ => FD_ColumnReverse end.

Definition child_style (l : list Z) : AbsStyle f32 :=
  mkAbsStyle (dim2 l 58) (dim2 l 62) (dim2 l 66) (dim4 l 42) (dim4 l 50) (dim4 l 70) (dim4 l 78)
             (if nz l 38 =? 1 then Some (fb l 39) else None)
             (if nz l 37 =? 1 then BS_ContentBox else BS_BorderBox)
             (ai_of (nz l 40)) (ai_of (nz l 41)) Pos_Absolute.

Definition container (l : list Z) : Container :=
  mkContainer (mkSize (fb l 88) (fb l 89)) (mkRect (fb l 90) (fb l 91) (fb l 92) (fb l 93))
              (mkRect (fb l 94) (fb l 95) (fb l 96) (fb l 97)) (mkPoint (fb l 98) (fb l 99)).

Definition some2 (s : Size f32) : Size (option f32) := size_map Some s.

Definition run_abs (l : list Z) : AbsOut f32 :=
  let ct := container l in
  let st := child_style l in
  let mw := fb l 86 in
  let mh := fb l 87 in
  match nz l 0 with
  | 0 =>
      (* static position (block.rs perform_final_layout_on_in_flow_children): x = resolved_content_box_inset.left,
         y = y_offset_for_absolute; the optional in-flow sibling before the child has a definite height, no margins and
         cannot be collapsed through: committed_y_offset = top + (h + 0.0), y_offset_for_absolute = committed + 0.0 *)
      let cbi_left := add (add (r_left (ct_padding ct)) (r_left (ct_border ct))) zero in
      let cbi_top := add (add (r_top (ct_padding ct)) (r_top (ct_border ct))) zero in
      let sy := if nz l 34 =? 1 then add (add cbi_top (add (fb l 36) zero)) zero else cbi_top in
      let area := fst (block_area ct) in
      abs_block_style ct (mkPoint cbi_left sy) st (leaf_measure false (some2 area) st mw mh)
  | 1 =>
      let c := flex_constants ct (dir_of (nz l 1)) (nz l 2 =? 2) (ac_of (nz l 3))
                              (match ai_of (nz l 4) with Some a => a | None => AI_Stretch end) in
      (* parent size of the leaf = constants.node_inner_size; the generator keeps every value that would be resolved
         against it (percentage padding/border, percentage min/max on an axis whose size is not known) out of flex cases *)
      abs_flex_style c st (leaf_measure true (mkSize None None) st mw mh)
  | _ =>
      let ga := grid_area_of ct in
      let gas := mkSize (sub (r_right ga) (r_left ga)) (sub (r_bottom ga) (r_top ga)) in
      abs_grid_style ct (ai_of (nz l 5)) (ai_of (nz l 4)) st (leaf_measure true (some2 gas) st mw mh)
  end.

Definition run_case (l : list Z) : list Z :=
  let o := run_abs l in
  [f_to_bits (p_x (o_location o)); f_to_bits (p_y (o_location o)); f_to_bits (s_width (o_size o)); f_to_bits (s_height (o_size o));
   f_to_bits (r_left (o_margin o)); f_to_bits (r_right (o_margin o)); f_to_bits (r_top (o_margin o)); f_to_bits (r_bottom (o_margin o))].
