(* C12 for the flexbox ALGORITHM: the content-box -> border-box rewrite of an eligible style (Model/FlexBoxSizing.v) is invisible to every
   resolution the flex algorithm performs on a style -- its own or a child's --, i.e. it implies the weak relation `fstyle_wrel 1`
   (Model/FlexAlgRel.v) that the relational theorem about the resumption (Proofs/FlexRelFinal.v flex_alg_t_rel) needs.  This is the Gallina
   form of the flexbox entries of the site table (Gen/BoxSizingSites.v: compute_flexbox_layout, compute_constants,
   generate_anonymous_flex_items, determine_flex_base_size [flex_basis, main axis], determine_used_cross_size,
   perform_absolute_layout_on_absolute_children), proved against the model instead of checked syntactically on the source.

   Method: for each site X, (1) X is relational at k = 1 for the SAME style and arguments equal as numbers (Proofs/FlexStyleRel.v at k = 1), and
   (2) X of the rewritten style is X of the original at the same arguments, up to the equality of rationals -- the idiom
   `resolve(l) + (padding+border)  ==  resolve(l + (padding+border)) + 0` (idiom_rmm), per site with the site's own way of summing
   padding and border; (1) and (2) compose by transitivity.  Then flex_alg_box_sizing_blind. *)
From Coq Require Import QArith Qabs Lqa Bool List ZArith Lia.
From TV Require Import Num.Num Num.QNum Model.Common Model.Leaf Model.Root Model.BoxSizing Gen.FlexGen Model.Flex Model.FlexLines Model.FlexBase Model.FlexContainer.
From TV Require Import Model.FiltersBase Gen.FiltersGen Model.ItemFilters Model.FlexAlgBase Model.FlexAlgAbs Model.FlexAlg Model.FlexAlgT Model.FlexBoxSizing.
From TV Require Import Model.Scale Model.ScaleFlex Model.Engine Model.EngineRel Model.FlexAlgRel.
From TV Require Model.AbsPosBase Gen.AbsPosEnums Gen.AbsPosGen Model.ScaleAbs Proofs.ScaleAbsProofs Model.BoxSizingAbs Proofs.BoxSizingAbsProofs Proofs.LeafAxis.
From TV Require Import Proofs.ScaleProofs Proofs.ScaleKit Proofs.BoxSizingProofs Proofs.FlexStyleRel Proofs.FlexRelFinal Proofs.FlexHomog.
Import ListNotations.
Close Scope Z_scope.

(* ------------------------------------------------------------------------------------------------ k = 1: equal as numbers *)
Lemma s1_iff a a' : sc 1 a a' <-> xeq a' a.
Proof. split; [exact (proj2 (dl_sc1 a a'))|exact (proj1 (dl_sc1 a a'))]. Qed.
Lemma s1_refl x : sc 1 x x.
Proof. apply (proj1 (dl_sc1 x x)). apply dl_refl. Qed.
Lemma s1_trans a b c : sc 1 a b -> sc 1 b c -> sc 1 a c.
Proof. intros H1 H2. apply (proj1 (dl_sc1 a c)). eapply dl_trans; [exact (proj2 (dl_sc1 a b) H1)|exact (proj2 (dl_sc1 b c) H2)]. Qed.
Lemma o1_refl o : op_rel (sc 1) o o.
Proof. destruct o; cbn; [apply s1_refl|exact I]. Qed.
Lemma o1_trans a b c : op_rel (sc 1) a b -> op_rel (sc 1) b c -> op_rel (sc 1) a c.
Proof. destruct a, b, c; cbn; try tauto. apply s1_trans. Qed.
Lemma odl_refl o : op_rel dl o o.
Proof. destruct o; cbn; [apply dl_refl|exact I]. Qed.
Lemma a1_refl a : av_rel (sc 1) a a.
Proof. destruct a; cbn; [apply s1_refl|exact I|exact I]. Qed.
Lemma a1_trans a b c : av_rel (sc 1) a b -> av_rel (sc 1) b c -> av_rel (sc 1) a c.
Proof. destruct a, b, c; cbn; try tauto. apply s1_trans. Qed.
Lemma sz_refl {X} (R : X -> X -> Prop) s : (forall x, R x x) -> sz_rel R s s.
Proof. intros H. split; apply H. Qed.
Lemma rc_refl {X} (R : X -> X -> Prop) r : (forall x, R x x) -> rc_rel R r r.
Proof. intros H. repeat split; apply H. Qed.
Lemma pt_refl {X} (R : X -> X -> Prop) p : (forall x, R x x) -> pt_rel R p p.
Proof. intros H. split; apply H. Qed.
Lemma sz_trans {X} (R : X -> X -> Prop) a b c : (forall x y z, R x y -> R y z -> R x z) -> sz_rel R a b -> sz_rel R b c -> sz_rel R a c.
Proof. intros HR [A1 A2] [B1 B2]. split; eapply HR; eassumption. Qed.
Lemma rc_trans {X} (R : X -> X -> Prop) a b c : (forall x y z, R x y -> R y z -> R x z) -> rc_rel R a b -> rc_rel R b c -> rc_rel R a c.
Proof. intros HR (A1 & A2 & A3 & A4) (B1 & B2 & B3 & B4). repeat split; eapply HR; eassumption. Qed.
Lemma lpa1_refl d : lpa_rel 1 d d.
Proof. destruct d; cbn; [exact I|apply s1_refl|apply dl_refl]. Qed.
Lemma lp1_refl d : lp_rel 1 d d.
Proof. destruct d; cbn; [apply s1_refl|apply dl_refl]. Qed.

Lemma style_rel1_refl st : style_rel 1 st st.
Proof.
  unfold style_rel. repeat match goal with |- _ /\ _ => split end; try reflexivity; try apply s1_refl; try apply odl_refl;
    first [apply sz_refl; apply lpa1_refl | apply rc_refl; apply lpa1_refl | apply rc_refl; apply lp1_refl].
Qed.
Lemma fstyle_rel1_refl s : fstyle_rel 1 s s.
Proof.
  unfold fstyle_rel. repeat match goal with |- _ /\ _ => split end; try reflexivity; try apply dl_refl; try apply style_rel1_refl; try apply lpa1_refl;
    first [apply rc_refl; apply lpa1_refl | apply sz_refl; apply lp1_refl].
Qed.
Lemma fin_rel1_refl i : fin_rel 1 i i.
Proof.
  unfold fin_rel. repeat match goal with |- _ /\ _ => split end; try reflexivity; first [apply sz_refl; apply o1_refl|apply sz_refl; apply a1_refl].
Qed.

Lemma kconst_rel1_trans a b c : kconst_rel 1 a b -> kconst_rel 1 b c -> kconst_rel 1 a c.
Proof.
  intros (A1 & A2 & A3 & A4 & A5 & A6 & A7 & A8 & A9 & A10 & A11 & A12 & A13 & A14 & A15)
         (B1 & B2 & B3 & B4 & B5 & B6 & B7 & B8 & B9 & B10 & B11 & B12 & B13 & B14 & B15). unfold kconst_rel.
  repeat match goal with |- _ /\ _ => split end; try congruence;
    first [eapply (sz_trans (op_rel (sc 1))); [exact o1_trans|eassumption|eassumption]
          |eapply (rc_trans (sc 1)); [exact s1_trans|eassumption|eassumption]
          |eapply (sz_trans (sc 1)); [exact s1_trans|eassumption|eassumption]].
Qed.
Lemma ci_rel1_trans a b c : ci_rel 1 a b -> ci_rel 1 b c -> ci_rel 1 a c.
Proof.
  intros (A1 & A2 & A3 & A4 & A5 & A6 & A7 & A8) (B1 & B2 & B3 & B4 & B5 & B6 & B7 & B8). unfold ci_rel.
  repeat match goal with |- _ /\ _ => split end; try congruence;
    first [eapply (sz_trans (op_rel (sc 1))); [exact o1_trans|eassumption|eassumption]
          |eapply (rc_trans (sc 1)); [exact s1_trans|eassumption|eassumption]].
Qed.
Lemma benv_rel1_trans a b c : benv_rel 1 a b -> benv_rel 1 b c -> benv_rel 1 a c.
Proof.
  intros (A1 & A2 & A3 & A4) (B1 & B2 & B3 & B4). unfold benv_rel.
  split; [eapply a1_trans; eassumption|]. split; [eapply (sz_trans (op_rel (sc 1))); [exact o1_trans|eassumption|eassumption]|].
  split; [eapply (sz_trans (op_rel (sc 1))); [exact o1_trans|eassumption|eassumption]|eapply o1_trans; eassumption].
Qed.

(* ------------------------------------------------------------------------------------------------ the idiom *)
Lemma x_add_swap a b c d : xeq (x_add (x_add a b) (x_add c d)) (x_add (x_add a c) (x_add b d)).
Proof. destruct a, b, c, d; cbn; try exact I; ring. Qed.

Lemma idiom_rmm d p adj pb : size_forallb (@dim_not_percent XQ) d = true -> sz_rel (sc 1) adj pb ->
  sz_rel (op_rel (sc 1)) (resolved_min_max d p None adj) (resolved_min_max (grow_size pb d) p None size_ZERO).
Proof.
  destruct d as [w h]. unfold size_forallb. cbn [width height]. intros E [Hw Hh]. apply andb_prop in E. destruct E as [Ew Eh].
  unfold resolved_min_max, maybe_apply_aspect_ratio, size_maybe_add_of, size_maybe_resolve_dim, size_zip_map, grow_size, size_ZERO.
  cbn [width height].
  split; cbn [width height].
  - destruct w; try discriminate; cbn; [exact I|]. apply s1_iff. eapply xeq_trans; [apply x_add_zero|]. apply x_add_xeq; [destruct v; cbn; try exact I; reflexivity|].
    apply s1_iff. exact Hw.
  - destruct h; try discriminate; cbn; [exact I|]. apply s1_iff. eapply xeq_trans; [apply x_add_zero|]. apply x_add_xeq; [destruct v; cbn; try exact I; reflexivity|].
    apply s1_iff. exact Hh.
Qed.

(* ------------------------------------------------------------------------------------------------ the sites, at the same arguments *)
Section Invariance.
  Notation L := (sc 1).
  Notation O := (op_rel (sc 1)).
  Notation A := (av_rel (sc 1)).
  Variable row : bool.                         (* the direction of the PARENT of the rewritten node *)
  Variable s : FStyle XQ.
  Hypothesis El : f_eligibleb s = true.
  Notation tb := (f_to_border_box_in row s).
  Notation c := (fs_core s).

  Lemma el_core : eligible c.
  Proof. unfold f_eligibleb in El. apply andb_prop in El. exact (proj1 El). Qed.
  Lemma el_basis : dim_not_percent (fs_flex_basis s) = true.
  Proof. unfold f_eligibleb in El. apply andb_prop in El. exact (proj2 El). Qed.

  Lemma rect_lp_size_ctx (r : Rect (LengthPercentage XQ)) ctx : rect_forallb (@lp_is_length XQ) r = true ->
    rect_resolve_or_zero_lp_size r ctx = rect_resolve_or_zero_lp r None.
  Proof.
    unfold rect_forallb. intro E. repeat (apply andb_prop in E; let E2 := fresh "E" in destruct E as [E E2]).
    unfold rect_resolve_or_zero_lp_size, rect_resolve_or_zero_lp, rect_map.
    rewrite (lp_length_ctx (r_left r) (width ctx) None), (lp_length_ctx (r_right r) (width ctx) None), (lp_length_ctx (r_top r) (height ctx) None),
      (lp_length_ctx (r_bottom r) (height ctx) None) by assumption. reflexivity.
  Qed.

  (* the two ways the sites sum padding and border, against the rewrite's own *)
  Lemma adjA_pb : sz_rel L (size_add (sum_axes (rect_resolve_or_zero_lp (padding c) None)) (sum_axes (rect_resolve_or_zero_lp (border c) None))) (style_pb c).
  Proof.
    unfold style_pb. unfold_lifts. split; apply s1_iff; apply x_add_swap.
  Qed.
  Lemma adjB_pb : sz_rel L (sum_axes (rect_add (rect_resolve_or_zero_lp (padding c) None) (rect_resolve_or_zero_lp (border c) None))) (style_pb c).
  Proof. unfold style_pb. apply sz_refl. apply s1_refl. Qed.

  Ltac core_facts := destruct (eligible_parts c el_core) as (Ebs & Ep & Eb & Ear & Esz & Emn & Emx).
  Ltac tb_fields :=
    cbn [fs_core fs_inset fs_row fs_reverse fs_wrap fs_wrap_reverse fs_align_items fs_align_self fs_align_content fs_justify_content fs_gap
         fs_flex_basis fs_grow fs_shrink f_to_border_box_in to_border_box
         display position box_sizing overflow scrollbar_width size min_size max_size aspect_ratio margin padding border].

  Lemma inv_styled_known_dimensions kd ps sm :
    sz_rel O (styled_known_dimensions (to_cstyle s) kd ps sm) (styled_known_dimensions (to_cstyle tb) kd ps sm).
  Proof.
    core_facts. unfold styled_known_dimensions, to_cstyle.
    cbn [cs_row cs_reverse cs_wrap cs_wrap_reverse cs_justify cs_align_content cs_align_items cs_size cs_min cs_max cs_margin cs_padding
         cs_border cs_gap cs_box_sizing cs_aspect]. tb_fields. rewrite Ebs, Ear.
    rewrite !(rect_lp_length_ctx (padding c) (width ps) None Ep), !(rect_lp_length_ctx (border c) (width ps) None Eb).
    pose proof (idiom_rmm _ ps _ _ Emn adjA_pb) as Rmin. pose proof (idiom_rmm _ ps _ _ Emx adjA_pb) as Rmax. pose proof (idiom_rmm _ ps _ _ Esz adjA_pb) as Rsize.
    set (pb := size_add _ _) in *.
    set (mn := resolved_min_max (min_size c) ps None pb) in *. set (mn' := resolved_min_max (grow_size (style_pb c) (min_size c)) ps None size_ZERO) in *.
    set (mx := resolved_min_max (max_size c) ps None pb) in *. set (mx' := resolved_min_max (grow_size (style_pb c) (max_size c)) ps None size_ZERO) in *.
    set (sz := resolved_min_max (size c) ps None pb) in *. set (sz' := resolved_min_max (grow_size (style_pb c) (size c)) ps None size_ZERO) in *.
    pose proof (sz_refl O kd o1_refl) as Hkd. pose proof (sz_refl L pb s1_refl) as Hpb.
    clearbody mn mn' mx mx' sz sz' pb.
    destruct sm; unfold_lifts; hm 1 Q01.
  Qed.

  Lemma inv_flex_constants kd ps : kconst_rel 1 (flex_constants s kd ps) (flex_constants tb kd ps).
  Proof.
    core_facts. unfold flex_constants, container_align_items, to_cstyle, kconst_rel.
    cbn [cs_row cs_reverse cs_wrap cs_wrap_reverse cs_justify cs_align_content cs_align_items cs_size cs_min cs_max cs_margin cs_padding
         cs_border cs_gap cs_box_sizing cs_aspect
         k_row k_reverse k_wrap k_wrap_reverse k_min k_max k_margin k_border k_gap k_inset k_align_items k_align_content k_justify k_outer k_inner].
    unfold scrollbar_gutter. tb_fields. rewrite Ebs, Ear.
    rewrite !(rect_lp_length_ctx (padding c) (width ps) None Ep), !(rect_lp_length_ctx (border c) (width ps) None Eb).
    pose proof (idiom_rmm _ ps _ _ Emn adjA_pb) as Rmin. pose proof (idiom_rmm _ ps _ _ Emx adjA_pb) as Rmax.
    repeat match goal with |- _ /\ _ => split end; try reflexivity; try assumption;
      first [apply rc_refl; apply s1_refl | apply sz_refl; apply s1_refl | apply sz_refl; apply o1_refl].
  Qed.

  Lemma inv_child_info kc : ci_rel 1 (child_info kc (to_child s)) (child_info kc (to_child tb)).
  Proof.
    core_facts. unfold child_info, to_child, ci_rel.
    cbn [ch_style ch_flex_basis ch_grow ch_shrink ch_align_self ci_size ci_min ci_max ci_margin ci_margin_auto ci_padding ci_border ci_align].
    tb_fields. rewrite Ebs, Ear.
    rewrite !(rect_lp_length_ctx (padding c) (width (k_inner kc)) None Ep), !(rect_lp_length_ctx (border c) (width (k_inner kc)) None Eb).
    repeat match goal with |- _ /\ _ => split end; try reflexivity;
      first [apply idiom_rmm; [assumption|apply adjB_pb] | apply rc_refl; apply s1_refl].
  Qed.

  Lemma inv_base_env kc av ci : k_row kc = row -> benv_rel 1 (base_env kc av (to_child s) ci) (base_env kc av (to_child tb) ci).
  Proof.
    intros Er. core_facts. unfold benv_rel, base_env, to_child. cbn [be_cross_avail be_known be_parent be_style_basis ch_style ch_flex_basis].
    tb_fields. rewrite Ebs, Er.
    split; [apply a1_refl|]. split; [apply sz_refl; apply o1_refl|]. split; [apply sz_refl; apply o1_refl|].
    rewrite !(rect_lp_length_ctx (padding c) (s_main row (k_inner kc)) None Ep), !(rect_lp_length_ctx (border c) (s_main row (k_inner kc)) None Eb).
    fold (style_pb c).
    pose proof (idiom_flex_basis (style_pb c) row (fs_flex_basis s) (s_main row (k_inner kc)) el_basis) as H.
    unfold flex_basis_resolve, bs_adjustment_size, size_main in H. unfold s_main at 2 4.
    destruct (maybe_add_of (maybe_resolve_dim (fs_flex_basis s) (s_main row (k_inner kc))) (if row then width (style_pb c) else height (style_pb c))),
             (maybe_add_of (maybe_resolve_dim (flex_basis_to_border_box (style_pb c) row (fs_flex_basis s)) (s_main row (k_inner kc)))
                           (if row then width size_ZERO else height size_ZERO)); cbn [LeafAxis.opt_xeq op_rel] in H |- *; try contradiction; [|exact I].
    apply s1_iff. apply xeq_sym. exact H.
  Qed.

  Lemma grow_is_auto pb d : lp_is_auto_dim (grow_dim pb d) = @lp_is_auto_dim XQ d.
  Proof. destruct d; reflexivity. Qed.

  Lemma inv_used_cross_size kc lc ci fi h :
    L (used_cross_size kc lc (mkWork (to_child s) ci fi) h) (used_cross_size kc lc (mkWork (to_child tb) ci fi) h).
  Proof.
    core_facts. unfold used_cross_size, to_child. cbn [w_child w_info w_item ch_style]. tb_fields. rewrite Ebs.
    assert (Eauto : lp_is_auto_dim (s_cross (k_row kc) (grow_size (style_pb c) (size c))) = lp_is_auto_dim (s_cross (k_row kc) (size c)))
      by (destruct (k_row kc); unfold s_cross, grow_size; cbn [width height]; apply grow_is_auto).
    rewrite Eauto. match goal with |- context [if ?b then _ else _] => destruct b end; [|apply s1_refl].
    rewrite !(rect_lp_size_ctx (padding c) (k_inner kc) Ep), !(rect_lp_size_ctx (border c) (k_inner kc) Eb).
    assert (Hmx : sz_rel O (size_maybe_add_of (size_maybe_resolve_dim (max_size c) (k_inner kc))
                              (sum_axes (rect_add (rect_resolve_or_zero_lp (padding c) None) (rect_resolve_or_zero_lp (border c) None))))
                           (size_maybe_add_of (size_maybe_resolve_dim (grow_size (style_pb c) (max_size c)) (k_inner kc)) size_ZERO))
      by exact (idiom_rmm _ (k_inner kc) _ _ Emx adjB_pb).
    set (mx := size_maybe_add_of (size_maybe_resolve_dim (max_size c) (k_inner kc)) _) in *.
    set (mx' := size_maybe_add_of (size_maybe_resolve_dim (grow_size (style_pb c) (max_size c)) (k_inner kc)) size_ZERO) in *. clearbody mx mx'.
    pose proof (s1_refl lc) as Hlc. pose proof (rc_refl L (ci_margin ci) s1_refl) as Hm. pose proof (sz_refl O (ci_min ci) o1_refl) as Hmn.
    destruct (k_row kc); unfold_axes; unfold_lifts; hm 1 Q01.
  Qed.

  (* the adapter to the vocabulary of the absolute kernel commutes with the rewrite *)
  Lemma a_lpa_grow pb (d : Dimension XQ) : a_lpa (grow_dim pb d) = BoxSizingAbs.abs_grow_dim pb (a_lpa d).
  Proof. destruct d; reflexivity. Qed.
  Lemma a_lp_resolve_none (d : LengthPercentage XQ) : AbsPosBase.dim_resolve_or_zero (a_lp d) None = resolve_or_zero_lp d None.
  Proof. destruct d; reflexivity. Qed.
  Lemma abs_style_pb_eq : BoxSizingAbs.abs_style_pb (abs_style s) = a_size (style_pb c).
  Proof.
    unfold BoxSizingAbs.abs_style_pb, style_pb, abs_style, a_size, a_rect, sum_axes, horizontal_axis_sum, vertical_axis_sum, rect_add, rect_zip_map,
      rect_resolve_or_zero_lp, rect_map, AbsPosBase.rect_sum_axes, AbsPosBase.rect_horizontal_axis_sum, AbsPosBase.rect_vertical_axis_sum,
      AbsPosBase.rect_add, AbsPosBase.rect_map.
    cbn [AbsPosBase.st_padding AbsPosBase.st_border AbsPosBase.r_left AbsPosBase.r_right AbsPosBase.r_top AbsPosBase.r_bottom
         r_left r_right r_top r_bottom width height].
    rewrite !a_lp_resolve_none. reflexivity.
  Qed.
  Lemma abs_style_tb : abs_style tb = BoxSizingAbs.abs_to_border_box (abs_style s).
  Proof.
    unfold BoxSizingAbs.abs_to_border_box. rewrite abs_style_pb_eq. unfold abs_style. tb_fields.
    unfold BoxSizingAbs.abs_grow_size, grow_size, a_size, size_map.
    cbn [AbsPosBase.st_size AbsPosBase.st_min_size AbsPosBase.st_max_size AbsPosBase.st_inset AbsPosBase.st_margin AbsPosBase.st_padding
         AbsPosBase.st_border AbsPosBase.st_aspect_ratio AbsPosBase.st_box_sizing AbsPosBase.st_align_self AbsPosBase.st_justify_self
         AbsPosBase.st_position AbsPosBase.s_width AbsPosBase.s_height width height].
    rewrite !a_lpa_grow. reflexivity.
  Qed.
  Lemma abs_style_eligible : BoxSizingAbs.abs_eligible (abs_style s).
  Proof.
    core_facts. unfold BoxSizingAbs.abs_eligible, BoxSizingAbs.abs_eligibleb, abs_style.
    cbn [AbsPosBase.st_size AbsPosBase.st_min_size AbsPosBase.st_max_size AbsPosBase.st_padding AbsPosBase.st_border
         AbsPosBase.st_aspect_ratio AbsPosBase.st_box_sizing].
    rewrite Ebs, Ear.
    assert (Hlen : forall d : LengthPercentage XQ, BoxSizingAbs.dim_is_length (a_lp d) = lp_is_length d) by (intros d; destruct d; reflexivity).
    assert (Hpct : forall d : Dimension XQ, BoxSizingAbs.abs_dim_not_percent (a_lpa d) = dim_not_percent d) by (intros d; destruct d; reflexivity).
    unfold BoxSizingAbs.abs_rect_forallb, BoxSizingAbs.abs_size_forallb, a_rect, a_size, rect_map, size_map.
    cbn [AbsPosBase.r_left AbsPosBase.r_right AbsPosBase.r_top AbsPosBase.r_bottom AbsPosBase.s_width AbsPosBase.s_height
         r_left r_right r_top r_bottom width height].
    rewrite !Hlen, !Hpct.
    unfold rect_forallb in Ep, Eb. unfold size_forallb in Esz, Emn, Emx. rewrite Ep, Eb.
    apply andb_true_intro; split; [apply andb_true_intro; split; [apply andb_true_intro; split; [reflexivity|exact Esz]|exact Emn]|exact Emx].
  Qed.
End Invariance.

(* ------------------------------------------------------------------------------------------------ the rewrite implies the weak relation *)
Lemma absin_rel1_trans a b c : ScaleAbs.absin_rel 1 a b -> ScaleAbs.absin_rel 1 b c -> ScaleAbs.absin_rel 1 a c.
Proof.
  intros (A1 & A2 & A3 & A4 & A5 & A6 & A7 & A8 & A9 & A10 & A11 & A12) (B1 & B2 & B3 & B4 & B5 & B6 & B7 & B8 & B9 & B10 & B11 & B12).
  unfold ScaleAbs.absin_rel.
  assert (T1 : forall x y z : option XQ, op_rel dl x y -> op_rel dl y z -> op_rel dl x z)
    by (intros x y z; destruct x, y, z; cbn; try tauto; apply dl_trans).
  assert (RT : forall (R : option XQ -> option XQ -> Prop) (HR : forall x y z, R x y -> R y z -> R x z) (u v w : AbsPosBase.Rect (option XQ)),
             ScaleAbs.arc_rel R u v -> ScaleAbs.arc_rel R v w -> ScaleAbs.arc_rel R u w)
    by (intros R HR u v w (U1 & U2 & U3 & U4) (V1 & V2 & V3 & V4); repeat split; eapply HR; eassumption).
  assert (RT2 : forall (u v w : AbsPosBase.Rect XQ), ScaleAbs.arc_rel (sc 1) u v -> ScaleAbs.arc_rel (sc 1) v w -> ScaleAbs.arc_rel (sc 1) u w)
    by (intros u v w (U1 & U2 & U3 & U4) (V1 & V2 & V3 & V4); repeat split; eapply s1_trans; eassumption).
  assert (ST : forall (u v w : AbsPosBase.Size (option XQ)), ScaleAbs.asz_rel (op_rel (sc 1)) u v -> ScaleAbs.asz_rel (op_rel (sc 1)) v w ->
             ScaleAbs.asz_rel (op_rel (sc 1)) u w)
    by (intros u v w [U1 U2] [V1 V2]; split; eapply o1_trans; eassumption).
  split; [eapply T1; eassumption|]. split; [eapply (RT _ o1_trans); eassumption|]. split; [eapply (RT _ o1_trans); eassumption|].
  split; [eapply RT2; eassumption|]. split; [eapply RT2; eassumption|].
  split; [destruct A6, B6; split; eapply s1_trans; eassumption|].
  split; [eapply ST; eassumption|]. split; [eapply ST; eassumption|]. split; [eapply ST; eassumption|]. repeat split; congruence.
Qed.

Lemma absin_rel1_of_xeq i i' : BoxSizingAbsProofs.absin_xeq i' i -> ScaleAbs.absin_rel 1 i i'.
Proof.
  intros (E1 & E2 & E3 & E4 & E5 & E6 & [S1 S2] & [M1 M2] & [X1 X2] & E10 & E11 & E12). unfold ScaleAbs.absin_rel.
  rewrite E1, E2, E3, E4, E5, E6, E10, E11, E12.
  assert (OX : forall a b, LeafAxis.opt_xeq b a -> op_rel (sc 1) a b) by (intros a b; destruct a, b; cbn; try tauto; apply s1_iff).
  split; [apply odl_refl|]. split; [repeat split; apply o1_refl|]. split; [repeat split; apply o1_refl|].
  split; [repeat split; apply s1_refl|]. split; [repeat split; apply s1_refl|]. split; [split; apply s1_refl|].
  split; [split; apply OX; assumption|]. split; [split; apply OX; assumption|]. split; [split; apply OX; assumption|]. repeat split; reflexivity.
Qed.

Theorem fbb_weak row s s' : fbb_rel row s s' -> fstyle_wrel 1 row s s'.
Proof.
  intros [->|[El ->]]; [apply (fwrel_of_rel 1 Q01); apply fstyle_rel1_refl|].
  pose proof (fwrel_of_rel 1 Q01 row s s (fstyle_rel1_refl s)) as W0.
  destruct W0 as (W1 & W2 & W3 & W4 & W5 & W6 & W7 & W8 & W9 & W10 & W11 & W12 & W13 & W14 & W15 & W16 & Wkd & Wconst & Wci & Wenv & Wucs & Wabs).
  unfold fstyle_wrel.
  cbn [fs_core fs_inset fs_row fs_reverse fs_wrap fs_wrap_reverse fs_align_items fs_align_self fs_align_content fs_justify_content fs_gap
       fs_flex_basis fs_grow fs_shrink f_to_border_box_in to_border_box display position overflow scrollbar_width].
  repeat match goal with |- _ /\ _ => split end; try assumption.
  - intros kd kd' ps ps' sm Hkd Hps. eapply (sz_trans (op_rel (sc 1))); [exact o1_trans|apply Wkd; eassumption|apply inv_styled_known_dimensions; exact El].
  - intros kd kd' ps ps' Hkd Hps. eapply kconst_rel1_trans; [apply Wconst; eassumption|apply inv_flex_constants; exact El].
  - intros c c' Hc. eapply ci_rel1_trans; [apply Wci; eassumption|apply inv_child_info; exact El].
  - intros c c' av av' ci ci' Er Hc Hav Hci. eapply benv_rel1_trans; [apply Wenv; eassumption|]. apply inv_base_env; [exact El|].
    destruct Hc as (E & _). rewrite E. exact Er.
  - intros c c' lc lc' ci ci' fi fi' h h' Hc Hlc Hci Hh. eapply s1_trans; [apply (Wucs c c' lc lc' ci ci' fi fi' h h'); eassumption|].
    apply inv_used_cross_size. exact El.
  - intros ac ac' Hac. eapply absin_rel1_trans; [apply Wabs; exact Hac|]. rewrite (abs_style_tb row s).
    apply absin_rel1_of_xeq. apply BoxSizingAbsProofs.flex_resolve_invariant. apply abs_style_eligible. exact El.
Qed.

(* ------------------------------------------------------------------------------------------------ the flex algorithm is box-sizing blind *)
Notation FAlgRel1 := (AlgRel (FIn XQ) (LayoutOutput XQ) (FLay XQ) (fin_rel 1) (output_rel 1) (flay_rel 1)).

(* the container is rewritten or not (for ANY direction `prow` of ITS parent: nothing in flex_alg reads the container's own flex_basis); any
   subset of its eligible children is rewritten for the container's direction; inputs equal as numbers *)
Theorem flex_alg_box_sizing_blind prow s s' st st' i i' :
  fbb_rel prow s s' -> Forall2 (fbb_rel (fs_row s)) st st' -> fin_rel 1 i i' -> FAlgRel1 (flex_alg s st i) (flex_alg s' st' i').
Proof.
  intros Hs Hst Hi. rewrite <- !flex_alg_t_one.
  apply (flex_alg_t_rel 1 Q01 (fbb_rel (fs_row s)) (fs_row s) (fbb_weak (fs_row s)) one one prow); try assumption;
    [left; split; [apply s1_refl|reflexivity]|reflexivity|apply fbb_weak; exact Hs].
Qed.
