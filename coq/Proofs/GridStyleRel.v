(* The two sources of the weak grid style relation `gstyle_wrel k` (Model/GridAlgRel.v):
     gwrel_of_rel     every length scaled by k > 0 (C04)                                    gstyle_rel k s s' -> gstyle_wrel k s s'
     gbb_weak         the content-box -> border-box rewrite of an eligible, not compressible-replaced style, at k = 1 (C12)
                                                                                             gbb_rel s s' -> gstyle_wrel 1 s s'
   and, as their first closure, the container preprocessing of compute_grid_layout (`grid_pre`, l.50-138):
     grid_pre_homogeneous, grid_pre_box_sizing_blind.
   Method as in Proofs/FlexStyleRel.v / Proofs/FlexBoxSizing.v: one lemma per site; the rewrite = the site at k = 1 for the same style
   composed with "the site of the rewritten style is the site of the original at the same arguments" (idiom_rmm). *)
From Coq Require Import QArith Qabs Lqa Bool List ZArith Lia.
From TV Require Import Num.Num Num.QNum Model.Common Model.Leaf Model.Root Model.BoxSizing Gen.GridTracksGen Model.GridTracks Model.FlexBase.
From TV Require Import Model.GridAlgBase Model.GridAlg Model.FlexAlgBase Model.FlexAlgRel Model.GridAlgRel.
From TV Require Import Model.Scale Model.ScaleGrid Model.Engine Model.EngineRel.
From TV Require Model.AbsPosBase Gen.AbsPosEnums Gen.AbsPosGen Model.ScaleAbs Proofs.ScaleAbsProofs Model.BoxSizingAbs Proofs.BoxSizingAbsProofs Proofs.LeafAxis.
From TV Require Import Proofs.ScalePrim Proofs.ScaleKit Proofs.ScaleProofs Proofs.ScaleGrid Proofs.BoxSizingProofs Proofs.FlexStyleRel Proofs.FlexBoxSizing.
Import ListNotations.
Close Scope Z_scope.

Ltac gstyle_open H :=
  destruct H as (Hcore & Hinset & Htc & Htr & Hac & Har_ & Eflow & Hgap & Eai & Eji & Eac & Ejc & Erow & Ecol & Eas & Ejs & Erep).
Ltac core_open H :=
  destruct H as (Edisp & Epos & Ebs & Eov & Hsw & Hsize & Hmin & Hmax & Har & Hmargin & Hpad & Hbor).
Ltac apk X k Hk := first [apply (X k Hk) | apply (X k)].
Ltac fin_open H := destruct H as (Emode & Esizing & Eaxis & Hknown & Hparent & Havail & Ecoll).

Section Sites.
  Variable k : Q.
  Hypothesis Hk : (0 < k)%Q.
  Notation L := (sc k).
  Notation O := (op_rel (sc k)).
  Notation A := (av_rel (sc k)).

  Lemma rel_bs_triple c c' pbs pbs' ctx ctx' : style_rel k c c' -> sz_rel L pbs pbs' -> sz_rel O ctx ctx' ->
    triple_rel k (bs_triple c pbs ctx) (bs_triple c' pbs' ctx').
  Proof.
    intros Hc Hpb Hctx. core_open Hc. unfold bs_triple, triple_rel. cbn [fst snd]. rewrite Ebs.
    assert (Radj : sz_rel L (match box_sizing c with ContentBox => pbs | BorderBox => size_ZERO end)
                            (match box_sizing c with ContentBox => pbs' | BorderBox => size_ZERO end))
      by (destruct (box_sizing c); [apk rel_size_ZERO k Hk|exact Hpb]).
    repeat split; apk rel_resolved_min_max k Hk; assumption.
  Qed.

  Lemma rel_item_resolved c c' ctx ctx' : style_rel k c c' -> sz_rel O ctx ctx' -> triple_rel k (item_resolved c ctx) (item_resolved c' ctx').
  Proof.
    intros Hc Hctx. pose proof Hc as Hc0. core_open Hc. unfold item_resolved. apply rel_bs_triple; [exact Hc0| |exact Hctx].
    apk rel_sum_axes k Hk. apk rel_rect_add k Hk; apk rel_rect_lp_size k Hk; assumption.
  Qed.

  Lemma rel_dims_definite c c' ax ctx ctx' : style_rel k c c' -> O ctx ctx' -> dims_definite c' ax ctx' = dims_definite c ax ctx.
  Proof.
    intros Hc Hctx. core_open Hc. unfold dims_definite, dim_definite.
    assert (H1 : O (maybe_resolve_dim (get_ax (size c) ax) ctx) (maybe_resolve_dim (get_ax (size c') ax) ctx'))
      by (apk rel_maybe_resolve_dim k Hk; [destruct ax; apply Hsize|exact Hctx]).
    assert (H2 : O (maybe_resolve_dim (get_ax (max_size c) ax) ctx) (maybe_resolve_dim (get_ax (max_size c') ax) ctx'))
      by (apk rel_maybe_resolve_dim k Hk; [destruct ax; apply Hmax|exact Hctx]).
    destruct (maybe_resolve_dim (get_ax (size c) ax) ctx), (maybe_resolve_dim (get_ax (size c') ax) ctx'); cbn in H1; try contradiction;
      destruct (maybe_resolve_dim (get_ax (max_size c) ax) ctx), (maybe_resolve_dim (get_ax (max_size c') ax) ctx'); cbn in H2; try contradiction;
      reflexivity.
  Qed.

  Lemma rel_replaced_caps c c' ax : style_rel k c c' ->
    O (fst (replaced_caps c ax)) (fst (replaced_caps c' ax)) /\ O (snd (replaced_caps c ax)) (snd (replaced_caps c' ax)).
  Proof.
    intros Hc. core_open Hc. unfold replaced_caps. cbn [fst snd].
    split; apk rel_maybe_resolve_dim k Hk; try (cbn; apply sc_zero); destruct ax; first [apply Hsize|apply Hmax].
  Qed.

  Lemma ga_lpa_rel d d' : lpa_rel k d d' -> ScaleAbs.dim_rel k (a_lpa d) (a_lpa d').
  Proof. destruct d, d'; cbn; auto. Qed.
  Lemma ga_lp_rel d d' : lp_rel k d d' -> ScaleAbs.dim_rel k (a_lp d) (a_lp d').
  Proof. destruct d, d'; cbn; auto. Qed.
  Lemma ga_size_rel {X Y} (R : X -> X -> Prop) (R' : Y -> Y -> Prop) (f : X -> Y) s s' :
    (forall x x', R x x' -> R' (f x) (f x')) -> sz_rel R s s' -> ScaleAbs.asz_rel R' (a_size (size_map f s)) (a_size (size_map f s')).
  Proof. intros Hf [H1 H2]. split; cbn; apply Hf; assumption. Qed.
  Lemma ga_rect_rel {X Y} (R : X -> X -> Prop) (R' : Y -> Y -> Prop) (f : X -> Y) r r' :
    (forall x x', R x x' -> R' (f x) (f x')) -> rc_rel R r r' -> ScaleAbs.arc_rel R' (a_rect (rect_map f r)) (a_rect (rect_map f r')).
  Proof. intros Hf (H1 & H2 & H3 & H4). repeat split; cbn; apply Hf; assumption. Qed.

  Lemma rel_gabs_style s s' : gstyle_rel k s s' -> ScaleAbs.absstyle_rel k (abs_style s) (abs_style s').
  Proof.
    intros Hs. gstyle_open Hs. core_open Hcore. unfold ScaleAbs.absstyle_rel, abs_style.
    cbn [AbsPosBase.st_size AbsPosBase.st_min_size AbsPosBase.st_max_size AbsPosBase.st_inset AbsPosBase.st_margin
         AbsPosBase.st_padding AbsPosBase.st_border AbsPosBase.st_aspect_ratio AbsPosBase.st_box_sizing AbsPosBase.st_align_self
         AbsPosBase.st_justify_self AbsPosBase.st_position].
    rewrite Ebs, Eas, Ejs, Epos.
    repeat match goal with |- _ /\ _ => split end; try reflexivity; try assumption;
      first [apply (ga_size_rel (lpa_rel k)); [apply ga_lpa_rel|assumption]
            |apply (ga_rect_rel (lpa_rel k)); [apply ga_lpa_rel|assumption]
            |apply (ga_rect_rel (lp_rel k)); [apply ga_lp_rel|assumption]].
  Qed.

  (* ---- compute_grid_layout l.50-138: grid_pre as a function of the resolved padding / border, the resolved (size, min, max) and the gutter *)
  Definition pre_of (pad bor : Rect XQ) (t : Size (option XQ) * Size (option XQ) * Size (option XQ)) (sizing : SizingMode) (gutter : Point XQ)
             (known : Size (option XQ)) (avail : Size (AvailableSpace XQ)) : @Pre XQ :=
    let pb := rect_add pad bor in
    let pbs := sum_axes pb in
    let mn := snd (fst t) in
    let mx := snd t in
    let pref := match sizing with InherentSize => fst (fst t) | ContentSize => size_NONE end in
    let inset := mkRect (r_left pb) (r_right pb + px gutter)%num (r_top pb) (r_bottom pb + py gutter)%num in
    let kp := size_or known pref in
    let cas := size_zip_map (@maybe_max_af XQ _)
                 (size_zip_map3 (@maybe_clamp_ao XQ _)
                    (size_zip_map (fun o a => match o with Some v => Types.Definite v | None => a end) kp avail) mn mx) pbs in
    let grid_avail := mkSize (avail_map_definite_value (width cas) (fun space => space - horizontal_axis_sum inset)%num)
                             (avail_map_definite_value (height cas) (fun space => space - vertical_axis_sum inset)%num) in
    let outer := size_maybe_max_of (size_maybe_clamp_oo kp mn mx) pbs in
    let inner := mkSize (option_map (fun space => space - horizontal_axis_sum inset)%num (width outer))
                        (option_map (fun space => space - vertical_axis_sum inset)%num (height outer)) in
    mkPre pad bor pbs mn mx pref gutter inset grid_avail outer inner.

  Definition pre_gutter (c : Style XQ) : Point XQ :=
    point_map (fun o => match o with Scroll => scrollbar_width c | _ => zero end) (point_transpose (overflow c)).

  Lemma grid_pre_shape s i :
    grid_pre s i = let c := gs_core s in
                   let pad := rect_resolve_or_zero_lp (padding c) (width (gi_parent i)) in
                   let bor := rect_resolve_or_zero_lp (border c) (width (gi_parent i)) in
                   pre_of pad bor (bs_triple c (sum_axes (rect_add pad bor)) (gi_parent i)) (gi_sizing i) (pre_gutter c) (gi_known i) (gi_avail i).
  Proof. unfold grid_pre, pre_of, bs_triple, pre_gutter. cbn [fst snd]. destruct (gi_sizing i); reflexivity. Qed.

  Lemma rel_pre_of pad pad' bor bor' t t' sizing gutter gutter' known known' avail avail' :
    rc_rel L pad pad' -> rc_rel L bor bor' -> triple_rel k t t' -> pt_rel L gutter gutter' -> sz_rel O known known' -> sz_rel A avail avail' ->
    pre_rel k (pre_of pad bor t sizing gutter known avail) (pre_of pad' bor' t' sizing gutter' known' avail').
  Proof.
    intros Hpad Hbor Ht Hg Hkn Hav. destruct t as [[sz mn] mx], t' as [[sz' mn'] mx']. destruct Ht as (Hsz & Hmn & Hmx). cbn [fst snd] in *.
    unfold pre_of, pre_rel. cbn [fst snd p_padding p_border p_pb_size p_min p_max p_pref p_gutter p_inset p_grid_avail p_outer p_inner].
    destruct sizing; unfold_lifts; hm k Hk.
    all: apk rel_maybe_max_af k Hk; [apk rel_maybe_clamp_ao k Hk; try assumption|hm k Hk].
    all: match goal with |- A (match ?o with Some _ => _ | None => _ end) (match ?o' with Some _ => _ | None => _ end) =>
           let Ho := fresh in assert (Ho : O o o') by (apply rel_opt_or; [assumption|first [assumption|exact I]]);
           destruct o, o'; cbn [op_rel] in Ho; try contradiction; [apply rel_Definite; exact Ho|assumption] end.
  Qed.

  Lemma rel_pre_gutter c c' : overflow c' = overflow c -> L (scrollbar_width c) (scrollbar_width c') -> pt_rel L (pre_gutter c) (pre_gutter c').
  Proof.
    intros Eov Hsw. unfold pre_gutter. rewrite Eov. unfold_lifts. split; match goal with |- context [match ?o with Visible => _ | _ => _ end] => destruct o end;
      first [exact Hsw|apply sc_zero].
  Qed.

  Lemma rel_grid_pre s s' i i' : gstyle_rel k s s' -> fin_rel k i i' -> pre_rel k (grid_pre s i) (grid_pre s' i').
  Proof.
    intros Hs Hi. gstyle_open Hs. pose proof Hcore as Hcore0. core_open Hcore. fin_open Hi. rewrite !grid_pre_shape. cbv zeta. rewrite Esizing.
    pose proof (proj1 Hparent) as Hpw.
    pose proof (rel_rect_lp k Hk _ _ _ _ Hpad Hpw) as Rpad. pose proof (rel_rect_lp k Hk _ _ _ _ Hbor Hpw) as Rbor.
    apply rel_pre_of; try assumption; [|apply rel_pre_gutter; assumption].
    apply rel_bs_triple; [exact Hcore0| |exact Hparent]. apk rel_sum_axes k Hk. apk rel_rect_add k Hk; assumption.
  Qed.

  (* ---- every length scaled => everything the grid algorithm reads is related *)
  Theorem gwrel_of_rel s s' : gstyle_rel k s s' -> gstyle_wrel k s s'.
  Proof.
    intros Hs. pose proof Hs as Hs0. gstyle_open Hs. pose proof Hcore as Hcore0. core_open Hcore. unfold gstyle_wrel. cbv zeta.
    repeat match goal with |- _ /\ _ => split end; try assumption.
    - intros i i' Hi. apply rel_grid_pre; assumption.
    - intros ax ctx ctx' Hctx. apply rel_dims_definite; assumption.
    - intros ctx ctx' Hctx. apply rel_item_resolved; assumption.
    - intros _ ax. apply rel_replaced_caps. exact Hcore0.
    - intros area area' Harea. apply (ScaleAbsProofs.rel_grid_resolve k Hk); [exact Harea|apply rel_gabs_style; exact Hs0].
  Qed.
End Sites.
