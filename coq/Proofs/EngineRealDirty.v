(* Dirty tracking of the engine over the cache INTERFACE of Model/EngineReal.v (Proofs/EngineDirty.v redone for `gmemo` / `gmd`):
   the statements of C15 that do not depend on the key being exact, for ANY cache satisfying `cache_laws` -- nine laws about
   "has a final-layout entry" (`cfinal`, ghost), `cdirty`, `cget`, `cstore`, `cclear` under a representation invariant `Cok` --
   and for the real cache in particular (`real_cache_laws`: `rcache` of src/tree/cache.rs satisfies them with
   Cok := nine slots /\ (the is_empty flag is set -> no entry)).
     gsecond_pass_silent   a lookup under the key just stored hits  ->  the second pass is answered by the root's entry
     gpass_clean           after a PerformLayout pass every node outside display:none regions has a final entry (is not dirty)
     gmd_exact             with the boundary invariants the AlreadyEmpty early exit of mark_dirty loses nothing
   Interface hypotheses on the algorithms: WF and H1 of Proofs/EngineDirty.v (`WFAlg`, `Visits`). *)
From Coq Require Import List Bool Arith NArith Lia.
From TV Require Import Num.Num Gen.CacheGen Model.Cache Model.Engine Model.EngineReal Model.EngineForestG
  Proofs.EngineMemo Proofs.EngineDirty Proofs.EngineFrame Proofs.EngineReal Proofs.CacheProofs.
Import ListNotations.

Section GDirty.
  Variables (S In Out Lay : Type).
  Variable mode : In -> RunMode.
  Variable is_none : S -> bool.
  Variable hidden_out : Out.
  Variable zero_lay : Lay.
  Variable algo : S -> list S -> In -> Alg In Out Lay.
  Variable mcalls : S -> list S -> In -> N.
  Variable C : Type.
  Variable cempty : C.
  Variable cget : C -> In -> option Out.
  Variable clossy : C -> In -> bool.
  Variable cstore : C -> In -> Out -> C.
  Variable cclear : C -> C.
  Variable cdirty : C -> bool.
  (* ghost vocabulary *)
  Variable cfinal : C -> bool.             (* the cache holds a final-layout entry *)
  Variable Cok : C -> Prop.                (* representation invariant of the cache *)

  Notation tree := (gtree S Lay C).
  Notation GN := (GNode S Lay C).
  Notation gmemo := (gmemo S In Out Lay mode is_none hidden_out zero_lay algo mcalls C cget clossy cstore cclear).
  Notation grun_memo := (grun_memo S In Out Lay C).
  Notation ghide := (ghide S Lay zero_lay C cclear).
  Notation gstyle := (gstyle S Lay C).
  Notation gcache := (gcache S Lay C).
  Notation gset_lay := (gset_lay S Lay C).
  Notation gmd := (gmd S Lay C cclear cdirty).
  Notation gmark_dirty := (gmark_dirty S Lay C cclear cdirty).
  Notation gsubtree := (gsubtree S Lay C).
  Notation WFAlg := (WFAlg In Out Lay mode).
  Notation Visits := (Visits In Out Lay mode).

  Record cache_laws : Prop := {
    ok_empty : Cok cempty;
    empty_dirty : cdirty cempty = true;
    ok_store : forall c i o, Cok c -> Cok (cstore c i o);
    ok_clear : forall c, Cok c -> Cok (cclear c);
    final_not_dirty : forall c, cfinal c = true -> cdirty c = false;
    store_perform_final : forall c i o, mode i = PerformLayout -> cfinal (cstore c i o) = true;
    store_compute_final : forall c i o, mode i = ComputeSize -> cfinal (cstore c i o) = cfinal c;
    hit_not_dirty : forall c i o, cget c i = Some o -> cdirty c = false;
    store_not_dirty : forall c i o, Cok c -> mode i <> PerformHiddenLayout -> cdirty (cstore c i o) = false;
    hit_perform_final : forall c i o, mode i = PerformLayout -> cget c i = Some o -> cfinal c = true;
    clear_dirty : forall c, Cok c -> cdirty (cclear c) = true
  }.

  (* ---------- invariants (Proofs/EngineDirty.v Full / J / B / BH with `final c <> None` read as `cfinal c = true`) ---------- *)
  Inductive GOk : tree -> Prop :=
  | GOk_node s c l n kids : Cok c -> Forall GOk kids -> GOk (GN s c l n kids).
  Inductive GFull : tree -> Prop :=
  | GFull_none s c l n kids : is_none s = true -> cdirty c = false -> GFull (GN s c l n kids)
  | GFull_node s c l n kids : is_none s = false -> cfinal c = true -> Forall GFull kids -> GFull (GN s c l n kids).
  Inductive GJ : tree -> Prop :=
  | GJ_node s c l n kids :
      (is_none s = false -> cfinal c = true -> Forall GFull kids) -> Forall GJ kids -> GJ (GN s c l n kids).
  Inductive GB : tree -> Prop :=
  | GB_node s c l n kids :
      (is_none s = false -> cdirty c = false -> cfinal c = true) -> Forall GB kids -> GB (GN s c l n kids).
  Inductive GBH : tree -> Prop :=
  | GBH_node s c l n kids : (is_none s = true -> Forall GB kids) -> Forall GBH kids -> GBH (GN s c l n kids).

  (* the tree a cache hit returns: only the root's ghost counter moves *)
  Definition ghit_root (i : In) (t : tree) : tree :=
    match t with GNode _ _ _ s c l n kids => GN s c l (st_hit (clossy c i) n) kids end.

  (* ---------- second pass ---------- *)
  Theorem gsecond_pass_silent :
    (forall c o i, mode i = PerformLayout -> cget (cstore c i o) i = Some o) ->
    forall f g t i o t',
      mode i = PerformLayout ->
      gmemo f t i = Some (o, t') ->
      gmemo (Datatypes.S g) t' i = Some (o, ghit_root i t').
  Proof.
    intros Hsh f g t i o t' Hm H. destruct f as [|f]; [discriminate|].
    destruct t as [s c l n kids]. cbn [EngineReal.gmemo] in H. rewrite Hm in H.
    destruct (cget c i) as [o1|] eqn:Eg.
    - injection H as <- <-. cbn [EngineReal.gmemo]. rewrite Hm, Eg. reflexivity.
    - destruct (is_none s).
      + injection H as <- <-. cbn [EngineReal.gmemo]. rewrite Hm, (Hsh _ _ _ Hm). reflexivity.
      + destruct (grun_memo _ kids _) as [[o1 kids1]|]; [|discriminate].
        injection H as <- <-. cbn [EngineReal.gmemo]. rewrite Hm, (Hsh _ _ _ Hm). reflexivity.
  Qed.

  Hypothesis L : cache_laws.
  Hypothesis WF : forall s st i, WFAlg (algo s st i).
  Hypothesis H1 : forall s st i, mode i = PerformLayout -> Visits (seq 0 (length st)) (algo s st i).

  Lemma gtree_ind2 (P : tree -> Prop) :
    (forall s c l n kids, Forall P kids -> P (GN s c l n kids)) -> forall t, P t.
  Proof.
    intros H. fix IH 1. intros [s c l n kids]. apply H.
    induction kids as [|k kids IHk]; constructor; [apply IH | exact IHk].
  Qed.

  Lemma cleared_no_final c : Cok c -> cfinal (cclear c) = true -> False.
  Proof.
    intros Hc Hf. pose proof (final_not_dirty L _ Hf) as H. rewrite (clear_dirty L _ Hc) in H. discriminate.
  Qed.

  Lemma gsk_ind (P : sk S -> Prop) :
    (forall s kids, Forall P kids -> P (SNode S s kids)) -> forall k, P k.
  Proof.
    intros H. fix IH 1. intros [s kids]. apply H.
    induction kids as [|k kids IHk]; constructor; [apply IH | exact IHk].
  Qed.

  (* a freshly built tree satisfies the invariants *)
  Lemma gfresh_inv k : let t := gfresh S Lay zero_lay C cempty k in GOk t /\ GJ t /\ GB t.
  Proof.
    cbv zeta. induction k as [s kids IH] using gsk_ind. cbn.
    assert (HA : Forall (fun t => GOk t /\ GJ t /\ GB t) (map (gfresh S Lay zero_lay C cempty) kids)).
    { apply Forall_map. exact IH. }
    split; [|split].
    - constructor; [apply (ok_empty L)|]. eapply Forall_impl; [|exact HA]. intros a (A1 & A2 & A3); assumption.
    - constructor.
      + intros _ Hf. pose proof (final_not_dirty L _ Hf) as Hd. rewrite (empty_dirty L) in Hd. discriminate.
      + eapply Forall_impl; [|exact HA]. intros a (A1 & A2 & A3); assumption.
    - constructor.
      + intros _ Hd. rewrite (empty_dirty L) in Hd. discriminate.
      + eapply Forall_impl; [|exact HA]. intros a (A1 & A2 & A3); assumption.
  Qed.

  Lemma GOk_hide t : GOk t -> GOk (ghide t).
  Proof.
    induction t as [s c l n kids IH] using gtree_ind2. intros H. inversion H as [? ? ? ? ? Hc Hk]; subst. cbn. constructor.
    - apply (ok_clear L). exact Hc.
    - apply Forall_map. rewrite Forall_forall in *. intros x Hx. apply IH; auto.
  Qed.
  Lemma GB_hide t : GOk t -> GB (ghide t).
  Proof.
    induction t as [s c l n kids IH] using gtree_ind2. intros H. inversion H as [? ? ? ? ? Hc Hk]; subst. cbn. constructor.
    - intros _ Hd. rewrite (clear_dirty L _ Hc) in Hd. discriminate.
    - apply Forall_map. rewrite Forall_forall in *. intros x Hx. apply IH; auto.
  Qed.
  Lemma GJ_hide t : GOk t -> GJ (ghide t).
  Proof.
    induction t as [s c l n kids IH] using gtree_ind2. intros H. inversion H as [? ? ? ? ? Hc Hk]; subst. cbn. constructor.
    - intros _ Hf. exfalso. eapply cleared_no_final; eauto.
    - apply Forall_map. rewrite Forall_forall in *. intros x Hx. apply IH; auto.
  Qed.
  Lemma GBH_hide t : GOk t -> GBH (ghide t).
  Proof.
    induction t as [s c l n kids IH] using gtree_ind2. intros H. inversion H as [? ? ? ? ? Hc Hk]; subst. cbn. constructor.
    - intros _. apply Forall_map. rewrite Forall_forall in *. intros x Hx. apply GB_hide. auto.
    - apply Forall_map. rewrite Forall_forall in *. intros x Hx. apply IH; auto.
  Qed.

  Lemma GB_GBH t : GB t -> GBH t.
  Proof.
    induction t as [s c l n kids IH] using gtree_ind2. intros HB. inversion HB as [? ? ? ? ? Hl Hk]; subst.
    constructor; [intros _; exact Hk|].
    rewrite Forall_forall in *. intros x Hx. apply IH; auto.
  Qed.

  Lemma GFull_GBH_GB t : GFull t -> GBH t -> GB t.
  Proof.
    induction t as [s c l n kids IH] using gtree_ind2. intros HF HBH.
    inversion HBH as [? ? ? ? ? Hh Hk]; subst.
    inversion HF as [? ? ? ? ? Hn Hne | ? ? ? ? ? Hn Hfin Hfk]; subst.
    - constructor; [intros E; congruence | apply Hh; exact Hn].
    - constructor; [intros _ _; exact Hfin|].
      rewrite Forall_forall in *. intros x Hx. apply IH; auto.
  Qed.

  Lemma store_final_keep c i o : mode i <> PerformHiddenLayout -> cfinal c = true -> cfinal (cstore c i o) = true.
  Proof.
    intros Hm Hf. destruct (mode i) eqn:E; [apply (store_perform_final L); exact E | | congruence].
    rewrite (store_compute_final L _ _ _ E). exact Hf.
  Qed.

  (* ---------- one evaluation ---------- *)
  Definition gev_good (ev : tree -> In -> option (Out * tree)) : Prop :=
    forall t i o t', mode i <> PerformHiddenLayout -> GOk t -> GJ t -> GBH t -> ev t i = Some (o, t') ->
      GOk t' /\ GJ t' /\ GBH t' /\ (GFull t -> GFull t') /\ (mode i = PerformLayout -> GFull t').

  Lemma grun_memo_good ev : gev_good ev ->
    forall a kids o kids' pending,
      WFAlg a -> Forall GOk kids -> Forall GJ kids -> Forall GBH kids ->
      grun_memo ev kids a = Some (o, kids') ->
      Forall GOk kids' /\ Forall GJ kids' /\ Forall GBH kids' /\ length kids' = length kids /\
      (forall n t t', nth_error kids n = Some t -> nth_error kids' n = Some t' -> GFull t -> GFull t') /\
      (Visits pending a -> forall n t', List.In n pending -> nth_error kids' n = Some t' -> GFull t').
  Proof.
    intros Hev a. induction a as [o0|c i k IH|c l k IH]; intros kids o kids' pending HWF HO HJ HBH H; cbn in H.
    - injection H as <- <-. repeat split; try assumption.
      + intros n t t' E1 E2. congruence.
      + intros HV. inversion HV; subst. intros n t' [].
    - inversion HWF as [|c0 i0 k0 Hm Hk|]; subst.
      destruct (nth_error kids c) as [t|] eqn:En; [|discriminate].
      destruct (ev t i) as [[o1 t1]|] eqn:Ee; [|discriminate].
      assert (HOt : GOk t) by (rewrite Forall_forall in HO; apply HO; eapply nth_error_In; eauto).
      assert (HJt : GJ t) by (rewrite Forall_forall in HJ; apply HJ; eapply nth_error_In; eauto).
      assert (HBt : GBH t) by (rewrite Forall_forall in HBH; apply HBH; eapply nth_error_In; eauto).
      destruct (Hev _ _ _ _ Hm HOt HJt HBt Ee) as [HO1 [HJ1 [HB1 [HFk HFp]]]].
      assert (HO' : Forall GOk (replace_nth c t1 kids)) by (apply Forall_replace_nth; assumption).
      assert (HJ' : Forall GJ (replace_nth c t1 kids)) by (apply Forall_replace_nth; assumption).
      assert (HB' : Forall GBH (replace_nth c t1 kids)) by (apply Forall_replace_nth; assumption).
      specialize (IH o1 (replace_nth c t1 kids) o kids'
                     (match mode i with PerformLayout => remove Nat.eq_dec c pending | _ => pending end)
                     (Hk o1) HO' HJ' HB' H).
      destruct IH as [R0 [R1 [R2 [R3 [R4 R5]]]]].
      assert (Hlen : length (replace_nth c t1 kids) = length kids) by (eapply length_replace_nth; eauto).
      repeat split; try assumption.
      + congruence.
      + intros n u u' E1 E2 HFu.
        destruct (Nat.eq_dec c n) as [->|Hne].
        * rewrite En in E1. injection E1 as <-.
          eapply R4; [|exact E2|apply HFk; exact HFu].
          eapply nth_error_replace_same; eauto.
        * eapply R4; [|exact E2|exact HFu]. rewrite (nth_error_replace_other _ _ _ _ _ En Hne). exact E1.
      + intros HV n u' Hin E2. inversion HV as [|p0 c0 i0 k0 Hvk|]; subst.
        specialize (R5 (Hvk o1)).
        destruct (mode i) eqn:Em.
        * destruct (Nat.eq_dec c n) as [->|Hne].
          -- eapply R4; [eapply nth_error_replace_same; eauto | exact E2 | apply HFp; reflexivity].
          -- apply (R5 n u'); [|exact E2]. apply in_in_remove; [congruence|exact Hin].
        * apply (R5 n u'); assumption.
        * congruence.
    - inversion HWF as [| |c0 l0 k0 Hk]; subst.
      destruct (nth_error kids c) as [t|] eqn:En; [|discriminate].
      assert (HOt : GOk t) by (rewrite Forall_forall in HO; apply HO; eapply nth_error_In; eauto).
      assert (HJt : GJ t) by (rewrite Forall_forall in HJ; apply HJ; eapply nth_error_In; eauto).
      assert (HBt : GBH t) by (rewrite Forall_forall in HBH; apply HBH; eapply nth_error_In; eauto).
      assert (HOs : GOk (gset_lay t l)) by (destruct t; inversion HOt; subst; constructor; assumption).
      assert (HJs : GJ (gset_lay t l)) by (destruct t; inversion HJt; subst; constructor; assumption).
      assert (HBs : GBH (gset_lay t l)) by (destruct t; inversion HBt; subst; constructor; assumption).
      assert (HFs : GFull t -> GFull (gset_lay t l)).
      { destruct t; intros HF; inversion HF; subst; [apply GFull_none|apply GFull_node]; assumption. }
      assert (HO' : Forall GOk (replace_nth c (gset_lay t l) kids)) by (apply Forall_replace_nth; assumption).
      assert (HJ' : Forall GJ (replace_nth c (gset_lay t l) kids)) by (apply Forall_replace_nth; assumption).
      assert (HB' : Forall GBH (replace_nth c (gset_lay t l) kids)) by (apply Forall_replace_nth; assumption).
      specialize (IH (replace_nth c (gset_lay t l) kids) o kids' pending Hk HO' HJ' HB' H).
      destruct IH as [R0 [R1 [R2 [R3 [R4 R5]]]]].
      assert (Hlen : length (replace_nth c (gset_lay t l) kids) = length kids) by (eapply length_replace_nth; eauto).
      repeat split; try assumption.
      + congruence.
      + intros n u u' E1 E2 HFu.
        destruct (Nat.eq_dec c n) as [->|Hne].
        * rewrite En in E1. injection E1 as <-.
          eapply R4; [eapply nth_error_replace_same; eauto|exact E2|apply HFs; exact HFu].
        * eapply R4; [|exact E2|exact HFu]. rewrite (nth_error_replace_other _ _ _ _ _ En Hne). exact E1.
      + intros HV. inversion HV; subst. apply R5. assumption.
  Qed.

  Lemma Forall_GFull_nth (kids kids' : list tree) :
    length kids' = length kids ->
    (forall n t t', nth_error kids n = Some t -> nth_error kids' n = Some t' -> GFull t -> GFull t') ->
    Forall GFull kids -> Forall GFull kids'.
  Proof.
    intros Hlen H HF. apply Forall_forall. intros x Hx.
    destruct (In_nth_error _ _ Hx) as [n En].
    assert (Hn : (n < length kids)%nat) by (rewrite <- Hlen; apply nth_error_Some; congruence).
    destruct (nth_error kids n) as [t|] eqn:Et; [|apply nth_error_None in Et; lia].
    eapply H; eauto. rewrite Forall_forall in HF. apply HF. eapply nth_error_In; eauto.
  Qed.

  Lemma Forall_GFull_all (kids' : list tree) n :
    length kids' = n ->
    (forall m t', List.In m (seq 0 n) -> nth_error kids' m = Some t' -> GFull t') -> Forall GFull kids'.
  Proof.
    intros Hlen H. apply Forall_forall. intros x Hx.
    destruct (In_nth_error _ _ Hx) as [m Em].
    eapply H; [|exact Em]. apply in_seq. split; [lia|]. cbn. rewrite <- Hlen. apply nth_error_Some. congruence.
  Qed.

  Theorem gmemo_good : forall f, gev_good (gmemo f).
  Proof.
    induction f as [|f IH]; intros t i o t' Hm HO HJ HBH H; [discriminate|].
    destruct t as [s c l n kids]. rewrite (gmemo_unfold S In Out Lay mode is_none hidden_out zero_lay algo mcalls C cget clossy cstore cclear) in H.
    assert (Hb : gbody S In Out Lay mode is_none hidden_out zero_lay algo mcalls C cget clossy cstore cclear f s c l n kids i = Some (o, t'))
      by (destruct (mode i); [exact H | exact H | congruence]).
    clear H. rename Hb into H. unfold gbody in H.
    inversion HO as [? ? ? ? ? HOc HOk]; subst.
    inversion HJ as [? ? ? ? ? HJl HJk]; subst.
    inversion HBH as [? ? ? ? ? HBl HBk]; subst.
    assert (Hmode : mode i = PerformLayout \/ mode i = ComputeSize) by (destruct (mode i); [left|right|]; congruence).
    destruct (cget c i) as [o1|] eqn:Eg.
    - (* hit *)
      injection H as <- <-.
      split; [constructor; assumption|]. split; [constructor; assumption|]. split; [constructor; assumption|]. split.
      + intros HF. inversion HF; subst; [apply GFull_none|apply GFull_node]; assumption.
      + intros Hp. destruct (is_none s) eqn:En; [apply GFull_none; [exact En|eapply (hit_not_dirty L); eauto]|].
        pose proof (hit_perform_final L _ _ _ Hp Eg) as Hfin.
        apply GFull_node; auto.
    - destruct (is_none s) eqn:En.
      + (* display:none : hidden layout, result stored *)
        injection H as <- <-.
        assert (HOh : Forall GOk (map ghide kids)).
        { apply Forall_map. rewrite Forall_forall in *. intros x Hx. apply GOk_hide. auto. }
        split; [constructor; [apply (ok_store L); apply (ok_clear L); exact HOc | exact HOh]|].
        split.
        * constructor; [intros E; congruence|]. apply Forall_map. rewrite Forall_forall in *. intros x Hx. apply GJ_hide. auto.
        * split.
          -- constructor; [intros _; apply Forall_map; rewrite Forall_forall in *; intros x Hx; apply GB_hide; auto|].
             apply Forall_map. rewrite Forall_forall in *. intros x Hx. apply GBH_hide. auto.
          -- split; intros _; (apply GFull_none; [exact En|apply (store_not_dirty L); [apply (ok_clear L); exact HOc|exact Hm]]).
      + destruct (grun_memo (gmemo f) kids (algo s (map gstyle kids) i)) as [[o1 kids1]|] eqn:Er; [|discriminate].
        injection H as <- <-.
        destruct (grun_memo_good _ IH _ _ _ _ (seq 0 (length (map gstyle kids))) (WF s _ i) HOk HJk HBk Er)
          as [R0 [R1 [R2 [R3 [R4 R5]]]]].
        assert (Hkeep : Forall GFull kids -> Forall GFull kids1) by (apply Forall_GFull_nth; assumption).
        assert (Hperf : mode i = PerformLayout -> Forall GFull kids1).
        { intros Hp. apply (Forall_GFull_all kids1 (length kids)); [exact R3|].
          intros m u Hin Eu. apply (R5 (H1 s _ i Hp) m u); [|exact Eu]. rewrite map_length. exact Hin. }
        split; [constructor; [apply (ok_store L); exact HOc | exact R0]|].
        split.
        * constructor; [|exact R1]. intros _ Hfin.
          destruct Hmode as [Hp|Hc]; [apply Hperf; exact Hp|].
          rewrite (store_compute_final L _ _ _ Hc) in Hfin. apply Hkeep. apply HJl; [reflexivity|exact Hfin].
        * split; [constructor; [intros E; congruence|exact R2]|]. split.
          -- intros HF. inversion HF as [? ? ? ? ? E ?|? ? ? ? ? _ Hfin Hfk]; subst; [congruence|].
             apply GFull_node; [exact En| apply store_final_keep; assumption | apply Hkeep; exact Hfk].
          -- intros Hp. apply GFull_node; [exact En|apply (store_perform_final L); exact Hp|apply Hperf; exact Hp].
  Qed.

  (* ---------- compute_layout leaves no box-generating node dirty ---------- *)
  Lemma GFull_not_dirty s c l n kids : GFull (GN s c l n kids) -> cdirty c = false.
  Proof. intros HF. inversion HF; subst; [assumption|]. apply (final_not_dirty L). assumption. Qed.

  Theorem gpass_clean f t i o t' :
    mode i = PerformLayout -> GOk t -> GJ t -> GB t -> gmemo f t i = Some (o, t') -> GFull t' /\ GOk t' /\ GJ t' /\ GB t'.
  Proof.
    intros Hp HO HJ HB H.
    assert (Hm : mode i <> PerformHiddenLayout) by congruence.
    destruct (gmemo_good f _ _ _ _ Hm HO HJ (GB_GBH _ HB) H) as [HO' [HJ' [HBH' [_ HF]]]].
    specialize (HF Hp). split; [exact HF|]. split; [exact HO'|]. split; [exact HJ'|]. apply GFull_GBH_GB; assumption.
  Qed.

  (* ---------- mark_dirty ---------- *)
  Fixpoint gvisible_path (t : tree) (p : list nat) : Prop :=
    match p with
    | [] => True
    | x :: p' =>
        match t with
        | GNode _ _ _ s _ _ _ kids =>
            is_none s = false /\ match nth_error kids x with Some ch => gvisible_path ch p' | None => False end
        end
    end.

  Definition gcache_at (t : tree) (q : list nat) := option_map gcache (gsubtree t q).
  Definition gstyle_at (t : tree) (q : list nat) := option_map gstyle (gsubtree t q).
  Definition glay_at (t : tree) (q : list nat) := option_map (glay S Lay C) (gsubtree t q).
  Definition gstats_at (t : tree) (q : list nat) := option_map (gstats S Lay C) (gsubtree t q).

  (* what mark_dirty is meant to achieve: every cache on the path is dirty afterwards, nothing else changes *)
  Definition gmd_post (t t' : tree) (p : list nat) : Prop :=
    (forall q, is_prefix q p = true -> exists c, gcache_at t' q = Some c /\ cdirty c = true) /\
    (forall q, is_prefix q p = false -> gcache_at t' q = gcache_at t q) /\
    (forall q, gstyle_at t' q = gstyle_at t q) /\
    (forall q, glay_at t' q = glay_at t q) /\
    (forall q, gstats_at t' q = gstats_at t q).

  Lemma gmd_exact : forall p t, GOk t -> GJ t -> GB t -> gvisible_path t p -> (exists u, gsubtree t p = Some u) ->
    gmd_post t (fst (gmd t p)) p /\ snd (gmd t p) = negb (cdirty (gcache t)).
  Proof.
    induction p as [|x p IH]; intros [s c l n kids] HO HJ HB Hv [u Hu].
    - inversion HO as [? ? ? ? ? HOc HOk]; subst. cbn. split; [|reflexivity]. unfold gmd_post. repeat split.
      + intros q Hq. destruct q; [|discriminate]. cbn. eexists; split; [reflexivity|]. apply (clear_dirty L). exact HOc.
      + intros q Hq. destruct q; [discriminate|]. reflexivity.
      + intros q. destruct q; reflexivity.
      + intros q. destruct q; reflexivity.
      + intros q. destruct q; reflexivity.
    - cbn in Hv. destruct Hv as [En Hv]. cbn in Hu.
      destruct (nth_error kids x) as [ch|] eqn:Ex; [|contradiction].
      inversion HO as [? ? ? ? ? HOc HOk]; subst.
      inversion HJ as [? ? ? ? ? HJl HJk]; subst. inversion HB as [? ? ? ? ? HBl HBk]; subst.
      assert (HOc' : GOk ch) by (rewrite Forall_forall in HOk; apply HOk; eapply nth_error_In; eauto).
      assert (HJc : GJ ch) by (rewrite Forall_forall in HJk; apply HJk; eapply nth_error_In; eauto).
      assert (HBc : GB ch) by (rewrite Forall_forall in HBk; apply HBk; eapply nth_error_In; eauto).
      destruct (IH ch HOc' HJc HBc Hv (ex_intro _ u Hu)) as [[P1 [P2 [P3 [P4 P5]]]] Pb].
      cbn [EngineReal.gmd]. rewrite Ex.
      destruct (gmd ch p) as [ch' cont] eqn:Em. cbn [fst snd] in *. subst cont.
      (* the cache of this node after the call is dirty in both branches *)
      assert (Hroot : cdirty (if negb (cdirty (gcache ch)) then cclear c else c) = true).
      { destruct (cdirty (gcache ch)) eqn:Ee; cbn [negb].
        - (* the child's cache was already empty: the walk stops; then this node's cache is empty too *)
          destruct (cdirty c) eqn:Ec; [reflexivity|]. exfalso.
          pose proof (HBl En eq_refl) as Hfin. pose proof (HJl En Hfin) as HFk.
          rewrite Forall_forall in HFk. specialize (HFk ch (nth_error_In _ _ Ex)).
          destruct ch as [s1 c1 l1 n1 k1]. cbn in Ee.
          pose proof (GFull_not_dirty _ _ _ _ _ HFk). congruence.
        - apply (clear_dirty L). exact HOc. }
      assert (Hsnd : snd (if negb (cdirty (gcache ch))
                          then (GN s (cclear c) l n (replace_nth x ch' kids), negb (cdirty c))
                          else (GN s c l n (replace_nth x ch' kids), false)) = negb (cdirty c)).
      { destruct (cdirty (gcache ch)) eqn:Ee; cbn [negb snd]; [|reflexivity].
        cbn [negb] in Hroot. rewrite Hroot. reflexivity. }
      split; [|exact Hsnd].
      assert (Hfst : fst (if negb (cdirty (gcache ch))
                          then (GN s (cclear c) l n (replace_nth x ch' kids), negb (cdirty c))
                          else (GN s c l n (replace_nth x ch' kids), false))
                     = GN s (if negb (cdirty (gcache ch)) then cclear c else c) l n (replace_nth x ch' kids)).
      { destruct (negb (cdirty (gcache ch))); reflexivity. }
      rewrite Hfst. clear Hfst Hsnd.
      unfold gmd_post. repeat split.
      + intros q Hq. destruct q as [|y q].
        * cbn. eexists; split; [reflexivity|exact Hroot].
        * cbn in Hq. apply andb_true_iff in Hq. destruct Hq as [Hxy Hq]. apply Nat.eqb_eq in Hxy. subst y.
          unfold gcache_at. cbn. rewrite (nth_error_replace_same _ _ _ _ Ex). apply (P1 q Hq).
      + intros q Hq. destruct q as [|y q]; [discriminate|].
        unfold gcache_at. cbn.
        destruct (Nat.eq_dec x y) as [->|Hne].
        * rewrite (nth_error_replace_same _ _ _ _ Ex), Ex. cbn in Hq. rewrite Nat.eqb_refl in Hq. cbn in Hq.
          apply (P2 q Hq).
        * rewrite (nth_error_replace_other _ _ _ _ _ Ex Hne). reflexivity.
      + intros q. destruct q as [|y q]; [reflexivity|]. unfold gstyle_at. cbn.
        destruct (Nat.eq_dec x y) as [->|Hne].
        * rewrite (nth_error_replace_same _ _ _ _ Ex), Ex. apply (P3 q).
        * rewrite (nth_error_replace_other _ _ _ _ _ Ex Hne). reflexivity.
      + intros q. destruct q as [|y q]; [reflexivity|]. unfold glay_at. cbn.
        destruct (Nat.eq_dec x y) as [->|Hne].
        * rewrite (nth_error_replace_same _ _ _ _ Ex), Ex. apply (P4 q).
        * rewrite (nth_error_replace_other _ _ _ _ _ Ex Hne). reflexivity.
      + intros q. destruct q as [|y q]; [reflexivity|]. unfold gstats_at. cbn.
        destruct (Nat.eq_dec x y) as [->|Hne].
        * rewrite (nth_error_replace_same _ _ _ _ Ex), Ex. apply (P5 q).
        * rewrite (nth_error_replace_other _ _ _ _ _ Ex Hne). reflexivity.
  Qed.
End GDirty.

(* ---------------------------------------------------------------------------------------------------------------- *)
(* the REAL cache (src/tree/cache.rs, `rcache` of Model/EngineReal.v) satisfies the laws *)
Section RealLaws.
  Context {T : Type} `{Num T}.
  Variables (In Out : Type).
  Variable mode : In -> RunMode.
  Variable key_of : In -> Cache.key T.
  Variable osize : Out -> Cache.size T.
  Variable from_outer : Cache.size T -> Out.
  Notation rcache := (rcache In Out).
  Notation rget := (rget In Out mode key_of osize from_outer).
  Notation rstore := (rstore In Out mode key_of).
  Notation rclear := (rclear In Out).
  Notation rdirty := (rdirty In Out).

  (* has a final-layout entry *)
  Definition rfinal (c : rcache) : bool := is_some (r_final In Out c).
  (* representation invariant: nine measure slots; the private is_empty flag is only set when there is no entry *)
  Definition rwf (c : rcache) : Prop :=
    length (r_meas In Out c) = N.to_nat CACHE_SIZE /\ (r_flag In Out c = true -> rdirty c = true).

  Lemma rwf_new : rwf (rnew In Out).
  Proof. split; [apply repeat_length | reflexivity]. Qed.

  Lemma existsb_set_nth {A} (n : nat) (x : A) (l : list (option A)) :
    (n < length l)%nat -> existsb is_some (set_nth n (Some x) l) = true.
  Proof.
    revert n; induction l as [|a l IH]; intros n Hn; [cbn in Hn; lia|].
    destruct n as [|n]; cbn; [reflexivity|]. rewrite IH by (cbn in Hn; lia). apply orb_true_r.
  Qed.

  Lemma rfind_some i es e : rfind In Out key_of osize i es = Some e -> existsb is_some es = true.
  Proof.
    induction es as [|[a|] es IH]; cbn; intros Hf; [discriminate|reflexivity|]. apply IH. exact Hf.
  Qed.

  Theorem real_cache_laws :
    cache_laws In Out mode rcache (rnew In Out) rget rstore rclear rdirty rfinal rwf.
  Proof.
    constructor.
    - apply rwf_new.
    - reflexivity.
    - intros c i o [Hl Hf]. unfold EngineReal.rstore. destruct (mode i); unfold rwf; cbn [r_meas r_flag].
      + split; [exact Hl|discriminate].
      + split; [rewrite set_nth_length; exact Hl|discriminate].
      + split; assumption.
    - intros c Hc. unfold EngineReal.rclear. destruct (r_flag In Out c); [exact Hc|apply rwf_new].
    - intros c Hf. unfold rfinal in Hf. unfold EngineReal.rdirty. rewrite Hf. reflexivity.
    - intros c i o Hm. unfold EngineReal.rstore. rewrite Hm. reflexivity.
    - intros c i o Hm. unfold EngineReal.rstore. rewrite Hm. reflexivity.
    - intros c i o Hg. unfold EngineReal.rget, rhit in Hg. unfold EngineReal.rdirty.
      destruct (mode i).
      + destruct (r_final In Out c); [reflexivity|discriminate].
      + destruct (rfind In Out key_of osize i (r_meas In Out c)) as [e|] eqn:Ef; [|discriminate].
        rewrite (rfind_some _ _ _ Ef). apply andb_false_r.
      + discriminate.
    - intros c i o [Hl _] Hm. unfold EngineReal.rstore, EngineReal.rdirty. destruct (mode i); cbn; [reflexivity| |congruence].
      rewrite existsb_set_nth; [apply andb_false_r|].
      rewrite Hl. unfold slot_of_key.
      pose proof (slot_lt_9 (is_some (kd_w (key_of i))) (is_some (kd_h (key_of i))) (kind_of (av_w (key_of i))) (kind_of (av_h (key_of i)))).
      lia.
    - intros c i o Hm Hg. unfold EngineReal.rget, rhit in Hg. rewrite Hm in Hg. unfold rfinal.
      destruct (r_final In Out c); [reflexivity|discriminate].
    - intros c [Hl Hf]. unfold EngineReal.rclear. destruct (r_flag In Out c) eqn:E; [apply Hf; reflexivity|reflexivity].
  Qed.

  (* a lookup under the key just stored hits (final-layout entry), for every key that matches itself: C02_store_hit's premise *)
  Lemma real_store_hit c i o :
    mode i = PerformLayout -> self_compat (key_of i) -> rget (rstore c i o) i = Some o.
  Proof.
    intros Hm Hs. unfold EngineReal.rget, rhit, EngineReal.rstore. rewrite Hm. cbn. unfold rcompat. cbn.
    rewrite (self_compat_compat _ _ Hs). cbn. unfold ranswer. rewrite Hm. reflexivity.
  Qed.
End RealLaws.

(* second pass of memo_real: the premise is about the root input only *)
Section RealSecondPass.
  Context {T : Type} `{Num T}.
  Variables (S In Out Lay : Type).
  Variable mode : In -> RunMode.
  Variable is_none : S -> bool.
  Variable hidden_out : Out.
  Variable zero_lay : Lay.
  Variable algo : S -> list S -> In -> Alg In Out Lay.
  Variable mcalls : S -> list S -> In -> N.
  Variable key_of : In -> Cache.key T.
  Variable osize : Out -> Cache.size T.
  Variable from_outer : Cache.size T -> Out.
  Variable in_eqb : In -> In -> bool.
  Variable is_outer : Out -> bool.
  Notation memo_real := (memo_real S In Out Lay mode is_none hidden_out zero_lay algo mcalls key_of osize from_outer in_eqb is_outer).

  Theorem real_second_pass_silent f g t i o t' :
    mode i = PerformLayout -> self_compat (key_of i) ->
    memo_real f t i = Some (o, t') ->
    memo_real (Datatypes.S g) t' i
      = Some (o, ghit_root S In Lay (rcache In Out) (rlossy In Out mode key_of osize in_eqb is_outer) i t').
  Proof.
    intros Hm Hs Hr. unfold EngineReal.memo_real in *. destruct f as [|f]; [discriminate|].
    destruct t as [s c l n kids]. cbn [EngineReal.gmemo] in Hr. rewrite Hm in Hr.
    destruct (rget In Out mode key_of osize from_outer c i) as [o1|] eqn:Eg.
    - injection Hr as <- <-. cbn [EngineReal.gmemo]. rewrite Hm, Eg. reflexivity.
    - destruct (is_none s).
      + injection Hr as <- <-. cbn [EngineReal.gmemo]. rewrite Hm, (real_store_hit In Out mode key_of osize from_outer _ _ _ Hm Hs). reflexivity.
      + destruct (grun_memo _ _ _ _ _ _ kids _) as [[o1 kids1]|]; [|discriminate].
        injection Hr as <- <-. cbn [EngineReal.gmemo]. rewrite Hm, (real_store_hit In Out mode key_of osize from_outer _ _ _ Hm Hs). reflexivity.
  Qed.
End RealSecondPass.
