import sys, subprocess, json, os, re, time
R='/tmp/c14-repo'
F=R+'/src/tree/taffy_tree.rs'
def reset():
    subprocess.run(['git','-C',R,'checkout','--','.'],check=True)
MUT={
 'M1_set_children_keeps_old_parent_entry': [("""            if let Some(previous_parent) = self.parents[child.into()] {
                self.remove_child(previous_parent, child).unwrap();
            }
""","")],
 'M2_insert_off_by_one': [("""        if child_index > child_count {
            return Err(TaffyError::ChildIndexOutOfBounds { parent, child_index, child_count });
        }

        self.parents[child.into()] = Some(parent);
        self.children[parent_key].insert(child_index, child);""","""        if child_index >= child_count && child_count > 0 {
            return Err(TaffyError::ChildIndexOutOfBounds { parent, child_index, child_count });
        }

        self.parents[child.into()] = Some(parent);
        self.children[parent_key].insert(child_index, child);""")],
 'M2b_insert_rejects_append_position': [("if child_index > child_count {","if child_index >= child_count {")],
 'M3_remove_does_not_orphan': [("""            for child in children.iter().copied() {
                self.parents[child.into()] = None;
            }""","""            for _child in children.iter().copied() {}""")],
 'M4_replace_keeps_old_parent': [("""        self.parents[old_child.into()] = None;

        self.mark_dirty(parent)?;

        Ok(old_child)""","""        self.mark_dirty(parent)?;

        Ok(old_child)""")],
 'M5_remove_child_at_index_wrong_count_in_error': [("""        let child_count = self.children[parent_key].len();
        if child_index >= child_count {
            return Err(TaffyError::ChildIndexOutOfBounds { parent, child_index, child_count });
        }

        let child = self.children[parent_key].remove(child_index);""","""        let child_count = self.children[parent_key].len();
        if child_index >= child_count {
            return Err(TaffyError::ChildIndexOutOfBounds { parent, child_index, child_count: child_count.saturating_sub(1) });
        }

        let child = self.children[parent_key].remove(child_index);""")],
 'M6_clear_forgets_parents_map': [("        self.children.clear();\n        self.parents.clear();","        self.children.clear();")],
 'M7_remove_forgets_parents_slot': [("        let _ = self.parents.remove(key);\n","")],
 'H1_harmless_refactor': [("""        self.parents[child_key] = Some(parent);
        self.children[parent_key].push(child);
        self.mark_dirty(parent)?;""","""        let list = &mut self.children[parent_key];
        list.insert(list.len(), child);
        self.parents[child_key] = Some(parent);
        self.mark_dirty(parent)?;"""),
 ("""        let index = self.children[parent.into()].iter().position(|n| *n == child).unwrap();
        self.remove_child_at_index(parent, index)""","""        let mut index = None;
        for (i, n) in self.children[parent.into()].iter().enumerate() {
            if *n == child {
                index = Some(i);
                break;
            }
        }
        self.remove_child_at_index(parent, index.unwrap())""")],
}
names=sys.argv[1:] or list(MUT)
for name in names:
    reset()
    s=open(F).read()
    for old,new in MUT[name]:
        assert s.count(old)==1, (name, s.count(old))
        s=s.replace(old,new)
    open(F,'w').write(s)
    t0=time.time()
    p=subprocess.run(['./check','C14'],cwd='/verif-wt/c14',env=dict(os.environ,VERIF_REPO=R),capture_output=True,text=True)
    dt=time.time()-t0
    print('=====',name,'rc',p.returncode,'%.0fs'%dt)
    for l in p.stdout.split('\n'):
        if l.strip(): print('  ',l[:200])
    ev=json.load(open('/verif-wt/c14/evidence/C14.json'))
    print('   fingerprints_changed',ev['coverage'].get('fingerprints_changed'),'disagreements',ev['coverage'].get('disagreements'),'oracle',ev['coverage'].get('oracle'))
    for f in sorted(os.listdir('/verif-wt/c14/evidence/replay')):
        if f.startswith('C14-'):
            d=json.load(open('/verif-wt/c14/evidence/replay/'+f))
            r=d.get('replay',{})
            print('   ',f,'|',d['what'][:160])
            if r: print('      min:',r.get('ops'),'|',r.get('minimised_message'))
            if not os.environ.get('KEEP'): os.remove('/verif-wt/c14/evidence/replay/'+f)
if not os.environ.get('KEEP'): reset()
