(* Executable driver of the C09 correspondence check, stage 2: the whole `track_sizing_algorithm` with the full step
   11.5 of Model/GridIntrinsic.v (the definitions the theorems of Props/C09.v are about) instantiated at F32 and
   evaluated on the harness's cases (`vh c09 cases`).

   case   = Wk W Hk H  aWk aW aHk aH  pad(l r t b)  border(l r t b)  gap_w(kind bits) gap_h(kind bits)
            justify_content align_content <template columns> <template rows> <auto columns> <auto rows>
            n_items (col_line col_span row_line row_span w h ml mr mt mb ovx ovy)*
            Wk/Hk: 0 = the container's size on that axis is the length W/H, 1 = auto
            aWk/aHk: the available space handed to compute_layout: 0 max-content, 1 min-content, 2 definite (aW/aH)
   result = as in GridTracksRun: for columns then rows: negative_implicit explicit positive_implicit n sizes.. n+1
            gutters..; container width height; for every item x y.

   The container is a border-box root grid (length padding and border, no min/max size), its children are leaves of
   fixed size w x h (border-box, no padding/border/min/max/aspect ratio) with length margins, overflow visible (0) or
   hidden (1: a scroll container), placed at CSS line `col_line` / `row_line` spanning `*_span` tracks.  For such an item
   GridItem::{min,max}_content_contribution_cached return its fixed size and minimum_contribution_cached that size capped
   by the sum of the max track sizing functions of the tracks it spans when all of them are definite
   (spanned_fixed_track_limit) -- computed here; everything downstream is the model.  compute_grid_layout's glue
   (available grid space, track counts of definitely placed items, the two sizing passes and their re-runs, percentage
   re-resolution, container size, item position) is mirrored here. *)
From Coq Require Import ZArith NArith Bool List.
From TV Require Import Num.Num Num.F32 Gen.GridTracksGen Model.GridTracks Model.GridTracksRun Model.GridIntrinsic.
Import ListNotations.
Open Scope Z_scope.

Record ritem := mk_ritem {
  r_col : Z; r_cspan : Z; r_row : Z; r_rspan : Z; r_w : f32; r_h : f32;
  r_ml : f32; r_mr : f32; r_mt : f32; r_mb : f32; r_ovx : Z; r_ovy : Z }.

Fixpoint take_ritems (n : nat) (xs : list Z) : list ritem :=
  match n with
  | O => []
  | S n' =>
      match xs with
      | c :: cs :: r :: rs :: w :: h :: ml :: mr :: mt :: mb :: ox :: oy :: rest =>
          mk_ritem c cs r rs (f_of_bits w) (f_of_bits h) (f_of_bits ml) (f_of_bits mr) (f_of_bits mt) (f_of_bits mb) ox oy
            :: take_ritems n' rest
      | _ => []
      end
  end.

(* what one axis reads of an item: CSS start line, span, fixed size, margin at the start and end of the axis, overflow *)
Record aitem := mk_aitem { a_line : Z; a_span : Z; a_size : f32; a_m0 : f32; a_m1 : f32; a_scroll : bool; a_vertical : bool }.

Definition col_aitem (i : ritem) : aitem := mk_aitem (r_col i) (r_cspan i) (r_w i) (r_ml i) (r_mr i) (negb (r_ovx i =? 0)) false.
Definition row_aitem (i : ritem) : aitem := mk_aitem (r_row i) (r_rspan i) (r_h i) (r_mt i) (r_mb i) (negb (r_ovy i =? 0)) true.

(* margins_axis_sums_with_baseline_shims(..).get(axis): left + right, (top + baseline_shim) + bottom with shim 0.0 *)
Definition margin_sum (a : aitem) : f32 :=
  if a_vertical a then f_add (f_add (a_m0 a) zero) (a_m1 a) else f_add (a_m0 a) (a_m1 a).

Definition dec_avail (k v : Z) : avail_space f32 :=
  match k with 0 => MaxContentA | 1 => MinContentA | _ => Definite (f_of_bits v) end.

Record axis_setup := { as_counts : track_counts; as_tracks : list (track f32); as_items : list (item f32);
                       as_sizes : list f32 }.

(* counts from the definite placements, initialise the track vector, the items as the sizing algorithm reads them *)
Definition setup_axis (template : list (tsf f32)) (autos : list (nrt f32)) (gap : sfn f32) (autofit_inner : option f32)
           (size_is_maximum : bool) (aitems : list aitem) : axis_setup :=
  let explicit := explicit_grid_size template autofit_inner gap size_is_maximum in
  let oz := map (fun a => origin_zero explicit (a_line a)) aitems in
  let spans := map a_span aitems in
  let neg := fold_left (fun acc s => Z.max acc (- s)) oz 0 in
  let pos := fold_left (fun acc se => Z.max acc (fst se + snd se - Z.of_N explicit)) (combine oz spans) 0 in
  let counts := mk_counts (Z.to_N neg) explicit (Z.to_N pos) in
  let has_items := fun i : N => existsb (fun se => (fst se + neg <=? Z.of_N i) && (Z.of_N i <? fst se + neg + snd se))
                                        (combine oz spans) in
  let tracks0 := initialize_grid_tracks counts template autos gap has_items in
  let mk := fun (idx : nat) (sa : Z * aitem) =>
              let '(s, a) := sa in
              mk_axis_item idx s (Z.to_nat (s + neg)) (Z.to_nat (a_span a)) (a_scroll a) (margin_sum a) tracks0 in
  let items := map (fun p => mk (fst p) (snd p)) (combine (seq 0 (length aitems)) (combine oz aitems)) in
  Build_axis_setup counts tracks0 items (map a_size aitems).

Definition size_axis (s : axis_setup) (avail : avail_space f32) (inner : option f32) (align : align_content)
           (items : list (item f32)) (tracks : list (track f32)) : list (track f32) :=
  track_sizing_algorithm_full (leaf_contrib inner (as_tracks s) (as_sizes s)) None None (is_stretch align) avail inner items tracks.

(* whether min_content_contribution_cached was evaluated for the item during a sizing pass of its axis (decides the
   re-run of compute_grid_layout: `Some(new) != item.min_content_contribution_cache`) *)
Definition mcc_queried (inner : option f32) (avail : avail_space f32) (tracks : list (track f32)) (it : item f32) : bool :=
  if it_crosses_flex it || negb (Nat.eqb (it_span it) 1) then true
  else
    match nth_error tracks (S (it_start it)) with
    | None => false
    | Some t =>
        let base_q :=
          match minf t with
          | SMinContent => true
          | SPercent _ => match inner with None => true | Some _ => false end
          | SAuto => match avail with Definite _ => false | _ => negb (it_scroll it) end
          | _ => false
          end in
        let limit_q :=
          if is_fit_content (maxf t) then negb (it_scroll it)
          else if is_max_content_alike (maxf t) || (uses_percentage (maxf t) && match inner with None => true | _ => false end)
          then false
          else is_intrinsic (maxf t) in
        base_q || limit_q
    end.

(* step 7 of compute_grid_layout: percentage tracks of an axis sized under a min-/max-content constraint *)
Definition reresolve_percent (content : f32) (tracks : list (track f32)) : list (track f32) :=
  map (fun t =>
         let mn := match minf t with SPercent v => Some (f_mul v content) | _ => None end in
         let mx := match maxf t with SPercent v => Some (f_mul v content) | _ => None end in
         let b := base_size t in
         let b' := match mn, mx with
                   | Some a, Some c => fmax (fmin b c) a
                   | None, Some c => fmin b c
                   | Some a, None => fmax b a
                   | None, None => b
                   end in
         set_base t b') tracks.

Definition track_uses_percentage (t : track f32) : bool :=
  (match minf t with SPercent _ => true | _ => false end) || uses_percentage (maxf t).

Definition enc_tracks (c : track_counts) (ts : list (track f32)) : list Z :=
  enc_axis (Build_axis_result c ts).

Definition item_offset (ts : list (track f32)) (it : item f32) (m0 : f32) : f32 :=
  match nth_error ts (S (it_start it)) with
  | Some t => f_add (f_add (offset t) (f_add m0 zero)) zero
  | None => zero
  end.

Definition avail_is_definite (a : avail_space f32) : bool := match a with Definite _ => true | _ => false end.

Definition run_case2 (c : list Z) : list Z :=
  match c with
  | wk :: w :: hk :: h :: awk :: aw :: ahk :: ah :: pl :: pr :: pt :: pb :: bl :: br :: bt :: bb :: gwk :: gwv :: ghk :: ghv
       :: jc :: ac :: ncols :: r0 =>
      let '(cols, r1) := take_template (Z.to_nat ncols) r0 in
      match r1 with
      | nrows :: r1' =>
          let '(rows, r2) := take_template (Z.to_nat nrows) r1' in
          match r2 with
          | nac :: r2' =>
              let '(acols, r3) := take_tracks (Z.to_nat nac) r2' in
              match r3 with
              | nar :: r3' =>
                  let '(arows, r4) := take_tracks (Z.to_nat nar) r3' in
                  match r4 with
                  | ni :: r4' =>
                      let ritems := take_ritems (Z.to_nat ni) r4' in
                      let f := f_of_bits in
                      let il := f_add (f pl) (f bl) in
                      let ir := f_add (f_add (f pr) (f br)) zero in
                      let it := f_add (f pt) (f bt) in
                      let ib := f_add (f_add (f pb) (f bb)) zero in
                      let pbw := f_add (f_add (f pl) (f bl)) (f_add (f pr) (f br)) in
                      let pbh := f_add (f_add (f pt) (f bt)) (f_add (f pb) (f bb)) in
                      let inset_w := f_add il ir in
                      let inset_h := f_add it ib in
                      let def_w := wk =? 0 in
                      let def_h := hk =? 0 in
                      (* outer_node_size, inner_node_size, available_grid_space *)
                      let outer_w := if def_w then Some (fmax (f w) pbw) else None in
                      let outer_h := if def_h then Some (fmax (f h) pbh) else None in
                      let inner_w0 := match outer_w with Some o => Some (f_sub o inset_w) | None => None end in
                      let inner_h0 := match outer_h with Some o => Some (f_sub o inset_h) | None => None end in
                      let grid_avail := fun (outer : option f32) (a : avail_space f32) (pbs inset : f32) =>
                                          match outer with
                                          | Some o => Definite (f_sub o inset)
                                          | None => match a with
                                                    | Definite v => Definite (f_sub (fmax v pbs) inset)
                                                    | other => other
                                                    end
                                          end in
                      let avail_w := grid_avail outer_w (dec_avail awk aw) pbw inset_w in
                      let avail_h := grid_avail outer_h (dec_avail ahk ah) pbh inset_h in
                      let jcv := dec_align jc in
                      let acv := dec_align ac in
                      let cs := setup_axis cols acols (dec_sfn gwk gwv) inner_w0 def_w (map col_aitem ritems) in
                      let rs := setup_axis rows arows (dec_sfn ghk ghv) inner_h0 def_h (map row_aitem ritems) in
                      (* first pass: columns, then rows with the column sum as the inner width *)
                      let col1 := size_axis cs avail_w inner_w0 jcv (as_items cs) (as_tracks cs) in
                      let col_sum := fsum (map base_size col1) in
                      let inner_w := match inner_w0 with Some v => Some v | None => Some col_sum end in
                      let row1 := size_axis rs avail_h inner_h0 acv (as_items rs) (as_tracks rs) in
                      let row_sum := fsum (map base_size row1) in
                      let inner_h := match inner_h0 with Some v => Some v | None => Some row_sum end in
                      (* container size *)
                      let bbox_w := fmax (match outer_w with Some _ => f w | None => f_add col_sum inset_w end) pbw in
                      let bbox_h := fmax (match outer_h with Some _ => f h | None => f_add row_sum inset_h end) pbh in
                      let content_w := fmax zero (f_sub bbox_w inset_w) in
                      let content_h := fmax zero (f_sub bbox_h inset_h) in
                      (* percentage tracks under an indefinite available grid space *)
                      let col2 := if avail_is_definite avail_w then col1 else reresolve_percent content_w col1 in
                      let row2 := if avail_is_definite avail_h then row1 else reresolve_percent content_h row1 in
                      (* re-runs *)
                      let rerun_cols :=
                        (negb (avail_is_definite (dec_avail awk aw)) && existsb track_uses_percentage col2)
                        || existsb (fun i => it_crosses_intrinsic i && negb (mcc_queried inner_w0 avail_w (as_tracks cs) i))
                                   (as_items cs) in
                      let col3 := if rerun_cols then size_axis cs avail_w inner_w jcv (as_items cs) col2 else col2 in
                      let rerun_rows :=
                        rerun_cols &&
                        ((negb (avail_is_definite (dec_avail ahk ah)) && existsb track_uses_percentage row2)
                         || existsb (fun p => it_crosses_intrinsic (fst p)
                                              && negb (mcc_queried inner_h0 avail_h (as_tracks rs) (snd p)))
                                    (combine (as_items cs) (as_items rs))) in
                      let row3 := if rerun_rows then size_axis rs avail_h inner_h acv (as_items rs) row2 else row2 in
                      let colf := align_tracks content_w (f pl) (f bl) col3 jcv in
                      let rowf := align_tracks content_h (f pt) (f bt) row3 acv in
                      enc_tracks (as_counts cs) colf ++ enc_tracks (as_counts rs) rowf
                        ++ [f_to_bits bbox_w; f_to_bits bbox_h]
                        ++ flat_map (fun p => let '(ri, (ci, rwi)) := p in
                                              [f_to_bits (item_offset colf ci (r_ml ri)); f_to_bits (item_offset rowf rwi (r_mt ri))])
                             (combine ritems (combine (as_items cs) (as_items rs)))
                  | _ => []
                  end
              | _ => []
              end
          | _ => []
          end
      | _ => []
      end
  | _ => []
  end.
