(* Lemmas about the GENERATED placement tables (Gen/PlacementGen.v) and the checked arithmetic. *)
From Coq Require Import ZArith Bool List Lia.
From TV Require Import Model.PlacementBase Gen.PlacementGen Model.Placement.
Import ListNotations.
Open Scope Z_scope.

(* ------------------------------------------------------------------ the res monad *)
Lemma bind_ok : forall A B (x : res A) (f : A -> res B) b, bind x f = Ok b -> exists a, x = Ok a /\ f a = Ok b.
Proof. intros A B [a|e] f b H; simpl in H; [eauto | discriminate]. Qed.

Lemma chk_i16_ok : forall x v, chk_i16 x = Ok v -> v = x /\ -32768 <= x <= 32767.
Proof.
  unfold chk_i16, in_i16, i16_min, i16_max. intros x v H.
  destruct (Z.leb_spec (-32768) x), (Z.leb_spec x 32767); simpl in H; inversion H; lia.
Qed.
Lemma chk_u16_ok : forall x v, chk_u16 x = Ok v -> v = x /\ 0 <= x <= 65535.
Proof.
  unfold chk_u16, in_u16, u16_max. intros x v H.
  destruct (Z.leb_spec 0 x), (Z.leb_spec x 65535); simpl in H; inversion H; lia.
Qed.
Lemma chk_usize_ok : forall x v, chk_usize x = Ok v -> v = x /\ 0 <= x <= 18446744073709551615.
Proof.
  unfold chk_usize, in_usize, usize_max. intros x v H.
  destruct (Z.leb_spec 0 x), (Z.leb_spec x 18446744073709551615); simpl in H; inversion H; lia.
Qed.
Lemma chk_i16_intro : forall x, -32768 <= x <= 32767 -> chk_i16 x = Ok x.
Proof.
  unfold chk_i16, in_i16, i16_min, i16_max. intros x H.
  destruct (Z.leb_spec (-32768) x), (Z.leb_spec x 32767); simpl; auto; lia.
Qed.
Lemma chk_u16_intro : forall x, 0 <= x <= 65535 -> chk_u16 x = Ok x.
Proof.
  unfold chk_u16, in_u16, u16_max. intros x H.
  destruct (Z.leb_spec 0 x), (Z.leb_spec x 65535); simpl; auto; lia.
Qed.
Lemma chk_usize_intro : forall x, 0 <= x <= 18446744073709551615 -> chk_usize x = Ok x.
Proof.
  unfold chk_usize, in_usize, usize_max. intros x H.
  destruct (Z.leb_spec 0 x), (Z.leb_spec x 18446744073709551615); simpl; auto; lia.
Qed.

Lemma u16_as_i16_small : forall x, x < 32768 -> u16_as_i16 x = x.
Proof. intros x H. unfold u16_as_i16. destruct (Z.ltb_spec x 32768); lia. Qed.
Lemma u16_as_i16_range : forall x, 0 <= x <= 65535 -> -32768 <= u16_as_i16 x <= 32767.
Proof. intros x H. unfold u16_as_i16. destruct (Z.ltb_spec x 32768); lia. Qed.

Global Opaque chk_i16 chk_u16 chk_usize.

(* decompose hypotheses of the form  (do x <- e; f) = Ok v, checked operations, ifs *)
Ltac mon1 :=
  match goal with
  | H : bind ?x _ = Ok _ |- _ =>
      let a := fresh "v" in let H1 := fresh "E" in let H2 := fresh "E" in
      destruct (bind_ok _ _ _ _ _ H) as [a [H1 H2]]; clear H; cbv beta in H2
  | H : Ok _ = Ok _ |- _ => inversion H; clear H; subst
  | H : Err _ = Ok _ |- _ => discriminate H
  | H : i16_add _ _ = Ok _ |- _ => unfold i16_add in H
  | H : i16_sub _ _ = Ok _ |- _ => unfold i16_sub in H
  | H : i16_neg _ = Ok _ |- _ => unfold i16_neg in H
  | H : u16_add _ _ = Ok _ |- _ => unfold u16_add in H
  | H : u16_sub _ _ = Ok _ |- _ => unfold u16_sub in H
  | H : usize_add _ _ = Ok _ |- _ => unfold usize_add in H
  | H : usize_mul _ _ = Ok _ |- _ => unfold usize_mul in H
  | H : ozl_add_u16 _ _ = Ok _ |- _ => unfold ozl_add_u16 in H
  | H : ozl_sub_u16 _ _ = Ok _ |- _ => unfold ozl_sub_u16 in H
  | H : chk_i16 _ = Ok _ |- _ => apply chk_i16_ok in H; destruct H as [? ?]; subst
  | H : chk_u16 _ = Ok _ |- _ => apply chk_u16_ok in H; destruct H as [? ?]; subst
  | H : chk_usize _ = Ok _ |- _ => apply chk_usize_ok in H; destruct H as [? ?]; subst
  | H : (let '(_, _) := ?p in _) = Ok _ |- _ => destruct p
  end.
Ltac mon := repeat mon1.

(* ------------------------------------------------------------------ the specification side (independent of the generated code) *)

(* CSS line index (non-zero) -> origin-zero line, for `e` explicit tracks *)
Definition oz (l e : Z) : Z := if 0 <? l then l - 1 else l + e + 1.

Definition nz_line (p : GP) : option Z :=
  match p with Line l => if l =? 0 then None else Some l | _ => None end.
Definition span_or_1 (p : GP) : Z := match p with Span s => s | _ => 1 end.

(* the grid area edges (origin-zero lines) demanded by a placement with at least one non-zero line:
   other edge from the span (default 1) or the other line, swapped if reversed, +1 if equal *)
Definition expected (ln : Ln GP) (e : Z) : option (Z * Z) :=
  match nz_line (l_start ln), nz_line (l_end ln) with
  | Some a, Some b => if oz a e =? oz b e then Some (oz a e, oz a e + 1) else Some (Z.min (oz a e) (oz b e), Z.max (oz a e) (oz b e))
  | Some a, None => Some (oz a e, oz a e + span_or_1 (l_end ln))
  | None, Some b => Some (oz b e - span_or_1 (l_start ln), oz b e)
  | None, None => None
  end.

(* domain of one placement value / one axis / one child *)
Definition gp_ok (p : GP) : Prop :=
  match p with Auto => True | Line l => -64 <= l <= 64 | Span s => 1 <= s <= 64 end.
Definition ln_ok (ln : Ln GP) : Prop := gp_ok (l_start ln) /\ gp_ok (l_end ln).
Definition child_ok (c : child) : Prop := ln_ok (c_row c) /\ ln_ok (c_col c).

(* the same after conversion to origin-zero coordinates: lines within [-127,128]-ish, spans unchanged *)
Definition ozgp_ok (p : GP) : Prop :=
  match p with Auto => True | Line l => -63 <= l <= 128 | Span s => 1 <= s <= 64 end.

Lemma into_origin_zero_line_spec : forall l e v, 0 <= e <= 32000 ->
  into_origin_zero_line l e = Ok v -> l <> 0 /\ v = oz l e.
Proof.
  intros l e v He H. unfold into_origin_zero_line in H. mon.
  unfold oz. destruct (Z.compare_spec l 0); mon.
  - rewrite u16_as_i16_small by lia. destruct (Z.ltb_spec 0 l); lia.
  - destruct (Z.ltb_spec 0 l); lia.
Qed.

Definition ozp_spec (p : GP) (e : Z) : GP :=
  match p with
  | Auto => Auto
  | Span s => Span s
  | Line l => if l =? 0 then Auto else Line (oz l e)
  end.

Lemma into_origin_zero_placement_spec : forall p e q, 0 <= e <= 32000 ->
  into_origin_zero_placement p e = Ok q -> q = ozp_spec p e.
Proof.
  intros p e q He H. unfold into_origin_zero_placement in H. destruct p as [|l|s]; simpl; mon; auto.
  destruct l; mon; auto;
    match goal with H : into_origin_zero_line _ _ = Ok _ |- _ => apply into_origin_zero_line_spec in H; [|lia]; destruct H; subst; auto end.
Qed.

Lemma into_origin_zero_spec : forall ln e z, 0 <= e <= 32000 ->
  into_origin_zero ln e = Ok z -> z = mkLn (ozp_spec (l_start ln) e) (ozp_spec (l_end ln) e).
Proof.
  intros ln e z He H. unfold into_origin_zero in H. mon.
  repeat match goal with H : into_origin_zero_placement _ _ = Ok _ |- _ => apply into_origin_zero_placement_spec in H; [|lia] end.
  subst. reflexivity.
Qed.

Lemma oz_range : forall l e, 0 <= e <= 64 -> -64 <= l <= 64 -> l <> 0 -> -63 <= oz l e <= 128.
Proof. intros. unfold oz. destruct (Z.ltb_spec 0 l); lia. Qed.

Lemma ozp_spec_ok : forall p e, 0 <= e <= 64 -> gp_ok p -> ozgp_ok (ozp_spec p e).
Proof.
  intros [|l|s] e He H; simpl in *; auto.
  destruct (Z.eqb_spec l 0); simpl; auto. apply oz_range; auto.
Qed.

(* is_definite on the raw style <-> is_definite on the converted one <-> the specification's notion *)
Lemma is_definite_spec : forall ln, is_definite ln = true <-> (nz_line (l_start ln) <> None \/ nz_line (l_end ln) <> None).
Proof.
  intros [s e]. unfold is_definite. simpl.
  destruct s as [|a|a], e as [|b|b]; simpl;
    repeat match goal with |- context [Z.eqb ?x 0] => destruct (Z.eqb_spec x 0) end; simpl;
    split; intros; try discriminate; try tauto; try (left; discriminate); try (right; discriminate);
    try (destruct H as [H|H]; congruence).
Qed.

Lemma is_definite_oz_spec : forall ln e,
  is_definite_oz (mkLn (ozp_spec (l_start ln) e) (ozp_spec (l_end ln) e)) = is_definite ln.
Proof.
  intros [s t] e. unfold is_definite_oz, is_definite. simpl.
  destruct s as [|a|a], t as [|b|b]; simpl; auto;
    repeat match goal with |- context [Z.eqb ?x 0] => destruct (Z.eqb_spec x 0) end; simpl; auto.
Qed.

(* explicit lines are honoured: resolving a definite axis yields exactly the expected edges, a non-empty range *)
Lemma resolve_definite_spec : forall ln e r, 0 <= e <= 64 -> ln_ok ln -> is_definite ln = true ->
  resolve_definite_grid_lines (mkLn (ozp_spec (l_start ln) e) (ozp_spec (l_end ln) e)) = Ok r ->
  expected ln e = Some (l_start r, l_end r) /\ l_start r < l_end r /\ -127 <= l_start r /\ l_end r <= 192.
Proof.
  intros [s t] e r He [Hs Ht] Hd H. unfold resolve_definite_grid_lines in H. unfold expected. simpl in *.
  unfold is_definite in Hd. simpl in Hd.
  destruct s as [|a|a], t as [|b|b]; simpl in *;
    repeat match goal with
           | _ : context [Z.eqb ?x 0] |- _ => destruct (Z.eqb_spec x 0); simpl in *
           | |- context [Z.eqb ?x 0] => destruct (Z.eqb_spec x 0); simpl in *
           end; try discriminate; mon; simpl;
    repeat match goal with
           | _ : context [Z.eqb ?x ?y] |- _ => destruct (Z.eqb_spec x y); simpl in *
           | |- context [Z.eqb ?x ?y] => destruct (Z.eqb_spec x y); simpl in *
           end; mon; simpl;
    try rewrite !u16_as_i16_small in * by lia;
    repeat match goal with
           | Hn : ?a <> 0, Hr : -64 <= ?a <= 64 |- _ =>
               lazymatch goal with
               | _ : -63 <= oz a e <= 128 |- _ => fail
               | _ => pose proof (oz_range a e He Hr Hn)
               end
           end;
    try (split; [f_equal; f_equal; lia | lia]); try lia.
Qed.

(* ------------------------------------------------------------------ indefinite axes *)
Definition ozln_ok (z : Ln GP) : Prop := ozgp_ok (l_start z) /\ ozgp_ok (l_end z).

Lemma into_origin_zero_ok : forall ln e z, 0 <= e <= 64 -> ln_ok ln -> into_origin_zero ln e = Ok z ->
  z = mkLn (ozp_spec (l_start ln) e) (ozp_spec (l_end ln) e) /\ ozln_ok z.
Proof.
  intros ln e z He [Hs Ht] H. apply into_origin_zero_spec in H; [|lia]. subst. split; auto.
  split; simpl; apply ozp_spec_ok; auto.
Qed.

Lemma indefinite_span_range : forall z s, ozln_ok z -> indefinite_span z = Ok s -> 1 <= s <= 64.
Proof.
  intros [a b] s [Ha Hb] H. unfold indefinite_span in H. simpl in *.
  destruct a, b; simpl in *; mon; lia.
Qed.

Lemma resolve_indefinite_spec : forall z pos r, ozln_ok z -> resolve_indefinite_grid_tracks z pos = Ok r ->
  l_start r = pos /\ pos < l_end r /\ l_end r <= pos + 64.
Proof.
  intros [a b] pos r [Ha Hb] H. unfold resolve_indefinite_grid_tracks in H. simpl in *.
  destruct a, b; simpl in *; mon; simpl; rewrite ?u16_as_i16_small in * by lia; lia.
Qed.

Lemma expected_some_definite : forall ln e a b, expected ln e = Some (a, b) -> is_definite ln = true.
Proof.
  intros ln e a b H. apply is_definite_spec. unfold expected in H.
  destruct (nz_line (l_start ln)), (nz_line (l_end ln)); try discriminate; try (left; discriminate); right; discriminate.
Qed.
