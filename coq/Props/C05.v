(* C05 -- display:none subtrees are zeroed and invisible.  Statements only.

   ENGINE part (Model/Engine.v: TaffyView::compute_child_layout, compute_cached_layout, compute_hidden_layout, mark_dirty and
   the mutators), for EVERY container / leaf algorithm `algo` (a resumption over the tree interface):
     zero clause     C05_hidden_zero, C05_hidden_zero_self_partial, C05_pass_establishes_hidden_zero, C05_fresh_pass_hidden_zero,
                     C05_mutators_preserve (mutations at nodes without a display:none ancestor),
                     C05_attach_below_hidden_refuted (mutations below a clean display:none node: known finding
                     C01/hidden-region-stale; RElayout histories only, fresh trees are covered by the theorems above),
                     C05_hidden_root_refuted (the ROOT's own padding/border/margin/scrollbar: known finding
                     C05/hidden-root-box-fields)
     invisibility    C05_plain_ignores_hidden_subtree (unconditional), C05_hidden_blind_engine (+ _layouts, _replace)
                     for algorithms that are HiddenBlind.
   GRID part (Model/Placement.v; tables regenerated from the source): C05_grid_estimate_ignores_hidden.
   ITEM GENERATION (Gen/FiltersGen.v: the iterator pipelines of generate_anonymous_flex_items, generate_item_list, and the two
   child iterators of compute_grid_layout, TRANSLATED from the source on every run) -- discharges the part of HiddenBlind that
   concerns which children become items:
     C05_flex_items_ignore_hidden, C05_block_items_ignore_hidden, C05_grid_items_ignore_hidden
                     the item lists do not depend on the styles of display:none children (for ANY item builder; flex / grid:
                     `order` = source index; block: `order` counts box-generating children, so deleting the hidden children
                     changes nothing at all)
     C05_model_filters_are_source
                     the hand-written filters of Model/Block.v (generate_item_list, run by C10's K1 / K2) and of
                     Model/Placement.v (in_flow_children, estimate_children, run by the placement K) ARE the translated ones
   BLOCK ALGORITHM as a resumption (Model/BlockAlg.v: compute_inner over the engine interface, built from the translated item
   pipeline and the in-flow step function that C10's K runs against the implementation):
     C05_block_algorithm_hidden_blind    HiddenBlind HOLDS for it (no longer a premise for block containers)
     C05_block_algorithm_sets_zero_on_hidden   so does SetsZeroOnHidden
     C05_block_engine_hidden_invisible   hence the conclusion of C05_hidden_blind_engine for every engine whose nodes are block
                                         containers or leaves (any function of the node's own style and input)
   FLEX ALGORITHM as a resumption (Model/FlexAlg.v: ALL of compute_flexbox_layout / compute_preliminary over the engine interface --
   every measure_child_size / perform_child_layout a Query, every set_unrounded_layout a SetLayout; validated event by event, bit for bit,
   against the implementation by `vh flexalg cases`, lib/props/_flexalg.py):
     C05_flex_algorithm_shape            the traffic: measuring (and, in rows with baseline-aligned children, baseline) queries to in-flow
                                         children; unless ComputeSize: query + stored layout for every in-flow child, then for every
                                         box-generating absolute child, then -- for every display:none child, exactly once -- the
                                         CANONICAL hidden query, its answer ignored, and Layout::with_order(i); Ret
     C05_flex_algorithm_hidden_blind     HiddenBlind HOLDS for it (no longer a premise for flex containers)
     C05_flex_algorithm_sets_zero_on_hidden   so does SetsZeroOnHidden
     C05_blockflex_engine_hidden_invisible    hence the conclusion of C05_hidden_blind_engine for every engine whose nodes are block
                                         containers, flex containers or leaves
     C01_flex_algorithm_satisfies_interface   the interface hypotheses of the C01 / C15 / C05 engine theorems are THEOREMS for it: WF (no
                                         hidden-mode query), H1 (a PerformLayout evaluation PerformLayout-queries every child), H3 (and
                                         stores a layout for every child, a display:none child's after its last query), HQ (a display:none
                                         child never receives a size query)
     C01_flex_algorithm_NS_partial / _NS_refuted   NS (a ComputeSize evaluation issues only ComputeSize queries and stores nothing) holds for
                                         columns and without baseline-aligned children, and FAILS for a row with two baseline-aligned
                                         children: calculate_children_base_lines (flexbox.rs l.1440) performs child layouts before the
                                         ComputeSize return of l.359 -- a second source of the C01 "ComputeSize scribble" finding
   GRID ALGORITHM as a resumption (Model/GridAlg.v: ALL of compute_grid_layout over the engine interface -- the item contribution
   protocol of grid_item.rs / track_sizing.rs with its caches, resolve_item_baselines, the re-runs of track sizing, the final passes;
   validated event by event, bit for bit, against the implementation by `vh gridalg cases`, lib/props/_gridalg.py):
     C05_grid_algorithm_shape            the traffic: ComputeSize queries to in-flow children only; PerformLayout queries / stored layouts
                                         only on children that are not display:none; on a display:none child only the CANONICAL hidden
                                         query, its answer ignored, followed by Layout::with_order(n)
     C05_grid_model_loops_are_source     the tests of the model's final loop ARE the conditions of the source's (translated on every run); the
                                         translator checked the hidden branch (canonical pair) and the node-addressing tree calls of the grid sources
     C05_grid_sizing_guard_never_fires   the sizing phase (steps 1-7) addresses in-flow children only: the guard of Model/GridAlg.v `run` is
                                         redundant
     C05_grid_algorithm_hidden_blind     HiddenBlind HOLDS for it (no longer a premise for grid containers)
     C05_grid_algorithm_sets_zero_on_hidden   so does SetsZeroOnHidden
     C05_grid_engine_hidden_invisible    hence the conclusion of C05_hidden_blind_engine for every engine of grid containers and leaves
     C05_taffy_engine_hidden_invisible   ... and for every engine whose nodes are block, flex, grid containers or leaves (all the kinds
                                         TaffyView::compute_child_layout dispatches on): NO premise on the algorithms is left
     C01_grid_algorithm_satisfies_interface   WF and HQ without premise; H1 and H3 for containers on which the Rust code does not panic
                                         (`grid_no_panic`: placement's checked arithmetic, absolute children's lines inside the implicit grid)
     C01_grid_algorithm_NS_partial / _NS_refuted   NS holds without baseline alignment and FAILS with two baseline-aligned items in a row:
                                         resolve_item_baselines (track_sizing.rs l.491) performs child layouts before the ComputeSize return
                                         of grid/mod.rs l.315 -- a third source of the C01 "ComputeSize scribble" finding
   Interface hypotheses: none left for engines of block / flex / grid containers and leaves as far as HiddenBlind and SetsZeroOnHidden go.

   Interface hypotheses (premises, validated on the implementation by the metamorphic oracle `vh c05 oracle` and -- WF, H1 --
   by the event trace): WF, H1 (EngineDirty.v), SetsZeroOnHidden, HiddenBlind.

   What this file does NOT give (audit, wave 5c):
   * the invisibility clause is CONDITIONAL: C05_hidden_blind_engine holds for HiddenBlind algorithms; HiddenBlind is proved for
     the block, flex and grid resumptions (waves 3-5).  WF and H1 are proved
     for the toy algorithms only, never for block_alg (trace-validated);
   * `block_alg` / `bl_memo` are hand models that NO correspondence runner executes (the runners execute Model/Block.v's in-flow
     kernel and Model/BlockTree.v); C06_block_resumption_runs_kernel ties the in-flow part of the resumption to that kernel, the
     measuring queries, the absolute pass (a parameter) and the hidden pass have no such tie;
   * C05_hidden_zero_self_partial preserves, nothing establishes (see there);
   * every conclusion of the form `orel ..` also relates None to None (both sides out of fuel / out-of-range child): the
     computed examples at the end show evaluations that succeed; C01_memo_total shows fuel >= height always suffices. *)
From Coq Require Import List Bool Arith NArith ZArith QArith.
From TV Require Import Num.Num Gen.BlockGen Model.Block.
From TV Require Import Model.FiltersBase Gen.FiltersGen Model.ItemFilters Proofs.ItemFiltersBase Proofs.ItemFiltersHiddenBlock Proofs.ItemFiltersHidden Model.BlockAlg Proofs.BlockAlgBlind.
From TV Require Import Model.BlockAbs Proofs.BlockAbsLocal.
From TV Require Import Num.QNum Model.Common Model.Leaf Model.Root Proofs.LeafProofs Proofs.HiddenRoot.
From TV Require Import Model.Engine Model.EngineToy Proofs.EngineMemo Proofs.EngineDirty Proofs.EngineToyProofs
  Proofs.EngineHidden Proofs.EngineBlind Proofs.EngineHiddenToy Proofs.EngineHistory.
From TV Require Import Model.PlacementBase Gen.PlacementGen Model.Placement Proofs.PlacementBlind.
From TV Require Model.Scale.
From TV Require Import Model.EngineRel Model.BlockEngine Model.BlockEngineExample Proofs.BlockEngineBlind Proofs.BlockEngineHidden.
Import ListNotations.

(* ---------------------------------------------------------------------------------------------- zero clause *)

(* compute_hidden_layout zeroes the whole subtree: every stored layout is zero_lay, every cache empty *)
Theorem C05_hide_all_zero :
  forall (S In Out Lay : Type) (zero_lay : Lay) (t : tree S In Out Lay),
    AllZero S In Out Lay zero_lay (hide S In Out Lay zero_lay t).
Proof. intros. apply all_zero_hide. Qed.

(* HiddenZero t: below every display:none node of t, every node has stored layout zero_lay and an empty cache
   (hidden_zero_at reads it pointwise).  Every evaluation -- any input, any fuel, any algorithm, hits and misses,
   hidden-mode queries -- preserves it.  At a display:none node itself an evaluation either HITS (tree untouched) or
   returns hidden_out and the node with stored layout zero_lay above `map hide kids`. *)
Theorem C05_hidden_zero :
  forall (S In Out Lay : Type) (mode : In -> RunMode) (in_eqb : In -> In -> bool) (is_none : S -> bool)
         (hidden_out : Out) (zero_lay : Lay) (algo : S -> list S -> In -> Alg In Out Lay) f t i o t',
    HiddenZero S In Out Lay is_none zero_lay t ->
    memo S In Out Lay mode in_eqb is_none hidden_out zero_lay algo f t i = Some (o, t') ->
    HiddenZero S In Out Lay is_none zero_lay t' /\
    (forall p h x q u, subtree S In Out Lay t' p = Some h -> is_none (style_of S In Out Lay h) = true ->
                       subtree S In Out Lay h (x :: q) = Some u ->
                       lay_of S In Out Lay u = zero_lay /\ cache_of S In Out Lay u = cempty In Out) /\
    (is_none (style_of S In Out Lay t) = true ->
       (t' = t /\ mode i <> PerformHiddenLayout) \/
       (o = hidden_out /\ exists c', t' = Node S In Out Lay (style_of S In Out Lay t) c' zero_lay
                                            (map (hide S In Out Lay zero_lay) (kids_of S In Out Lay t)))).
Proof.
  intros until t'. intros HZ H.
  pose proof (memo_hidden_zero S In Out Lay mode in_eqb is_none hidden_out zero_lay algo f t i o t' HZ H) as HZ'.
  split; [exact HZ'|]. split.
  - intros p h x q u. apply hidden_zero_at. exact HZ'.
  - destruct t as [s c l kids]. cbn. intros En.
    destruct (memo_at_none S In Out Lay mode in_eqb is_none hidden_out zero_lay algo f s c l kids i o t' En H)
      as [[E1 [_ E2]]|[E1 E2]]; [left; split; assumption|right; split; assumption].
Qed.

(* the display:none node itself: the layout its parent stores on it is zero except `order` (zeroish), provided the
   algorithms store only such layouts on display:none children (real ones store Layout::with_order(i)).
   PARTIAL (renamed in the audit, wave 5c): HiddenSelf is only PRESERVED by an evaluation; nothing establishes it after a
   visible laid-out node is hidden (C05_hidden_self_not_established_by_hiding) -- that would need "a PerformLayout evaluation
   stores a layout on every display:none child" (true of the real hidden-child loops and of hidden_pass, not a hypothesis here);
   the implementation-side oracle checks the established form. *)
Theorem C05_hidden_zero_self_partial :
  forall (S In Out Lay : Type) (mode : In -> RunMode) (in_eqb : In -> In -> bool) (is_none : S -> bool)
         (hidden_out : Out) (zero_lay : Lay) (algo : S -> list S -> In -> Alg In Out Lay) (zeroish : Lay -> Prop),
    zeroish zero_lay -> SetsZeroOnHidden S In Out Lay is_none algo zeroish ->
    forall f t i o t',
      HiddenSelf S In Out Lay is_none zeroish t ->
      memo S In Out Lay mode in_eqb is_none hidden_out zero_lay algo f t i = Some (o, t') ->
      HiddenSelf S In Out Lay is_none zeroish t'.
Proof. intros until zeroish. intros Hz HS f t i o t' H E. eapply memo_hidden_self; eauto. Qed.

(* ESTABLISHED by a layout pass, whatever the stored layouts were before: from a tree meeting the pass invariants of C15
   (J, B) and the cache-conditional form HZc -- e.g. any tree with empty caches -- a PerformLayout evaluation of the root
   yields HiddenZero and the same invariants again (so it holds after every pass of a history of passes) *)
Theorem C05_pass_establishes_hidden_zero :
  forall (S In Out Lay : Type) (mode : In -> RunMode) (in_eqb : In -> In -> bool) (is_none : S -> bool)
         (hidden_out : Out) (zero_lay : Lay) (algo : S -> list S -> In -> Alg In Out Lay),
    (forall s st i, WFAlg In Out Lay mode (algo s st i)) ->
    (forall s st i, mode i = PerformLayout -> Visits In Out Lay mode (seq 0 (length st)) (algo s st i)) ->
    forall f t i o t',
      mode i = PerformLayout ->
      J S In Out Lay is_none t -> B S In Out Lay is_none t -> HZc S In Out Lay is_none zero_lay t ->
      memo S In Out Lay mode in_eqb is_none hidden_out zero_lay algo f t i = Some (o, t') ->
      HiddenZero S In Out Lay is_none zero_lay t' /\
      J S In Out Lay is_none t' /\ B S In Out Lay is_none t' /\ HZc S In Out Lay is_none zero_lay t'.
Proof. intros until algo. intros HWF HH1 f t i o t'. apply pass_establishes_hidden_zero; assumption. Qed.

(* ... in particular on a FRESH tree (what the oracle exercises) *)
Theorem C05_fresh_pass_hidden_zero :
  forall (S In Out Lay : Type) (mode : In -> RunMode) (in_eqb : In -> In -> bool) (is_none : S -> bool)
         (hidden_out : Out) (zero_lay : Lay) (algo : S -> list S -> In -> Alg In Out Lay),
    (forall s st i, WFAlg In Out Lay mode (algo s st i)) ->
    (forall s st i, mode i = PerformLayout -> Visits In Out Lay mode (seq 0 (length st)) (algo s st i)) ->
    forall f k i o t',
      mode i = PerformLayout ->
      memo S In Out Lay mode in_eqb is_none hidden_out zero_lay algo f (fresh S In Out Lay zero_lay k) i = Some (o, t') ->
      HiddenZero S In Out Lay is_none zero_lay t'.
Proof.
  intros until algo. intros HWF HH1 f k i o t' Hp H.
  eapply cold_pass_hidden_zero; eauto. apply Cold_fresh.
Qed.

(* mutators ("edit the node, then mark_dirty" with the early exit) at a node WITHOUT a display:none ancestor keep the
   cache-conditional invariant, so the next pass re-establishes HiddenZero (with C05_pass_establishes_hidden_zero) *)
Theorem C05_mutators_preserve :
  forall (S In Out Lay : Type) (is_none : S -> bool) (zero_lay : Lay) (t : tree S In Out Lay) p e,
    HZc S In Out Lay is_none zero_lay t -> visible_path S In Out Lay is_none t p ->
    edit_kids_ok S In Out Lay is_none zero_lay e ->
    HZc S In Out Lay is_none zero_lay (mutate S In Out Lay t p e).
Proof. intros. apply mutate_HZc; assumption. Qed.

(* ... but NOT below a display:none node: set_children two levels below a clean display:none node (toy instance: root >
   hidden > mid; a subtree laid out elsewhere is attached under mid), then mark_dirty(root), then a pass: the attached
   leaf keeps its stored layout 5 below a display:none node; attached directly under the hidden node it is zeroed.
   Known finding C01/hidden-region-stale (mark_dirty stops at mid's empty cache and never reaches the hidden node). *)
Theorem C05_attach_below_hidden_refuted :
  HiddenZero TS TIn TOut TLay t_is_none 0%N h_tree1 /\
  ~ HiddenZero TS TIn TOut TLay t_is_none 0%N h_tree3 /\
  none_at h_tree3 [0%nat] = Some true /\ lay_at' h_tree3 [0%nat; 0%nat; 0%nat; 0%nat] = Some 5%N /\
  lay_at' h_tree3' [0%nat; 0%nat; 0%nat] = Some 0%N.
Proof.
  destruct attach_below_hidden_breaks_invariant as [A B]. destruct attach_below_hidden_witness as (W1 & _ & _ & W4 & W5).
  split; [exact A|]. split; [exact B|]. split; [exact W1|]. split; [exact W4|exact W5].
Qed.

(* the ROOT: compute_root_layout (Model/Root.v) stores the root's padding, border, margin and scrollbar gutters resolved
   from its own style even when the root is display:none; size, content size and location are zero.
   Known finding C05/hidden-root-box-fields. *)
Theorem C05_hidden_root_refuted :
  exists (st : Style XQ) lay calls,
    display st = DNone /\ root_leaf st measure_zero max_content2 = Some (lay, calls) /\
    l_size lay = mkSize (Fin 0%Q) (Fin 0%Q) /\ l_content_size lay = mkSize (Fin 0%Q) (Fin 0%Q) /\
    l_padding lay = mkRect (Fin 3%Q) (Fin 3%Q) (Fin 3%Q) (Fin 3%Q) /\ l_border lay = mkRect (Fin 2%Q) (Fin 2%Q) (Fin 2%Q) (Fin 2%Q) /\
    l_margin lay = mkRect (Fin 5%Q) (Fin 5%Q) (Fin 5%Q) (Fin 5%Q) /\ l_scrollbar_size lay = mkSize (Fin 4%Q) (Fin 4%Q).
Proof.
  destruct hidden_root_witness as [D (lay & calls & E & _ & H1 & H2 & _ & H3 & H4 & H5 & H6)].
  exists hidden_root_style, lay, calls. repeat split; assumption.
Qed.


(* ---------------------------------------------------------------------------------------------- invisibility *)

(* unconditional: a query to a display:none node returns the same thing whatever its other styles and its subtree *)
Theorem C05_plain_ignores_hidden_subtree :
  forall (S In Out Lay : Type) (mode : In -> RunMode) (is_none : S -> bool) (hidden_out : Out)
         (algo : S -> list S -> In -> Alg In Out Lay) f s s' kids kids' i,
    is_none s = true -> is_none s' = true ->
    plain S In Out Lay mode is_none hidden_out algo f (SNode S s kids) i =
    plain S In Out Lay mode is_none hidden_out algo f (SNode S s' kids') i /\
    plain S In Out Lay mode is_none hidden_out algo (Datatypes.S f) (SNode S s kids) i = Some hidden_out.
Proof. intros. split; [apply plain_ignores_hidden_subtree; assumption|apply plain_none; assumption]. Qed.

(* HiddenBlind: the algorithm reads its children's styles through a view that identifies all display:none styles.
   Then for skeletons k, k' that differ only inside display:none subtrees and in the display:none nodes' own styles
   (hsim), from fresh trees: the cache-free outputs agree, and the memoised evaluations fail together or return the same
   output and trees related by tsim: same styles, caches and stored layouts outside display:none regions, and the
   display:none nodes' own caches and stored layouts coincide too. *)
Theorem C05_hidden_blind_engine :
  forall (S In Out Lay : Type) (mode : In -> RunMode) (in_eqb : In -> In -> bool) (is_none : S -> bool)
         (hidden_out : Out) (zero_lay : Lay) (algo : S -> list S -> In -> Alg In Out Lay),
    HiddenBlind S In Out Lay is_none algo ->
    forall k k', hsim S is_none k k' ->
    forall f i,
      plain S In Out Lay mode is_none hidden_out algo f k i = plain S In Out Lay mode is_none hidden_out algo f k' i /\
      orel S In Out Lay is_none
           (memo S In Out Lay mode in_eqb is_none hidden_out zero_lay algo f (fresh S In Out Lay zero_lay k) i)
           (memo S In Out Lay mode in_eqb is_none hidden_out zero_lay algo f (fresh S In Out Lay zero_lay k') i).
Proof.
  intros until algo. intros HB k k' Hs f i. split.
  - apply plain_hsim; assumption.
  - apply memo_tsim; [exact HB|]. apply tsim_fresh. exact Hs.
Qed.

(* not only from fresh trees: tsim is preserved by every evaluation (so by every history of passes) *)
Theorem C05_hidden_blind_engine_step :
  forall (S In Out Lay : Type) (mode : In -> RunMode) (in_eqb : In -> In -> bool) (is_none : S -> bool)
         (hidden_out : Out) (zero_lay : Lay) (algo : S -> list S -> In -> Alg In Out Lay),
    HiddenBlind S In Out Lay is_none algo ->
    forall f t t' i, tsim S In Out Lay is_none t t' ->
      orel S In Out Lay is_none
           (memo S In Out Lay mode in_eqb is_none hidden_out zero_lay algo f t i)
           (memo S In Out Lay mode in_eqb is_none hidden_out zero_lay algo f t' i).
Proof. intros until algo. intros HB f t t' i H. apply memo_tsim; assumption. Qed.

(* tsim read pointwise: at every path without a display:none node strictly above its end, the two trees have a node there
   together, with the same stored layout and the same cache *)
Theorem C05_hidden_blind_layouts :
  forall (S In Out Lay : Type) (is_none : S -> bool) (t t' : tree S In Out Lay) p u,
    tsim S In Out Lay is_none t t' -> visible S In Out Lay is_none t p -> subtree S In Out Lay t p = Some u ->
    exists u', subtree S In Out Lay t' p = Some u' /\
               lay_of S In Out Lay u' = lay_of S In Out Lay u /\ cache_of S In Out Lay u' = cache_of S In Out Lay u.
Proof.
  intros until u. intros H Hv Hs. destruct (tsim_at S In Out Lay is_none p t t' u H Hv Hs) as [u' [A [B [C _]]]].
  exists u'. repeat split; assumption.
Qed.

(* the oracle's operation is an instance of hsim: the display:none node at path p replaced by any display:none node,
   e.g. a bare leaf *)
Theorem C05_hidden_blind_replace :
  forall (S : Type) (is_none : S -> bool) (k : sk S) p h r,
    sk_subtree S k p = Some h -> is_none (sstyle S h) = true -> is_none (sstyle S r) = true ->
    hsim S is_none k (sk_replace S k p r).
Proof. intros. eapply hsim_replace; eauto. Qed.

(* the hypotheses are satisfiable: the (view-defined) toy algorithm satisfies WF, H1 and HiddenBlind; a variant storing
   with_order-like layouts satisfies SetsZeroOnHidden *)
Example C05_hypotheses_satisfiable :
  HiddenBlind TS TIn TOut TLay t_is_none tv_algo /\
  (forall s st i, WFAlg TIn TOut TLay t_mode (tv_algo s st i)) /\
  (forall s st i, t_mode i = PerformLayout -> Visits TIn TOut TLay t_mode (seq 0 (length st)) (tv_algo s st i)) /\
  SetsZeroOnHidden TS TIn TOut TLay t_is_none tz_algo t_zeroish /\ t_zeroish 0%N.
Proof.
  split; [exact tv_algo_blind|]. split; [exact tv_algo_WF|]. split; [exact tv_algo_H1|].
  split; [exact tz_algo_sets_zero|left; reflexivity].
Qed.

(* ---------------------------------------------------------------------------------------------- item generation *)

(* agree_except ig f f' cs: the style assignments f, f' to the children cs agree except on children whose style is in the
   class ig on both sides.  s_hidden bgm s := (bgm s == BoxGenerationMode::None). *)
Theorem C05_flex_items_ignore_hidden :
  forall (C S I : Type) (position : S -> GPosition) (bgm : S -> GBoxGenerationMode) (f f' : C -> S) (cs : list C),
    (forall (build : nat -> C -> S -> I),
       agree_except (s_hidden bgm) f f' cs ->
       flex_generate_items f position bgm build cs = flex_generate_items f' position bgm build cs) /\
    (* deleting the display:none children changes the items only in their index (`order` = source index) *)
    (forall (build : C -> S -> I),
       flex_generate_items f position bgm (fun _ => build) (filter (fun c => negb (s_hidden bgm (f c))) cs) =
       flex_generate_items f position bgm (fun _ => build) cs).
Proof.
  intros C S I position bgm f f' cs. split.
  - intros build Ha. apply flex_hidden_blind. exact Ha.
  - intros build. apply flex_delete_hidden.
Qed.

Theorem C05_block_items_ignore_hidden :
  forall (C S I : Type) (position : S -> GPosition) (bgm : S -> GBoxGenerationMode) (f f' : C -> S) (cs : list C)
         (build : nat -> C -> S -> I),
    (agree_except (s_hidden bgm) f f' cs ->
     block_generate_items f position bgm build cs = block_generate_items f' position bgm build cs) /\
    block_generate_items f position bgm build (filter (fun c => negb (s_hidden bgm (f c))) cs) =
    block_generate_items f position bgm build cs /\
    block_generate_items f position bgm build cs =
    map (fun oc => build (fst oc) (snd oc) (f (snd oc))) (g_enumerate (filter (fun c => negb (s_hidden bgm (f c))) cs)).
Proof.
  intros C S I position bgm f f' cs build. split; [|split].
  - intros Ha. rewrite !block_generate_items_nf. apply block_nf_hidden_blind. exact Ha.
  - rewrite !block_generate_items_nf. apply block_nf_delete_hidden.
  - apply block_generate_items_nf.
Qed.

Theorem C05_grid_items_ignore_hidden :
  forall (C S : Type) (position : S -> GPosition) (bgm : S -> GBoxGenerationMode) (f f' : C -> S) (cs : list C),
    agree_except (s_hidden bgm) f f' cs ->
    grid_in_flow_children f position bgm cs = grid_in_flow_children f' position bgm cs /\
    grid_estimate_children f position bgm cs = grid_estimate_children f' position bgm cs.
Proof.
  intros C S position bgm f f' cs Ha. split.
  - apply (grid_in_flow_hidden_blind position bgm f f' cs Ha).
  - apply grid_estimate_hidden_blind. exact Ha.
Qed.

(* the hand-written models use the source's filters *)
Theorem C05_model_filters_are_source :
  (forall (T : Type) (N : Num T) (sts : list (BStyle T)) nis,
     generate_item_list sts nis =
     block_generate_items (fun st => st) bs_position bs_bgm (fun order _ st => generate_item st nis (Z.of_nat order)) sts) /\
  (forall (C S : Type) (position : S -> GPosition) (bgm : S -> GBoxGenerationMode) (style_of : C -> S) (placement : S -> child)
          (cs : list C),
     let children := map (fun c => (kind_of (position (style_of c)) (bgm (style_of c)), placement (style_of c))) cs in
     estimate_children children = map placement (grid_estimate_children style_of position bgm cs) /\
     (* placement's child iterator, on the C05 family of the placement K (no position:absolute child) *)
     (Forall (fun c => position (style_of c) = Position_Relative) cs ->
      in_flow_children children =
        map (fun ics : nat * C * S => (Z.of_nat (fst (fst ics)), placement (snd ics))) (grid_in_flow_children style_of position bgm cs))) /\
  (* which children step 5 of compute_inner lays out as hidden (Model/BlockAlg.v hidden_pass) *)
  (forall (T : Type) (s : BStyle T) p, s_hidden bs_bgm s = block_hidden_pass_visits (bs_bgm s) p).
Proof.
  split; [|split].
  - intros T N sts nis. apply generate_item_list_is_generated.
  - intros C S position bgm style_of placement cs children. split;
      [apply placement_estimate_is_generated|apply placement_in_flow_is_generated_no_absolute].
  - intros T s p. apply hidden_pass_is_generated.
Qed.

(* the premise is satisfiable: a bare display:none style in place of any display:none style *)
Example C05_items_example :
  forall (S : Type) (bgm : S -> GBoxGenerationMode) (a b bare : S),
    s_hidden bgm b = true -> s_hidden bgm bare = true ->
    agree_except (s_hidden bgm) (fun c : S => c) (fun c => if s_hidden bgm c then bare else c) [a; b].
Proof.
  intros S bgm a b bare Hb Hbare. constructor; [|constructor; [|constructor]].
  - cbv beta. destruct (s_hidden bgm a) eqn:E; [right; split; [reflexivity|assumption]|left; reflexivity].
  - cbv beta. rewrite Hb. right. split; [reflexivity|assumption].
Qed.

(* ---------------------------------------------------------------------------------------------- the block algorithm *)

Theorem C05_block_algorithm_hidden_blind :
  forall (T : Type) (N : Num T) (pre : BStyle T -> BIn T -> BIn T) (abs_child : @AbsChild T),
    HiddenBlind (BStyle T) (BIn T) (ChildOut T) (BLayout T) bs_is_none (block_alg pre abs_child) /\
    (* the view: every display:none style is read as one bare display:none style *)
    (forall s st i, block_alg pre abs_child s st i = block_alg pre abs_child s (map hidden_view st) i) /\
    (forall a b : BStyle T, bs_is_none a = true -> bs_is_none b = true -> hidden_view a = hidden_view b).
Proof.
  intros T N pre abs_child. split; [apply block_alg_hidden_blind|]. split.
  - intros s st i. unfold block_alg. apply block_inner_alg_none_rel. apply hidden_view_rel.
  - intros a b Ha Hb. unfold hidden_view. rewrite Ha, Hb. reflexivity.
Qed.

(* ... and SetsZeroOnHidden (premise of C05_hidden_zero_self_partial): the only layouts it stores on a display:none child are
   `Layout::with_order(order)`, for every absolute-item routine that addresses only the item's own node *)
Theorem C05_block_algorithm_sets_zero_on_hidden :
  forall (T : Type) (N : Num T) (pre : BStyle T -> BIn T -> BIn T) (abs_child : @AbsChild T),
    AbsChildLocal abs_child ->
    SetsZeroOnHidden (BStyle T) (BIn T) (ChildOut T) (BLayout T) bs_is_none (block_alg pre abs_child) b_zeroish /\
    (forall n, b_zeroish (with_order (T := T) n)).
Proof.
  intros T N pre abs_child Hloc. split; [apply block_alg_sets_zero_on_hidden; exact Hloc|].
  intros n. exists (Z.of_nat n). reflexivity.
Qed.

(* the premise holds for the REAL absolute-item routine (Model/BlockAbs.v abs_child_block, built from the translated kernel
   Gen/AbsPosGen.v; the instance the whole-tree correspondence `vh blocktree cases` ties to the implementation): the block
   algorithm with it stores only `Layout::with_order(order)` on display:none children *)
Theorem C05_block_real_sets_zero_on_hidden :
  forall (T : Type) (N : Num T) (pre : BStyle T -> BIn T -> BIn T),
    SetsZeroOnHidden (BStyle T) (BIn T) (ChildOut T) (BLayout T) bs_is_none (block_alg pre abs_child_block) b_zeroish.
Proof. intros T N pre. apply block_alg_sets_zero_on_hidden. apply abs_child_block_local. Qed.

(* the same for the dispatcher of the engine `vh blocktree` runs (`bl_algo` over BNode: "has children" decides, the leaf stores nothing) -- the
   statement above is about block_alg over bare styles, which that engine reaches only through bl_algo (audit, wave 7b; Proofs/BlockEngineHidden.v) *)
Theorem C05_bl_real_sets_zero_on_hidden :
  forall (T : Type) (N : Num T) (pre : BStyle T -> BIn T -> BIn T),
    SetsZeroOnHidden (BNode T) (BIn T) (ChildOut T) (BLayout T) bn_is_none (bl_algo pre abs_child_block) b_zeroish.
Proof. intros T N pre. apply bl_algo_real_sets_zero_on_hidden. Qed.

(* engines made of block containers (sel s = true) and leaves: replacing display:none subtrees changes nothing elsewhere *)
Theorem C05_block_engine_hidden_invisible :
  forall (T : Type) (N : Num T) (pre : BStyle T -> BIn T -> BIn T) (abs_child : @AbsChild T)
         (sel : BStyle T -> bool) (leaf : BStyle T -> BIn T -> ChildOut T)
         (mode : BIn T -> RunMode) (in_eqb : BIn T -> BIn T -> bool) (hidden_out : ChildOut T) (zero_lay : BLayout T),
    let algo := fun s st i => if sel s then block_alg pre abs_child s st i
                              else Engine.Ret (BIn T) (ChildOut T) (BLayout T) (leaf s i) in
    forall k k', hsim (BStyle T) bs_is_none k k' ->
    forall f i,
      plain (BStyle T) (BIn T) (ChildOut T) (BLayout T) mode bs_is_none hidden_out algo f k i =
      plain (BStyle T) (BIn T) (ChildOut T) (BLayout T) mode bs_is_none hidden_out algo f k' i /\
      orel (BStyle T) (BIn T) (ChildOut T) (BLayout T) bs_is_none
           (memo (BStyle T) (BIn T) (ChildOut T) (BLayout T) mode in_eqb bs_is_none hidden_out zero_lay algo f
                 (fresh (BStyle T) (BIn T) (ChildOut T) (BLayout T) zero_lay k) i)
           (memo (BStyle T) (BIn T) (ChildOut T) (BLayout T) mode in_eqb bs_is_none hidden_out zero_lay algo f
                 (fresh (BStyle T) (BIn T) (ChildOut T) (BLayout T) zero_lay k') i).
Proof.
  intros T N pre abs_child sel leaf mode in_eqb hidden_out zero_lay algo k k' Hs f i.
  apply C05_hidden_blind_engine; [|exact Hs].
  apply HiddenBlind_dispatch; [apply block_alg_hidden_blind|apply HiddenBlind_leaf].
Qed.

(* ---------------------------------------------------------------------------------------------- grid placement *)

(* the placement section of compute_grid_layout (size estimate + placement + what detailed_layout_info reports) cannot see
   the placement styles of display:none children: two child lists with the same kinds and the same styles on the
   non-hidden children give the same result; in particular every hidden child may be replaced by one with auto/auto *)
Theorem C05_grid_estimate_ignores_hidden :
  forall ec er fl (children children' : list (child_kind * child)),
    Forall2 (same_but Hidden (fun _ _ => True)) children children' ->
    grid_placement_run ec er fl children = grid_placement_run ec er fl children' /\
    estimate_children children = estimate_children children' /\
    grid_placement_run ec er fl (map (neutralise Hidden) children) = grid_placement_run ec er fl children.
Proof.
  intros ec er fl l l' H. split; [apply run_ignores_hidden_styles; exact H|].
  split; [eapply estimate_children_hidden; exact H|apply run_neutralise_hidden].
Qed.

(* the repaired defect's reproducer, in the model: a display:none child with grid_row: 5 on an empty explicit grid *)
Example C05_grid_example :
  grid_placement_run 0 0 FRow [(Hidden, mkChild (mkLn (Line 5) Auto) (mkLn Auto Auto))] =
  grid_placement_run 0 0 FRow [(Hidden, auto_child)].
Proof. exact hidden_line_invisible. Qed.


(* =====================================================================================================================
   Computed instances of the premises (audit, wave 5c).  The engine theorems above are implications from `memo .. = Some ..`
   or conclude `orel`, which also relates None to None (both evaluations out of fuel): here the evaluations SUCCEED on trees
   with several nodes, the hidden subtrees are non-trivial and the two sides really differ. *)

(* C05_hidden_blind_engine / _step / _layouts / _replace: a 7-node tree whose hidden node (child 1) has a 3-node subtree, and
   the same tree with that node replaced by a bare display:none leaf: hsim, different skeletons, both fresh passes succeed with
   the same output, the resulting trees differ but are tsim, and every visible node has the same layout in both *)
Definition xk : sk TS :=
  SNode TS (0%N, false)
    [SNode TS (1%N, false) [];
     SNode TS (2%N, true) [SNode TS (3%N, false) [SNode TS (4%N, false) []]; SNode TS (5%N, false) []];
     SNode TS (6%N, false) []].
Definition xk' : sk TS := sk_replace TS xk [1%nat] (SNode TS (9%N, true) []).
Example C05_hidden_blind_engine_example :
  hsim TS t_is_none xk xk' /\ xk <> xk' /\
  exists o t t',
    h_memo 8 (fresh TS TIn TOut TLay 0%N xk) h_in = Some (o, t) /\
    h_memo 8 (fresh TS TIn TOut TLay 0%N xk') h_in = Some (o, t') /\
    o = 7%N /\ t <> t' /\
    tsim TS TIn TOut TLay t_is_none t t' /\
    visible TS TIn TOut TLay t_is_none t [2%nat] /\
    lay_at' t [0%nat] = Some 2%N /\ lay_at' t' [0%nat] = Some 2%N /\
    lay_at' t [2%nat] = Some 7%N /\ lay_at' t' [2%nat] = Some 7%N /\
    lay_at' t [1%nat] = Some 1%N /\ lay_at' t' [1%nat] = Some 1%N /\
    option_map (cache_of TS TIn TOut TLay) (subtree TS TIn TOut TLay t [1%nat]) =
    option_map (cache_of TS TIn TOut TLay) (subtree TS TIn TOut TLay t' [1%nat]).
Proof.
  assert (Hs : hsim TS t_is_none xk xk').
  { unfold xk'. eapply hsim_replace; [vm_compute; reflexivity|reflexivity|reflexivity]. }
  split; [exact Hs|]. split; [vm_compute; discriminate|].
  pose proof (memo_tsim TS TIn TOut TLay t_mode t_in_eqb t_is_none 0%N 0%N tv_algo tv_algo_blind 8 _ _ h_in
                (tsim_fresh TS TIn TOut TLay t_is_none 0%N xk xk' Hs)) as Ho.
  fold h_memo in Ho.
  destruct (h_memo 8 (fresh TS TIn TOut TLay 0%N xk) h_in) as [[o t]|] eqn:E; [|vm_compute in E; discriminate].
  destruct (h_memo 8 (fresh TS TIn TOut TLay 0%N xk') h_in) as [[o' t']|] eqn:E'; [|vm_compute in E'; discriminate].
  destruct Ho as [<- Ht]. exists o, t, t'. split; [reflexivity|]. split; [reflexivity|].
  vm_compute in E. vm_compute in E'. injection E as <- <-. injection E' as <-.
  split; [reflexivity|]. split; [discriminate|]. split; [exact Ht|].
  vm_compute. repeat split; reflexivity.
Qed.

(* C05_mutators_preserve, C05_pass_establishes_hidden_zero, C05_hidden_zero along a history: lay out a 6-node tree; hide the
   laid-out subtree at child 0 by set_style (its nodes keep their non-zero layouts: HiddenZero is FALSE right after the
   mutation); J, B, HZc hold; the next pass succeeds and re-establishes HiddenZero (layouts 6 and 4 become 0), the visible
   sibling keeps its layout; a further pass with another input succeeds; evaluating the hidden node itself hits or hides *)
Definition yk : sk TS :=
  SNode TS (0%N, false)
    [SNode TS (1%N, false) [SNode TS (2%N, false) [SNode TS (3%N, false) []]; SNode TS (4%N, false) []];
     SNode TS (5%N, false) []].
Definition y0 := fresh TS TIn TOut TLay 0%N yk.
Definition y_ops : list (op TS TIn TOut TLay) :=
  [OLayout _ _ _ _ 8 h_in; OMutate _ _ _ _ [0%nat] (ESetStyle _ _ _ _ (1%N, true))].
Definition y1 := h_pass y0.
Definition y2 := mutate TS TIn TOut TLay y1 [0%nat] (ESetStyle _ _ _ _ (1%N, true)).
Example C05_history_example :
  HZc TS TIn TOut TLay t_is_none 0%N y1 /\ visible_path TS TIn TOut TLay t_is_none y1 [0%nat] /\
  edit_kids_ok TS TIn TOut TLay t_is_none 0%N (ESetStyle _ _ _ _ (1%N, true)) /\
  none_at y2 [0%nat] = Some true /\ lay_at' y2 [0%nat; 0%nat] = Some 6%N /\ lay_at' y2 [0%nat; 0%nat; 0%nat] = Some 4%N /\
  ~ HiddenZero TS TIn TOut TLay t_is_none 0%N y2 /\
  J TS TIn TOut TLay t_is_none y2 /\ B TS TIn TOut TLay t_is_none y2 /\ HZc TS TIn TOut TLay t_is_none 0%N y2 /\
  t_mode h_in = PerformLayout /\
  exists o y3, h_memo 8 y2 h_in = Some (o, y3) /\ o = 5%N /\
    HiddenZero TS TIn TOut TLay t_is_none 0%N y3 /\
    lay_at' y3 [0%nat; 0%nat] = Some 0%N /\ lay_at' y3 [0%nat; 0%nat; 0%nat] = Some 0%N /\ lay_at' y3 [1%nat] = Some 6%N /\
    (exists o' y4, h_memo 8 y3 (PerformLayout, 6%N) = Some (o', y4) /\ o' = 5%N) /\
    (exists h, subtree TS TIn TOut TLay y3 [0%nat] = Some h /\ t_is_none (style_of TS TIn TOut TLay h) = true /\
       h_memo 8 h hidden_child_key = Some (0%N, h) /\
       exists c', h_memo 8 h (PerformLayout, 77%N) =
                  Some (0%N, Node TS TIn TOut TLay (style_of _ _ _ _ h) c' 0%N
                                  (map (hide TS TIn TOut TLay 0%N) (kids_of _ _ _ _ h)))).
Proof.
  assert (E1 : exists o, h_memo 8 y0 h_in = Some (o, y1)) by (eexists; vm_compute; reflexivity).
  destruct E1 as [o1 E1].
  destruct (pass_establishes_hidden_zero TS TIn TOut TLay t_mode t_in_eqb t_is_none 0%N 0%N tv_algo tv_algo_WF tv_algo_H1
              8 y0 h_in o1 y1 eq_refl (Cold_J _ _ _ _ _ _ (Cold_fresh _ _ _ _ _ yk)) (Cold_B _ _ _ _ _ _ (Cold_fresh _ _ _ _ _ yk))
              (Cold_HZc _ _ _ _ _ _ _ (Cold_fresh _ _ _ _ _ yk)) E1) as (_ & _ & _ & HZ1).
  assert (Hv : visible_path TS TIn TOut TLay t_is_none y1 [0%nat]) by (vm_compute; split; [reflexivity|exact I]).
  assert (HZ2 : HZc TS TIn TOut TLay t_is_none 0%N y2) by (apply mutate_HZc; [exact HZ1|exact Hv|exact I]).
  assert (Hinv : Inv TS TIn TOut TLay t_mode t_is_none 0%N tv_algo y2).
  { change y2 with (run_ops TS TIn TOut TLay t_mode t_in_eqb t_is_none 0%N 0%N tv_algo y0 y_ops).
    apply (history_inv TS TIn TOut TLay t_mode t_in_eqb t_is_none 0%N 0%N tv_algo t_in_eqb_eq tv_algo_WF tv_algo_H1).
    - apply Inv_fresh.
    - cbn. repeat split; reflexivity. }
  destruct Hinv as (_ & HJ2 & HB2).
  split; [exact HZ1|]. split; [exact Hv|]. split; [exact I|].
  split; [vm_compute; reflexivity|]. split; [vm_compute; reflexivity|]. split; [vm_compute; reflexivity|].
  split.
  { intros H. assert (Eh : exists h, subtree TS TIn TOut TLay y2 [0%nat] = Some h /\ t_is_none (style_of _ _ _ _ h) = true /\
                             exists u, subtree TS TIn TOut TLay h [0%nat] = Some u /\ lay_of _ _ _ _ u = 6%N)
      by (eexists; split; [vm_compute; reflexivity|split; [reflexivity|eexists; split; [vm_compute; reflexivity|reflexivity]]]).
    destruct Eh as (h & Eh & Hn & u & Eu & Hl).
    destruct (hidden_zero_at TS TIn TOut TLay t_is_none 0%N [0%nat] y2 h 0%nat [] u H Eh Hn Eu) as [Hz _]. congruence. }
  split; [exact HJ2|]. split; [exact HB2|]. split; [exact HZ2|]. split; [reflexivity|].
  destruct (h_memo 8 y2 h_in) as [[o y3]|] eqn:E3; [|vm_compute in E3; discriminate].
  exists o, y3. split; [reflexivity|].
  destruct (pass_establishes_hidden_zero TS TIn TOut TLay t_mode t_in_eqb t_is_none 0%N 0%N tv_algo tv_algo_WF tv_algo_H1
              8 y2 h_in o y3 eq_refl HJ2 HB2 HZ2 E3) as (HZ3 & _).
  vm_compute in E3. injection E3 as <- <-.
  split; [reflexivity|]. split; [exact HZ3|].
  split; [vm_compute; reflexivity|]. split; [vm_compute; reflexivity|]. split; [vm_compute; reflexivity|].
  split; [eexists; eexists; split; [vm_compute; reflexivity|reflexivity]|].
  eexists. split; [vm_compute; reflexivity|]. split; [reflexivity|]. split; [vm_compute; reflexivity|].
  eexists. vm_compute. reflexivity.
Qed.

(* C05_hidden_zero_self_partial: HiddenSelf of a fresh 7-node tree with two hidden nodes is preserved by a successful pass
   of an algorithm that stores (zeroish) layouts on its hidden children *)
Definition zk : sk TS :=
  SNode TS (0%N, false)
    [SNode TS (1%N, false) [];
     SNode TS (2%N, true) [SNode TS (3%N, false) [SNode TS (4%N, false) []]];
     SNode TS (6%N, false) [SNode TS (7%N, true) []]].
Definition z_memo := memo TS TIn TOut TLay t_mode t_in_eqb t_is_none 0%N 0%N tz_algo.
Example C05_hidden_zero_self_example :
  HiddenSelf TS TIn TOut TLay t_is_none t_zeroish (fresh TS TIn TOut TLay 0%N zk) /\
  exists o t, z_memo 8 (fresh TS TIn TOut TLay 0%N zk) h_in = Some (o, t) /\ o = 7%N /\
    HiddenSelf TS TIn TOut TLay t_is_none t_zeroish t /\
    lay_at' t [0%nat] = Some 2%N /\ lay_at' t [1%nat] = Some 101%N /\ lay_at' t [2%nat] = Some 7%N /\
    lay_at' t [2%nat; 0%nat] = Some 100%N /\ none_at t [1%nat] = Some true /\ none_at t [2%nat; 0%nat] = Some true.
Proof.
  assert (H0 : HiddenSelf TS TIn TOut TLay t_is_none t_zeroish (fresh TS TIn TOut TLay 0%N zk)).
  { vm_compute. repeat (constructor; [intros _; left; reflexivity|]); repeat constructor; intros _; left; reflexivity. }
  split; [exact H0|].
  destruct (z_memo 8 (fresh TS TIn TOut TLay 0%N zk) h_in) as [[o t]|] eqn:E; [|vm_compute in E; discriminate].
  exists o, t. split; [reflexivity|].
  pose proof (memo_hidden_self TS TIn TOut TLay t_mode t_in_eqb t_is_none 0%N 0%N tz_algo t_zeroish (or_introl eq_refl)
                tz_algo_sets_zero 8 _ h_in o t H0 E) as [HS _].
  vm_compute in E. injection E as <- <-. split; [reflexivity|]. split; [exact HS|].
  vm_compute. repeat split; reflexivity.
Qed.

(* ... and HiddenSelf is only PRESERVED (C05_hidden_zero_self_partial), nothing ESTABLISHES it: after a visible, laid-out node
   is hidden by set_style it keeps its non-zero stored layout (11) until its parent stores a new one -- and SetsZeroOnHidden only
   constrains the layouts an algorithm stores, it does not oblige it to store one *)
Definition z1 : ttree :=
  match z_memo 8 (fresh TS TIn TOut TLay 0%N yk) h_in with Some (_, t) => t | None => fresh TS TIn TOut TLay 0%N yk end.
Definition z2 : ttree := mutate TS TIn TOut TLay z1 [0%nat] (ESetStyle _ _ _ _ (1%N, true)).
Example C05_hidden_self_not_established_by_hiding :
  z_memo 8 (fresh TS TIn TOut TLay 0%N yk) h_in <> None /\
  none_at z2 [0%nat] = Some true /\ lay_at' z2 [0%nat] = Some 11%N /\ ~ HiddenSelf TS TIn TOut TLay t_is_none t_zeroish z2.
Proof.
  split; [vm_compute; discriminate|]. split; [vm_compute; reflexivity|]. split; [vm_compute; reflexivity|].
  intro H. vm_compute in H. inversion H as [s c l kids Hs Hk]; subst. inversion Hk as [|x r Hx Hr]; subst.
  inversion Hx as [s' c' l' kids' Hs' Hk']; subst. specialize (Hs' eq_refl). unfold t_zeroish in Hs'.
  destruct Hs' as [E|E]; [discriminate E|]. vm_compute in E. apply E. reflexivity.
Qed.

(* the same for the dispatcher the block engine of Model/BlockEngine.v really uses (`bl_algo`: "has children" decides between
   the block algorithm and the leaf, nodes carry their measure function -- what the C04 / C12 instances are about and what
   TaffyView does), for any preprocessing and absolute-item routine (Proofs/BlockEngineBlind.v, audit wave 5c) *)
Theorem C05_bl_engine_hidden_invisible :
  forall (T : Type) (N : Num T) (pre : BStyle T -> BIn T -> BIn T) (abs_child : @AbsChild T) k k',
    hsim (BNode T) bn_is_none k k' -> forall f i,
      bl_plain pre abs_child f k i = bl_plain pre abs_child f k' i /\
      orel (BNode T) (BIn T) (ChildOut T) (BLayout T) bn_is_none
           (bl_memo pre abs_child f (bl_fresh k) i) (bl_memo pre abs_child f (bl_fresh k') i).
Proof. exact bl_engine_hidden_invisible. Qed.

(* computed instance of C05_block_engine_hidden_invisible over XQ: root > [A; B > [C; H (display:none) > [G; A]; G]; E
   (absolute); F] against the same tree with H replaced by a bare display:none leaf: hsim, both evaluations succeed with the
   same output (212 x 92), the trees are tsim, and the boxes of all visible nodes coincide *)
Definition bsel (s : BStyle XQ) : bool :=
  match Block.r_left (st_padding s) with Len (Fin q) => Qeq_bool q 5 || Qeq_bool q 3 | _ => false end.
Definition bleaf (s : BStyle XQ) (i : BIn XQ) : ChildOut XQ := leaf_out s (Scale.measure_fixed (qz 30) (qz 10)) i.
Notation b_algo := (fun s st i => if bsel s then block_alg block_pre abs_child_simple s st i
                                  else Engine.Ret (BIn XQ) (ChildOut XQ) (BLayout XQ) (bleaf s i)).
Notation b_memo := (memo (BStyle XQ) (BIn XQ) (ChildOut XQ) (BLayout XQ) bi_mode bin_eqb bs_is_none hidden_child_out zero_blay b_algo).
Notation b_fresh := (fresh (BStyle XQ) (BIn XQ) (ChildOut XQ) (BLayout XQ) zero_blay).
Definition sA := fst (sstyle _ ex_A). Definition sC := fst (sstyle _ ex_C). Definition sG := fst (sstyle _ ex_G).
Definition sB := fst (sstyle _ ex_B). Definition sE := fst (sstyle _ ex_E). Definition sF := fst (sstyle _ ex_F).
Definition sR := fst (sstyle _ ex_spec).
Definition sH : BStyle XQ := ex_style Block.DNone true PRelative (Block.mkSize (len 70) (len 70)) auto2 auto2 1 0 9.
Definition L (s : BStyle XQ) := SNode (BStyle XQ) s [].
Definition bk : sk (BStyle XQ) := SNode _ sR [L sA; SNode _ sB [L sC; SNode _ sH [L sG; L sA]; L sG]; L sE; L sF].
Definition bk' : sk (BStyle XQ) := SNode _ sR [L sA; SNode _ sB [L sC; L bare_none_style; L sG]; L sE; L sF].
Definition bx (t : Engine.tree (BStyle XQ) (BIn XQ) (ChildOut XQ) (BLayout XQ)) :=
  map (fun l => (bl_x l, bl_y l, s_w (bl_size l), s_h (bl_size l))) (lays (BStyle XQ) (BIn XQ) (ChildOut XQ) (BLayout XQ) t).
Example C05_block_engine_example :
  hsim (BStyle XQ) bs_is_none bk bk' /\ bk <> bk' /\
  exists o t t',
    b_memo 6 (b_fresh bk) ex_input = Some (o, t) /\ b_memo 6 (b_fresh bk') ex_input = Some (o, t') /\
    tsim (BStyle XQ) (BIn XQ) (ChildOut XQ) (BLayout XQ) bs_is_none t t' /\
    bsz_eqb (co_size o) (Block.mkSize (qz 212) (qz 92)) = true /\
    list_eqb box_eqb (bx t) [box 0 0 0 0; box 6 10 200 24; box 6 40 200 34; box 4 4 52 12; box 0 0 0 0; box 0 0 0 0; box 0 0 0 0;
                             box 4 16 192 14; box 6 74 30 10; box 6 74 100 12] = true /\
    list_eqb box_eqb (bx t') [box 0 0 0 0; box 6 10 200 24; box 6 40 200 34; box 4 4 52 12; box 0 0 0 0;
                              box 4 16 192 14; box 6 74 30 10; box 6 74 100 12] = true.
Proof.
  assert (Hs : hsim (BStyle XQ) bs_is_none bk bk').
  { change bk' with (sk_replace _ bk [1%nat; 1%nat] (L bare_none_style)). eapply hsim_replace; [vm_compute; reflexivity|vm_compute; reflexivity|vm_compute; reflexivity]. }
  split; [exact Hs|]. split; [vm_compute; discriminate|].
  pose proof (C05_block_engine_hidden_invisible XQ _ block_pre abs_child_simple bsel bleaf bi_mode bin_eqb hidden_child_out
              zero_blay bk bk' Hs 6 ex_input) as Ho.
  cbv zeta in Ho. apply proj2 in Ho.
  assert (X : match b_memo 6 (b_fresh bk) ex_input, b_memo 6 (b_fresh bk') ex_input with
              | Some (o, t), Some (_, t') =>
                  bsz_eqb (co_size o) (Block.mkSize (qz 212) (qz 92)) &&
                  list_eqb box_eqb (bx t) [box 0 0 0 0; box 6 10 200 24; box 6 40 200 34; box 4 4 52 12; box 0 0 0 0; box 0 0 0 0; box 0 0 0 0;
                             box 4 16 192 14; box 6 74 30 10; box 6 74 100 12] &&
                  list_eqb box_eqb (bx t') [box 0 0 0 0; box 6 10 200 24; box 6 40 200 34; box 4 4 52 12; box 0 0 0 0;
                              box 4 16 192 14; box 6 74 30 10; box 6 74 100 12]
              | _, _ => false end = true) by (vm_compute; reflexivity).
  remember (b_memo 6 (b_fresh bk) ex_input) as r eqn:E. remember (b_memo 6 (b_fresh bk') ex_input) as r' eqn:E'.
  destruct r as [[o t]|]; [|discriminate X]. destruct r' as [[o' t']|]; [|discriminate X].
  destruct Ho as [<- Ht]. exists o, t, t'. split; [reflexivity|]. split; [reflexivity|]. split; [exact Ht|].
  apply andb_true_iff in X. destruct X as [X X3]. apply andb_true_iff in X. destruct X as [X1 X2].
  repeat split; assumption.
Qed.

(* C05_grid_estimate_ignores_hidden with an Ok run that places items: two in-flow, one absolute, two hidden children whose
   placement styles differ completely between the two lists *)
Definition gh_children : list (child_kind * child) :=
  [(InFlow, mkChild (mkLn (Line 2) Auto) (mkLn (Line 2) (Span 2))); (Hidden, mkChild (mkLn (Line 7) Auto) (mkLn (Line (-6)) (Span 3)));
   (InFlow, auto_child); (Absolute, auto_child); (Hidden, mkChild (mkLn Auto (Span 4)) (mkLn (Span 4) Auto))].
Definition gh_children' : list (child_kind * child) :=
  [(InFlow, mkChild (mkLn (Line 2) Auto) (mkLn (Line 2) (Span 2))); (Hidden, auto_child);
   (InFlow, auto_child); (Absolute, auto_child); (Hidden, mkChild (mkLn (Line 1) Auto) (mkLn Auto Auto))].
Example C05_grid_example_ok :
  Forall2 (same_but Hidden (fun _ _ => True)) gh_children gh_children' /\ gh_children <> gh_children' /\
  exists o, grid_placement_run 3 2 FRow gh_children = Ok o /\ grid_placement_run 3 2 FRow gh_children' = Ok o /\
            map p_index (o_items o) = [0; 2]%Z /\ o_cols o = mkTC 0 3 0 /\ o_rows o = mkTC 0 2 0.
Proof.
  assert (SB : forall k c c', (k <> Hidden -> c = c') -> same_but Hidden (fun _ _ => True) (k, c) (k, c'))
    by (intros k c c' A; split; [reflexivity|split; [intros _; exact I|exact A]]).
  split.
  { unfold gh_children, gh_children'. repeat (constructor; [apply SB; try reflexivity; intros N; exfalso; apply N; reflexivity|]). constructor. }
  split; [discriminate|].
  eexists. split; [vm_compute; reflexivity|]. split; [vm_compute; reflexivity|]. vm_compute. repeat split; reflexivity.
Qed.
(* ---------------------------------------------------------------------------------------------- the flex algorithm *)
From TV Require Import Model.FlexAlgBase Model.FlexAlg Model.EngineLift Model.BlockFlexEngine Model.EngineLayouts.
From TV Require Import Proofs.FlexAlgStruct Proofs.FlexAlgShape Proofs.FlexAlgIface Proofs.FlexAlgBlind Proofs.BlockFlexEngine
  Proofs.EngineNoScribble.

(* what compute_flexbox_layout does at the tree interface, for every container style, child-style list and input.
   Reading for a display:none child c (hidden_at st c): it is neither in-flow nor absolute (disjoint classes), so it receives no
   measuring / baseline query (Pre), no query at all when the run mode is ComputeSize (the tail is Ret), and otherwise exactly one query
   (it occurs once in hidden_nodes) -- hidden_child_input = perform_child_layout(NONE, NONE, MAX_CONTENT, InherentSize, FALSE) -- whose
   answer neither the stored layout (f_with_order c) nor anything that follows depends on (QSLc) *)
Theorem C05_flex_algorithm_shape :
  forall (T : Type) (N : Num T) (s : FStyle T) (st : list (FStyle T)) (i : FIn T),
    Pre (in_flow_at st) (flex_BL s st)
        (fun a => (qi_mode i = ComputeSize /\ IsRet a) \/
                  (qi_mode i <> ComputeSize /\
                   exists walk, (forall c, In c walk <-> in_flow_at st c) /\
                     QSL q_layout l_any
                         (QSL q_layout l_any (QSLc q_hidden l_with_order IsRet (hidden_nodes st)) (abs_nodes st)) walk a))
        (flex_alg s st i) /\
    (forall c, In c (abs_nodes st) <-> abs_at st c) /\ (forall c, In c (hidden_nodes st) <-> hidden_at st c) /\
    NoDup (hidden_nodes st) /\ (forall c, hidden_at st c -> ~ in_flow_at st c /\ ~ abs_at st c) /\
    qi_mode (hidden_child_input (T := T)) = PerformLayout.
Proof.
  intros T N s st i. split; [apply flex_alg_shape|].
  split; [apply abs_nodes_iff|]. split; [apply hidden_nodes_iff|]. split; [apply hidden_nodes_NoDup|].
  split; [apply classes_disjoint|reflexivity].
Qed.

(* the two child loops of the model are the source's (translated on every run, Gen/FiltersGen.v): which children the hidden loop visits
   (compute_preliminary l.376-392) and which the absolute pass skips (l.2076); the translator additionally checks that the hidden loop issues
   the canonical perform_child_layout followed by set_unrounded_layout(child, &Layout::with_order(order)), and that EVERY other call of
   flexbox.rs on `tree` that addresses a node is in one of the item functions and addresses `<item>.node` -- a new call site refuses *)
Theorem C05_flex_model_loops_are_source :
  forall (T : Type) (N : Num T) (st : list (FStyle T)),
    hidden_flags st = map (fun s => flex_hidden_pass_visits (f_bgm s) (f_position s)) st /\
    abs_children st = filter (fun c => negb (flex_absolute_pass_skips (@f_position T) (@f_bgm T) (snd c))) (g_enumerate st) /\
    flex_hidden_pass_is_canonical = true /\ flex_tree_calls_address_item_only = true.
Proof. intros T N st. apply flex_loops_are_generated. Qed.

(* HiddenBlind, and its witness: the algorithm applied to the child styles is the algorithm applied to their images under
   f_hidden_view, which sends every display:none style to ONE bare display:none style *)
Theorem C05_flex_algorithm_hidden_blind :
  forall (T : Type) (N : Num T),
    HiddenBlind (FStyle T) (FIn T) (LayoutOutput T) (FLay T) f_is_none flex_alg /\
    (forall s st i, flex_alg s st i = flex_alg s (map f_hidden_view st) i) /\
    (forall a b : FStyle T, f_is_none a = true -> f_is_none b = true -> f_hidden_view a = f_hidden_view b).
Proof.
  intros T N. split; [apply flex_alg_hidden_blind|]. split.
  - intros s st i. apply flex_alg_none_rel. apply f_hidden_view_rel.
  - intros a b Ha Hb. unfold f_hidden_view. rewrite Ha, Hb. reflexivity.
Qed.

Theorem C05_flex_algorithm_sets_zero_on_hidden :
  forall (T : Type) (N : Num T),
    SetsZeroOnHidden (FStyle T) (FIn T) (LayoutOutput T) (FLay T) f_is_none flex_alg f_zeroish /\
    (forall n : nat, f_zeroish (f_with_order (T := T) n)).
Proof.
  intros T N. split; [apply flex_alg_SZH|]. intros n. exists (Z.of_nat n). reflexivity.
Qed.

(* engines made of block containers, flex containers and leaves (`kind` = the dispatch of TaffyView::compute_child_layout on the node's
   own style): replacing display:none subtrees changes nothing elsewhere -- no premise on the algorithms is left *)
Theorem C05_blockflex_engine_hidden_invisible :
  forall (T : Type) (N : Num T) (kind : BFStyle T -> NodeKind) (pre : BStyle T -> BIn T -> BIn T) (abs_child : @AbsChild T)
         (leaf : BFStyle T -> FIn T -> LayoutOutput T)
         (mode : FIn T -> RunMode) (in_eqb : FIn T -> FIn T -> bool) (hidden_out : LayoutOutput T) (zero_lay : FLay T),
    let algo := blockflex_algo kind pre abs_child leaf in
    forall k k', hsim (BFStyle T) bf_is_none k k' ->
    forall f i,
      plain (BFStyle T) (FIn T) (LayoutOutput T) (FLay T) mode bf_is_none hidden_out algo f k i =
      plain (BFStyle T) (FIn T) (LayoutOutput T) (FLay T) mode bf_is_none hidden_out algo f k' i /\
      orel (BFStyle T) (FIn T) (LayoutOutput T) (FLay T) bf_is_none
           (memo (BFStyle T) (FIn T) (LayoutOutput T) (FLay T) mode in_eqb bf_is_none hidden_out zero_lay algo f
                 (fresh (BFStyle T) (FIn T) (LayoutOutput T) (FLay T) zero_lay k) i)
           (memo (BFStyle T) (FIn T) (LayoutOutput T) (FLay T) mode in_eqb bf_is_none hidden_out zero_lay algo f
                 (fresh (BFStyle T) (FIn T) (LayoutOutput T) (FLay T) zero_lay k') i).
Proof.
  intros T N kind pre abs_child leaf mode in_eqb hidden_out zero_lay algo k k' Hs f i.
  apply C05_hidden_blind_engine; [|exact Hs]. apply blockflex_algo_hidden_blind.
Qed.

(* the interface hypotheses of the engine theorems of C01 / C15 / C05 (Proofs/EngineDirty.v WFAlg, Visits; Model/EngineLayouts.v SetsLast,
   NoHiddenSize), for the engine's `mode` = the run mode of the input *)
Theorem C01_flex_algorithm_satisfies_interface :
  forall (T : Type) (N : Num T) (s : FStyle T) (st : list (FStyle T)) (i : FIn T),
    (* WF *) WFAlg (FIn T) (LayoutOutput T) (FLay T) (@qi_mode T) (flex_alg s st i) /\
    (* H1 *) (qi_mode i = PerformLayout -> Visits (FIn T) (LayoutOutput T) (FLay T) (@qi_mode T) (seq 0 (length st)) (flex_alg s st i)) /\
    (* H3 *) (qi_mode i = PerformLayout ->
              SetsLast (FIn T) (LayoutOutput T) (FLay T) (nones (FStyle T) f_is_none st) (seq 0 (length st)) (flex_alg s st i)) /\
    (* HQ *) NoHiddenSize (FIn T) (LayoutOutput T) (FLay T) (@qi_mode T) (nones (FStyle T) f_is_none st) (flex_alg s st i).
Proof.
  intros T N s st i. split; [apply flex_alg_WF|]. split; [apply flex_alg_H1|]. split; [apply flex_alg_H3|apply flex_alg_HQ].
Qed.

(* NS: only for columns and for containers without a baseline-aligned child ... *)
Theorem C01_flex_algorithm_NS_partial :
  forall (T : Type) (N : Num T) (s : FStyle T) (st : list (FStyle T)) (i : FIn T),
    fs_row s = false \/
    Forall (fun sc => falign_is_baseline (opt_unwrap_or (fs_align_self sc) (container_align_items s)) = false) st ->
    qi_mode i = ComputeSize -> SizeOnly (FIn T) (LayoutOutput T) (FLay T) (@qi_mode T) (flex_alg s st i).
Proof. intros T N s st i. apply flex_alg_NS_partial. Qed.

(* ... and not in general: a row (align-items: baseline) with two 10 x 20 / 10 x 30 children, asked for its size under a max-content
   constraint: after the two min-content measurements the next event is a PerformLayout / ContentSize query to child 0
   (calculate_children_base_lines, flexbox.rs l.1440).  On the implementation: `vh flexalg baseline` (the same container: the
   PerformLayout query stores the layout of a grandchild while the root only computes a size: SCRIBBLES 1) *)
Theorem C01_flex_algorithm_NS_refuted :
  exists (s : FStyle XQ) (st : list (FStyle XQ)) (i : FIn XQ),
    qi_mode i = ComputeSize /\
    ~ SizeOnly (FIn XQ) (LayoutOutput XQ) (FLay XQ) (@qi_mode XQ) (flex_alg s st i) /\
    first_non_size 8 (flex_alg s st i) = Some (0%nat, true, true).
Proof. exists ns_container, [ns_child 20; ns_child 30], ns_input. exact flex_alg_NS_refuted. Qed.

(* ---------------------------------------------------------------------------------------------- the grid algorithm *)
From TV Require Import Gen.GridTracksGen Model.GridTracks Model.GridAlgBase Model.GridAlg Model.TaffyEngine.
From TV Require Import Proofs.GridAlgProg Proofs.GridAlgStruct Proofs.GridAlgIface Proofs.GridAlgVisits Proofs.TaffyEngine.

(* what compute_grid_layout does at the tree interface, for every container style, child-style list and input: every event of the
   resumption is a ComputeSize query to an in-flow child, a PerformLayout query / a stored layout on a child that is not display:none,
   the canonical hidden pair on a display:none child (hidden_child_input = perform_child_layout(NONE, NONE, MAX_CONTENT, InherentSize,
   FALSE); the continuation ignores the answer and stores Layout::with_order(n)), or Ret *)
Theorem C05_grid_algorithm_shape :
  forall (T : Type) (N : Num T) (s : GStyle T) (st : list (GStyle T)) (i : GIn T),
    GShape st (grid_alg s st i) /\ gi_mode (hidden_child_input (T := T)) = PerformLayout.
Proof. intros T N s st i. split; [apply grid_alg_shape|reflexivity]. Qed.

(* the sizing phase of the model runs under a guard ("address in-flow children only"); the guard is redundant: the program it runs
   only ever addresses children whose in-flow flag is set, and issues baseline layouts only through PBaseline *)
Theorem C05_grid_sizing_guard_never_fires :
  forall (T : Type) (N : Num T) (s : GStyle T) (st : list (GStyle T)) (i : GIn T) ec er m placed cc rc cols rows items0,
    place s ec er (estimate_styles st) (in_flow_styles st) = PB.Ok (m, placed) ->
    PL.mapM (make_item s (in_flow_styles st) cc rc cols rows) placed = PB.Ok items0 ->
    forall cols0 rows0,
      PGood (fun c => nth c (map g_in_flow st) false = true) true (fun _ => True)
            (m_size_grid s (grid_pre s i) i (mkSS cols0 rows0 zero zero items0)).
Proof. intros T N s st i ec er m placed cc rc cols rows items0. apply grid_sizing_guard_never_fires. Qed.

(* the tests of the model's final loop are the conditions found in the source (translated on every run), and the translator checked the
   branches: the hidden branch is the canonical pair, the absolute branch one align_and_position_item on the child; the node-addressing
   calls of the grid sources on `tree` are exactly the sites the resumption models *)
Theorem C05_grid_model_loops_are_source :
  forall (T : Type) (N : Num T) (s : GStyle T),
    oof_view s = (if grid_final_loop_hidden_test g_position g_bgm s then OHidden
                  else if grid_final_loop_absolute_test g_position g_bgm s then OAbs s else OSkip) /\
    grid_hidden_branch_is_canonical = true /\ grid_absolute_branch_is_local = true /\ grid_tree_calls_address_item_only = true.
Proof. intros T N s. apply grid_loops_are_generated. Qed.

Theorem C05_grid_algorithm_hidden_blind :
  forall (T : Type) (N : Num T),
    HiddenBlind (GStyle T) (GIn T) (LayoutOutput T) (GLay T) g_is_none grid_alg /\
    (forall s st i, grid_alg s st i = grid_alg s (map g_hidden_view st) i) /\
    (forall a b : GStyle T, g_is_none a = true -> g_is_none b = true -> g_hidden_view a = g_hidden_view b).
Proof.
  intros T N. split; [apply grid_alg_hidden_blind|]. split.
  - intros s st i. apply grid_alg_none_rel. apply g_hidden_view_rel.
  - intros a b Ha Hb. unfold g_hidden_view. rewrite Ha, Hb. reflexivity.
Qed.

Theorem C05_grid_algorithm_sets_zero_on_hidden :
  forall (T : Type) (N : Num T),
    SetsZeroOnHidden (GStyle T) (GIn T) (LayoutOutput T) (GLay T) g_is_none grid_alg g_zeroish /\
    (forall n : nat, g_zeroish (g_with_order (T := T) n)).
Proof. intros T N. split; [apply grid_alg_SZH|]. intros n. exists (Z.of_nat n). reflexivity. Qed.

(* engines made of grid containers (sel s = true) and leaves *)
Theorem C05_grid_engine_hidden_invisible :
  forall (T : Type) (N : Num T) (sel : GStyle T -> bool) (leaf : GStyle T -> GIn T -> LayoutOutput T)
         (mode : GIn T -> RunMode) (in_eqb : GIn T -> GIn T -> bool) (hidden_out : LayoutOutput T) (zero_lay : GLay T),
    let algo := grid_leaf_algo sel leaf in
    forall k k', hsim (GStyle T) g_is_none k k' ->
    forall f i,
      plain (GStyle T) (GIn T) (LayoutOutput T) (GLay T) mode g_is_none hidden_out algo f k i =
      plain (GStyle T) (GIn T) (LayoutOutput T) (GLay T) mode g_is_none hidden_out algo f k' i /\
      orel (GStyle T) (GIn T) (LayoutOutput T) (GLay T) g_is_none
           (memo (GStyle T) (GIn T) (LayoutOutput T) (GLay T) mode in_eqb g_is_none hidden_out zero_lay algo f
                 (fresh (GStyle T) (GIn T) (LayoutOutput T) (GLay T) zero_lay k) i)
           (memo (GStyle T) (GIn T) (LayoutOutput T) (GLay T) mode in_eqb g_is_none hidden_out zero_lay algo f
                 (fresh (GStyle T) (GIn T) (LayoutOutput T) (GLay T) zero_lay k') i).
Proof.
  intros T N sel leaf mode in_eqb hidden_out zero_lay algo k k' Hs f i.
  apply C05_hidden_blind_engine; [|exact Hs]. apply grid_leaf_algo_hidden_blind.
Qed.

(* engines made of block, flex and grid containers and leaves: every kind of node TaffyView::compute_child_layout dispatches on.
   Replacing display:none subtrees changes nothing elsewhere; no premise on the algorithms is left.  `disp` is ANY dispatch on (own style,
   number of children) -- Model/TaffyEngine.v `taffy_dispatch` is the one of taffy_tree.rs --, `leaf` ANY leaf routine (`taffy_leaf` is
   compute_leaf_layout with the node's measure function, which is part of the style); the instance these parameters give with
   `block_pre` / `abs_child_block` is run against the implementation on whole trees by `vh taffytree` (notes/TAFFYTREE.md).
   Scope (audit, wave 7b): ONE memoised query with the same input on both sides, from FRESH trees; `orel` also relates two evaluations that
   both run out of fuel.  What the runner executes is taffy_compute_root (root input computed from the root style, the root's layout stored)
   iterated over several passes: that composition is C05_taffy_layout_pass_hidden_invisible / C05_taffy_layout_passes_hidden_invisible (end of this file).  Where the Rust
   code panics the grid branch is the total stand-in of Model/GridAlgTotal.v; the panic region is proved blind (grid_no_panic_none_rel), so the
   stand-in is the same resumption on both sides.  Computed instance: C05_taffy_engine_example at the end of this file. *)
Theorem C05_taffy_engine_hidden_invisible :
  forall (T : Type) (N : Num T) (disp : TStyle T -> nat -> TKind) (pre : BStyle T -> BIn T -> BIn T)
         (abs_child : @AbsChild T) (leaf : TStyle T -> FIn T -> LayoutOutput T)
         (mode : FIn T -> RunMode) (in_eqb : FIn T -> FIn T -> bool) (hidden_out : LayoutOutput T) (zero_lay : FLay T),
    let algo := taffy_algo disp pre abs_child leaf in
    forall k k', hsim (TStyle T) t_is_none k k' ->
    forall f i,
      plain (TStyle T) (FIn T) (LayoutOutput T) (FLay T) mode t_is_none hidden_out algo f k i =
      plain (TStyle T) (FIn T) (LayoutOutput T) (FLay T) mode t_is_none hidden_out algo f k' i /\
      orel (TStyle T) (FIn T) (LayoutOutput T) (FLay T) t_is_none
           (memo (TStyle T) (FIn T) (LayoutOutput T) (FLay T) mode in_eqb t_is_none hidden_out zero_lay algo f
                 (fresh (TStyle T) (FIn T) (LayoutOutput T) (FLay T) zero_lay k) i)
           (memo (TStyle T) (FIn T) (LayoutOutput T) (FLay T) mode in_eqb t_is_none hidden_out zero_lay algo f
                 (fresh (TStyle T) (FIn T) (LayoutOutput T) (FLay T) zero_lay k') i).
Proof.
  intros T N disp pre abs_child leaf mode in_eqb hidden_out zero_lay algo k k' Hs f i.
  apply C05_hidden_blind_engine; [|exact Hs]. apply taffy_algo_hidden_blind.
Qed.

(* the interface hypotheses of the engine theorems of C01 / C15 / C05, for the engine's `mode` = the run mode of the input.
   WF and HQ hold without premise; H1 and H3 speak of evaluations that run to the end: `grid_no_panic s st i` says that the Rust code does
   not panic on this container (the checked arithmetic of placement succeeds and every box-generating absolute child's grid lines lie
   inside the implicit grid: OriginZeroLine::into_track_vec_index asserts it) -- where it panics the model returns at once *)
Theorem C01_grid_algorithm_satisfies_interface :
  forall (T : Type) (N : Num T) (s : GStyle T) (st : list (GStyle T)) (i : GIn T),
    (* WF *) WFAlg (GIn T) (LayoutOutput T) (GLay T) (@qi_mode T) (grid_alg s st i) /\
    (* H1 *) (grid_no_panic s st i = true -> gi_mode i = PerformLayout ->
              Visits (GIn T) (LayoutOutput T) (GLay T) (@qi_mode T) (seq 0 (length st)) (grid_alg s st i)) /\
    (* H3 *) (grid_no_panic s st i = true -> gi_mode i = PerformLayout ->
              SetsLast (GIn T) (LayoutOutput T) (GLay T) (nones (GStyle T) g_is_none st) (seq 0 (length st)) (grid_alg s st i)) /\
    (* HQ *) NoHiddenSize (GIn T) (LayoutOutput T) (GLay T) (@qi_mode T) (nones (GStyle T) g_is_none st) (grid_alg s st i).
Proof.
  intros T N s st i. split; [apply grid_alg_WF|]. split; [apply grid_alg_H1|]. split; [apply grid_alg_H3|apply grid_alg_HQ].
Qed.

(* the premise of H1 / H3 is satisfiable and decidable by computation: the two-column baseline container of the NS witness *)
Example C01_grid_no_panic_example : grid_no_panic gns_container [gns_child 20; gns_child 30] (gns_input_mode PerformLayout) = true.
Proof. vm_compute. reflexivity. Qed.

(* NS: without baseline alignment (neither align-items of the container nor align-self of any child) ... *)
Theorem C01_grid_algorithm_NS_partial :
  forall (T : Type) (N : Num T) (s : GStyle T) (st : list (GStyle T)) (i : GIn T),
    gs_align_items s <> Some AE.AI_Baseline -> Forall (fun sc => gs_align_self sc <> Some AE.AI_Baseline) st ->
    gi_mode i = ComputeSize -> SizeOnly (GIn T) (LayoutOutput T) (GLay T) (@qi_mode T) (grid_alg s st i).
Proof. intros T N s st i. apply grid_alg_NS_partial. Qed.

(* ... and not in general: `display:grid; grid-template-columns: auto auto; align-items: baseline` with children 10 x 20 and 10 x 30,
   asked for its size under a max-content constraint: the FIRST event is a PerformLayout query to child 0 (resolve_item_baselines,
   track_sizing.rs l.491).  On the implementation: `vh gridalg witness baseline` *)
Theorem C01_grid_algorithm_NS_refuted :
  exists (s : GStyle XQ) (st : list (GStyle XQ)) (i : GIn XQ),
    gi_mode i = ComputeSize /\
    ~ SizeOnly (GIn XQ) (LayoutOutput XQ) (GLay XQ) (@qi_mode XQ) (grid_alg s st i) /\
    GridAlgVisits.first_non_size 4 (grid_alg s st i) = Some (0%nat, true).
Proof. exists gns_container, [gns_child 20; gns_child 30], gns_input. exact grid_alg_NS_refuted. Qed.

Print Assumptions C05_hide_all_zero.
Print Assumptions C05_hidden_zero.
Print Assumptions C05_hidden_zero_self_partial.
Print Assumptions C05_pass_establishes_hidden_zero.
Print Assumptions C05_fresh_pass_hidden_zero.
Print Assumptions C05_mutators_preserve.
Print Assumptions C05_attach_below_hidden_refuted.
Print Assumptions C05_hidden_root_refuted.
Print Assumptions C05_plain_ignores_hidden_subtree.
Print Assumptions C05_hidden_blind_engine.
Print Assumptions C05_hidden_blind_engine_step.
Print Assumptions C05_hidden_blind_layouts.
Print Assumptions C05_hidden_blind_replace.
Print Assumptions C05_grid_estimate_ignores_hidden.
Print Assumptions C05_flex_items_ignore_hidden.
Print Assumptions C05_block_items_ignore_hidden.
Print Assumptions C05_grid_items_ignore_hidden.
Print Assumptions C05_model_filters_are_source.
Print Assumptions C05_block_algorithm_hidden_blind.
Print Assumptions C05_block_algorithm_sets_zero_on_hidden.
Print Assumptions C05_block_real_sets_zero_on_hidden.
Print Assumptions C05_bl_real_sets_zero_on_hidden.
Print Assumptions C05_block_engine_hidden_invisible.
Print Assumptions C05_flex_algorithm_shape.
Print Assumptions C05_flex_model_loops_are_source.
Print Assumptions C05_flex_algorithm_hidden_blind.
Print Assumptions C05_flex_algorithm_sets_zero_on_hidden.
Print Assumptions C05_blockflex_engine_hidden_invisible.
Print Assumptions C01_flex_algorithm_satisfies_interface.
Print Assumptions C01_flex_algorithm_NS_partial.
Print Assumptions C01_flex_algorithm_NS_refuted.
Print Assumptions C05_bl_engine_hidden_invisible.
Print Assumptions C05_grid_algorithm_shape.
Print Assumptions C05_grid_sizing_guard_never_fires.
Print Assumptions C05_grid_model_loops_are_source.
Print Assumptions C05_grid_algorithm_hidden_blind.
Print Assumptions C05_grid_algorithm_sets_zero_on_hidden.
Print Assumptions C05_grid_engine_hidden_invisible.
Print Assumptions C05_taffy_engine_hidden_invisible.
Print Assumptions C01_grid_algorithm_satisfies_interface.
Print Assumptions C01_grid_algorithm_NS_partial.
Print Assumptions C01_grid_algorithm_NS_refuted.

(* ------------------------------------------------------------------------------------------------------------ *)
(** * Computed instances of the grid-algorithm and complete-engine theorems (audit, wave 7b)

   No grid or taffy-engine theorem of this file had a computed Example: `hsim` was never exhibited on a tree with a grid container, the only
   grid Example (C01_grid_no_panic_example) has two in-flow items and no out-of-flow child. *)
From TV Require Import Model.TaffyRoot Model.TaffyKey Model.TaffyExample Model.TaffyExample2 Proofs.GridAlgExamples.
From TV Require Model.MeasureFamily.

(* grid algorithm (Proofs/GridAlgExamples.v): the baseline-aligned two-column grid of the NS witness with a display:none child BETWEEN its two
   in-flow items; on one side the hidden child has grid_row 7 and grid_column -5 / span 3, on the other it is the bare display:none style:
   the lists differ, the Rust code does not panic on this input (grid_no_panic), the resumptions are EQUAL, and the 19 events are the
   listed ones (12 measuring queries and 2 baseline layouts of the in-flow items, their final layouts 10 x 20 at (0, 0) and 10 x 30 at
   (10, 0), the canonical hidden query and the zero layout of child 1, result 20 x 30) *)
Example C05_grid_algorithm_hidden_blind_example :
  st_h <> st_h' /\ grid_no_panic gns_container st_h g_pl = true /\
  grid_alg gns_container st_h g_pl = grid_alg gns_container st_h' g_pl /\
  walk 60 (grid_alg gns_container st_h g_pl) = common_prefix ++ [ES 1 (xq 0) (xq 0) (xq 0) (xq 0); ER (xq 20) (xq 30)].
Proof.
  split; [intros E; apply (f_equal (fun l => option_map (fun s => gs_row s) (nth_error l 1))) in E; vm_compute in E; discriminate|].
  split; [vm_compute; reflexivity|]. split; [|vm_compute; reflexivity].
  destruct (C05_grid_algorithm_hidden_blind XQ _) as (_ & Hv & _). rewrite (Hv _ st_h), (Hv _ st_h'). reflexivity.
Qed.

(* complete engine: Model/TaffyExample.v ex_tree (9 nodes: block root 200 > [flex row > 2 leaves; GRID 50px 50px > [leaf 20 x 10; display:none
   leaf; text leaf]; absolute leaf]) against the same tree with the grid's hidden leaf replaced by a LOUD display:none node (70 x 70,
   grid_row 5 / span 2, grid_column -3, a template, two children: 11 nodes): hsim, BOTH evaluations of the engine `vh taffytree` runs
   (real_memo, representation keys) succeed with the same output 200 x 30, the result trees are tsim, the boxes of all visible nodes
   coincide (grid 200 x 10 at y = 20) and the whole hidden subtree is zero *)
Example C05_taffy_engine_example :
  hsim (TStyle XQ) t_is_none ex_tree ex_tree' /\ sk_size ex_tree = 9%nat /\ sk_size ex_tree' = 11%nat /\
  exists o t t',
    real_memo xq_seqb 8 (taffy_fresh ex_tree) (ex_input 300%Z) = Some (o, t) /\
    real_memo xq_seqb 8 (taffy_fresh ex_tree') (ex_input 300%Z) = Some (o, t') /\
    tsim (TStyle XQ) (FIn XQ) (LayoutOutput XQ) (FLay XQ) t_is_none t t' /\
    xq_is (width (out_size o)) 200 && xq_is (height (out_size o)) 30 = true /\
    boxes_are (bxz t) [(0,0,0,0); (0,0,200,20); (0,0,30,20); (30,0,40,10); (0,20,200,10); (0,0,20,10); (0,0,0,0); (50,0,50,10);
                       (0,30,10,10)]%Z = true /\
    boxes_are (bxz t') [(0,0,0,0); (0,0,200,20); (0,0,30,20); (30,0,40,10); (0,20,200,10); (0,0,20,10); (0,0,0,0); (0,0,0,0); (0,0,0,0);
                        (50,0,50,10); (0,30,10,10)]%Z = true.
Proof.
  assert (Hs : hsim (TStyle XQ) t_is_none ex_tree ex_tree').
  { change ex_tree' with (sk_replace (TStyle XQ) ex_tree [1%nat; 1%nat] hid_big).
    eapply hsim_replace; [vm_compute; reflexivity|reflexivity|reflexivity]. }
  split; [exact Hs|]. split; [vm_compute; reflexivity|]. split; [vm_compute; reflexivity|].
  pose proof (C05_taffy_engine_hidden_invisible XQ _ taffy_dispatch BlockEngine.block_pre abs_child_block taffy_leaf qi_mode
                (fin_eqb_with xq_seqb) output_HIDDEN (f_with_order 0) ex_tree ex_tree' Hs 8 (ex_input 300%Z)) as Ho.
  cbv zeta in Ho. apply proj2 in Ho.
  change (Engine.memo (TStyle XQ) (FIn XQ) (LayoutOutput XQ) (FLay XQ) qi_mode (fin_eqb_with xq_seqb) t_is_none output_HIDDEN (f_with_order 0)
            (taffy_algo taffy_dispatch BlockEngine.block_pre abs_child_block taffy_leaf)) with (real_memo xq_seqb) in Ho.
  change (Engine.fresh (TStyle XQ) (FIn XQ) (LayoutOutput XQ) (FLay XQ) (f_with_order 0)) with (taffy_fresh (T := XQ)) in Ho.
  assert (X : match real_memo xq_seqb 8 (taffy_fresh ex_tree) (ex_input 300%Z), real_memo xq_seqb 8 (taffy_fresh ex_tree') (ex_input 300%Z) with
              | Some (o, t), Some (_, t') =>
                  xq_is (width (out_size o)) 200 && xq_is (height (out_size o)) 30 &&
                  boxes_are (bxz t) [(0,0,0,0); (0,0,200,20); (0,0,30,20); (30,0,40,10); (0,20,200,10); (0,0,20,10); (0,0,0,0); (50,0,50,10);
                                     (0,30,10,10)]%Z &&
                  boxes_are (bxz t') [(0,0,0,0); (0,0,200,20); (0,0,30,20); (30,0,40,10); (0,20,200,10); (0,0,20,10); (0,0,0,0); (0,0,0,0);
                                      (0,0,0,0); (50,0,50,10); (0,30,10,10)]%Z
              | _, _ => false end = true) by (vm_compute; reflexivity).
  remember (real_memo xq_seqb 8 (taffy_fresh ex_tree) (ex_input 300%Z)) as r eqn:E.
  remember (real_memo xq_seqb 8 (taffy_fresh ex_tree') (ex_input 300%Z)) as r' eqn:E'.
  destruct r as [[o t]|]; [|discriminate X]. destruct r' as [[o' t']|]; [|discriminate X].
  destruct Ho as [<- Ht]. exists o, t, t'. split; [reflexivity|]. split; [reflexivity|]. split; [exact Ht|].
  apply andb_true_iff in X. destruct X as [X X3]. apply andb_true_iff in X. destruct X as [X1 X2].
  repeat split; assumption.
Qed.

(* ---- what `vh taffytree` really evaluates (Model/TaffyEngineRun.v run_case = Model/TaffyRoot.v real_layout_passes): compute_root_layout -- the
   root input computed from the root style, ONE memoised query, the root's own layout stored -- and SEVERAL compute_layout calls on the same
   tree.  For every dispatch / preprocessing / absolute routine / leaf / key equality, any `Num`, any fuel, any trees that are tsim (any cache
   contents, e.g. after earlier passes) and whose root is not display:none (a hidden root keeps its box fields: C05_hidden_root_refuted):
   a whole layout pass keeps tsim (or runs out of fuel on both sides), and so does any sequence of passes; from fresh hsim skeletons in
   particular.  (Proofs/TaffyRootBlind.v; audit, wave 7b: C05_taffy_engine_hidden_invisible is about one memoised query.) *)
From TV Require Proofs.TaffyRootBlind.
Theorem C05_taffy_layout_pass_hidden_invisible :
  forall (T : Type) (N : Num T) (teq : T -> T -> bool) (disp : TStyle T -> nat -> TKind) (pre : BStyle T -> BIn T -> BIn T)
         (abs_child : @AbsChild T) (leaf : TStyle T -> FIn T -> LayoutOutput T) f
         (t t' : Engine.tree (TStyle T) (FIn T) (LayoutOutput T) (FLay T)) avail,
    tsim (TStyle T) (FIn T) (LayoutOutput T) (FLay T) t_is_none t t' ->
    t_is_none (style_of (TStyle T) (FIn T) (LayoutOutput T) (FLay T) t) = false ->
    match taffy_compute_root teq disp pre abs_child leaf f t avail, taffy_compute_root teq disp pre abs_child leaf f t' avail with
    | Some u, Some u' => tsim (TStyle T) (FIn T) (LayoutOutput T) (FLay T) t_is_none u u'
    | None, None => True
    | _, _ => False
    end.
Proof. intros T N teq disp pre abs_child leaf f t t' avail. exact (TaffyRootBlind.compute_root_tsim teq disp pre abs_child leaf f t t' avail). Qed.

Theorem C05_taffy_layout_passes_hidden_invisible :
  forall (T : Type) (N : Num T) (teq : T -> T -> bool) (disp : TStyle T -> nat -> TKind) (pre : BStyle T -> BIn T -> BIn T)
         (abs_child : @AbsChild T) (leaf : TStyle T -> FIn T -> LayoutOutput T) f (k k' : Engine.sk (TStyle T)) avails,
    hsim (TStyle T) t_is_none k k' -> t_is_none (Engine.sstyle (TStyle T) k) = false ->
    match taffy_layout_passes teq disp pre abs_child leaf f k avails, taffy_layout_passes teq disp pre abs_child leaf f k' avails with
    | Some (_, u), Some (_, u') => tsim (TStyle T) (FIn T) (LayoutOutput T) (FLay T) t_is_none u u'
    | None, None => True
    | _, _ => False
    end.
Proof.
  intros T N teq disp pre abs_child leaf f k k' avails Hs Hn. unfold taffy_layout_passes.
  apply (TaffyRootBlind.passes_tsim teq disp pre abs_child leaf f avails).
  - apply tsim_fresh. exact Hs.
  - destruct k. exact Hn.
Qed.

(* computed: two passes (available width 300, then 150) of the REAL instance with representation keys on ex_tree / ex_tree' (above): both
   succeed; after the second pass the boxes of the visible nodes coincide and the hidden subtree is zero *)
Example C05_taffy_layout_passes_example :
  match real_layout_passes xq_seqb 8 ex_tree [ex_avail 300%Z; ex_avail 150%Z], real_layout_passes xq_seqb 8 ex_tree' [ex_avail 300%Z; ex_avail 150%Z] with
  | Some (_, u), Some (_, u') =>
      boxes_are (bxz u)  [(0,0,200,30); (0,0,200,20); (0,0,30,20); (30,0,40,10); (0,20,200,10); (0,0,20,10); (0,0,0,0); (50,0,50,10);
                          (0,30,10,10)]%Z
      && boxes_are (bxz u') [(0,0,200,30); (0,0,200,20); (0,0,30,20); (30,0,40,10); (0,20,200,10); (0,0,20,10); (0,0,0,0); (0,0,0,0); (0,0,0,0);
                             (50,0,50,10); (0,30,10,10)]%Z
  | _, _ => false
  end = true.
Proof. vm_compute. reflexivity. Qed.

Print Assumptions C05_grid_algorithm_hidden_blind_example.
Print Assumptions C05_taffy_engine_example.
Print Assumptions C05_taffy_layout_pass_hidden_invisible.
Print Assumptions C05_taffy_layout_passes_hidden_invisible.
Print Assumptions C05_taffy_layout_passes_example.

(* ---- the TRANSLATED compute_hidden_layout (Gen/EngineGlueGen.v, regenerated from src/compute/mod.rs on every run: cache_clear,
   set_unrounded_layout(Layout::with_order(0)), then compute_child_layout(child, LayoutInput::HIDDEN) for index in
   0..child_count -- ALL children) at the node with path p IS `hide` of that node, when the recursive calls are `hide` of the
   children (the hidden-mode guard of compute_child_layout: `memo`'s first case) ---- *)
From TV Require Gen.EngineGlueGen Model.EngineGlue Proofs.EngineGlueProofs.

Theorem C05_translated_hidden_layout_is_model :
  forall (S In Out Lay : Type) (hidden_out : Out) (zero_lay : Lay) (t u : Engine.tree S In Out Lay) (p : list nat),
    Engine.subtree S In Out Lay t p = Some u ->
    EngineGlue.eg_hidden_layout S In Out Lay hidden_out zero_lay t p =
    (Engine.update S In Out Lay t p (Engine.hide S In Out Lay zero_lay), hidden_out).
Proof. intros. eapply EngineGlueProofs.translated_hidden_layout_is_model; eauto. Qed.

(* non-vacuity, computed: hiding the node at path [1] (cached, laid out, one cached child) of a three-level tree over nat *)
Example C05_translated_hidden_layout_example :
  let N := Engine.Node nat nat nat nat in
  let full := Engine.Build_cache nat nat (Some (0, 5)) [(1, 6)] in
  let t := N 1 full 7 [N 2 full 8 []; N 3 full 9 [N 4 full 10 []; N 5 full 11 []]] in
  (exists u, Engine.subtree nat nat nat nat t [1] = Some u) /\
  EngineGlue.eg_hidden_layout nat nat nat nat 0 0 t [1] =
  (N 1 full 7 [N 2 full 8 []; N 3 (Engine.cempty nat nat) 0 [N 4 (Engine.cempty nat nat) 0 []; N 5 (Engine.cempty nat nat) 0 []]], 0) /\
  EngineGlue.eg_hidden_layout nat nat nat nat 0 0 t [1] = (Engine.update nat nat nat nat t [1] (Engine.hide nat nat nat nat 0), 0).
Proof. split; [eexists; reflexivity|]. vm_compute. split; reflexivity. Qed.

Print Assumptions C05_translated_hidden_layout_is_model.
