//! Shared random tree / style generator and measure functions.  Every choice derives from one `Rng`, so a case is
//! identified by (seed, index) and can be regenerated exactly for replay.
#![allow(dead_code)]
use crate::rng::Rng;
use std::cell::Cell;
use taffy::prelude::*;
use taffy::{BoxSizing, Overflow, Point, Rect, TextAlign};

/// Measure data attached to leaves
#[derive(Clone, Debug, PartialEq)]
pub enum Ctx {
    /// fixed intrinsic size
    Fixed(f32, f32),
    /// "text": `n` glyphs of `unit` x `unit`, wrapping at the available width
    Text(u32, f32),
    /// aspect: height = width / 2 for whatever width is known or available
    Echo(f32),
}

thread_local! {
    pub static MEASURE_CALLS: Cell<u64> = Cell::new(0);
    /// the measure function panics once it has been called more often than this (lets counting oracles stop runaway passes)
    pub static MEASURE_LIMIT: Cell<u64> = Cell::new(u64::MAX);
    /// what the measure function answers for a leaf WITHOUT node context (default: zero, like taffy's own tests; some
    /// checks set a non-zero size: the measure function is the user's, it may size such leaves however it likes)
    pub static NOCTX_SIZE: Cell<(f32, f32)> = Cell::new((0.0, 0.0));
}

pub fn measure(known: Size<Option<f32>>, avail: Size<AvailableSpace>, ctx: Option<&mut Ctx>) -> Size<f32> {
    MEASURE_CALLS.with(|c| c.set(c.get() + 1));
    if MEASURE_CALLS.with(|c| c.get()) > MEASURE_LIMIT.with(|c| c.get()) {
        panic!("measure limit exceeded");
    }
    if let (Some(w), Some(h)) = (known.width, known.height) {
        return Size { width: w, height: h };
    }
    let r = match ctx {
        None => {
            let (w, h) = NOCTX_SIZE.with(|c| c.get());
            Size { width: w, height: h }
        }
        Some(Ctx::Fixed(w, h)) => Size { width: *w, height: *h },
        Some(Ctx::Text(n, unit)) => {
            let n = *n as f32;
            let max_w = n * *unit;
            let w = known.width.unwrap_or(match avail.width {
                AvailableSpace::MinContent => *unit,
                AvailableSpace::MaxContent => max_w,
                AvailableSpace::Definite(a) => a.min(max_w).max(*unit),
            });
            let per_line = (w / *unit).floor().max(1.0);
            let lines = (n / per_line).ceil().max(1.0);
            Size { width: w, height: lines * *unit }
        }
        Some(Ctx::Echo(base)) => {
            let w = known.width.unwrap_or(match avail.width {
                AvailableSpace::Definite(a) => a.min(*base),
                _ => *base,
            });
            Size { width: w, height: w / 2.0 }
        }
    };
    Size { width: known.width.unwrap_or(r.width), height: known.height.unwrap_or(r.height) }
}

#[derive(Clone, Debug)]
pub struct NodeSpec {
    pub style: Style,
    pub ctx: Option<Ctx>,
    pub children: Vec<NodeSpec>,
}

impl NodeSpec {
    pub fn count(&self) -> usize {
        1 + self.children.iter().map(|c| c.count()).sum::<usize>()
    }
    pub fn leaf(style: Style) -> Self {
        NodeSpec { style, ctx: None, children: vec![] }
    }
}

#[derive(Clone, Debug)]
pub struct GenCfg {
    pub max_nodes: usize,
    pub max_depth: usize,
    pub max_children: usize,
    pub displays: Vec<Display>,
    pub p_hidden: u64,       // per-mille probability of display:none on a non-root node
    pub p_absolute: u64,     // per-mille probability of position:absolute on a non-root node
    pub percent: bool,
    pub negative_margins: bool,
    pub auto_margins: bool,
    pub minmax: bool,
    pub aspect: bool,
    pub insets: bool,
    pub padding_border: bool,
    pub overflow: bool,
    pub content_box: bool,
    pub grid_lines: bool,
    pub grid_templates: bool,
    pub measure: bool,
    pub fractional: bool,    // lengths with arbitrary tenths instead of dyadic quarters
    pub alignment: bool,
    pub wrap: bool,
    pub gaps: bool,
}

impl Default for GenCfg {
    fn default() -> Self {
        GenCfg {
            max_nodes: 12,
            max_depth: 4,
            max_children: 4,
            displays: vec![Display::Flex, Display::Grid, Display::Block],
            p_hidden: 60,
            p_absolute: 80,
            percent: true,
            negative_margins: true,
            auto_margins: true,
            minmax: true,
            aspect: true,
            insets: true,
            padding_border: true,
            overflow: true,
            content_box: true,
            grid_lines: true,
            grid_templates: true,
            measure: true,
            fractional: false,
            alignment: true,
            wrap: true,
            gaps: true,
        }
    }
}

pub fn len_value(rng: &mut Rng, cfg: &GenCfg, max: u64) -> f32 {
    if cfg.fractional {
        (rng.below(max * 10) as f32) / 10.0
    } else {
        (rng.below(max * 4) as f32) / 4.0
    }
}

fn pct_value(rng: &mut Rng) -> f32 {
    *rng.pick(&[0.0, 0.125, 0.25, 0.5, 0.75, 1.0, 1.5])
}

pub fn dim(rng: &mut Rng, cfg: &GenCfg, p_auto: u64) -> Dimension {
    if rng.chance(p_auto, 100) {
        return Dimension::auto();
    }
    if cfg.percent && rng.chance(1, 4) {
        Dimension::percent(pct_value(rng))
    } else {
        Dimension::length(len_value(rng, cfg, 200))
    }
}

pub fn lp(rng: &mut Rng, cfg: &GenCfg, max: u64) -> LengthPercentage {
    if cfg.percent && rng.chance(1, 6) {
        LengthPercentage::percent(*rng.pick(&[0.0, 0.0625, 0.125, 0.25]))
    } else {
        LengthPercentage::length(len_value(rng, cfg, max))
    }
}

pub fn lpa(rng: &mut Rng, cfg: &GenCfg, max: u64, allow_auto: bool, allow_neg: bool) -> LengthPercentageAuto {
    if allow_auto && rng.chance(1, 5) {
        return LengthPercentageAuto::auto();
    }
    let sign = if allow_neg && rng.chance(1, 5) { -1.0 } else { 1.0 };
    if cfg.percent && rng.chance(1, 6) {
        LengthPercentageAuto::percent(sign * *rng.pick(&[0.0, 0.0625, 0.125, 0.25]))
    } else {
        LengthPercentageAuto::length(sign * len_value(rng, cfg, max))
    }
}

pub fn grid_placement(rng: &mut Rng) -> GridPlacement {
    match rng.below(10) {
        0..=4 => GridPlacement::Auto,
        5..=7 => GridPlacement::from_line_index(rng.below(9) as i16 - 4),
        _ => GridPlacement::Span(1 + rng.below(3) as u16),
    }
}

fn track_min(rng: &mut Rng, cfg: &GenCfg) -> MinTrackSizingFunction {
    match rng.below(6) {
        0 => MinTrackSizingFunction::auto(),
        1 => MinTrackSizingFunction::min_content(),
        2 => MinTrackSizingFunction::max_content(),
        3 if cfg.percent => MinTrackSizingFunction::percent(pct_value(rng).min(1.0)),
        _ => MinTrackSizingFunction::length(len_value(rng, cfg, 80)),
    }
}

fn track_max(rng: &mut Rng, cfg: &GenCfg) -> MaxTrackSizingFunction {
    match rng.below(9) {
        0 => MaxTrackSizingFunction::auto(),
        1 => MaxTrackSizingFunction::min_content(),
        2 => MaxTrackSizingFunction::max_content(),
        3 if cfg.percent => MaxTrackSizingFunction::percent(pct_value(rng).min(1.0)),
        4 => MaxTrackSizingFunction::fr(*rng.pick(&[0.0, 0.5, 1.0, 2.0, 3.0])),
        5 => MaxTrackSizingFunction::fit_content(LengthPercentage::length(len_value(rng, cfg, 80))),
        _ => MaxTrackSizingFunction::length(len_value(rng, cfg, 80)),
    }
}

pub fn track(rng: &mut Rng, cfg: &GenCfg) -> NonRepeatedTrackSizingFunction {
    match rng.below(8) {
        0 => auto(),
        1 => fr(*rng.pick(&[0.5f32, 1.0, 2.0])),
        2 => length(len_value(rng, cfg, 80)),
        3 => min_content(),
        4 => max_content(),
        5 if cfg.percent => percent(pct_value(rng).min(1.0)),
        _ => minmax(track_min(rng, cfg), track_max(rng, cfg)),
    }
}

pub fn template(rng: &mut Rng, cfg: &GenCfg) -> Vec<TrackSizingFunction> {
    let n = rng.below(4);
    let mut v = vec![];
    let mut has_auto_repeat = false;
    for _ in 0..n {
        if rng.chance(1, 5) {
            let cnt = 1 + rng.below(2);
            let tracks: Vec<_> = (0..cnt).map(|_| track(rng, cfg)).collect();
            if !has_auto_repeat && rng.chance(1, 3) {
                // auto-repeat requires fixed-size tracks
                has_auto_repeat = true;
                let fixed: Vec<NonRepeatedTrackSizingFunction> = (0..cnt).map(|_| length(1.0 + len_value(rng, cfg, 60))).collect();
                let kind = if rng.chance(1, 2) { GridTrackRepetition::AutoFill } else { GridTrackRepetition::AutoFit };
                v.push(TrackSizingFunction::Repeat(kind, fixed));
            } else {
                v.push(TrackSizingFunction::Repeat(GridTrackRepetition::Count(1 + rng.below(3) as u16), tracks));
            }
        } else {
            v.push(TrackSizingFunction::Single(track(rng, cfg)));
        }
    }
    v
}

pub fn style(rng: &mut Rng, cfg: &GenCfg, is_root: bool, is_leaf: bool) -> Style {
    let mut s = Style::default();
    s.display = *rng.pick(&cfg.displays);
    if !is_root && rng.chance(cfg.p_hidden, 1000) {
        s.display = Display::None;
    }
    if !is_root && rng.chance(cfg.p_absolute, 1000) {
        s.position = Position::Absolute;
    }
    if cfg.content_box && rng.chance(1, 4) {
        s.box_sizing = BoxSizing::ContentBox;
    }
    s.size = Size { width: dim(rng, cfg, 55), height: dim(rng, cfg, 60) };
    if cfg.minmax {
        if rng.chance(1, 5) {
            s.min_size = Size { width: dim(rng, cfg, 50), height: dim(rng, cfg, 50) };
        }
        if rng.chance(1, 5) {
            s.max_size = Size { width: dim(rng, cfg, 50), height: dim(rng, cfg, 50) };
        }
    }
    if cfg.aspect && rng.chance(1, 10) {
        s.aspect_ratio = Some(*rng.pick(&[0.5, 1.0, 2.0, 4.0]));
    }
    if rng.chance(1, 3) {
        let neg = cfg.negative_margins;
        let au = cfg.auto_margins;
        s.margin = Rect { left: lpa(rng, cfg, 20, au, neg), right: lpa(rng, cfg, 20, au, neg), top: lpa(rng, cfg, 20, au, neg), bottom: lpa(rng, cfg, 20, au, neg) };
    }
    if cfg.padding_border && rng.chance(1, 3) {
        s.padding = Rect { left: lp(rng, cfg, 10), right: lp(rng, cfg, 10), top: lp(rng, cfg, 10), bottom: lp(rng, cfg, 10) };
    }
    if cfg.padding_border && rng.chance(1, 4) {
        s.border = Rect { left: lp(rng, cfg, 6), right: lp(rng, cfg, 6), top: lp(rng, cfg, 6), bottom: lp(rng, cfg, 6) };
    }
    if cfg.insets && (s.position == Position::Absolute || rng.chance(1, 12)) {
        let mut f = |rng: &mut Rng| if rng.chance(1, 2) { LengthPercentageAuto::auto() } else { lpa(rng, cfg, 40, false, true) };
        s.inset = Rect { left: f(rng), right: f(rng), top: f(rng), bottom: f(rng) };
    }
    if cfg.overflow && rng.chance(1, 8) {
        let o = [Overflow::Visible, Overflow::Clip, Overflow::Hidden, Overflow::Scroll];
        s.overflow = Point { x: *rng.pick(&o), y: *rng.pick(&o) };
        s.scrollbar_width = len_value(rng, cfg, 16);
    }
    // flex item / container
    s.flex_direction = *rng.pick(&[FlexDirection::Row, FlexDirection::Column, FlexDirection::RowReverse, FlexDirection::ColumnReverse]);
    if cfg.wrap {
        s.flex_wrap = *rng.pick(&[FlexWrap::NoWrap, FlexWrap::NoWrap, FlexWrap::Wrap, FlexWrap::WrapReverse]);
    }
    s.flex_grow = *rng.pick(&[0.0, 0.0, 1.0, 2.0, 0.5]);
    s.flex_shrink = *rng.pick(&[1.0, 1.0, 0.0, 2.0, 0.5]);
    if rng.chance(1, 4) {
        s.flex_basis = dim(rng, cfg, 20);
    }
    if cfg.alignment {
        let ai = [AlignItems::Start, AlignItems::End, AlignItems::FlexStart, AlignItems::FlexEnd, AlignItems::Center, AlignItems::Baseline, AlignItems::Stretch];
        let ac = [
            AlignContent::Start,
            AlignContent::End,
            AlignContent::FlexStart,
            AlignContent::FlexEnd,
            AlignContent::Center,
            AlignContent::Stretch,
            AlignContent::SpaceBetween,
            AlignContent::SpaceEvenly,
            AlignContent::SpaceAround,
        ];
        if rng.chance(1, 3) {
            s.align_items = Some(*rng.pick(&ai));
        }
        if rng.chance(1, 4) {
            s.align_self = Some(*rng.pick(&ai));
        }
        if rng.chance(1, 5) {
            s.justify_items = Some(*rng.pick(&ai));
        }
        if rng.chance(1, 5) {
            s.justify_self = Some(*rng.pick(&ai));
        }
        if rng.chance(1, 4) {
            s.align_content = Some(*rng.pick(&ac));
        }
        if rng.chance(1, 3) {
            s.justify_content = Some(*rng.pick(&ac));
        }
        s.text_align = *rng.pick(&[TextAlign::Auto, TextAlign::Auto, TextAlign::LegacyLeft, TextAlign::LegacyRight, TextAlign::LegacyCenter]);
    }
    if cfg.gaps && rng.chance(1, 3) {
        s.gap = Size { width: lp(rng, cfg, 12), height: lp(rng, cfg, 12) };
    }
    if cfg.grid_templates && !is_leaf {
        s.grid_template_rows = template(rng, cfg);
        s.grid_template_columns = template(rng, cfg);
        if rng.chance(1, 4) {
            s.grid_auto_rows = (0..1 + rng.below(2)).map(|_| track(rng, cfg)).collect();
        }
        if rng.chance(1, 4) {
            s.grid_auto_columns = (0..1 + rng.below(2)).map(|_| track(rng, cfg)).collect();
        }
        s.grid_auto_flow = *rng.pick(&[GridAutoFlow::Row, GridAutoFlow::Column, GridAutoFlow::RowDense, GridAutoFlow::ColumnDense]);
    }
    if cfg.grid_lines && rng.chance(1, 3) {
        s.grid_row = Line { start: grid_placement(rng), end: grid_placement(rng) };
        s.grid_column = Line { start: grid_placement(rng), end: grid_placement(rng) };
    }
    s
}

pub fn ctx(rng: &mut Rng, cfg: &GenCfg) -> Option<Ctx> {
    if !cfg.measure {
        return None;
    }
    match rng.below(5) {
        0 => None,
        1 | 2 => Some(Ctx::Fixed(len_value(rng, cfg, 120), len_value(rng, cfg, 60))),
        3 => Some(Ctx::Text(1 + rng.below(40) as u32, *rng.pick(&[4.0, 8.0, 10.0]))),
        _ => Some(Ctx::Echo(len_value(rng, cfg, 100))),
    }
}

fn gen_node(rng: &mut Rng, cfg: &GenCfg, depth: usize, budget: &mut usize, is_root: bool) -> NodeSpec {
    *budget = budget.saturating_sub(1);
    let want_children = depth < cfg.max_depth && *budget > 0 && (is_root || rng.chance(3, 5));
    let mut children = vec![];
    if want_children {
        let n = 1 + rng.below(cfg.max_children as u64) as usize;
        for _ in 0..n {
            if *budget == 0 {
                break;
            }
            children.push(gen_node(rng, cfg, depth + 1, budget, false));
        }
    }
    let is_leaf = children.is_empty();
    let style = style(rng, cfg, is_root, is_leaf);
    let ctx = if is_leaf { ctx(rng, cfg) } else { None };
    NodeSpec { style, ctx, children }
}

pub fn tree(rng: &mut Rng, cfg: &GenCfg) -> NodeSpec {
    let mut budget = 1 + rng.below(cfg.max_nodes as u64) as usize;
    gen_node(rng, cfg, 0, &mut budget, true)
}

pub fn avail(rng: &mut Rng, cfg: &GenCfg) -> Size<AvailableSpace> {
    let mut one = |rng: &mut Rng| match rng.below(6) {
        0 => AvailableSpace::MinContent,
        1 => AvailableSpace::MaxContent,
        _ => AvailableSpace::Definite(len_value(rng, cfg, 400)),
    };
    Size { width: one(rng), height: one(rng) }
}

/// Build `spec` into `t`; returns the ids in pre-order (root first).
pub fn build(t: &mut TaffyTree<Ctx>, spec: &NodeSpec, ids: &mut Vec<NodeId>) -> NodeId {
    let idx = ids.len();
    ids.push(NodeId::new(0));
    let kids: Vec<NodeId> = spec.children.iter().map(|c| build(t, c, ids)).collect();
    let id = if kids.is_empty() {
        match &spec.ctx {
            Some(c) => t.new_leaf_with_context(spec.style.clone(), c.clone()).unwrap(),
            None => t.new_leaf(spec.style.clone()).unwrap(),
        }
    } else {
        t.new_with_children(spec.style.clone(), &kids).unwrap()
    };
    ids[idx] = id;
    id
}

pub fn compute(t: &mut TaffyTree<Ctx>, root: NodeId, avail: Size<AvailableSpace>) {
    t.compute_layout_with_measure(root, avail, |known, av, _id, ctx, _style| measure(known, av, ctx)).unwrap();
}

/// All numeric fields of a Layout as bit patterns (order is irrelevant to comparisons but fixed).
pub fn layout_bits(l: &taffy::Layout) -> Vec<u32> {
    let mut v = vec![l.order, l.location.x.to_bits(), l.location.y.to_bits(), l.size.width.to_bits(), l.size.height.to_bits()];
    v.extend([l.content_size.width.to_bits(), l.content_size.height.to_bits()]);
    v.extend([l.scrollbar_size.width.to_bits(), l.scrollbar_size.height.to_bits()]);
    for r in [&l.border, &l.padding, &l.margin] {
        v.extend([r.left.to_bits(), r.right.to_bits(), r.top.to_bits(), r.bottom.to_bits()]);
    }
    v
}

pub fn layout_floats(l: &taffy::Layout) -> Vec<f32> {
    layout_bits(l)[1..].iter().map(|b| f32::from_bits(*b)).collect()
}

pub fn avail_str(a: Size<AvailableSpace>) -> String {
    format!("{:?}x{:?}", a.width, a.height)
}
