//! Whole-tree correspondence of the COMPLETE engine model (coq/Model/TaffyEngine.v `taffy_algo` + Model/TaffyRoot.v, runner
//! coq/Model/TaffyEngineRun.v): random trees mixing block, flex and grid containers and leaves, laid out through the public API
//! (`TaffyTree::compute_layout_with_measure`, rounding disabled) in exact-key mode (hook `set_exact_key`), every node's unrounded
//! layout printed as bit patterns after every pass.
//!
//! `vh taffytree cases <seed> <n> [start] [family] [maxnodes]`
//!      per case: `C` = number of passes (1 or 2), the available space of each (kind bits per axis) + the tree in pre-order; per node
//!                      72 ints as `vh gridalg` encodes a style + the four track lists (template columns / rows, auto columns / rows)
//!                      + 8 ints (flex_direction, flex_wrap, flex_basis kind bits, grow, shrink, item_is_table, text_align)
//!                      + 3 ints of measure data + the child count
//!                `R` = after EVERY pass, 21 ints per node in pre-order (order, location, size, content_size, scrollbar_size, border,
//!                      padding, margin), NaN canonical
//!                `L <d>` = number of Layout fields that differ when the same tree is laid out with the REAL cache key (the recorded
//!                      lossy-cache-key finding; 0 = identical)
//!                `SKIP <idx> panic` instead when the implementation panics on the tree (an absolute grid child's line outside the
//!                      implicit grid: OriginZeroLine::into_track_vec_index asserts)
//!      last line `SUMMARY ...`.
//!      family 0: anything; 1 (C05's subset): every tree has a display:none node below the root; 2 (C06's): a position:absolute one
//! `vh taffytree cases <seed> <n> <start> <family> <maxnodes> real`   the same trees with the REAL cache (no exact-key hook): `R` = per
//!      pass and node the 21 layout ints + the number of compute_cached_layout calls, of cache hits (event trace) and of
//!      measure-function calls (counted per NodeId by the measure closure); `L` as above (model: coq/Model/TaffyEngineRealRun.v)
//! `vh taffytree chains <start> <n> [step] [query limit]`   deterministic single-child chains over one measured leaf, real cache, same
//!      `C` / `R` format + `Q <idx> <total queries> <description>` (see `tchain`); `SKIP <idx> <limit>` over the query limit
//! `vh taffytree case <seed> <idx> [family] [maxnodes]`   one case again, with the tree printed on stderr
//!
//! Generator: `treegen::tree` (depth <= 4, <= `maxnodes` (default 12) nodes, <= 4 children), containers AND leaves display block /
//! flex / grid in any nesting, display:none and position:absolute nodes (root included, rarely); every field of `Style`:
//! size / min / max (auto, length, percent), aspect ratio, margins (length, percent, negative, auto), padding / border, insets,
//! overflow + scrollbar width, box-sizing, all alignment properties incl. baseline, gap, flex direction / wrap / basis / grow /
//! shrink, grid templates (repeat(n), auto-fill, auto-fit, minmax, fit-content, fr), grid-auto tracks, all auto-flow modes, grid
//! lines -4..4 and spans 1-3, item_is_table, item_is_replaced, text-align; measure data None / Fixed / Text / Echo.
//! Excluded: calc() values (this version of `Style` has no named lines / areas).  Nothing else.
use crate::c10::describe_tree;
use crate::f32ops::canon;
use crate::rng::Rng;
use crate::treegen::{self, Ctx, GenCfg, NodeSpec};
use taffy::prelude::*;

pub fn tcase(seed: u64, idx: u64, family: u64, maxnodes: u64) -> (NodeSpec, Vec<Size<AvailableSpace>>) {
    let mut rng = Rng::new(seed.wrapping_mul(0x2545_F491).wrapping_add(idx).wrapping_add(0x7AFF_0000 + family * 0x1_0000));
    let mut cfg = GenCfg::default();
    cfg.max_nodes = maxnodes as usize;
    cfg.max_depth = 4;
    cfg.max_children = 4;
    cfg.fractional = idx % 4 == 3;
    cfg.p_absolute = match family {
        1 => 40,
        2 => 220,
        _ => if idx % 3 == 0 { 200 } else { 80 },
    };
    cfg.p_hidden = match family {
        1 => 200,
        2 => 30,
        _ => if idx % 5 == 0 { 150 } else { 60 },
    };
    let mut t = treegen::tree(&mut rng, &cfg);
    // treegen draws the node budget uniformly: for two thirds of the cases take the larger of two trees (more nesting, more mixing)
    if idx % 3 != 0 {
        let t2 = treegen::tree(&mut rng, &cfg);
        if t2.count() > t.count() {
            t = t2;
        }
    }
    fn fix(rng: &mut Rng, cfg: &GenCfg, n: &mut NodeSpec, depth: usize, parent: Option<Display>) {
        if rng.chance(1, 16) {
            n.style.item_is_table = true;
        }
        if rng.chance(1, 10) {
            n.style.item_is_replaced = true;
        }
        // block: vertical margins are common below the root; empty boxes (collapse-through)
        if depth > 0 && rng.chance(1, 4) {
            n.style.margin.top = treegen::lpa(rng, cfg, 20, true, true);
            n.style.margin.bottom = treegen::lpa(rng, cfg, 20, true, true);
        }
        if depth > 0 && rng.chance(1, 12) {
            n.style.size.height = if rng.chance(1, 2) { Dimension::length(0.0) } else { Dimension::auto() };
            n.style.padding = Rect::zero();
            n.style.border = Rect::zero();
            n.style.min_size.height = Dimension::auto();
            if n.children.is_empty() && rng.chance(1, 2) {
                n.ctx = None;
            }
        }
        // leaves with text (min-content != max-content) and auto sizes: what intrinsic sizing of flex / grid parents measures
        if n.children.is_empty() && rng.chance(1, 4) {
            n.ctx = Some(Ctx::Text(1 + rng.below(30) as u32, *rng.pick(&[4.0, 8.0, 10.0])));
            if rng.chance(1, 2) {
                n.style.size.width = Dimension::auto();
            }
            if rng.chance(1, 2) {
                n.style.size.height = Dimension::auto();
            }
        }
        // an absolute grid child's line outside the implicit grid panics: keep half of them auto
        if parent == Some(Display::Grid) && n.style.position == Position::Absolute && rng.chance(1, 2) {
            n.style.grid_row = Line { start: GridPlacement::Auto, end: GridPlacement::Auto };
            n.style.grid_column = Line { start: GridPlacement::Auto, end: GridPlacement::Auto };
        }
        if !n.children.is_empty() {
            // baseline alignment makes flex rows / grids lay children out while sizing: raise its frequency
            if rng.chance(1, 6) {
                n.style.align_items = Some(AlignItems::Baseline);
            }
            // indefinite container sizes exercise the intrinsic passes
            if rng.chance(1, 3) {
                n.style.size.width = Dimension::auto();
            }
            if rng.chance(1, 3) {
                n.style.size.height = Dimension::auto();
            }
        }
        let d = n.style.display;
        for c in n.children.iter_mut() {
            fix(rng, cfg, c, depth + 1, Some(d));
        }
    }
    fix(&mut rng, &cfg, &mut t, 0, None);
    // the families of C05 / C06: make sure the tree has a node of the kind below the root
    fn any(n: &NodeSpec, depth: usize, f: &dyn Fn(&NodeSpec) -> bool) -> bool {
        (depth > 0 && f(n)) || n.children.iter().any(|c| any(c, depth + 1, f))
    }
    if family == 1 || family == 2 {
        if t.children.is_empty() {
            for _ in 0..1 + rng.below(3) {
                let st = treegen::style(&mut rng, &cfg, false, true);
                let cx = treegen::ctx(&mut rng, &cfg);
                t.children.push(NodeSpec { style: st, ctx: cx, children: vec![] });
            }
        }
        let has = if family == 1 {
            any(&t, 0, &|n| n.style.display == Display::None)
        } else {
            any(&t, 0, &|n| n.style.position == Position::Absolute && n.style.display != Display::None)
        };
        if !has {
            let k = rng.below(t.children.len() as u64) as usize;
            if family == 1 {
                t.children[k].style.display = Display::None;
            } else {
                if t.children[k].style.display == Display::None {
                    t.children[k].style.display = Display::Block;
                }
                t.children[k].style.position = Position::Absolute;
                t.children[k].style.grid_row = Line { start: GridPlacement::Auto, end: GridPlacement::Auto };
                t.children[k].style.grid_column = Line { start: GridPlacement::Auto, end: GridPlacement::Auto };
            }
        }
    }
    // the root: occasionally display:none or position:absolute (treegen never does that)
    if rng.chance(1, 40) {
        t.style.display = Display::None;
    }
    if rng.chance(1, 40) {
        t.style.position = Position::Absolute;
    }
    // one pass, or two passes over the same tree (the second under the same or another available space: cache hits across passes)
    let a = treegen::avail(&mut rng, &cfg);
    let mut passes = vec![a];
    if idx % 2 == 1 {
        let b = treegen::avail(&mut rng, &cfg);
        passes.push(if rng.chance(1, 4) { a } else if rng.chance(1, 3) { Size { width: a.width, height: b.height } } else { b });
    }
    (t, passes)
}

fn enc_avail(a: AvailableSpace, out: &mut Vec<i64>) {
    match a {
        AvailableSpace::Definite(v) => out.extend([0, canon(v) as i64]),
        AvailableSpace::MinContent => out.extend([1, 0]),
        AvailableSpace::MaxContent => out.extend([2, 0]),
    }
}

pub const EXTRA_INTS: usize = 8;

fn enc_node(n: &NodeSpec, out: &mut Vec<i64>) {
    let s = &n.style;
    crate::gridalg::enc_style(s, true, out);
    let n0 = out.len();
    out.push(match s.flex_direction {
        FlexDirection::Row => 0,
        FlexDirection::Column => 1,
        FlexDirection::RowReverse => 2,
        FlexDirection::ColumnReverse => 3,
    });
    out.push(match s.flex_wrap {
        FlexWrap::NoWrap => 0,
        FlexWrap::Wrap => 1,
        FlexWrap::WrapReverse => 2,
    });
    let fb = s.flex_basis.into_raw();
    let t = fb.tag();
    if t == taffy::CompactLength::AUTO_TAG {
        out.extend([0, 0]);
    } else if t == taffy::CompactLength::LENGTH_TAG {
        out.extend([1, canon(fb.value()) as i64]);
    } else if t == taffy::CompactLength::PERCENT_TAG {
        out.extend([2, canon(fb.value()) as i64]);
    } else {
        panic!("taffytree: flex_basis outside the modelled class");
    }
    out.push(canon(s.flex_grow) as i64);
    out.push(canon(s.flex_shrink) as i64);
    out.push(s.item_is_table as i64);
    out.push(match s.text_align {
        taffy::TextAlign::Auto => 0,
        taffy::TextAlign::LegacyLeft => 1,
        taffy::TextAlign::LegacyRight => 2,
        taffy::TextAlign::LegacyCenter => 3,
    });
    assert_eq!(out.len() - n0, EXTRA_INTS);
    match &n.ctx {
        None => out.extend([0, 0, 0]),
        Some(Ctx::Fixed(w, h)) => out.extend([1, canon(*w) as i64, canon(*h) as i64]),
        Some(Ctx::Text(k, unit)) => out.extend([2, *k as i64, canon(*unit) as i64]),
        Some(Ctx::Echo(b)) => out.extend([3, canon(*b) as i64, 0]),
    }
    out.push(n.children.len() as i64);
    for c in &n.children {
        enc_node(c, out);
    }
}

/// all layouts in pre-order after every pass, 21 ints per node; Err = the implementation panicked
fn lay_out(spec: &NodeSpec, passes: &[Size<AvailableSpace>], exact: bool) -> Result<Vec<i64>, String> {
    taffy::verif_hooks::set_exact_key(exact);
    let res = std::panic::catch_unwind(std::panic::AssertUnwindSafe(|| {
        let mut t: TaffyTree<Ctx> = TaffyTree::new();
        t.disable_rounding();
        let mut ids = vec![];
        let root = treegen::build(&mut t, spec, &mut ids);
        let mut r = vec![];
        for avail in passes {
            treegen::compute(&mut t, root, *avail);
            for id in &ids {
                let l = t.unrounded_layout(*id);
                let b = treegen::layout_bits(l);
                r.push(b[0] as i64);
                r.extend(b[1..].iter().map(|x| canon(f32::from_bits(*x)) as i64));
            }
        }
        r
    }));
    taffy::verif_hooks::set_exact_key(false);
    res.map_err(|_| "panic".to_string())
}

pub fn lines(spec: &NodeSpec, passes: &[Size<AvailableSpace>]) -> Result<(String, String, usize), String> {
    let mut c: Vec<i64> = vec![passes.len() as i64];
    for avail in passes {
        enc_avail(avail.width, &mut c);
        enc_avail(avail.height, &mut c);
    }
    enc_node(spec, &mut c);
    let exact = lay_out(spec, passes, true)?;
    let real = lay_out(spec, passes, false)?;
    let differ = exact.iter().zip(real.iter()).filter(|(a, b)| a != b).count();
    let j = |v: &Vec<i64>| v.iter().map(|x| x.to_string()).collect::<Vec<_>>().join(" ");
    Ok((format!("C {}", j(&c)), format!("R {}", j(&exact)), differ))
}

/// REAL cache (no exact-key hook): per pass and node the 21 layout ints + (compute_cached_layout calls, cache hits, measure-function
/// calls); second result = total queries.  Err = the implementation panicked (or ran over `query_limit`)
pub fn lay_out_real(spec: &NodeSpec, passes: &[Size<AvailableSpace>], query_limit: u64) -> Result<(Vec<i64>, u64), String> {
    use std::cell::RefCell;
    use std::collections::HashMap;
    taffy::verif_hooks::set_exact_key(false);
    let mut t: TaffyTree<Ctx> = TaffyTree::new();
    t.disable_rounding();
    let mut ids = vec![];
    let root = treegen::build(&mut t, spec, &mut ids);
    let mut r = vec![];
    let mut total = 0u64;
    for avail in passes {
        let meas: RefCell<HashMap<NodeId, i64>> = RefCell::new(HashMap::new());
        taffy::verif_hooks::reset_queries();
        taffy::verif_hooks::set_query_limit(query_limit);
        taffy::verif_hooks::start_trace();
        let res = std::panic::catch_unwind(std::panic::AssertUnwindSafe(|| {
            t.compute_layout_with_measure(root, *avail, |known, av, id, ctx, _style| {
                *meas.borrow_mut().entry(id).or_insert(0) += 1;
                treegen::measure(known, av, ctx)
            })
            .unwrap();
        }));
        let trace = taffy::verif_hooks::take_trace();
        taffy::verif_hooks::set_query_limit(u64::MAX);
        if res.is_err() {
            return Err("panic".to_string());
        }
        let mut q: HashMap<NodeId, (i64, i64)> = HashMap::new();
        for ev in &trace {
            if let taffy::verif_hooks::Event::Query { node, hit, .. } = ev {
                let e = q.entry(*node).or_insert((0, 0));
                e.0 += 1;
                total += 1;
                if *hit {
                    e.1 += 1;
                }
            }
        }
        for id in &ids {
            let l = t.unrounded_layout(*id);
            let b = treegen::layout_bits(l);
            r.push(b[0] as i64);
            r.extend(b[1..].iter().map(|x| canon(f32::from_bits(*x)) as i64));
            let (nq, nh) = q.get(id).copied().unwrap_or((0, 0));
            r.extend([nq, nh, meas.borrow().get(id).copied().unwrap_or(0)]);
        }
    }
    Ok((r, total))
}

pub fn enc_case(spec: &NodeSpec, passes: &[Size<AvailableSpace>]) -> Vec<i64> {
    let mut c: Vec<i64> = vec![passes.len() as i64];
    for avail in passes {
        enc_avail(avail.width, &mut c);
        enc_avail(avail.height, &mut c);
    }
    enc_node(spec, &mut c);
    c
}

/// `C` / `R` lines of the real-cache mode; third = number of layout fields differing from the exact-key run
pub fn lines_real(spec: &NodeSpec, passes: &[Size<AvailableSpace>]) -> Result<(String, String, usize), String> {
    let c = enc_case(spec, passes);
    let exact = lay_out(spec, passes, true)?;
    let (real, _) = lay_out_real(spec, passes, u64::MAX)?;
    let differ = exact.chunks(21).zip(real.chunks(24)).map(|(a, b)| a.iter().zip(b.iter()).filter(|(x, y)| x != y).count()).sum();
    let j = |v: &Vec<i64>| v.iter().map(|x| x.to_string()).collect::<Vec<_>>().join(" ");
    Ok((format!("C {}", j(&c)), format!("R {}", j(&real)), differ))
}

/// Deterministic single-child chains over ONE measured leaf (Text(17, 8)), the styles of C16's typical corpus
/// (`c15::typical_styles`: index 0-2 flex, 3-5 grid, 6-8 block; variants: default / width:200 + align-items:center + flex-grow:1 /
/// margin 3 + column wrap + min-width:10 + one fr column).
///   part A, idx < CHAINS_A: all 3^d mixes of container KINDS (default styles 0 / 3 / 6) for depth d = 1..6 (3 + 9 + .. + 729 = 1092),
///           digit j of the mix (base 3, 0 flex / 1 grid / 2 block) = the kind of the container j levels above the leaf;
///           default leaf, max-content available space
///   part B, idx = CHAINS_A + DEPTHS_B * typ + (depth - 1): the chain of C16's typical corpus number `typ` (0..6560: period-3 style mix (a,b,c),
///           3 leaves, 3 available spaces: exactly `vh c16 typical`'s, corpus/C16-typical-baseline.json's index) cut at depth 1..DEPTHS_B
pub const CHAINS_A: u64 = 1092;
pub const CHAINS_TYP: u64 = 6561;
pub const CHAIN_QUERY_LIMIT: u64 = 4000;
pub const DEPTHS_B: u64 = 16;

pub fn tchain(idx: u64) -> (NodeSpec, Vec<Size<AvailableSpace>>, String) {
    let styles = crate::c15::typical_styles();
    let kind = |k: usize| ["flex", "flex-w200", "flex-colwrap", "grid", "grid-w200", "grid-1fr", "block", "block-w200", "block-m3"][k];
    if idx < CHAINS_A {
        let (mut depth, mut rest, mut pow) = (1usize, idx, 3u64);
        while rest >= pow {
            rest -= pow;
            pow *= 3;
            depth += 1;
        }
        let mut node = NodeSpec { style: Style::default(), ctx: Some(Ctx::Text(17, 8.0)), children: vec![] };
        let mut desc = vec![];
        let mut m = rest;
        for _ in 0..depth {
            let k = (m % 3) as usize * 3;
            m /= 3;
            desc.push(kind(k));
            node = NodeSpec { style: styles[k].clone(), ctx: None, children: vec![node] };
        }
        desc.reverse();
        (node, vec![Size::MAX_CONTENT], format!("A depth {} root>{}>leaf", depth, desc.join(">")))
    } else {
        let j = idx - CHAINS_A;
        let (typ, depth) = (j / DEPTHS_B, (j % DEPTHS_B) as usize + 1);
        let n = 9u64;
        let (a, b, c) = (typ % n, (typ / n) % n, (typ / (n * n)) % n);
        let which_leaf = (typ / (n * n * n)) % 3;
        let which_avail = (typ / (n * n * n * 3)) % 3;
        let leaf = match which_leaf {
            0 => Style::default(),
            1 => Style { flex_grow: 1.0, ..Default::default() },
            _ => Style { size: Size { width: length(50.0), height: auto() }, ..Default::default() },
        };
        let avail = match which_avail {
            0 => Size::MAX_CONTENT,
            1 => Size { width: AvailableSpace::Definite(300.0), height: AvailableSpace::Definite(200.0) },
            _ => Size { width: AvailableSpace::MinContent, height: AvailableSpace::MaxContent },
        };
        let mut node = NodeSpec { style: leaf, ctx: Some(Ctx::Text(17, 8.0)), children: vec![] };
        let mut desc = vec![];
        for d in 0..depth {
            let k = [a, b, c][d % 3] as usize;
            desc.push(kind(k));
            node = NodeSpec { style: styles[k].clone(), ctx: None, children: vec![node] };
        }
        desc.reverse();
        (node, vec![avail], format!("B typical {} depth {} leaf {} avail {} root>{}>leaf", typ, depth, which_leaf, which_avail, desc.join(">")))
    }
}

fn features(n: &NodeSpec, depth: usize, parent: Option<Display>, f: &mut [u64; 16]) {
    f[0] += 1;
    let cont = !n.children.is_empty() && n.style.display != Display::None;
    if cont {
        match n.style.display {
            Display::Block => f[1] += 1,
            Display::Flex => f[2] += 1,
            Display::Grid => f[3] += 1,
            _ => {}
        }
        if let Some(p) = parent {
            if p != n.style.display {
                f[8] += 1; // a container nested in a container of another kind
            }
        }
    }
    if n.style.display == Display::None {
        f[4] += 1;
    }
    if n.style.position == Position::Absolute && depth > 0 {
        f[5] += 1;
    }
    if n.ctx.is_some() {
        f[6] += 1;
    }
    f[7] = f[7].max(depth as u64);
    let d = if cont { Some(n.style.display) } else { None };
    for c in &n.children {
        features(c, depth + 1, d, f);
    }
}

pub fn main(args: &[String]) {
    if std::env::var("VH_PANIC").is_err() {
        std::panic::set_hook(Box::new(|_| {}));
    }
    let cmd = args.first().map(|s| s.as_str()).unwrap_or("");
    let num = |i: usize, d: u64| args.get(i).and_then(|s| s.parse::<u64>().ok()).unwrap_or(d);
    match cmd {
        "cases" => {
            let (seed, n, start, family, maxnodes) = (num(1, 1), num(2, 100), num(3, 0), num(4, 0), num(5, 12));
            let real = args.get(6).map(|s| s == "real").unwrap_or(false);
            let (mut lossy, mut skipped, mut twopass) = (0, 0, 0);
            let mut f = [0u64; 16];
            for idx in start..start + n {
                let (spec, passes) = tcase(seed, idx, family, maxnodes);
                match if real { lines_real(&spec, &passes) } else { lines(&spec, &passes) } {
                    Ok((c, r, d)) => {
                        println!("{c}\n{r}\nL {d}");
                        if d > 0 {
                            lossy += 1;
                        }
                        if passes.len() > 1 {
                            twopass += 1;
                        }
                        features(&spec, 0, None, &mut f);
                    }
                    Err(why) => {
                        println!("SKIP {idx} {why}");
                        skipped += 1;
                    }
                }
            }
            println!(
                "SUMMARY cases={} skipped={} real_key_differs={} two_pass={} nodes={} block={} flex={} grid={} hidden={} absolute={} measured={} mixed_nesting={}",
                n, skipped, lossy, twopass, f[0], f[1], f[2], f[3], f[4], f[5], f[6], f[8]
            );
        }
        "chains" => {
            // vh taffytree chains <start> <n> [step] [query limit]: chains start, start+step, ..
            let (start, n, step, limit) = (num(1, 0), num(2, CHAINS_A), num(3, 1).max(1), num(4, CHAIN_QUERY_LIMIT));
            let j = |v: &Vec<i64>| v.iter().map(|x| x.to_string()).collect::<Vec<_>>().join(" ");
            for k in 0..n {
                let idx = start + k * step;
                if idx >= CHAINS_A + DEPTHS_B * CHAINS_TYP {
                    break;
                }
                let (spec, passes, desc) = tchain(idx);
                match lay_out_real(&spec, &passes, limit) {
                    Ok((r, q)) => println!("C {}\nR {}\nQ {} {} {}", j(&enc_case(&spec, &passes)), j(&r), idx, q, desc),
                    Err(_) => println!("SKIP {} {}", idx, limit),
                }
            }
            println!("DONE");
        }
        "case" => {
            let (seed, idx, family, maxnodes) = (num(1, 1), num(2, 0), num(3, 0), num(4, 12));
            let (spec, passes) = tcase(seed, idx, family, maxnodes);
            let mut s = String::new();
            let mut k = 0;
            describe_tree(&spec, 0, &mut k, &mut s);
            for a in &passes {
                eprintln!("avail {}", treegen::avail_str(*a));
            }
            eprintln!("{}", s);
            match lines(&spec, &passes) {
                Ok((c, r, d)) => {
                    println!("{c}\n{r}\nL {d}");
                    let vals: Vec<i64> = r.split(' ').skip(1).map(|x| x.parse().unwrap()).collect();
                    let k = spec.count();
                    for (i, ch) in vals.chunks(21).enumerate() {
                        let fl: Vec<f32> = ch[1..].iter().map(|b| f32::from_bits(*b as u32)).collect();
                        eprintln!(
                            "pass {} node {}: order {} loc ({}, {}) size {}x{} content {}x{} sb {}x{} border {:?} padding {:?} margin {:?}",
                            i / k, i % k, ch[0], fl[0], fl[1], fl[2], fl[3], fl[4], fl[5], fl[6], fl[7], &fl[8..12], &fl[12..16], &fl[16..20]
                        );
                    }
                }
                Err(why) => println!("SKIP {idx} {why}"),
            }
        }
        _ => {
            eprintln!("usage: vh taffytree cases <seed> <n> [start] [family] [maxnodes] [real] | case <seed> <idx> [family] [maxnodes] | chains <start> <n> [step]");
            std::process::exit(2);
        }
    }
}
