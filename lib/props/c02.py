"""C02 -- node cache: T (Gen/CacheGen.v: slot table, CACHE_SIZE, enum variants from src/tree/cache.rs; Gen/CacheBodyGen.v: the BODIES of
Cache::new/get/store/clear/is_empty and AvailableSpace::is_roughly_equal, proved equal to Model/Cache.v in Proofs/CacheBodyProofs.v) + proofs (Props/C02.v)
+ K (random and exhaustive get/store/clear sequences on the real taffy::Cache vs Model/Cache.v over the bit-exact F32
instance) + search (the property as executable predicates on the implementation, `vh c02 oracle`)."""
from ..common import *
from ..stages import *

MODES = ['PerformLayout', 'ComputeSize', 'PerformHiddenLayout']
AVK = ['MinContent', 'MaxContent', 'Definite']


def split_ops(c, r):
    """[(op, result ints)] of one case (encoding: harness/src/c02.rs)."""
    out = []
    i = j = 0
    while i < len(c):
        if c[i] == 0:
            out.append((c[i:i + 10], r[j:j + 4]))
            i += 10
            j += 4
        elif c[i] == 1:
            out.append((c[i:i + 13], r[j:j + 1]))
            i += 13
            j += 1
        else:
            out.append((c[i:i + 1], r[j:j + 2]))
            i += 1
            j += 2
    return out


def describe(case):
    """Human-readable rendering of an encoded op sequence (for replay files)."""
    def fl(b):
        import struct
        return repr(struct.unpack('<f', struct.pack('<I', b & 0xffffffff))[0])

    def key(k):
        kd = lambda f, b: 'Some(%s)' % fl(b) if f else 'None'
        av = lambda t, b: 'Definite(%s)' % fl(b) if t == 2 else AVK[t]
        return 'known=(%s, %s) avail=(%s, %s)' % (kd(k[0], k[1]), kd(k[2], k[3]), av(k[4], k[5]), av(k[6], k[7]))
    txt = []
    i = 0
    try:
        while i < len(case):
            if case[i] == 0:
                txt.append('get(%s, %s)' % (key(case[i + 1:i + 9]), MODES[case[i + 9]]))
                i += 10
            elif case[i] == 1:
                txt.append('store(%s, %s, size=(%s, %s), payload #%d)' % (key(case[i + 1:i + 9]), MODES[case[i + 9]], fl(case[i + 10]),
                                                                        fl(case[i + 11]), case[i + 12]))
                i += 13
            else:
                txt.append('clear()')
                i += 1
    except IndexError:
        txt.append('<malformed>')
    return txt


def parse_fails(out):
    fails = []
    for l in out.split('\n'):
        if l.startswith('FAIL '):
            body, _, msg = l[5:].partition('|')
            fails.append(([int(x) for x in body.split()], msg.strip()))
    return fails


def run(rep, tier, seed, replay=None):
    res, changed = proof_stage(rep, 'C02', extra_trusted=[
        'Model/Cache.v get/store/clear/is_empty/new/is_roughly_equal are hand-written but PROVED equal (C02_translated_*_is_model) to the '
        'translation of the Rust bodies regenerated on every run (Gen/CacheBodyGen.v); hand-modelled and tied only by correspondence: '
        'LayoutOutput::from_outer_size (payload 0), the representation of the two Size arguments as one key, abs = fabs',
        'LayoutOutput modelled as size + opaque payload id (the cache never reads the other fields)',
        'Option<f32> == is the derived PartialEq (None==None, Some a==Some b iff a==b in IEEE sense); f32::EPSILON = 2^-23',
        'the inactive #[cfg(taffy_verif)] exact-key test hook in new/get/store/clear is recognised syntactically by the translator and dropped '
        '(exact-key mode is never switched on)'])
    changed = [c for c in changed if c.startswith('gen_cache:') or c.startswith('gen_cachebody:')]
    rep.cov['fingerprints_changed'] = changed
    rc, out, binp, dt = build_harness('release')
    if rc != 0:
        rep.add_broken('build', 'harness', out[-1500:])
        return
    thorough = tier == 'thorough' or bool(changed)
    n = 10000 if thorough else 1500
    if replay:
        rc, out = vh(binp, ['c02', 'one'] + replay['case'])
        cases, impl = parse_cr(out)
        nexh = 0
    else:
        rc, out = vh(binp, ['c02', 'exhaustive', 0])
        cases, impl = parse_cr(out)
        nexh = len(cases)
        rc2, out2 = vh(binp, ['c02', 'cases', seed, n])
        c2, i2 = parse_cr(out2)
        rc = rc or rc2
        out += out2
        cases += c2
        impl += i2
    if rc != 0 or not cases:
        rep.add_broken('correspondence', 'vh c02 cases', 'harness failed: ' + out[-500:])
        return
    bad = []
    try:
        with Lock('coq'):
            rcm, outm, _ = coq_make(['Model/CacheRun.vo'])
        if rcm != 0:
            raise RuntimeError(outm[-1500:])
        model = run_model('C02', 'From TV Require Import Model.CacheRun.', 'run_case', cases, scope='Z', elem='list Z', batch=300)
        bad = diff_results(rep, 'Cache get/store/clear/is_empty vs Model.Cache over F32 (slot from Gen.CacheGen)', cases, impl, model)
    except RuntimeError as ex:
        rep.add_broken('correspondence', 'model evaluation', str(ex)[-1500:])

    # ---- the recorded finding about keys that do not match themselves (NaN known dimension, infinite definite available space)
    if not replay:
        rcw, outw = vh(binp, ['c02', 'nanwitness'], timeout=60)
        kf = [k for k in known_findings('C02') if k.get('id') == 'nan-or-infinite-key-never-hits' and k.get('status') == 'known']
        nan_miss = 'NANKEY hit=false' in outw and 'INFKEY hit=false' in outw
        rep.cov['nan_key_witness'] = outw.strip().split('\n')[-3:]
        if 'FINITEKEY hit=true' not in outw:
            rep.add_violation('a lookup under the key of a stored result misses for an ordinary finite key: %s' % outw.strip()[-200:], {'cmd': 'vh c02 nanwitness'})
        elif nan_miss and kf:
            rep.known.append(kf[0]['line'].replace('known: property=C02 ', '') + '  [witness replayed: NaN key and infinite key miss, finite key hits]')
        elif nan_miss:
            rep.add_violation('a lookup under the key of a stored result misses (NaN known dimension / infinite available space)', {'cmd': 'vh c02 nanwitness'})

    # ---- coverage, measured on the implementation's results
    st = {'sequences': len(cases), 'exhaustive_len_le_2': nexh, 'ops': 0, 'get': 0, 'store': 0, 'clear': 0, 'hit_PerformLayout': 0,
          'hit_ComputeSize': 0, 'miss': 0, 'get_Hidden': 0, 'store_Hidden': 0, 'clear_Cleared': 0, 'clear_AlreadyEmpty': 0,
          'hit_under_other_key': 0, 'nan_or_inf_in_key': 0}
    nontrivial = set()
    for c, r in zip(cases, impl):
        stored = {}
        hit = False
        for op, rr in split_ops(c, r):
            st['ops'] += 1
            if op[0] == 0:
                st['get'] += 1
                if op[9] == 2:
                    st['get_Hidden'] += 1
                if rr[0]:
                    hit = True
                    st['hit_' + MODES[op[9]]] += 1
                    if tuple(op[1:10]) not in stored:
                        st['hit_under_other_key'] += 1
                else:
                    st['miss'] += 1
            elif op[0] == 1:
                st['store'] += 1
                stored[tuple(op[1:10])] = 1
                if op[9] == 2:
                    st['store_Hidden'] += 1
            else:
                st['clear'] += 1
                st['clear_Cleared' if rr[0] else 'clear_AlreadyEmpty'] += 1
                stored = {}
            if op[0] != 2 and any(b in (0x7fc00000, 0x7f800000) for b in (op[2], op[4], op[6], op[8])):
                st['nan_or_inf_in_key'] += 1
        if hit:
            nontrivial.add(tuple(c))
    rep.cov['distinct_nontrivial'] = len(nontrivial)
    rep.cov['rule'] = ('case = one sequence of get/store/clear calls on a fresh Cache; all sequences of length <= 2 over the sub-domain '
                       '{None, Some 1} x {MinContent, Definite 1} x 3 run modes (stored size (1,100)), a fixed corpus, then random sequences '
                       'of length 1..20 from one PRNG stream (values from {0, 0.5, 0.5+2^-24, 0.5+2^-23, 1, 1+2^-23, 100, -0.0, 2^-24, +inf, NaN}, '
                       'mostly a 2-4 value pool per sequence so that keys collide; 3/4 of the gets reuse a stored key, possibly perturbed in one '
                       'component); non-trivial = distinct sequences in which at least one lookup hits; compared per op: hit flag, returned size '
                       'bits, payload id, is_empty() after store/clear, ClearState')
    rep.cov['input_distribution'] = st
    samp = list(zip(cases, impl))
    rep.cov['samples'] = [{'case': c, 'ops': describe(c), 'impl': a} for c, a in samp[nexh + 2:nexh + 4] + samp[-2:]]
    rep.cov['samples'].append({'theorem': 'C02_get_sound : forall ops k m o, get (run ops) k m = Some o -> m <> PerformHiddenLayout /\\ exists ek so, '
                                          'stored_live ops ek m so /\\ compat k ek (o_size so) = true /\\ o = out_of m so'})
    rep.cov['samples'].append({'theorem': 'C02_hit_persists : forall ops k m o ops\', self_compat k -> m <> PerformHiddenLayout -> '
                                          'Forall (no_displace k m) ops\' -> get (run (ops ++ OStore k m o :: ops\')) k m <> None'})

    # ---- search: the property stated directly on the implementation (always run)
    fails = []
    if replay:
        fails = parse_fails(out)
    else:
        budget = 400000 if (thorough or rep.broken) else 30000
        rc, out = vh(binp, ['c02', 'oracle', seed, budget], timeout=600)
        fails = parse_fails(out)
        m = re.search(r'ORACLE sequences (\d+) ops (\d+)', out)
        rep.cov['oracle_sequences'] = int(m.group(1)) if m else 0
        rep.cov['oracle_ops'] = int(m.group(2)) if m else 0
        if (rc != 0 or not m) and not fails:
            rep.add_broken('search', 'vh c02 oracle', out[-500:])
        if not fails:
            # a disagreement between model and implementation: decide on the implementation alone, on exactly that sequence
            for c, a, b in bad[:20]:
                rc, o1 = vh(binp, ['c02', 'one'] + c)
                fails += parse_fails(o1)[:1]
                if len(fails) >= 3:
                    break
    seen = set()
    for case, msg in fails:
        if tuple(case) in seen or len(seen) >= 3:
            continue
        seen.add(tuple(case))
        rep.add_violation(msg, {'case': case, 'ops': describe(case), 'cmd': 'vh c02 one ' + ' '.join(str(x) for x in case)})
