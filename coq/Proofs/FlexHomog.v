(* C04 for the flexbox ALGORITHM (Model/FlexAlg.v `flex_alg` = all of compute_flexbox_layout as a resumption), from the relational theorem
   Proofs/FlexRelFinal.v flex_alg_t_rel with the style relation "every length scaled by k":

     flex_alg_t_homogeneous          scaling the container, its children, the input AND the floor of the scaled shrink factor by k scales every
                                     query, every stored layout and the result by k: `AlgoRel .. (flex_alg_t tau) (flex_alg_t tau')`, no other premise
     flex_alg_homogeneous_partial    `flex_alg` itself (floor 1.0 at both scales) when the container's main size is not intrinsic
     alg_run / alg_run_rel           related resumptions fed by related oracles give related results -- the tool to REFUTE AlgRel
     flex_alg_not_homogeneous        the known finding on the whole resumption: a row container under max-content with one item
                                     (flex-basis 1, flex-shrink 1/2, flex-grow 1, content 1/2 x 10), everything x 4: `flex_alg` returns the
                                     widths 1/2 and 0 (expected 2) -- the two resumptions are NOT related *)
From Coq Require Import QArith Qabs Lqa Bool List ZArith Lia.
From TV Require Import Num.Num Num.QNum Model.Common Model.Leaf Gen.FlexGen Model.Flex Model.FlexLines Model.FlexBase Model.FlexContainer Model.FlexFraction.
From TV Require Import Model.FiltersBase Gen.FiltersGen Model.ItemFilters Model.FlexAlgBase Model.FlexAlgAbs Model.FlexAlg Model.FlexAlgT.
From TV Require Import Model.Scale Model.ScaleFlex Model.Engine Model.EngineRel Model.FlexAlgRel.
From TV Require Import Proofs.ScaleProofs Proofs.ScaleKit Proofs.FlexStyleRel Proofs.FlexRelFinal.
Import ListNotations.
Close Scope Z_scope.

Notation FAlgRel k := (AlgRel (FIn XQ) (LayoutOutput XQ) (FLay XQ) (fin_rel k) (output_rel k) (flay_rel k)).
Notation FAlgoRel k := (AlgoRel (FStyle XQ) (FIn XQ) (LayoutOutput XQ) (FLay XQ) (fstyle_rel k) (fin_rel k) (output_rel k) (flay_rel k)).

Theorem flex_alg_t_homogeneous k tau tau' : 0 < k -> sc k tau tau' -> gtb tau zero = true -> FAlgoRel k (flex_alg_t tau) (flex_alg_t tau').
Proof.
  intros Hk Ht Hp s s' st st' i i' Hs Hst Hi.
  apply (flex_alg_t_rel k Hk (fstyle_rel k) (fs_row s) (fun a b H => fwrel_of_rel k Hk (fs_row s) a b H) tau tau' true); try assumption;
    [left; split; assumption|reflexivity|apply (fwrel_of_rel k Hk); exact Hs].
Qed.

Theorem flex_alg_homogeneous_partial k s s' st st' i i' : 0 < k ->
  fstyle_rel k s s' -> Forall2 (fstyle_rel k) st st' -> fin_rel k i i' -> flex_main_not_intrinsic s i = true ->
  FAlgRel k (flex_alg s st i) (flex_alg s' st' i').
Proof.
  intros Hk Hs Hst Hi Hni. rewrite <- !flex_alg_t_one.
  apply (flex_alg_t_rel k Hk (fstyle_rel k) (fs_row s) (fun a b H => fwrel_of_rel k Hk (fs_row s) a b H) one one true); try assumption;
    [right; exact Hni|reflexivity|apply (fwrel_of_rel k Hk); exact Hs].
Qed.

(* the class is invariant: the scaled container is in it iff the original is *)
Lemma flex_main_not_intrinsic_rel k s s' i i' : 0 < k -> fstyle_rel k s s' -> fin_rel k i i' ->
  flex_main_not_intrinsic s' i' = flex_main_not_intrinsic s i.
Proof.
  intros Hk Hs Hi. pose proof (fwrel_of_rel k Hk (fs_row s) _ _ Hs) as Ws.
  destruct Ws as (_ & _ & _ & _ & _ & Wrow & _ & _ & _ & _ & _ & _ & _ & _ & _ & _ & Wkd & Wconst & _).
  destruct Hi as (Emode & Esz & Eax & Hkd & Hps & Hiav & Ecol). unfold flex_main_not_intrinsic. rewrite Esz.
  pose proof (Wkd _ _ _ _ (qi_sizing i) Hkd Hps) as Hskd.
  set (kd := styled_known_dimensions (to_cstyle s) (qi_known i) (qi_parent i) (qi_sizing i)) in *.
  set (kd' := styled_known_dimensions (to_cstyle s') (qi_known i') (qi_parent i') (qi_sizing i)) in *. clearbody kd kd'.
  pose proof (Wconst _ _ _ _ Hskd Hps) as Hc. cbv zeta.
  set (kc := flex_constants s kd (qi_parent i)) in *. set (kc' := flex_constants s' kd' (qi_parent i')) in *. clearbody kc kc'.
  pose proof (rel_determine_available_space k _ _ _ _ _ _ Hskd Hiav Hc) as Hav.
  pose proof (FlexRelItems.rel_main_branch k _ _ _ _ Hc Hav) as Hmb.
  destruct Hc as (Ekr & _ & _ & _ & _ & _ & _ & _ & _ & _ & _ & _ & _ & _ & Hki). rewrite Ekr.
  pose proof (FlexRelItems.rel_s_main (op_rel (sc k)) (k_row kc) _ _ Hki) as Him.
  destruct (s_main (k_row kc) (k_inner kc)), (s_main (k_row kc) (k_inner kc')); cbn [op_rel] in Him; try contradiction; [reflexivity|].
  destruct (main_branch kc _), (main_branch kc' _); cbn in Hmb; try contradiction; reflexivity.
Qed.

(* ------------------------------------------------------------------------------------------------ running a resumption *)
Section Run.
  Variables (In Out Lay : Type).
  Variable RI : In -> In -> Prop.
  Variable RO : Out -> Out -> Prop.
  Variable RL : Lay -> Lay -> Prop.
  Definition run_rel (x y : Out * list (nat * Lay)) : Prop :=
    RO (fst x) (fst y) /\ Forall2 (fun l l' => fst l' = fst l /\ RL (snd l) (snd l')) (snd x) (snd y).

  Lemma alg_run_rel (oracle oracle' : nat -> In -> Out) : (forall c i i', RI i i' -> RO (oracle c i) (oracle' c i')) ->
    forall fuel a a', AlgRel In Out Lay RI RO RL a a' -> oprel run_rel (alg_run In Out Lay fuel oracle a) (alg_run In Out Lay fuel oracle' a').
  Proof.
    intros Ho. induction fuel as [|f IH]; intros a a' Ha; cbn [alg_run]; [exact I|].
    destruct Ha as [o o' Hoo|c i i' k k' Hi Hk|c l l' k k' Hl Hk].
    - cbn [oprel]. split; [exact Hoo|constructor].
    - apply IH. apply Hk. apply Ho. exact Hi.
    - specialize (IH _ _ Hk). destruct (alg_run In Out Lay f oracle k) as [[o ls]|], (alg_run In Out Lay f oracle' k') as [[o' ls']|];
        cbn [oprel] in IH |- *; try contradiction; [|exact I].
      destruct IH as [H1 H2]. split; [exact H1|]. cbn [snd]. constructor; [split; [reflexivity|exact Hl]|exact H2].
  Qed.
End Run.

(* ------------------------------------------------------------------------------------------------ the known finding, on the whole resumption *)
Definition wit_core (disp : Display) : Style XQ :=
  mkStyle disp Relative BorderBox (mkPoint Visible Visible) zero dim_auto_size dim_auto_size dim_auto_size None
          lpa_zero_rect lp_zero_rect lp_zero_rect.
Definition wit_container : FStyle XQ :=
  mkFStyle (wit_core DFlex) lpa_auto_rect true false false false None None None None (mkSize (LpLength zero) (LpLength zero)) Auto zero one.
Definition wit_item (basis : XQ) : FStyle XQ :=
  mkFStyle (wit_core DBlock) lpa_auto_rect true false false false None None None None (mkSize (LpLength zero) (LpLength zero))
           (Length basis) one (Fin (1#2)).
Definition wit_input : FIn XQ :=
  mkFIn Engine.ComputeSize InherentSize AxBoth size_NONE size_NONE (mkSize MaxContent MaxContent) (mkLine false false).
(* the child's answer: its content is w x h whatever it is asked *)
Definition wit_oracle (w h : XQ) : nat -> FIn XQ -> LayoutOutput XQ := fun _ _ => from_outer_size (mkSize w h).

Lemma wit_run_1 : option_map (fun r => out_size (fst r)) (alg_run _ _ _ 20 (wit_oracle (Fin (1#2)) (Fin 10)) (flex_alg wit_container [wit_item (Fin 1)] wit_input))
                  = Some (mkSize (Fin (1#2)) (Fin 10)).
Proof. vm_compute. reflexivity. Qed.
Lemma wit_run_4 : option_map (fun r => out_size (fst r)) (alg_run _ _ _ 20 (wit_oracle (Fin 2) (Fin 40)) (flex_alg wit_container [wit_item (Fin 4)] wit_input))
                  = Some (mkSize (Fin 0) (Fin 40)).
Proof. vm_compute. reflexivity. Qed.

(* scaled values are related to the originals *)
Lemma fstyle_rel_scale k s : fstyle_rel k s (fstyle_scale k s).
Proof.
  unfold fstyle_rel, fstyle_scale. cbn [fs_core fs_inset fs_row fs_reverse fs_wrap fs_wrap_reverse fs_align_items fs_align_self fs_align_content
    fs_justify_content fs_gap fs_flex_basis fs_grow fs_shrink].
  repeat match goal with |- _ /\ _ => split end; try reflexivity; try apply dl_refl; try apply style_rel_scale; try apply lpa_rel_scale.
  - repeat split; cbn; apply lpa_rel_scale.
  - split; cbn; apply lp_rel_scale.
Qed.
Lemma fin_rel_scale k i : fin_rel k i (fin_scale k i).
Proof.
  unfold fin_rel, fin_scale. cbn [qi_mode qi_sizing qi_axis qi_known qi_parent qi_avail qi_collapsible].
  repeat match goal with |- _ /\ _ => split end; try reflexivity; try apply osize_rel_scale; apply savail_rel_scale.
Qed.
Lemma flay_rel_scale k l : flay_rel k l (flay_scale k l).
Proof.
  unfold flay_rel, flay_scale. cbn [fl_order fl_location fl_size fl_content_size fl_scrollbar_size fl_border fl_padding fl_margin].
  repeat match goal with |- _ /\ _ => split end; try reflexivity; repeat split; cbn; apply sc_self.
Qed.

Notation wit_a := (flex_alg wit_container [wit_item (Fin 1)] wit_input).
Notation wit_a4 := (flex_alg (fstyle_scale 4 wit_container) (map (fstyle_scale 4) [wit_item (Fin 1)]) (fin_scale 4 wit_input)).
Lemma wit_size_1 : option_map (fun r => out_size (fst r)) (alg_run _ _ _ 20 (wit_oracle (Fin (1#2)) (Fin 10)) wit_a) = Some (mkSize (Fin (1#2)) (Fin 10)).
Proof. vm_compute. reflexivity. Qed.
Lemma wit_size_4 : option_map (fun r => match out_size (fst r) with mkSize w _ => x_red w end) (alg_run _ _ _ 20 (wit_oracle (Fin 2) (Fin 40)) wit_a4) = Some (Fin 0).
Proof. vm_compute. reflexivity. Qed.

Lemma wit_not_related : FAlgRel 4 wit_a wit_a4 -> False.
Proof.
  intros Har.
  assert (Ho : forall (c : nat) (i i' : FIn XQ), fin_rel 4 i i' ->
            output_rel 4 (wit_oracle (Fin (1#2)) (Fin 10) c i) (wit_oracle (Fin 2) (Fin 40) c i')).
  { intros c i i' _. unfold wit_oracle. apply (rel_from_outer_size 4). split; cbn; reflexivity. }
  pose proof (alg_run_rel _ _ _ _ _ _ _ _ Ho 20 _ _ Har) as H.
  pose proof wit_size_1 as E1. pose proof wit_size_4 as E4.
  destruct (alg_run _ _ _ 20 (wit_oracle (Fin (1#2)) (Fin 10)) wit_a) as [[o ls]|]; [|discriminate E1].
  destruct (alg_run _ _ _ 20 (wit_oracle (Fin 2) (Fin 40)) wit_a4) as [[o' ls']|]; [|discriminate E4].
  cbn [option_map fst] in E1, E4. destruct H as [([Hw _] & _) _]. cbn [fst] in Hw.
  injection E1 as E1. injection E4 as E4. rewrite E1 in Hw. cbn [width] in Hw.
  destruct (out_size o') as [w' h']. cbn [width] in Hw. destruct w' as [q| | |]; cbn in E4; try discriminate E4.
  injection E4 as E4. unfold sc, x_scale, xeq in Hw. rewrite (Qred_correct q) in Hw || idtac.
  assert (Hq : q == 0) by (rewrite <- (Qred_correct q), E4; reflexivity). rewrite Hq in Hw. discriminate Hw.
Qed.

Theorem flex_alg_not_homogeneous :
  exists k s st i, 0 < k /\
    ~ FAlgRel k (flex_alg s st i) (flex_alg (fstyle_scale k s) (map (fstyle_scale k) st) (fin_scale k i)).
Proof. exists 4, wit_container, [wit_item (Fin 1)], wit_input. split; [reflexivity|exact wit_not_related]. Qed.
