(* The block engine (Model/BlockEngine.v: block containers + leaves) run with the REAL cache: the instance `memo_real` of the generic
   engine (Model/EngineReal.v) whose per-node cache is src/tree/cache.rs (one final-layout entry, nine measure slots, the lossy
   compatibility test) over the key projection (known_dimensions, available_space) of the LayoutInput, plus compute_root_layout and
   sequences of passes, with the per-node counters (queries, hits, lossy hits, evaluations, measure-function calls) of every pass.
   This is what `TaffyTree::compute_layout_with_measure` does WITHOUT the exact-key hook.  `Num`-generic, definitions only.

     bkey_of          LayoutInput -> (known_dimensions, available_space) as Model/Cache.v's `key`
     bosize           LayoutOutput.size                         bfrom_outer   LayoutOutput::from_outer_size (Model/BlockAlg.v)
     bl_mcalls        measure-function calls of ONE evaluation: a container calls none, a leaf as many as the log of
                      Leaf.compute_leaf_layout (the kernel of C19) says: 0 or 1
     blr_memo         memo_real for (bl_algo pre abs_child)
     blr_compute_root compute_root_layout;  blr_passes: compute_layout several times on the same tree, counters reset per pass *)
From Coq Require Import ZArith NArith Bool List.
From TV Require Import Num.Num.
From TV Require Model.Types Model.Common Model.Leaf Model.Root Model.Cache.
From TV Require Import Gen.BlockGen Model.Block Model.Engine Model.BlockAlg Model.BlockEngine Model.BlockRoot Model.EngineReal.
Import ListNotations.

Section BlockEngineReal.
  Context {T : Type} `{Num T}.

  Definition bk_cavail (a : Avail T) : Cache.avail T :=
    match a with Definite v => Cache.Definite v | MinContent => Cache.MinContent | MaxContent => Cache.MaxContent end.
  Definition bkey_of (i : BIn T) : Cache.key T :=
    {| Cache.kd_w := s_w (bi_known i); Cache.kd_h := s_h (bi_known i);
       Cache.av_w := bk_cavail (s_w (bi_avail i)); Cache.av_h := bk_cavail (s_h (bi_avail i)) |}.
  Definition bosize (o : ChildOut T) : Cache.size T := {| Cache.width := s_w (co_size o); Cache.height := s_h (co_size o) |}.
  Definition bfrom_outer (s : Cache.size T) : ChildOut T := from_outer_size (mkSize (Cache.width s) (Cache.height s)).

  (* ghost: no output is recognised as size-only, so EVERY ComputeSize hit counts as lossy (block containers and
     compute_root_layout issue PerformLayout queries only: there is none in this engine) *)
  Definition b_is_outer (o : ChildOut T) : bool := false.

  Definition leaf_mcalls (s : BStyle T) (m : Leaf.MeasureFn T) (i : BIn T) : N :=
    match Leaf.compute_leaf_layout (cv_input i) (cv_style s) m with
    | Some (_, log) => N.of_nat (length log)
    | None => 0%N
    end.
  Definition bl_mcalls (n : BNode T) (kids : list (BNode T)) (i : BIn T) : N :=
    match kids with [] => leaf_mcalls (bn_style n) (bn_measure n) i | _ => 0%N end.

  Definition brtree : Type := rtree (BNode T) (BIn T) (ChildOut T) (BLayout T).

  (* `teq` = the equality of numbers in the GHOST comparison "was the answering entry stored for this complete input?" (it decides only
     which hits are counted as lossy: Proofs/EngineReal.v gmemo_counters_irrelevant); the runner uses the representation equality
     f32_seqb, for which the premise "equal keys are equal inputs" of the transfer theorem holds *)
  Definition blr_memo (teq : T -> T -> bool) (pre : BStyle T -> BIn T -> BIn T) (abs_child : @AbsChild T)
    : nat -> brtree -> BIn T -> option (ChildOut T * brtree) :=
    memo_real (BNode T) (BIn T) (ChildOut T) (BLayout T) bi_mode bn_is_none hidden_child_out zero_blay (bl_algo pre abs_child) bl_mcalls
              bkey_of bosize bfrom_outer (bin_eqb_with teq) b_is_outer.
  Definition blr_fresh : Engine.sk (BNode T) -> brtree :=
    fresh_real (BNode T) (BIn T) (ChildOut T) (BLayout T) zero_blay.

  (* compute_root_layout (as Model/BlockRoot.v `block_compute_root`, over the real-cache engine) *)
  Definition blr_compute_root (teq : T -> T -> bool) (pre : BStyle T -> BIn T -> BIn T) (abs_child : @AbsChild T) (fuel : nat) (t : brtree)
             (avail : BSize (Avail T)) : option brtree :=
    let st := bn_style (gstyle _ _ _ t) in
    match blr_memo teq pre abs_child fuel t (root_bin (block_root_known st avail) avail) with
    | Some (o, t') => Some (gset_lay _ _ _ t' (block_root_layout st avail o))
    | None => None
    end.

  (* compute_layout several times on the same tree (no mutation in between): after every pass the stored layouts and the counters
     of that pass, all nodes in pre-order *)
  Fixpoint blr_passes (teq : T -> T -> bool) (pre : BStyle T -> BIn T -> BIn T) (abs_child : @AbsChild T) (fuel : nat) (t : brtree)
           (avails : list (BSize (Avail T))) : option (list (list (BLayout T) * list stats)) :=
    match avails with
    | [] => Some []
    | a :: rest =>
        match blr_compute_root teq pre abs_child fuel (greset _ _ _ t) a with
        | Some t' =>
            match blr_passes teq pre abs_child fuel t' rest with
            | Some ls => Some ((glays _ _ _ t', gcounts _ _ _ t') :: ls)
            | None => None
            end
        | None => None
        end
    end.

  Definition blr_layout_passes (teq : T -> T -> bool) (pre : BStyle T -> BIn T -> BIn T) (abs_child : @AbsChild T) (fuel : nat) (t : Engine.sk (BNode T))
             (avails : list (BSize (Avail T))) : option (list (list (BLayout T) * list stats)) :=
    blr_passes teq pre abs_child fuel (blr_fresh t) avails.
End BlockEngineReal.
