"""C17 -- the high-level tree and the documented low-level API agree.
proof: Props/C17.v (documented dispatcher memo_doc = TaffyView's memo under the hidden-mode condition; exact-key memo = cache-free);
K: (1) dirty-flag correspondence Engine.v vs TaffyTree (shared), (2) the same histories replayed on the harness's own documented tree:
cache emptiness of every node after every call vs Model/Engine.v and vs TaffyTree::dirty, layouts vs TaffyTree after every layout;
search: random trees x two passes (available space, rounding on/off): TaffyTree vs documented tree bit for bit in real cache mode,
and vs the cache-free evaluation in exact-key mode (mismatches there classified by the event trace)."""
from ..common import *
from ..stages import *
from ..engine_k import engine_correspondence, engine_event_correspondence

SCRIBBLE = ('computesize-scribble (C01): a block container stores its in-flow children\'s layouts while answering a ComputeSize query; with any memo '
            '(TaffyTree and the documented tree alike, which agree with each other) the stored layout of such a node is that of a ComputeSize '
            'evaluation, the cache-free evaluation ends with the PerformLayout one')


def parse_oracle(out):
    fails, known, skips = {}, {}, {}
    for l in out.split('\n'):
        p = l.split(' ', 2)
        if l.startswith('FAIL '):
            fails[int(p[1])] = l[:1200]
        elif l.startswith('KNOWN '):
            known[int(p[1])] = l[:600]
        elif l.startswith('SKIP '):
            skips[int(p[1])] = l[:300]
    return fails, known, skips


def custom_tree_correspondence(rep, binp, seed, n):
    """K for the custom tree: the histories of `vh eng cases`, applied to the documented tree in lock step."""
    rc, out = vh(binp, ['c17', 'cases', seed, n], timeout=300)
    if rc != 0 or 'KDONE' not in out:
        rep.add_broken('correspondence', 'vh c17 cases', out[-800:])
        return
    cases, impl = parse_cr(out)
    kd = [l for l in out.split('\n') if l.startswith('KDIFF ')]
    rep.cov['custom_tree_histories'] = len(cases)
    rep.cov['custom_tree_vs_taffytree_differences'] = len(kd)
    try:
        model = run_model('C17K', 'From TV Require Import Model.EngineRun.', 'run_case', cases, scope='Z', elem='list Z')
        diff_results(rep, 'cache emptiness after every API call: documented custom tree vs Model/Engine.v', cases, impl, model)
    except RuntimeError as ex:
        rep.add_broken('correspondence', 'engine model evaluation (custom tree)', str(ex)[-1500:])
    for l in kd[:3]:
        idx = int(l.split()[1])
        rep.add_violation('history on the documented custom tree and on TaffyTree diverge (cache emptiness / stored layouts): ' + l[:500],
                          {'seed': seed, 'idx': idx, 'kind': 'history', 'cmd': 'vh c17 cases %d %d | grep "KDIFF %d "' % (seed, idx + 1, idx)})


def coq_closure(rel, seen=None):
    """Transitive `From TV Require Import` closure of a .v file (paths relative to coq/)."""
    seen = set() if seen is None else seen
    if rel in seen or not os.path.exists(os.path.join(COQ, rel)):
        return seen
    seen.add(rel)
    src = strip_comments(open(os.path.join(COQ, rel)).read())
    for m in re.finditer(r'From TV Require (?:Import|Export)([^.]*(?:\.[A-Za-z][^.]*)*)\.\s', src):
        for mod in m.group(1).split():
            coq_closure(mod.replace('.', '/') + '.v', seen)
    return seen


def drop_unrelated_translator_problems(rep):
    """The C17 development and the engine runner import nothing from coq/Gen (no translated part), so a generator of another
    property refusing a rewritten source form says nothing about C17; it is recorded, not reported."""
    deps = coq_closure('Props/C17.v') | coq_closure('Model/EngineRun.v') | coq_closure('Model/EngineReplayRun.v')
    if any(d.startswith('Gen/') for d in deps):
        return
    unrelated = [b for b in rep.broken if b['kind'] == 'translator']
    if unrelated:
        rep.cov['translator_problems_outside_C17'] = unrelated
        rep.broken = [b for b in rep.broken if b['kind'] != 'translator']


def run(rep, tier, seed, replay=None):
    res, changed = proof_stage(rep, 'C17', extra_trusted=[
        'Model/Engine.v (TaffyView dispatch) and Model/EngineDoc.v (documented dispatch) are hand-written; tied by the dirty-flag correspondences, the event-level correspondence (real algorithms replayed, Model/EngineReplay.v) '
        'TaffyTree / custom tree vs Engine.v and by the bit-level comparison of the real trees',
        'the custom tree of harness/src/c17.rs is my reading of src/tree/traits.rs + examples/custom_tree_vec.rs, plus the display:none arm and '
        'the hidden-mode line that the examples do not show (see notes/C17.md: without that line the pattern is wrong below display:none)',
        'the layout algorithms are the same code on both sides (no hypothesis on them); exact-key memo = cfg(taffy_verif) hook',
        'cache-free evaluation only on trees of <= 8 nodes and depth <= 3, under a query limit (limit hits are counted and skipped)'])
    drop_unrelated_translator_problems(rep)
    rc, out, binp, dt = build_harness('release')
    if rc != 0:
        rep.add_broken('build', 'harness', out[-1500:])
        return
    nk = 400 if tier == 'quick' else 4000
    if changed:
        nk = 4000
    engine_correspondence(rep, binp, seed, nk)
    engine_event_correspondence(rep, binp, seed + 17, 600 if tier == 'quick' else 6000)
    # WF / H1 are premises of the C01/C15 theorems, not of the C17 ones (which hold for every algorithm and every tree):
    # a trace that falsifies them is recorded here, and reported by ./check C01
    hyp = [b for b in rep.broken if b['kind'] == 'interface-hypothesis']
    if hyp:
        rep.cov['interface_hypotheses_falsified_not_used_by_C17'] = hyp
        rep.broken = [b for b in rep.broken if b['kind'] != 'interface-hypothesis']
    k_distinct = rep.cov.get('distinct_nontrivial', 0)
    custom_tree_correspondence(rep, binp, seed, nk)
    # ---- search
    n = 30000 if tier == 'quick' and not rep.broken and not changed else 300000
    start = 0
    if replay and replay.get('kind') != 'history':
        start, n = replay['idx'], 1
        seed = replay.get('seed', seed)
    rc0, out0 = vh(binp, ['c17', 'oracle', seed, start, n, 0], timeout=900)
    rc1, out1 = vh(binp, ['c17', 'oracle', seed, start, n, 1], timeout=900)
    d0 = re.search(r'DONE (\d+) (\d+) (\d+) (\d+) (\d+) (\d+) (\d+)', out0)
    d1 = re.search(r'DONE (\d+) (\d+) (\d+) (\d+) (\d+) (\d+) (\d+)', out1)
    if not d0 or not d1:
        rep.add_broken('search', 'vh c17 oracle', (out0 + out1)[-600:])
        return
    f0, k0, s0 = parse_oracle(out0)
    f1, k1, s1 = parse_oracle(out1)
    rep.cov['oracle_cases'] = int(d0.group(1))
    rep.cov['oracle_node_layouts_compared'] = {'real_cache': int(d0.group(2)), 'exact_key': int(d1.group(2))}
    rep.cov['cache_free_passes_compared'] = int(d1.group(3))
    rep.cov['cases_skipped'] = {'real_cache': len(s0), 'exact_key': len(s1)}
    rep.cov['cases_with_display_none_parent'] = int(d0.group(7))
    rep.cov['oracle_mismatches'] = {'taffy_vs_custom_real': len(f0), 'exact_mode_fail': len(f1), 'memo_vs_cache_free_known_scribble': len(k1)}
    rep.cov['k_distinct_histories'] = k_distinct
    rep.cov['distinct_nontrivial'] = int(d0.group(6)) + k_distinct
    rep.cov['evaluations'] = rep.cov.get('evaluations', 0) + 2 * int(d0.group(1))
    rep.cov['known_finding_computesize_scribble_reproduced'] = bool(k1)
    if k1:
        rep.known.append('%s  [%d of %d cases of this run; e.g. %s]' % (SCRIBBLE, len(k1), int(d1.group(1)), sorted(k1.items())[0][1][:260]))
    for mode, fails in ((0, f0), (1, f1)):
        for idx, line in sorted(fails.items())[:2]:
            rep.add_violation('%s: %s' % ('real cache' if mode == 0 else 'exact-key memo', line[:700]),
                              {'seed': seed, 'idx': idx, 'exact': mode, 'cmd': 'vh c17 one %d %d %d' % (seed, idx, mode)})
    rep.cov['rule'] = ('search: case = (random style tree of <=12 nodes, all displays, display:none and absolute nodes, measure data, dyadic or tenths '
                       'lengths) x two passes (available space, rounding flag) on the same trees; every node compared after each pass: unrounded layout, '
                       'layout() (rounded when on), final_layout left alone by an unrounded pass, cache emptiness; in exact-key mode additionally against a '
                       'cache-free custom tree on cases of <=8 nodes / depth <=3. distinct = distinct (tree, passes) with at least two nodes, plus the '
                       'distinct K histories with at least one mutation. K: random histories (<=30 API calls, all mutators) on TaffyTree, the custom tree '
                       'and the Coq engine model in lock step')
    rep.cov['samples'].append({'oracle_case': 'vh c17 one %d 0 1' % seed, 'first_lines': vh(binp, ['c17', 'one', seed, 0, 1])[1][:600]})
    rep.cov['samples'].append({'theorem': 'C17_dispatch_equiv: mode hidden_in = PerformHiddenLayout -> (forall i, guard i = true <-> mode i = PerformHiddenLayout) -> '
                                          '(forall s n, kind_of s n = kind_taffy is_none s n) -> forall t i r, (forall f, memo_doc f t i = Some r -> memo f t i = Some r) /\\ '
                                          '(forall f, memo f t i = Some r -> exists f\', memo_doc f\' t i = Some r)'})
    # the documentation trap on the real code (reported, not a violation: the property is about the pattern WITH the hidden handling)
    rc, out = vh(binp, ['c17', 'trap'])
    rep.cov['documentation_trap_on_real_code'] = [l for l in out.split('\n') if l.startswith('TRAP')]
    # ... and it must be what the model says (Props/C17.v C17_trap_fresh_scenario: fresh tree, A hidden from the start): with the hidden-mode line
    # and on TaffyTree B and C are zero; followed literally B is zero with an empty cache and C gets a NON-zero layout
    tl = rep.cov['documentation_trap_on_real_code']
    guarded = [l for l in tl if 'hidden-mode line' in l]
    literal = [l for l in tl if 'container below display:none' in l]
    taffy = [l for l in tl if l.startswith('TRAP TaffyTree')]
    ok = (len(guarded) == 1 and ' B=0x0@' in guarded[0] and ' C=0x0@' in guarded[0]
          and len(literal) == 1 and ' B=0x0@' in literal[0] and ' C=0x0@' not in literal[0] and 'B.cache_empty=true' in literal[0]
          and len(taffy) == 1 and taffy[0].count('width: 0.0, height: 0.0') == 2)
    rep.cov['documentation_trap_matches_model'] = ok
    if not ok:
        rep.add_broken('correspondence', 'C17_trap_fresh_scenario (model of the documentation trap) vs `vh c17 trap`', '\n'.join(tl)[-800:])
