(* Single-child chains MIXING flex, grid and block containers over one measured leaf, run with the REAL cache by the complete engine
   (Model/TaffyEngineReal.v): the deterministic corpus of `vh taffytree chains` (harness/src/taffytree.rs `tchain`, the styles of C16's
   typical corpus: harness/src/c15.rs `typical_styles`) built inside Coq FROM THE INTEGER ENCODING THE HARNESS PRINTS (one node = the
   list `ci_*` below; `./check C16` re-derives these lists from the implementation side on every run and compares), and the counters
   of one layout pass.  Definitions only.

     ci_flex / ci_grid / ci_block    Style { display, ..Default::default() } with one child
     ci_grid_w200                    display:grid, width:200px, align-items:center, flex-grow:1           (typical style 4)
     ci_block_m3                     display:block, margin 3px, flex-direction:column, flex-wrap:wrap, min-width:10px,
                                     grid-template-columns: 1fr                                           (typical style 8)
     ci_leaf                         Style::default() with the harness's Text(17, 8) measure function (17 glyphs of 8 x 8, wrapping)
     chain_case levels               the `C` line: one pass under max-content x max-content, `levels` root first, then the leaf
     typ_levels a b c depth          C16's typical chain: the container j levels above the leaf has style [a; b; c] (j mod 3)
     tchain_stats                    per-node counters (pre-order: root first, leaf last) of ONE compute_layout on the fresh chain
     tchain_leaf_meas                the leaf's number of measure-function calls;  tchain_queries: all compute_cached_layout calls *)
From Coq Require Import ZArith NArith Bool List.
From TV Require Import Num.Num Num.F32 Model.Common Model.Leaf.
From TV Require Import Model.FlexAlgBase Model.TaffyEngine Model.TaffyRoot Model.TaffyKey.
From TV Require Import Model.EngineReal Model.TaffyEngineReal Model.TaffyEngineRun Model.TaffyEngineRealRun.
Import ListNotations.
Open Scope Z_scope.

Definition ci_block_m3 : list Z :=
  [0; 0; 0; 0; 0; 0; 0; 0; 0; 0; 1; 1092616192; 0; 0; 0; 0; 0; 0; 0; 0; 1; 1077936128; 1; 1077936128; 1; 1077936128; 1;
   1077936128; 1; 0; 1; 0; 1; 0; 1; 0; 1; 0; 1; 0; 1; 0; 1; 0; 0; 0; 0; 0; 0; 0; 0; 0; 0; 1; 0; 1; 0; 7; 7; 7; 7; 0; 0; 0; 0;
   0; 0; 0; 0; 0; 0; 0; 1; 0; 5; 0; 2; 1065353216; 0; 0; 0; 1; 1; 0; 0; 0; 1065353216; 0; 0; 0; 0; 0; 1].
Definition ci_flex : list Z :=
  [1; 0; 0; 0; 0; 0; 0; 0; 0; 0; 0; 0; 0; 0; 0; 0; 0; 0; 0; 0; 1; 0; 1; 0; 1; 0; 1; 0; 1; 0; 1; 0; 1; 0; 1; 0; 1; 0; 1; 0; 1;
   0; 1; 0; 0; 0; 0; 0; 0; 0; 0; 0; 0; 1; 0; 1; 0; 7; 7; 7; 7; 0; 0; 0; 0; 0; 0; 0; 0; 0; 0; 0; 0; 0; 0; 0; 0; 0; 0; 0; 0;
   1065353216; 0; 0; 0; 0; 0; 1].
Definition ci_grid_w200 : list Z :=
  [2; 0; 0; 0; 0; 0; 1; 1128792064; 0; 0; 0; 0; 0; 0; 0; 0; 0; 0; 0; 0; 1; 0; 1; 0; 1; 0; 1; 0; 1; 0; 1; 0; 1; 0; 1; 0; 1; 0;
   1; 0; 1; 0; 1; 0; 0; 0; 0; 0; 0; 0; 0; 0; 0; 1; 0; 1; 0; 4; 7; 7; 7; 0; 0; 0; 0; 0; 0; 0; 0; 0; 0; 0; 0; 0; 0; 0; 0; 0; 0;
   0; 1065353216; 1065353216; 0; 0; 0; 0; 0; 1].
Definition ci_leaf : list Z :=
  [1; 0; 0; 0; 0; 0; 0; 0; 0; 0; 0; 0; 0; 0; 0; 0; 0; 0; 0; 0; 1; 0; 1; 0; 1; 0; 1; 0; 1; 0; 1; 0; 1; 0; 1; 0; 1; 0; 1; 0; 1;
   0; 1; 0; 0; 0; 0; 0; 0; 0; 0; 0; 0; 1; 0; 1; 0; 7; 7; 7; 7; 0; 0; 0; 0; 0; 0; 0; 0; 0; 0; 0; 0; 0; 0; 0; 0; 0; 0; 0; 0;
   1065353216; 0; 0; 2; 17; 1090519040; 0].
Definition ci_grid : list Z :=
  [2; 0; 0; 0; 0; 0; 0; 0; 0; 0; 0; 0; 0; 0; 0; 0; 0; 0; 0; 0; 1; 0; 1; 0; 1; 0; 1; 0; 1; 0; 1; 0; 1; 0; 1; 0; 1; 0; 1; 0; 1;
   0; 1; 0; 0; 0; 0; 0; 0; 0; 0; 0; 0; 1; 0; 1; 0; 7; 7; 7; 7; 0; 0; 0; 0; 0; 0; 0; 0; 0; 0; 0; 0; 0; 0; 0; 0; 0; 0; 0; 0;
   1065353216; 0; 0; 0; 0; 0; 1].
Definition ci_block : list Z :=
  [0; 0; 0; 0; 0; 0; 0; 0; 0; 0; 0; 0; 0; 0; 0; 0; 0; 0; 0; 0; 1; 0; 1; 0; 1; 0; 1; 0; 1; 0; 1; 0; 1; 0; 1; 0; 1; 0; 1; 0; 1;
   0; 1; 0; 0; 0; 0; 0; 0; 0; 0; 0; 0; 1; 0; 1; 0; 7; 7; 7; 7; 0; 0; 0; 0; 0; 0; 0; 0; 0; 0; 0; 0; 0; 0; 0; 0; 0; 0; 0; 0;
   1065353216; 0; 0; 0; 0; 0; 1].

Definition chain_case (levels : list (list Z)) : list Z := [1; 2; 0; 2; 0] ++ concat levels ++ ci_leaf.

(* root first: the root is the container `depth - 1` levels above the leaf *)
Definition typ_levels (a b c : list Z) (depth : nat) : list (list Z) :=
  rev (map (fun j => match Nat.modulo j 3 with O => a | S O => b | _ => c end) (seq 0 depth)).

(* the family of the witness C16_real_chain_growth_refuted: typical chain 652 of corpus/C16-typical-baseline.json
   (styles 4, 0, 8: grid-w200 directly above the leaf, then flex, then block-m3, repeating) *)
Definition growth_case (depth : nat) : list Z := chain_case (typ_levels ci_grid_w200 ci_flex ci_block_m3 depth).
Definition flex_case (depth : nat) : list Z := chain_case (repeat ci_flex depth).
Definition grid_case (depth : nat) : list Z := chain_case (repeat ci_grid depth).
Definition block_case (depth : nat) : list Z := chain_case (repeat ci_block depth).

Definition tchain_stats (c : list Z) : option (list stats) :=
  match c with
  | np :: rest0 =>
      let '(avails, rest) := dec_avails (Z.to_nat np) rest0 in
      match dec_tree REAL_FUEL rest with
      | Some (t, []) =>
          match trl_layout_passes f32_seqb REAL_FUEL t avails with
          | Some ([(_, ns)], _) => Some ns
          | _ => None
          end
      | _ => None
      end
  | _ => None
  end.

Definition tchain_leaf_meas (c : list Z) : option N := option_map (fun ns => n_meas (last ns stats0)) (tchain_stats c).
Definition tchain_queries (c : list Z) : option N := option_map (fun ns => fold_right N.add 0%N (map n_query ns)) (tchain_stats c).
Definition tchain_nodes (c : list Z) : option N := option_map (fun ns => N.of_nat (length ns)) (tchain_stats c).
Definition tchain_nodes_meas (c : list Z) : option (N * N) :=
  option_map (fun ns => (N.of_nat (length ns), n_meas (last ns stats0))) (tchain_stats c).

(* the check behind C16_real_flex_chain_bound_partial: homogeneous chains of DEFAULT containers of one kind: the pass succeeds, the
   leaf is measured at most `mb` times and there are at most `qb` * depth compute_cached_layout calls in all *)
Inductive ChainKind := KFlex | KGrid | KBlock.
Definition kind_case (k : ChainKind) (depth : nat) : list Z :=
  match k with KFlex => flex_case depth | KGrid => grid_case depth | KBlock => block_case depth end.
Definition kind_meas_bound (k : ChainKind) : N := match k with KFlex => 6 | KGrid => 6 | KBlock => 1 end%N.
Definition kind_query_rate (k : ChainKind) : N := match k with KFlex => 20 | KGrid => 26 | KBlock => 3 end%N.
Definition kchain_ok (k : ChainKind) (depth : nat) : bool :=
  match tchain_stats (kind_case k depth) with
  | Some ns => N.leb (n_meas (last ns stats0)) (kind_meas_bound k)
               && N.leb (fold_right N.add 0%N (map n_query ns)) (kind_query_rate k * N.of_nat depth)
  | None => false
  end.
Definition kchains_ok (maxd : nat) : bool :=
  forallb (fun k => forallb (fun d => kchain_ok k d) (seq 1 maxd)) [KFlex; KGrid; KBlock].
