(* Property C19, part 1: domain predicates, XQ tactics, the per-axis shape of the model and of leaf_spec, and the
   per-axis equivalence lemmas (case analysis on every comparison + linear arithmetic).  Part 2: Proofs/LeafProofs.v. *)
From Coq Require Import QArith Lqa Bool List ZArith.
From TV Require Import Num.QNum Model.Common Model.Leaf Model.Root Model.LeafSpec.
Import ListNotations.

(* ------------------------------------------------------------------------------------------------------------ *)
(** * Domain predicates and equality up to Qeq *)

Definition size_all {A} (P : A -> Prop) (s : Size A) : Prop := P (width s) /\ P (height s).
Definition rect_all {A} (P : A -> Prop) (r : Rect A) : Prop :=
  P (r_left r) /\ P (r_right r) /\ P (r_top r) /\ P (r_bottom r).

Definition fin_opt (o : option XQ) : Prop := match o with Some x => finite x | None => True end.
Definition fin_lpa (d : LengthPercentageAuto XQ) : Prop :=
  match d with Auto => True | Length v | Percent v => finite v end.
Definition fin_lp (d : LengthPercentage XQ) : Prop := match d with LpLength v | LpPercent v => finite v end.
Definition fin_avail (a : AvailableSpace XQ) : Prop := match a with Definite v => finite v | _ => True end.

(* every number in the style is finite (no NaN, no infinity) *)
Definition fin_style (st : Style XQ) : Prop :=
  finite (scrollbar_width st) /\ size_all fin_lpa (size st) /\ size_all fin_lpa (min_size st) /\
  size_all fin_lpa (max_size st) /\ fin_opt (aspect_ratio st) /\ rect_all fin_lpa (margin st) /\
  rect_all fin_lp (padding st) /\ rect_all fin_lp (border st).

Definition fin_input (i : LayoutInput XQ) : Prop :=
  size_all fin_opt (known_dimensions i) /\ size_all fin_opt (parent_size i) /\ size_all fin_avail (available_space i).

(* the measure function returns finite sizes when its arguments are finite *)
Definition fin_measure (measure : MeasureFn XQ) : Prop :=
  forall k a, size_all fin_opt k -> size_all fin_avail a -> size_all finite (measure k a).

Definition nonneg (x : XQ) : Prop := 0 <= val x.
Definition positive_ratio (st : Style XQ) : Prop :=
  match aspect_ratio st with Some r => 0 < val r | None => True end.

Definition opt_xeq (a b : option XQ) : Prop :=
  match a, b with Some x, Some y => xeq x y | None, None => True | _, _ => False end.
Definition avail_xeq (a b : AvailableSpace XQ) : Prop :=
  match a, b with
  | Definite x, Definite y => xeq x y
  | MinContent, MinContent | MaxContent, MaxContent => True
  | _, _ => False
  end.
Definition size_rel {A} (R : A -> A -> Prop) (a b : Size A) : Prop := R (width a) (width b) /\ R (height a) (height b).
Definition rect_rel {A} (R : A -> A -> Prop) (a b : Rect A) : Prop :=
  R (r_left a) (r_left b) /\ R (r_right a) (r_right b) /\ R (r_top a) (r_top b) /\ R (r_bottom a) (r_bottom b).
Definition layout_xeq (a b : Layout XQ) : Prop :=
  l_order a = l_order b /\ xeq (px (l_location a)) (px (l_location b)) /\ xeq (py (l_location a)) (py (l_location b)) /\
  size_rel xeq (l_size a) (l_size b) /\ size_rel xeq (l_content_size a) (l_content_size b) /\
  size_rel xeq (l_scrollbar_size a) (l_scrollbar_size b) /\ rect_rel xeq (l_border a) (l_border b) /\
  rect_rel xeq (l_padding a) (l_padding b) /\ rect_rel xeq (l_margin a) (l_margin b).

(* ------------------------------------------------------------------------------------------------------------ *)
(** * XQ facts *)

Lemma Qle_bool_false a b : Qle_bool a b = false -> b < a.
Proof. intro E. apply Qnot_le_lt. intro L. apply Qle_bool_iff in L. congruence. Qed.

Lemma xeq_refl x : xeq x x.
Proof. destruct x; simpl; auto. reflexivity. Qed.

Lemma finite_Fin x : finite x -> exists q, x = Fin q.
Proof. destruct x; simpl; try contradiction. eauto. Qed.

(* `max` never returns less than a finite right operand, whatever the left one is (NaN and infinities included) *)
Lemma xmax_ge_r a p : x_leb (Fin p) (x_max a (Fin p)) = true.
Proof.
  destruct a as [q | | |]; cbn.
  - destruct (Qle_bool p q) eqn:E; cbn; [exact E | apply Qle_bool_iff; apply Qle_refl].
  - reflexivity.
  - apply Qle_bool_iff; apply Qle_refl.
  - apply Qle_bool_iff; apply Qle_refl.
Qed.

Ltac fin_destruct :=
  repeat match goal with
  | H : finite ?x |- _ =>
      first [ is_var x; destruct x as [? | | |]; cbn [finite] in H; try contradiction; clear H
            | let q := fresh "q" in let E := fresh "E" in destruct (finite_Fin x H) as [q E]; rewrite E in *; clear H ]
  end.

(* case split on every comparison of rationals, then linear arithmetic *)
Ltac qstep :=
  unfold nonneg in *;
  cbn [x_max x_min x_add x_sub x_neg x_is_nan x_ltb x_leb x_eqb negb xeq val finite nonneg
       fmax fmin add sub zero leb ltb QNum opt_xeq avail_xeq fin_opt] in *.
Ltac qsplit :=
  repeat (qstep;
    match goal with
    | |- context [Qle_bool ?a ?b] =>
        let E := fresh "E" in destruct (Qle_bool a b) eqn:E;
        [apply Qle_bool_iff in E | apply Qle_bool_false in E]; try (exfalso; lra)
    | H : context [Qle_bool ?a ?b] |- _ =>
        let E := fresh "E" in destruct (Qle_bool a b) eqn:E;
        [apply Qle_bool_iff in E | apply Qle_bool_false in E]; try (exfalso; lra)
    end);
  qstep.
Ltac qauto := qsplit; try tauto; try lra; try reflexivity; try discriminate.

(* ------------------------------------------------------------------------------------------------------------ *)
(** * Finiteness of resolved lengths *)

Lemma fin_resolve_dim d c : fin_lpa d -> fin_opt c -> fin_opt (maybe_resolve_dim d c).
Proof. destruct d, c; cbn; intros; fin_destruct; cbn; auto. Qed.
Lemma fin_roz_lpa d c : fin_lpa d -> fin_opt c -> finite (resolve_or_zero_lpa d c).
Proof. destruct d, c; cbn; intros; fin_destruct; cbn; auto. Qed.
Lemma fin_roz_lp d c : fin_lp d -> fin_opt c -> finite (resolve_or_zero_lp d c).
Proof. destruct d, c; cbn; intros; fin_destruct; cbn; auto. Qed.
Lemma fin_into_option a : fin_avail a -> fin_opt (avail_into_option a).
Proof. destruct a; cbn; auto. Qed.
Lemma fin_add a b : finite a -> finite b -> finite (x_add a b).
Proof. intros; fin_destruct; cbn; auto. Qed.
Lemma fin_maybe_add_of o b : fin_opt o -> finite b -> fin_opt (maybe_add_of o b).
Proof. destruct o; cbn; intros; fin_destruct; cbn; auto. Qed.
Lemma fin_maybe_sub_of o b : fin_opt o -> finite b -> fin_opt (maybe_sub_of o b).
Proof. destruct o; cbn; intros; fin_destruct; cbn; auto. Qed.

Section Resolved.
  Variable st : Style XQ.
  Variable av : Size (AvailableSpace XQ).
  Hypothesis Hst : fin_style st.
  Hypothesis Hav : size_all fin_avail av.

  Lemma fin_basis : size_all fin_opt (sp_basis av).
  Proof. destruct Hav. split; apply fin_into_option; assumption. Qed.
  Lemma fin_sp_padding : rect_all finite (sp_padding st av).
  Proof. destruct Hst as (_ & _ & _ & _ & _ & _ & (?&?&?&?) & _), fin_basis. repeat split; apply fin_roz_lp; assumption. Qed.
  Lemma fin_sp_border : rect_all finite (sp_border st av).
  Proof. destruct Hst as (_ & _ & _ & _ & _ & _ & _ & (?&?&?&?)), fin_basis. repeat split; apply fin_roz_lp; assumption. Qed.
  Lemma fin_sp_margin : rect_all finite (sp_margin st av).
  Proof. destruct Hst as (_ & _ & _ & _ & _ & (?&?&?&?) & _), fin_basis. repeat split; apply fin_roz_lpa; assumption. Qed.
  Lemma fin_sp_gutter : size_all finite (sp_gutter st).
  Proof. destruct Hst as (? & _). split; cbn; match goal with |- context [if ?b then _ else _] => destruct b end; cbn; auto. Qed.
  Lemma fin_res_size : size_all fin_opt (size_maybe_resolve_dim (size st) (sp_basis av)).
  Proof. destruct Hst as (_ & (?&?) & _), fin_basis. split; apply fin_resolve_dim; assumption. Qed.
  Lemma fin_res_min : size_all fin_opt (size_maybe_resolve_dim (min_size st) (sp_basis av)).
  Proof. destruct Hst as (_ & _ & (?&?) & _), fin_basis. split; apply fin_resolve_dim; assumption. Qed.
  Lemma fin_res_max : size_all fin_opt (size_maybe_resolve_dim (max_size st) (sp_basis av)).
  Proof. destruct Hst as (_ & _ & _ & (?&?) & _), fin_basis. split; apply fin_resolve_dim; assumption. Qed.
End Resolved.

(* ------------------------------------------------------------------------------------------------------------ *)
(** * The root of a one-node tree: what the model computes, per axis *)

Definition root_leaf_avail (st : Style XQ) (av : Size (AvailableSpace XQ)) : Size (AvailableSpace XQ) :=
  leaf_available_space (root_input st av) (leaf_env (root_input st av) st).
Definition root_leaf_layout (st : Style XQ) (av : Size (AvailableSpace XQ)) (m : Size XQ) : Layout XQ :=
  root_assemble st av (leaf_finish (root_input st av) (leaf_env (root_input st av) st) m).

(* a box-generating root without children: exactly one measure call, without known dimensions (PerformLayout) *)
Lemma root_leaf_eq st measure av : display st <> DNone ->
  root_leaf st measure av = Some (root_leaf_layout st av (measure size_NONE (root_leaf_avail st av)),
                                  [(size_NONE, root_leaf_avail st av)]).
Proof.
  intro D. unfold root_leaf, childless_child_layout. cbn [run_mode root_input].
  destruct (display st) eqn:E; try congruence; reflexivity.
Qed.

Lemma root_leaf_none st measure av : display st = DNone ->
  root_leaf st measure av = Some (root_assemble st av output_HIDDEN, []).
Proof. intro D. unfold root_leaf, childless_child_layout. cbn [run_mode root_input]. rewrite D. reflexivity. Qed.

(* per-axis shape of the model (no aspect ratio) *)
Definition forced (M X : option XQ) : option XQ :=
  match M, X with Some mn, Some mx => if x_leb mx mn then Some mn else None | _, _ => None end.
Definition m_kd_axis (block : bool) (S M X stretch : option XQ) (pb : XQ) : option XQ :=
  if block then maybe_max_of (opt_or (opt_or (opt_or None (forced M X)) (maybe_clamp_oo S M X)) stretch) pb else None.
Definition m_size_w (kd S M X : option XQ) (meas inset pb : XQ) : XQ :=
  x_max (maybe_clamp_fo (opt_unwrap_or (opt_or kd (opt_or kd S)) (x_add meas inset)) M X) pb.
Definition m_size_h (kd S M X : option XQ) (meas inset pb : XQ) : XQ :=
  x_max (x_max (maybe_clamp_fo (opt_unwrap_or (opt_or kd (opt_or kd S)) (x_add meas inset)) M X) (Fin 0)) pb.
Definition m_avail_axis (kd S M X : option XQ) (a : AvailableSpace XQ) (margin inset : XQ) : AvailableSpace XQ :=
  avail_map_definite_value
    (avail_maybe_set (avail_maybe_set (maybe_sub_af (opt_unwrap_or (option_map (@Definite XQ) kd) a) margin) kd) (opt_or kd S))
    (fun size => x_sub (maybe_clamp_fo size M X) inset).
(* per-axis shape of leaf_spec *)
Definition s_size_axis (block : bool) (S M X stretch : option XQ) (meas inset pb : XQ) : XQ :=
  x_max (sp_clamp (opt_unwrap_or (opt_or S (if block then stretch else None)) (x_add meas inset)) M X) pb.
Definition s_avail_axis (block : bool) (S M X stretch : option XQ) (a : AvailableSpace XQ) (margin pb inset : XQ) : AvailableSpace XQ :=
  let avm := option_map (fun x => x_sub x margin) (avail_into_option a) in
  let assumed :=
    if block then
      opt_or (option_map (fun v => x_max v pb) (opt_or (opt_or (forced M X) (option_map (fun v => sp_clamp v M X) S)) stretch)) avm
    else opt_or S avm in
  match assumed with Some b => Definite (x_sub (sp_clamp b M X) inset) | None => a end.

Section MQ.
  Variable st : Style XQ.
  Variable av : Size (AvailableSpace XQ).
  Definition mq_pbr : Rect XQ := rect_add (sp_padding st av) (sp_border st av).
  Definition mq_pb : Size XQ := sum_axes mq_pbr.
  Definition mq_bsa : Size XQ := match box_sizing st with ContentBox => mq_pb | BorderBox => size_ZERO end.
  Definition mq_S : Size (option XQ) := size_maybe_add_of (size_maybe_resolve_dim (size st) (sp_basis av)) mq_bsa.
  Definition mq_M : Size (option XQ) := size_maybe_add_of (size_maybe_resolve_dim (min_size st) (sp_basis av)) mq_bsa.
  Definition mq_X : Size (option XQ) := size_maybe_add_of (size_maybe_resolve_dim (max_size st) (sp_basis av)) mq_bsa.
  Definition mq_gutter : Size XQ :=
    mkSize (match py (overflow st) with Scroll => scrollbar_width st | _ => Fin 0 end)
           (match px (overflow st) with Scroll => scrollbar_width st | _ => Fin 0 end).
  Definition mq_inset : Size XQ :=
    mkSize (x_add (r_left mq_pbr) (x_add (r_right mq_pbr) (width mq_gutter)))
           (x_add (r_top mq_pbr) (x_add (r_bottom mq_pbr) (height mq_gutter))).
  Definition mq_stretch : Size (option XQ) :=
    mkSize (maybe_sub_of (avail_into_option (width av)) (horizontal_axis_sum (sp_margin st av))) None.
End MQ.

Lemma model_width_eq st av m : aspect_ratio st = None ->
  width (l_size (root_leaf_layout st av m)) =
  m_size_w (m_kd_axis (is_block st) (width (mq_S st av)) (width (mq_M st av)) (width (mq_X st av))
                      (width (mq_stretch st av)) (width (mq_pb st av)))
           (width (mq_S st av)) (width (mq_M st av)) (width (mq_X st av)) (width m) (width (mq_inset st av)) (width (mq_pb st av)).
Proof.
  destruct st as [disp pos bs ov sbw sz mn mx ar mg pd bd]. cbn [aspect_ratio]. intro; subst ar.
  destruct disp; reflexivity.
Qed.

Lemma model_height_eq st av m : aspect_ratio st = None ->
  height (l_size (root_leaf_layout st av m)) =
  m_size_h (m_kd_axis (is_block st) (height (mq_S st av)) (height (mq_M st av)) (height (mq_X st av))
                      (height (mq_stretch st av)) (height (mq_pb st av)))
           (height (mq_S st av)) (height (mq_M st av)) (height (mq_X st av)) (height m) (height (mq_inset st av)) (height (mq_pb st av)).
Proof.
  destruct st as [disp pos bs ov sbw sz mn mx ar mg pd bd]. cbn [aspect_ratio]. intro; subst ar.
  destruct disp; reflexivity.
Qed.

Lemma model_avail_eq st av : aspect_ratio st = None ->
  root_leaf_avail st av =
  mkSize (m_avail_axis (m_kd_axis (is_block st) (width (mq_S st av)) (width (mq_M st av)) (width (mq_X st av))
                                  (width (mq_stretch st av)) (width (mq_pb st av)))
                       (width (mq_S st av)) (width (mq_M st av)) (width (mq_X st av)) (width av)
                       (horizontal_axis_sum (sp_margin st av)) (width (mq_inset st av)))
         (m_avail_axis (m_kd_axis (is_block st) (height (mq_S st av)) (height (mq_M st av)) (height (mq_X st av))
                                  (height (mq_stretch st av)) (height (mq_pb st av)))
                       (height (mq_S st av)) (height (mq_M st av)) (height (mq_X st av)) (height av)
                       (vertical_axis_sum (sp_margin st av)) (height (mq_inset st av))).
Proof.
  destruct st as [disp pos bs ov sbw sz mn mx ar mg pd bd]. cbn [aspect_ratio]. intro; subst ar.
  destruct disp; reflexivity.
Qed.

Lemma spec_size_eq st av m :
  leaf_spec_size st av m =
  mkSize (s_size_axis (is_block st) (width (sp_size st av)) (width (sp_min st av)) (width (sp_max st av))
                      (width (sp_avail_minus_margin st av)) (width m) (width (sp_inset st av)) (width (sp_pb st av)))
         (s_size_axis (is_block st) (height (sp_size st av)) (height (sp_min st av)) (height (sp_max st av))
                      None (height m) (height (sp_inset st av)) (height (sp_pb st av))).
Proof. unfold leaf_spec_size, sp_stretch, s_size_axis. destruct (is_block st); reflexivity. Qed.

Lemma spec_avail_eq st av :
  leaf_spec_measure_avail st av =
  mkSize (s_avail_axis (is_block st) (width (sp_size st av)) (width (sp_min st av)) (width (sp_max st av))
                       (width (sp_avail_minus_margin st av)) (width av) (width (sp_margin_sum st av))
                       (width (sp_pb st av)) (width (sp_inset st av)))
         (s_avail_axis (is_block st) (height (sp_size st av)) (height (sp_min st av)) (height (sp_max st av))
                       None (height av) (height (sp_margin_sum st av))
                       (height (sp_pb st av)) (height (sp_inset st av))).
Proof.
  unfold leaf_spec_measure_avail, sp_measure_axis, sp_assumed_axis, sp_stretch, s_avail_axis, forced, sp_avail_minus_margin.
  destruct (is_block st); reflexivity.
Qed.

(* ------------------------------------------------------------------------------------------------------------ *)
(** * Model = spec, one axis at a time (all values finite; primed values are the spec's, equal up to Qeq) *)

Ltac axis_crush :=
  cbv [m_size_w m_size_h m_kd_axis m_avail_axis s_size_axis s_avail_axis forced maybe_max_of maybe_clamp_oo maybe_clamp_fo
       maybe_sub_af avail_map_definite_value avail_maybe_set avail_into_option opt_or opt_unwrap_or option_map sp_clamp];
  qauto.

Lemma axis_w : forall block (S S' M M' X X' st st' : option XQ) (meas inset inset' pb pb' : XQ),
  fin_opt S -> fin_opt M -> fin_opt X -> fin_opt st -> fin_opt S' -> fin_opt M' -> fin_opt X' -> fin_opt st' ->
  finite meas -> finite inset -> finite inset' -> finite pb -> finite pb' ->
  opt_xeq S S' -> opt_xeq M M' -> opt_xeq X X' -> opt_xeq st st' -> xeq inset inset' -> xeq pb pb' ->
  xeq (m_size_w (m_kd_axis block S M X st pb) S M X meas inset pb) (s_size_axis block S' M' X' st' meas inset' pb').
Proof.
  intros block S S' M M' X X' st st'. intros.
  destruct S, S', M, M', X, X', st, st'; cbn [opt_xeq fin_opt] in *; try contradiction;
  fin_destruct; destruct block; axis_crush.
Qed.

(* the height is additionally floored at 0 by `f32_max(height, aspect_ratio.map(..).unwrap_or(0.0))`: invisible when
   padding + border is not negative *)
Lemma axis_h : forall block (S S' M M' X X' st st' : option XQ) (meas inset inset' pb pb' : XQ),
  fin_opt S -> fin_opt M -> fin_opt X -> fin_opt st -> fin_opt S' -> fin_opt M' -> fin_opt X' -> fin_opt st' ->
  finite meas -> finite inset -> finite inset' -> finite pb -> finite pb' -> nonneg pb ->
  opt_xeq S S' -> opt_xeq M M' -> opt_xeq X X' -> opt_xeq st st' -> xeq inset inset' -> xeq pb pb' ->
  xeq (m_size_h (m_kd_axis block S M X st pb) S M X meas inset pb) (s_size_axis block S' M' X' st' meas inset' pb').
Proof.
  intros block S S' M M' X X' st st'. intros.
  destruct S, S', M, M', X, X', st, st'; cbn [opt_xeq fin_opt] in *; try contradiction;
  fin_destruct; destruct block; axis_crush.
Qed.

Lemma axis_avail : forall block (S S' M M' X X' : option XQ) (a : AvailableSpace XQ) (margin margin' inset inset' pb pb' : XQ),
  fin_opt S -> fin_opt M -> fin_opt X -> fin_opt S' -> fin_opt M' -> fin_opt X' -> fin_avail a ->
  finite margin -> finite margin' -> finite inset -> finite inset' -> finite pb -> finite pb' ->
  opt_xeq S S' -> opt_xeq M M' -> opt_xeq X X' -> xeq margin margin' -> xeq inset inset' -> xeq pb pb' ->
  forall (stretch stretch' : option XQ),
  (stretch = None /\ stretch' = None) \/
  (stretch = maybe_sub_of (avail_into_option a) margin /\ stretch' = option_map (fun x => x_sub x margin') (avail_into_option a)) ->
  avail_xeq (m_avail_axis (m_kd_axis block S M X stretch pb) S M X a margin inset)
            (s_avail_axis block S' M' X' stretch' a margin' pb' inset').
Proof.
  intros block S S' M M' X X' a. intros.
  destruct H18 as [[-> ->] | [-> ->]];
  destruct S, S', M, M', X, X', a; cbn [opt_xeq fin_opt fin_avail] in *; try contradiction;
  fin_destruct; destruct block; cbv [maybe_sub_of]; axis_crush.
Qed.


Lemma fin_m_avail_axis : forall block (S M X stretch : option XQ) (a : AvailableSpace XQ) (margin inset pb : XQ),
  fin_opt S -> fin_opt M -> fin_opt X -> fin_opt stretch -> fin_avail a -> finite margin -> finite inset -> finite pb ->
  fin_avail (m_avail_axis (m_kd_axis block S M X stretch pb) S M X a margin inset).
Proof.
  intros block S M X stretch a. intros.
  destruct S, M, X, stretch, a; cbn [fin_opt fin_avail] in *; fin_destruct; destruct block;
    cbv [m_kd_axis m_avail_axis forced maybe_max_of maybe_clamp_oo maybe_clamp_fo maybe_sub_af avail_map_definite_value
         avail_maybe_set opt_or opt_unwrap_or option_map];
    qsplit; cbn [fin_avail finite]; exact I.
Qed.
