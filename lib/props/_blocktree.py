"""Shared by C10, C04 and C12: the WHOLE-TREE correspondence of the block engine model.

`vh blocktree cases <seed> <n>` lays out random trees (depth <= 4, <= 12 nodes) of display:block containers and leaves through the
public API (`TaffyTree::compute_layout_with_measure`, rounding disabled, exact-key mode of the cfg(taffy_verif) hook) and prints every
node's unrounded layout as bit patterns; `Model/BlockEngineRun.run_case` decodes the same case, runs compute_root_layout + `bl_memo
block_pre abs_child_block` (the engine instance the whole-tree theorems C04_block_engine_* / C12_block_engine_* / C05 / C06
_block_engine_* / C10_block_tree_* are about, exact-key caches of the skeleton) over the bit-exact F32 instance and must reproduce
all 21 integers of all nodes.  The harness also lays every tree out with the REAL cache key and reports how many trees differ: that
is the recorded lossy-cache-key finding (known_findings.json, C01/C17/C10), classified, never an alarm here.

Debugging: `python3 -m lib.props._blocktree <seed> <n> [start]` prints the disagreeing cases."""
import struct
import sys

from ..common import *
from ..stages import *

NODE_LEN = 58
LAY_LEN = 21
FIELDS = ['order', 'x', 'y', 'w', 'h', 'content_w', 'content_h', 'scrollbar_w', 'scrollbar_h', 'border_l', 'border_r', 'border_t',
          'border_b', 'padding_l', 'padding_r', 'padding_t', 'padding_b', 'margin_l', 'margin_r', 'margin_t', 'margin_b']


def _f(b):
    return struct.unpack('f', struct.pack('I', b & 0xffffffff))[0]


def decode_nodes(c):
    """[(depth, header ints)] in pre-order from the C integers."""
    out = []

    def rec(pos, depth):
        hd = c[pos:pos + NODE_LEN]
        out.append((depth, hd))
        pos += NODE_LEN
        for _ in range(hd[57]):
            pos = rec(pos, depth + 1)
        return pos

    rec(1 + 4 * c[0], 0)
    return out


def features(c):
    nodes = decode_nodes(c)
    f = set()
    f.add('avail-w-' + ['definite', 'min-content', 'max-content'][c[1]])
    f.add('avail-h-' + ['definite', 'min-content', 'max-content'][c[3]])
    f.add('passes-%d' % c[0])
    if c[0] == 2:
        f.add('second-pass-' + ('same-available-space' if c[1:5] == c[5:9] else 'other-available-space'))
    f.add('depth-%d' % max(d for d, _ in nodes))
    for d, h in nodes:
        kids = h[57]
        if h[0] == 3:
            f.add('display-none' + ('-with-children' if kids else '') + ('-root' if d == 0 else ''))
            continue
        if h[6] == 1:
            f.add('absolute' + ('-container' if kids else '-leaf') + ('-root' if d == 0 else ''))
            if any(h[7 + 2 * i] != 2 for i in range(4)):
                f.add('absolute-with-insets')
            if h[7] != 2 and h[9] != 2 or h[11] != 2 and h[13] != 2:
                f.add('absolute-opposite-insets')
        elif any(h[7 + 2 * i] != 2 for i in range(4)):
            f.add('relative-inset')
        if kids:
            f.add('container')
            if h[15] == 2:
                f.add('container-auto-width')
        else:
            f.add('leaf-' + ['block', 'flex', 'grid'][h[0]])
            f.add('measure-' + ['none', 'fixed', 'text', 'echo'][min(h[54], 3)])
        if h[1]:
            f.add('table')
        if h[2]:
            f.add('content-box')
        if h[3] or h[4]:
            f.add('overflow')
        if h[3] == 3 or h[4] == 3:
            f.add('scrollbar')
        if h[27]:
            f.add('aspect-ratio')
        if any(h[15 + 2 * i] == 1 for i in range(6)):
            f.add('percent-size')
        if any(h[19 + 2 * i] != 2 for i in range(4)):
            f.add('min-or-max-size')
        if any(h[29 + 2 * i] == 2 for i in range(4)):
            f.add('auto-margin')
        if any(h[29 + 2 * i] != 2 and _f(h[30 + 2 * i]) < 0 for i in range(4)):
            f.add('negative-margin')
        if any(h[37 + 2 * i] == 1 for i in range(8)):
            f.add('percent-padding-or-border')
        if h[53]:
            f.add('text-align')
    return f


def describe_diff(c, a, b):
    """first differing node / field of a disagreement"""
    if len(a) != len(b):
        return 'lengths differ: impl %d model %d ints (model head %s)' % (len(a), len(b), b[:3])
    for i, (x, y) in enumerate(zip(a, b)):
        if x != y:
            node, fld = divmod(i, LAY_LEN)
            nn = len(decode_nodes(c))
            fx = x if fld == 0 else _f(x)
            fy = y if fld == 0 else _f(y)
            return 'pass %d node %d field %s: impl %r model %r' % (node // nn, node % nn, FIELDS[fld], fx, fy)
    return 'equal'


def generate(binp, seed, n, start=0):
    rc, out = vh(binp, ['blocktree', 'cases', seed, n, start], timeout=300)
    cases, impl = parse_cr(out)
    lossy = [int(l.split()[1]) for l in out.split('\n') if l.startswith('L ')]
    m = re.search(r'SUMMARY (.*)', out)
    if rc != 0 or not cases or len(lossy) != len(cases) or not m:
        raise RuntimeError('vh blocktree cases failed: ' + out[-600:])
    summary = {k: int(v) for k, v in (kv.split('=') for kv in m.group(1).split())}
    return cases, impl, lossy, summary


def evaluate(tag, cases, timeout=900):
    with Lock('coq'):
        rcm, outm, _ = coq_make(['Model/BlockEngineRun.vo'])
    if rcm != 0:
        raise RuntimeError(outm[-1500:])
    # the cost of a case grows with its number of nodes: deal the cases out so that the shards of run_model get similar work
    order = sorted(range(len(cases)), key=lambda i: -len(cases[i]))
    nshards = max(1, min(16, (len(cases) + 19) // 20))
    perm2 = []
    for s in range(nshards):
        perm2 += order[s::nshards]
    model_p = run_model(tag, 'From TV Require Import Model.BlockEngineRun.', 'run_case', [cases[i] for i in perm2], scope='Z',
                        elem='list Z', shards=16, timeout=timeout, batch=200)
    model = [None] * len(cases)
    for i, m in zip(perm2, model_p):
        model[i] = m
    return model


def tree_k(rep, pid, binp, seed, n):
    """The whole-tree correspondence as one obligation of `pid`'s check.  Returns the disagreements."""
    t0 = time.time()
    try:
        cases, impl, lossy, summary = generate(binp, seed, n)
        model = evaluate(pid + 'bt', cases)
    except RuntimeError as ex:
        rep.add_broken('correspondence', 'block engine whole-tree K (vh blocktree cases)', str(ex)[-1500:])
        return []
    bad = diff_results(rep, 'whole tree of block containers and leaves (TaffyTree::compute_layout_with_measure, exact-key hook, unrounded '
                            'layouts of every node) vs Model.BlockEngineRun.run_case = compute_root_layout + bl_memo block_pre '
                            'abs_child_block over F32', cases, impl, model, max_report=3)
    feats = {}
    for c in cases:
        for x in features(c):
            feats[x] = feats.get(x, 0) + 1
    nontrivial = set(tuple(c) for c in cases if any(h[57] and h[0] != 3 for _, h in decode_nodes(c)))
    rep.cov['blocktree'] = {
        'trees': len(cases), 'disagreements': len(bad), 'seconds': round(time.time() - t0, 1),
        'nodes': summary.get('nodes'), 'containers': summary.get('containers'), 'hidden_nodes': summary.get('hidden'),
        'absolute_nodes': summary.get('absolute'), 'measured_leaves': summary.get('measured'),
        'layout_fields_compared': sum(len(a) for a in impl),
        'distinct_trees_with_a_visible_container': len(nontrivial),
        'real_cache_key_differs': sum(1 for d in lossy if d),
        'real_cache_key_note': 'trees whose layout under the REAL (lossy) cache key differs from the exact-key layout: the recorded '
                               'lossy-cache-key finding (C01/C17/C10), not a model error; the model is compared with the exact-key run',
        'input_distribution': dict(sorted(feats.items())),
        'excluded': 'flex and grid CONTAINERS (flex / grid leaves are included), calc() values',
        'first_disagreements': ['idx %d: %s (vh blocktree case %d %d)' % (cases.index(c), describe_diff(c, a, b), seed, cases.index(c))
                                for c, a, b in bad[:5]],
    }
    return bad


if __name__ == '__main__':
    seed, n = int(sys.argv[1]), int(sys.argv[2])
    start = int(sys.argv[3]) if len(sys.argv) > 3 else 0
    rc, out, binp, dt = build_harness('release')
    if rc != 0:
        print(out[-2000:])
        sys.exit(1)
    cases, impl, lossy, summary = generate(binp, seed, n, start)
    t0 = time.time()
    model = evaluate('btdbg', cases)
    print('model evaluated in %.1fs; %s' % (time.time() - t0, summary))
    nbad = 0
    for i, (c, a, b) in enumerate(zip(cases, impl, model)):
        if a != b:
            nbad += 1
            if nbad <= 25:
                print('idx %d (%d nodes, lossy %d): %s' % (start + i, len(a) // LAY_LEN, lossy[i], describe_diff(c, a, b)))
    print('%d / %d disagree' % (nbad, len(cases)))
