(* Property C12 for the `*_resolve` parts of the three absolute-positioning kernels (Gen/AbsPosGen.v: everything that
   reads the child's style): invariant under the content-box -> border-box rewrite, up to xeq in the three resolved sizes. *)
From Coq Require Import ZArith NArith QArith Bool List.
From TV Require Import Num.Num Num.QNum Gen.AbsPosEnums Model.AbsPosBase Gen.AbsPosGen Model.AbsPos Model.BoxSizingAbs.
From TV Require Import Proofs.LeafAxis Proofs.BoxSizingProofs.

Definition asize_oxeq (a b : Size (option XQ)) : Prop := opt_xeq (s_width a) (s_width b) /\ opt_xeq (s_height a) (s_height b).
Definition absin_xeq (i i' : AbsIn XQ) : Prop :=
  ai_aspect_ratio i = ai_aspect_ratio i' /\ ai_margin i = ai_margin i' /\ ai_inset i = ai_inset i' /\
  ai_padding i = ai_padding i' /\ ai_border i = ai_border i' /\ ai_pb_sum i = ai_pb_sum i' /\
  asize_oxeq (ai_size i) (ai_size i') /\ asize_oxeq (ai_min0 i) (ai_min0 i') /\ asize_oxeq (ai_max i) (ai_max i') /\
  ai_align_self i = ai_align_self i' /\ ai_justify_self i = ai_justify_self i' /\ ai_position i = ai_position i'.

Lemma abs_eligible_parts (st : AbsStyle XQ) : abs_eligible st ->
  st_box_sizing st = BS_ContentBox /\ abs_rect_forallb (@dim_is_length XQ) (st_padding st) = true /\
  abs_rect_forallb (@dim_is_length XQ) (st_border st) = true /\ st_aspect_ratio st = None /\
  abs_size_forallb (@abs_dim_not_percent XQ) (st_size st) = true /\ abs_size_forallb (@abs_dim_not_percent XQ) (st_min_size st) = true /\
  abs_size_forallb (@abs_dim_not_percent XQ) (st_max_size st) = true.
Proof.
  unfold abs_eligible, abs_eligibleb. intro E.
  repeat (apply andb_prop in E; let E2 := fresh "E" in destruct E as [E E2]).
  repeat split; try assumption.
  - destruct (st_box_sizing st); [discriminate | reflexivity].
  - destruct (st_aspect_ratio st); [discriminate | reflexivity].
Qed.

Lemma dim_length_ctx (d : Dim XQ) c c' : dim_is_length d = true -> dim_resolve_or_zero d c = dim_resolve_or_zero d c'.
Proof. destruct d; try discriminate; reflexivity. Qed.
Lemma rect_length_ctx (r : Rect (Dim XQ)) c c' : abs_rect_forallb (@dim_is_length XQ) r = true ->
  rect_map (fun d => dim_resolve_or_zero d c) r = rect_map (fun d => dim_resolve_or_zero d c') r.
Proof.
  unfold abs_rect_forallb. intro E. repeat (apply andb_prop in E; let E2 := fresh "E" in destruct E as [E E2]).
  unfold rect_map.
  rewrite (dim_length_ctx (r_left r) c c'), (dim_length_ctx (r_right r) c c'), (dim_length_ctx (r_top r) c c'),
    (dim_length_ctx (r_bottom r) c c') by assumption. reflexivity.
Qed.

(* the idiom in the vocabulary of the generated kernels *)
Lemma abs_idiom_dim (pb : XQ) (d : Dim XQ) c : abs_dim_not_percent d = true ->
  opt_xeq (maybe_add_OF (dim_maybe_resolve (abs_grow_dim pb d) c) (Fin 0)) (maybe_add_OF (dim_maybe_resolve d c) pb).
Proof. destruct d; cbn; intro E; try discriminate; auto. apply x_add_zero. Qed.

Lemma abs_idiom_size (pb : Size XQ) (raw : Size (Dim XQ)) (area : Size XQ) : abs_size_forallb (@abs_dim_not_percent XQ) raw = true ->
  asize_oxeq (size_zip2 maybe_add_OF (size_maybe_apply_aspect_ratio (size_zip2 (fun d c => dim_maybe_resolve d (Some c)) (abs_grow_size pb raw) area) None) size_zero)
             (size_zip2 maybe_add_OF (size_maybe_apply_aspect_ratio (size_zip2 (fun d c => dim_maybe_resolve d (Some c)) raw area) None) pb).
Proof.
  unfold abs_size_forallb. intro E. apply andb_prop in E. destruct E as [Ew Eh].
  split; cbn; [exact (abs_idiom_dim (s_width pb) (s_width raw) _ Ew) | exact (abs_idiom_dim (s_height pb) (s_height raw) _ Eh)].
Qed.
Lemma abs_idiom_size_noar (pb : Size XQ) (raw : Size (Dim XQ)) (area : Size XQ) : abs_size_forallb (@abs_dim_not_percent XQ) raw = true ->
  asize_oxeq (size_zip2 maybe_add_OF (size_zip2 (fun d c => dim_maybe_resolve d (Some c)) (abs_grow_size pb raw) area) size_zero)
             (size_zip2 maybe_add_OF (size_zip2 (fun d c => dim_maybe_resolve d (Some c)) raw area) pb).
Proof. exact (abs_idiom_size pb raw area). Qed.

Ltac resolve_invariant st El :=
  destruct (abs_eligible_parts st El) as (Ebs & Ep & Eb & Ear & Esz & Emn & Emx);
  cbn [abs_to_border_box st_size st_min_size st_max_size st_inset st_margin st_padding st_border st_aspect_ratio st_box_sizing
       st_align_self st_justify_self st_position];
  rewrite Ebs, Ear; cbn [BoxSizing_eqb];
  unfold absin_xeq;
  cbn [ai_aspect_ratio ai_margin ai_inset ai_padding ai_border ai_pb_sum ai_size ai_min0 ai_max ai_align_self ai_justify_self ai_position];
  repeat split; try reflexivity.

Lemma block_resolve_invariant area off (st : AbsStyle XQ) : abs_eligible st ->
  absin_xeq (block_resolve area off (abs_to_border_box st)) (block_resolve area off st).
Proof.
  intro El. unfold block_resolve. resolve_invariant st El.
  all: rewrite (rect_length_ctx (st_padding st) (Some (s_width area)) None Ep), (rect_length_ctx (st_border st) (Some (s_width area)) None Eb).
  all: first [ apply (abs_idiom_size (abs_style_pb st)); assumption | apply (abs_idiom_size (abs_style_pb st)); assumption ].
Qed.

Lemma flex_resolve_invariant c (st : AbsStyle XQ) : abs_eligible st ->
  absin_xeq (flex_resolve c (abs_to_border_box st)) (flex_resolve c st).
Proof.
  intro El. unfold flex_resolve. resolve_invariant st El.
  all: match goal with |- context [dim_resolve_or_zero _ (Some ?w)] =>
         rewrite (rect_length_ctx (st_padding st) (Some w) None Ep), (rect_length_ctx (st_border st) (Some w) None Eb) end.
  all: apply (abs_idiom_size (abs_style_pb st)); assumption.
Qed.

Lemma grid_resolve_invariant area (st : AbsStyle XQ) : abs_eligible st ->
  absin_xeq (grid_resolve area (abs_to_border_box st)) (grid_resolve area st).
Proof.
  intro El. unfold grid_resolve. resolve_invariant st El.
  all: match goal with |- context [dim_resolve_or_zero _ (Some ?w)] =>
         rewrite (rect_length_ctx (st_padding st) (Some w) None Ep), (rect_length_ctx (st_border st) (Some w) None Eb) end.
  all: first [ apply (abs_idiom_size (abs_style_pb st)); assumption | apply (abs_idiom_size_noar (abs_style_pb st)); assumption ].
Qed.

(* the premises are satisfiable, and the rewrite does change the style *)
Definition ex_abs_style : AbsStyle XQ :=
  mkAbsStyle (mkSize (DLength (Fin 40)) DAuto) (mkSize DAuto (DLength (Fin 5))) (mkSize (DLength (Fin 90)) DAuto)
             (mkRect DAuto DAuto DAuto DAuto) (mkRect DAuto DAuto DAuto DAuto)
             (mkRect (DLength (Fin 1)) (DLength (Fin 2)) (DLength (Fin 3)) (DLength (Fin 4)))
             (mkRect (DLength (Fin 1)) (DLength (Fin 1)) (DLength (Fin 1)) (DLength (Fin 1)))
             None BS_ContentBox None None Pos_Absolute.
Lemma ex_abs_style_eligible : abs_eligible ex_abs_style.
Proof. reflexivity. Qed.
Lemma ex_abs_style_rewritten :
  st_size (abs_to_border_box ex_abs_style) = mkSize (DLength (Fin 40 + Fin 5)%num) DAuto /\
  st_min_size (abs_to_border_box ex_abs_style) = mkSize DAuto (DLength (Fin 5 + Fin 9)%num).
Proof. vm_compute. split; reflexivity. Qed.
