"""C11 -- absolutely positioned boxes satisfy the inset / margin / size equation.
T (Gen/AbsPosEnums.v, Gen/AbsPosGen.v: the per-child code of block.rs / flexbox.rs / grid/alignment.rs, regenerated)
+ proofs (Props/C11.v over the exact-rational instance) + K (vh c11 cases: whole API, bit-exact over F32; the container's
own size / border / padding / scrollbar_size are taken from the implementation's result) + search (vh c11 oracle: the four
equations stated directly on the implementation's layouts)."""
from ..common import *
from ..stages import *

KINDS = ['block', 'flex', 'grid']
RESULT = ['location.x', 'location.y', 'size.width', 'size.height', 'margin.left', 'margin.right', 'margin.top', 'margin.bottom']
NEG_AREA = 'grid-abspos-negative-area'
PCT_BORDER = 'block-abspos-percent-border'


def shape(c):
    """Coarse class of a case: container kind, which insets are set, which sizes are auto, auto margins."""
    ins = ''.join('1' if c[42 + 2 * k] else '0' for k in range(4))
    sz = ''.join('a' if c[58 + 2 * k] == 0 else 's' for k in range(2))
    am = ''.join('A' if c[50 + 2 * k] == 0 else 'm' for k in range(4))
    return '%s inset=%s size=%s margin=%s' % (KINDS[c[0]], ins, sz, am)


def run(rep, tier, seed, replay=None):
    res, changed = proof_stage(rep, 'C11', extra_trusted=[
        'hand-written: Model/AbsPosBase.v (geometry records, Dimension resolution), Model/AbsPos.v (how the callers build the area / '
        'AlgoConstants from the container layout), Model/AbsPosRun.v (decoder, leaf sizing for a fixed measure) -- tied by K only',
        'theorems are over exact rationals (XQ) with finite inputs and no aspect ratio; the F32 run ties the same terms to the binary',
    ])
    changed = [c for c in changed if c.startswith('gen_abspos')]
    rep.cov['fingerprints_changed'] = changed
    rc, out, binp, dt = build_harness('release')
    if rc != 0:
        rep.add_broken('build', 'harness', out[-1500:])
        return
    n = 900 if tier == 'quick' else 12000
    if changed or rep.broken:
        n = max(n, 3000)
    if replay and 'case' not in replay:
        replay = None       # a witness replay: the witnesses are re-run below in any case
    if replay:
        rc, out = vh(binp, ['c11', 'one'] + replay['case'])
    else:
        rc, out = vh(binp, ['c11', 'cases', seed, n])
    try:
        cases, impl = parse_cr(out)
    except RuntimeError:
        cases, impl = [], []
    if rc != 0 or not cases:
        rep.add_broken('correspondence', 'vh c11 cases', 'harness failed: ' + out[-500:])
        return
    bad = []
    try:
        with Lock('coq'):
            rcm, outm, _ = coq_make(['Model/AbsPosRun.vo'])
        if rcm != 0:
            raise RuntimeError(outm[-1500:])
        # model input = the case + what the implementation reports for the container (size, border, padding, scrollbar_size)
        model = run_model('C11', 'From TV Require Import Model.AbsPosRun.', 'run_case', [c + r[8:] for c, r in zip(cases, impl)],
                          scope='Z', elem='list Z')
        bad = diff_results(rep, 'abspos child location/size/margin: implementation vs Model.AbsPos.abs_{block,flex,grid}_style over F32',
                           cases, [r[:8] for r in impl], model)
    except RuntimeError as ex:
        rep.add_broken('correspondence', 'model evaluation', str(ex)[-1500:])
    shapes = {}
    for c in cases:
        shapes[shape(c)] = shapes.get(shape(c), 0) + 1
    kinds = {}
    for c in cases:
        kinds[KINDS[c[0]]] = kinds.get(KINDS[c[0]], 0) + 1
    rep.cov['distinct_nontrivial'] = len(set(tuple(c) for c in cases))
    rep.cov['distinct_shapes'] = len(shapes)
    rep.cov['rule'] = ('case = container (kind = idx mod 3; size auto / percent / small / large; padding, border; overflow + scrollbar_width on half; '
                       'available space) + optional in-flow sibling + one absolute leaf (inset set/auto mask = (idx/3) mod 16; size, min, max '
                       'auto / length / percent; margins length / percent / auto; own padding/border; box-sizing; aspect ratio on 1/8; '
                       'alignment); dyadic and decimal values alternate every 48 cases; distinct = distinct encoded cases; every case compares '
                       '8 floats bit for bit; distinct_shapes = distinct (kind, inset mask, auto sizes, auto margins)')
    rep.cov['input_distribution'] = kinds
    rep.cov['samples'] = [{'case': c, 'impl': a} for c, a in list(zip(cases, impl))[:2] + list(zip(cases, impl))[-2:]]
    rep.cov['samples'].append({'theorem': 'C11_end_flex : forall ct dir wrap_reverse jc ais i measure, fin_container ct -> fin_in i -> fin_measure measure -> '
                               'ai_aspect_ratio i = None -> let o := abs_flex (flex_constants ct dir wrap_reverse jc ais) i measure in end_eq_x ct i o /\\ end_eq_y ct i o'})
    rep.cov['samples'].append({'theorem': 'C11_block_auto_margin : ... r_left (ai_margin i) = None -> r_right (ai_margin i) = Some m -> xeq (r_left (o_margin o)) '
                               '(pbox_w ct - s - e - s_width (o_size o) - m) /\\ xeq (r_right (o_margin o)) m  (and the three other sides)'})
    # ---- search: the four equations directly on the implementation (always run; larger when something no longer checks)
    budget = 20000 if tier == 'quick' else 300000
    if rep.broken or changed:
        budget = max(budget, 150000)
    fails = []
    if replay:
        fails = [(0, l.split(' ', 2)[2], replay['case']) for l in out.split('\n') if l.startswith('FAIL')]
    else:
        rc, oout = vh(binp, ['c11', 'oracle', seed + 1, budget], timeout=900)
        msgs = {}
        for l in oout.split('\n'):
            if l.startswith('FAIL'):
                _, idx, msg = l.split(' ', 2)
                msgs[idx] = msg
            elif l.startswith('CASE'):
                p = l.split()
                fails.append((int(p[1]), msgs.get(p[1], ''), [int(x) for x in p[2:]]))
        m = re.search(r'ORACLE (\d+) start=(\d+) end=(\d+) size=(\d+) auto_margin=(\d+) negative_padding_box=(\d+)', oout)
        if m:
            rep.cov['oracle_layouts'] = int(m.group(1))
            rep.cov['oracle_equations_checked'] = {'start': int(m.group(2)), 'end': int(m.group(3)), 'size_from_insets': int(m.group(4)),
                                                   'block_auto_margin': int(m.group(5)), 'grid_skipped_negative_padding_box': int(m.group(6))}
        elif rc != 0:
            rep.add_broken('search', 'vh c11 oracle', oout[-500:])
    seen = set()
    for idx, msg, case in fails:
        key = msg.split(':')[0]
        if key in seen or len(seen) >= 4:
            continue
        seen.add(key)
        rep.add_violation('absolute child in a %s' % msg, {'case': case, 'cmd': 'vh c11 one ' + ' '.join(map(str, case))})
    if not fails and bad:
        # a disagreement on concrete inputs: decide on the implementation alone, with the same predicates
        for c, a, b in bad[:40]:
            rc1, o1 = vh(binp, ['c11', 'one'] + c)
            f1 = [l.split(' ', 2)[2] for l in o1.split('\n') if l.startswith('FAIL')]
            if f1:
                fld = [RESULT[k] for k in range(8) if a[k] != b[k]]
                rep.add_violation('absolute child in a %s (model and implementation differ in %s)' % (f1[0], ', '.join(fld)),
                                  {'case': c, 'impl': a, 'model': b, 'cmd': 'vh c11 one ' + ' '.join(map(str, c))})
                break
    # ---- known findings: their witnesses must still fail on the implementation (and must not spread to the other kinds)
    rc, wout = vh(binp, ['c11', 'witness'])
    rc2, wout2 = vh(binp, ['c11', 'witness2'])
    w = dict(re.findall(r'WITNESS (\w+) .* fails=(\d)', wout + wout2))
    rep.cov['known_finding_witnesses'] = w
    expected = {'grid': NEG_AREA, 'percent_border_block': PCT_BORDER}
    for name, failed in sorted(w.items()):
        fid = expected.get(name)
        kf = [f for f in known_findings('C11') if f.get('id') == fid and f.get('status') == 'known']
        if failed == '1' and kf:
            rep.known.append(kf[0]['line'])
        elif failed == '1':
            rep.add_violation('witness %s: the inset equation fails on the implementation' % name,
                              {'cmd': 'vh c11 witness; vh c11 witness2', 'output': wout + wout2})
        elif kf:
            rep.cov.setdefault('stale_known_findings', []).append(fid)
