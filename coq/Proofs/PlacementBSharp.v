(* Sharpness of the side condition [bound_ok] of the B-parametrised placement theorems (Proofs/PlacementB.v): without it the
   statement is false.  Witness: B = 32767 (= i16::MAX), one in-flow child `grid-column: 32767 / span 2` on a 1 x 1 explicit
   grid: the child is inside [in_domain_B 32767], the checked arithmetic returns Err Overflow (`OriginZeroLine + u16` in
   resolve_definite_grid_lines: 32766 + 2 > i16::MAX; a debug build panics with `attempt to add with overflow`).
   Just inside the machine range the run still succeeds (`grid-column: 32767` alone: 32766 positive implicit columns). *)
From Coq Require Import ZArith Bool List Lia.
From TV Require Import Model.PlacementBase Gen.PlacementGen Model.Placement Model.PlacementDomainB.
Import ListNotations.
Open Scope Z_scope.

Definition sharp_children : list (child_kind * child) :=
  [ (InFlow, mkChild (mkLn Auto Auto) (mkLn (Line 32767) (Span 2))) ].

Lemma sharp_in_domain : in_domain_B 32767 1 1 sharp_children.
Proof.
  unfold in_domain_B, sharp_children. split; [lia|]. split; [lia|].
  constructor; [|constructor]. unfold child_okB, ln_okB, gp_okB; cbn [snd c_row c_col l_start l_end]. lia.
Qed.

Lemma sharp_not_bound_ok : ~ bound_ok 32767 (length sharp_children).
Proof. unfold bound_ok, sharp_children. cbn [length]. intros [_ H]. change (Z.of_nat 1) with 1 in H. lia. Qed.

Lemma sharp_overflows : grid_placement_run 1 1 FRow sharp_children = Err Overflow.
Proof. vm_compute. reflexivity. Qed.

Lemma general_total_needs_bound_ok :
  exists B ec er fl children, 2 <= B /\ in_domain_B B ec er children /\ ~ bound_ok B (length children) /\
                              grid_placement_run ec er fl children = Err Overflow.
Proof.
  exists 32767, 1, 1, FRow, sharp_children.
  split; [lia|]. split; [exact sharp_in_domain|]. split; [exact sharp_not_bound_ok|exact sharp_overflows].
Qed.

(* the largest line index alone is still fine *)
Lemma line_i16_max_alone_ok : exists o,
  grid_placement_run 1 1 FRow [ (InFlow, mkChild (mkLn Auto Auto) (mkLn (Line 32767) Auto)) ] = Ok o /\
  o_cols o = mkTC 0 1 32766.
Proof. eexists. split; [vm_compute; reflexivity|reflexivity]. Qed.
