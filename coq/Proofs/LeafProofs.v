(* Property C19, part 2: lemmas about Model/Leaf.v, Model/Root.v and Model/LeafSpec.v over the exact instance XQ. *)
From Coq Require Import QArith Lqa Bool List ZArith.
From TV Require Import Num.QNum Model.Common Model.Leaf Model.Root Model.LeafSpec Proofs.LeafAxis.
Import ListNotations.

(* ------------------------------------------------------------------------------------------------------------ *)
(** * The model's resolved quantities and the spec's agree (different association of the sums, `+ 0` for border-box) *)

Lemma fin_xeq a b : finite a -> xeq a b -> finite b.
Proof. destruct a, b; cbn; auto. Qed.
Lemma fin_opt_xeq a b : fin_opt a -> opt_xeq a b -> fin_opt b.
Proof. destruct a, b; cbn; try tauto. apply fin_xeq. Qed.

Ltac opt_destruct :=
  repeat match goal with
  | H : fin_opt ?o |- _ =>
      first [ is_var o; destruct o; cbn [fin_opt] in H
            | let E := fresh "E" in destruct o eqn:E; cbn [fin_opt] in H ];
      try clear H
  end.

Ltac geom :=
  cbv [mq_pb mq_pbr mq_bsa mq_inset mq_gutter mq_stretch sp_pb sp_inset sp_padding_sum sp_margin_sum sp_gutter
       sum_axes horizontal_axis_sum vertical_axis_sum rect_add rect_zip_map size_add size_zip_map size_zip_map3
       size_maybe_add_of size_ZERO size_rel size_all rect_all is_scroll];
  cbn [width height r_left r_right r_top r_bottom px py].

Section Relate.
  Variable st : Style XQ.
  Variable av : Size (AvailableSpace XQ).
  Hypothesis Hst : fin_style st.
  Hypothesis Hav : size_all fin_avail av.

  Ltac resolved :=
    destruct (fin_sp_padding st av Hst Hav) as (?&?&?&?); destruct (fin_sp_border st av Hst Hav) as (?&?&?&?);
    destruct (fin_sp_margin st av Hst Hav) as (?&?&?&?).

  Lemma rel_pb : size_rel xeq (mq_pb st av) (sp_pb st av) /\ size_all finite (mq_pb st av).
  Proof. resolved. geom. fin_destruct. qauto. Qed.

  Lemma rel_inset : size_rel xeq (mq_inset st av) (sp_inset st av) /\ size_all finite (mq_inset st av).
  Proof.
    resolved. destruct Hst as (Hs & _). geom.
    destruct (py (overflow st)), (px (overflow st)); fin_destruct; qauto.
  Qed.

  Lemma rel_margin : finite (horizontal_axis_sum (sp_margin st av)) /\ finite (vertical_axis_sum (sp_margin st av)).
  Proof. resolved. geom. fin_destruct. qauto. Qed.

  Lemma rel_bb (r : Size (option XQ)) : size_all fin_opt r ->
    size_rel opt_xeq (size_maybe_add_of r (mq_bsa st av)) (sp_to_border_box st av r) /\
    size_all fin_opt (size_maybe_add_of r (mq_bsa st av)).
  Proof.
    intros [Hw Hh]. resolved. unfold sp_to_border_box. geom.
    destruct (box_sizing st); geom; destruct r as [[w|] [h|]]; cbn [fin_opt width height] in *;
      cbv [maybe_add_of option_map]; fin_destruct; qauto.
  Qed.

  Lemma rel_stretch : opt_xeq (width (mq_stretch st av)) (width (sp_avail_minus_margin st av)) /\
                      fin_opt (width (mq_stretch st av)).
  Proof.
    resolved. destruct Hav as [Ha _]. unfold sp_avail_minus_margin, sp_basis, size_into_options, size_map. geom.
    destruct (width av); cbn [fin_avail] in Ha; cbv [maybe_sub_of avail_into_option option_map]; fin_destruct; qauto.
  Qed.
End Relate.

(* ------------------------------------------------------------------------------------------------------------ *)
(** * C19_spec (no aspect ratio): the root layout of a one-node tree is leaf_spec *)

Definition nonneg_padding_border (st : Style XQ) (av : Size (AvailableSpace XQ)) : Prop :=
  rect_all nonneg (sp_padding st av) /\ rect_all nonneg (sp_border st av).

Ltac fin_side :=
  match goal with
  | H : opt_xeq ?a ?b |- fin_opt ?b => apply (fin_opt_xeq a b); [assumption | exact H]
  | H : xeq ?a ?b |- finite ?b => apply (fin_xeq a b); [assumption | exact H]
  end.

Section Spec.
  Variable st : Style XQ.
  Variable av : Size (AvailableSpace XQ).
  Hypothesis Hst : fin_style st.
  Hypothesis Hav : size_all fin_avail av.
  Hypothesis Hratio : aspect_ratio st = None.

  Lemma sp_size_noratio : sp_size st av = sp_to_border_box st av (size_maybe_resolve_dim (size st) (sp_basis av)).
  Proof. unfold sp_size. rewrite Hratio. reflexivity. Qed.
  Lemma sp_min_noratio : sp_min st av = sp_to_border_box st av (size_maybe_resolve_dim (min_size st) (sp_basis av)).
  Proof. unfold sp_min. rewrite Hratio. reflexivity. Qed.

  Lemma nonneg_mq_pb_h : nonneg_padding_border st av -> nonneg (height (mq_pb st av)).
  Proof.
    intros [(_&_&?&?) (_&_&?&?)].
    destruct (fin_sp_padding st av Hst Hav) as (?&?&?&?); destruct (fin_sp_border st av Hst Hav) as (?&?&?&?).
    geom. fin_destruct. qauto.
  Qed.

  Lemma root_size_spec m : size_all finite m -> nonneg_padding_border st av ->
    size_rel xeq (l_size (root_leaf_layout st av m)) (leaf_spec_size st av m).
  Proof.
    intros [Hmw Hmh] Hnn.
    destruct (rel_pb st av Hst Hav) as [[Pw Ph] [FPw FPh]].
    destruct (rel_inset st av Hst Hav) as [[Iw Ih] [FIw FIh]].
    destruct (rel_bb st av Hst Hav _ (fin_res_size st av Hst Hav)) as [[Sw Sh] [FSw FSh]].
    destruct (rel_bb st av Hst Hav _ (fin_res_min st av Hst Hav)) as [[Mw Mh] [FMw FMh]].
    destruct (rel_bb st av Hst Hav _ (fin_res_max st av Hst Hav)) as [[Xw Xh] [FXw FXh]].
    destruct (rel_stretch st av Hst Hav) as [Tw FTw].
    rewrite spec_size_eq, sp_size_noratio, sp_min_noratio. unfold sp_max.
    split; cbn [width height].
    - rewrite model_width_eq by assumption.
      apply axis_w; try assumption; fin_side.
    - rewrite model_height_eq by assumption.
      apply axis_h; try assumption; try exact I; try fin_side.
      apply nonneg_mq_pb_h; assumption.
  Qed.
End Spec.

Section Spec2.
  Variable st : Style XQ.
  Variable av : Size (AvailableSpace XQ).
  Hypothesis Hst : fin_style st.
  Hypothesis Hav : size_all fin_avail av.
  Hypothesis Hratio : aspect_ratio st = None.

  Lemma root_avail_spec : size_rel avail_xeq (root_leaf_avail st av) (leaf_spec_measure_avail st av).
  Proof.
    destruct (rel_pb st av Hst Hav) as [[Pw Ph] [FPw FPh]].
    destruct (rel_inset st av Hst Hav) as [[Iw Ih] [FIw FIh]].
    destruct (rel_bb st av Hst Hav _ (fin_res_size st av Hst Hav)) as [[Sw Sh] [FSw FSh]].
    destruct (rel_bb st av Hst Hav _ (fin_res_min st av Hst Hav)) as [[Mw Mh] [FMw FMh]].
    destruct (rel_bb st av Hst Hav _ (fin_res_max st av Hst Hav)) as [[Xw Xh] [FXw FXh]].
    destruct (rel_margin st av Hst Hav) as [FMGw FMGh]. destruct Hav as [Haw Hah].
    rewrite model_avail_eq by assumption.
    rewrite spec_avail_eq, (sp_size_noratio st av Hratio), (sp_min_noratio st av Hratio). unfold sp_max.
    split; cbn [width height].
    - apply axis_avail; try assumption; try fin_side; try apply xeq_refl.
      right. split; reflexivity.
    - apply axis_avail; try assumption; try fin_side; try apply xeq_refl.
      left. split; reflexivity.
  Qed.

  Lemma root_layout_spec m : size_all finite m -> nonneg_padding_border st av ->
    layout_xeq (root_leaf_layout st av m) (leaf_spec st av m).
  Proof.
    intros Hm Hnn. pose proof (root_size_spec st av Hst Hav Hratio m Hm Hnn) as Hs.
    unfold layout_xeq. split; [reflexivity|]. split; [apply Qeq_refl|]. split; [apply Qeq_refl|].
    split; [exact Hs|].
    repeat split; apply xeq_refl.
  Qed.
End Spec2.

(* the statement of C19_spec for the class without aspect ratio *)
Lemma root_leaf_spec_noratio : forall (st : Style XQ) (measure : MeasureFn XQ) (av : Size (AvailableSpace XQ)),
  fin_style st -> size_all fin_avail av -> fin_measure measure -> nonneg_padding_border st av ->
  display st <> DNone -> aspect_ratio st = None ->
  exists lay aa,
    root_leaf st measure av = Some (lay, [(size_NONE, aa)]) /\
    size_rel avail_xeq aa (leaf_spec_measure_avail st av) /\
    layout_xeq lay (leaf_spec st av (measure size_NONE aa)).
Proof.
  intros st measure av Hst Hav Hm Hnn Hd Hr.
  exists (root_leaf_layout st av (measure size_NONE (root_leaf_avail st av))), (root_leaf_avail st av).
  split; [apply root_leaf_eq; assumption|]. split.
  - apply root_avail_spec; assumption.
  - apply root_layout_spec; auto.
Qed.
