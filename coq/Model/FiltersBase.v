(* Iterator adaptors used by the generated item-generation pipelines (Gen/FiltersGen.v): `Iterator::enumerate`.
   `map` / `filter` are the standard library's. *)
From Coq Require Import List.
Import ListNotations.

Fixpoint g_enumerate_from {A} (i : nat) (l : list A) : list (nat * A) :=
  match l with
  | [] => []
  | x :: t => (i, x) :: g_enumerate_from (S i) t
  end.
Definition g_enumerate {A} (l : list A) : list (nat * A) := g_enumerate_from 0 l.
