(* Flexbox main-axis kernel (C07), `Num`-generic, definitions only.  Hand transcription, statement by statement and
   with the same order of floating-point operations, of src/compute/flexbox.rs:
     resolve_flexible_lengths          (9.7 freeze / violation loop)            -> resolve_flexible_lengths
     distribute_remaining_free_space   (9.5 auto margins / justify-content)     -> distribute_remaining_free_space
     calculate_layout_line + calculate_flex_item (main-axis offset accumulator) -> line_positions
   The alignment tables (compute_alignment_offset, apply_alignment_fallback) and sum_axis_gaps are NOT transcribed
   here: they come from Gen/FlexGen.v, regenerated from the Rust source on every run.
   One FlexLine only (its items, in document order); all quantities are the main-axis components.
   `Iterator::sum::<f32>()` folds from -0.0 (fsum); explicit `fold(0.0, ..)` folds from +0.0. *)
From Coq Require Import ZArith QArith Bool List.
From TV Require Import Num.Num Gen.FlexGen.
Import ListNotations.

Section Flex.
  Context {T : Type} `{Num T}.
  Local Open Scope num_scope.

  (* the main-axis part of `struct FlexItem` *)
  Record FlexItem := mkItem {
    fi_basis : T;              (* flex_basis *)
    fi_inner_basis : T;        (* inner_flex_basis *)
    fi_hyp_inner : T;          (* hypothetical_inner_size.main *)
    fi_hyp_outer : T;          (* hypothetical_outer_size.main *)
    fi_min : T;                (* resolved_minimum_main_size *)
    fi_max : option T;         (* max_size.main *)
    fi_grow : T;
    fi_shrink : T;
    fi_margin_start : T;       (* margin.main_start: left / top, also for *-reverse *)
    fi_margin_end : T;
    fi_margin_start_auto : bool;
    fi_margin_end_auto : bool;
    fi_inset : T;              (* inset.main_start.or(inset.main_end.map(|p| -p)).unwrap_or(0.0) *)
    fi_frozen : bool;
    fi_target : T;             (* target_size.main *)
    fi_outer_target : T;       (* outer_target_size.main *)
    fi_violation : T;
    fi_offset : T;             (* offset_main *)
  }.

  Definition set_target (c : FlexItem) (v : T) : FlexItem :=
    mkItem (fi_basis c) (fi_inner_basis c) (fi_hyp_inner c) (fi_hyp_outer c) (fi_min c) (fi_max c) (fi_grow c) (fi_shrink c)
           (fi_margin_start c) (fi_margin_end c) (fi_margin_start_auto c) (fi_margin_end_auto c) (fi_inset c)
           (fi_frozen c) v (fi_outer_target c) (fi_violation c) (fi_offset c).
  Definition set_outer_target (c : FlexItem) (v : T) : FlexItem :=
    mkItem (fi_basis c) (fi_inner_basis c) (fi_hyp_inner c) (fi_hyp_outer c) (fi_min c) (fi_max c) (fi_grow c) (fi_shrink c)
           (fi_margin_start c) (fi_margin_end c) (fi_margin_start_auto c) (fi_margin_end_auto c) (fi_inset c)
           (fi_frozen c) (fi_target c) v (fi_violation c) (fi_offset c).
  Definition set_frozen (c : FlexItem) (b : bool) : FlexItem :=
    mkItem (fi_basis c) (fi_inner_basis c) (fi_hyp_inner c) (fi_hyp_outer c) (fi_min c) (fi_max c) (fi_grow c) (fi_shrink c)
           (fi_margin_start c) (fi_margin_end c) (fi_margin_start_auto c) (fi_margin_end_auto c) (fi_inset c)
           b (fi_target c) (fi_outer_target c) (fi_violation c) (fi_offset c).
  Definition set_violation (c : FlexItem) (v : T) : FlexItem :=
    mkItem (fi_basis c) (fi_inner_basis c) (fi_hyp_inner c) (fi_hyp_outer c) (fi_min c) (fi_max c) (fi_grow c) (fi_shrink c)
           (fi_margin_start c) (fi_margin_end c) (fi_margin_start_auto c) (fi_margin_end_auto c) (fi_inset c)
           (fi_frozen c) (fi_target c) (fi_outer_target c) v (fi_offset c).
  Definition set_offset (c : FlexItem) (v : T) : FlexItem :=
    mkItem (fi_basis c) (fi_inner_basis c) (fi_hyp_inner c) (fi_hyp_outer c) (fi_min c) (fi_max c) (fi_grow c) (fi_shrink c)
           (fi_margin_start c) (fi_margin_end c) (fi_margin_start_auto c) (fi_margin_end_auto c) (fi_inset c)
           (fi_frozen c) (fi_target c) (fi_outer_target c) (fi_violation c) v.
  Definition set_margins (c : FlexItem) (ms me : T) : FlexItem :=
    mkItem (fi_basis c) (fi_inner_basis c) (fi_hyp_inner c) (fi_hyp_outer c) (fi_min c) (fi_max c) (fi_grow c) (fi_shrink c)
           ms me (fi_margin_start_auto c) (fi_margin_end_auto c) (fi_inset c)
           (fi_frozen c) (fi_target c) (fi_outer_target c) (fi_violation c) (fi_offset c).

  (* margin.main_axis_sum(dir) = left + right  (top + bottom) *)
  Definition margin_sum (c : FlexItem) : T := fi_margin_start c + fi_margin_end c.

  (* MaybeMath<Option<f32>, f32> for f32 *)
  Definition maybe_min_f (x : T) (o : option T) : T := match o with Some v => fmin x v | None => x end.
  Definition maybe_max_f (x : T) (o : option T) : T := match o with Some v => fmax x v | None => x end.
  Definition maybe_clamp_f (x : T) (mn mx : option T) : T :=
    match mn, mx with
    | Some a, Some b => fmax (fmin x b) a
    | None, Some b => fmin x b
    | Some a, None => fmax x a
    | None, None => x
    end.
  (* MaybeMath<f32, Option<f32>> for Option<f32> *)
  Definition maybe_sub_o (o : option T) (y : T) : option T := match o with Some v => Some (v - y) | None => None end.
  Definition unwrap_or (o : option T) (d : T) : T := match o with Some v => v | None => d end.

  Definition unfrozen (c : FlexItem) : bool := negb (fi_frozen c).
  Definition on_unfrozen (f : FlexItem -> FlexItem) (c : FlexItem) : FlexItem := if fi_frozen c then c else f c.

  (* step 3 / 4b: `total_main_axis_gap + items.map(|c| if c.frozen { outer_target } else { flex_basis + margin_sum }).sum()` *)
  Definition used_space_of (total_gap : T) (items : list FlexItem) : T :=
    total_gap + fsum (map (fun c => if fi_frozen c then fi_outer_target c else fi_basis c + margin_sum c) items).

  (* step 2 for one child *)
  Definition freeze_inflexible (exactly_sized growing shrinking : bool) (c : FlexItem) : FlexItem :=
    let inner_target_size := fi_hyp_inner c in
    let c := set_target c inner_target_size in
    if exactly_sized
       || ((fi_grow c =? zero) && (fi_shrink c =? zero))
       || (growing && gtb (fi_basis c) (fi_hyp_inner c))
       || (shrinking && (fi_basis c <? fi_hyp_inner c))
    then set_outer_target (set_frozen c true) (inner_target_size + margin_sum c)
    else c.

  (* step 4d for one unfrozen child *)
  Definition clamp_target (c : FlexItem) : T := fmax (maybe_clamp_f (fi_target c) (Some (fi_min c)) (fi_max c)) zero.
  Definition fix_violation (c : FlexItem) : FlexItem :=
    let clamped := clamp_target c in
    let c := set_violation c (clamped - fi_target c) in
    let c := set_target c clamped in
    set_outer_target c (fi_target c + margin_sum c).

  (* step 4e for one unfrozen child *)
  Definition freeze_by_violation (total_violation : T) (c : FlexItem) : FlexItem :=
    if gtb total_violation zero then set_frozen c (gtb (fi_violation c) zero)
    else if total_violation <? zero then set_frozen c (fi_violation c <? zero)
    else set_frozen c true.

  Record LoopCtx := mkCtx {
    lc_total_gap : T; lc_inner_main : option T; lc_used_flex_factor : T; lc_initial_free : T;
    lc_growing : bool; lc_shrinking : bool
  }.

  Definition sum_grow (items : list FlexItem) : T := fold_left (fun a c => a + fi_grow c) (filter unfrozen items) zero.
  Definition sum_shrink (items : list FlexItem) : T := fold_left (fun a c => a + fi_shrink c) (filter unfrozen items) zero.
  Definition sum_scaled_shrink (items : list FlexItem) : T :=
    fsum (map (fun c => fi_inner_basis c * fi_shrink c) (filter unfrozen items)).

  (* step 4b *)
  Definition free_space_of (k : LoopCtx) (items : list FlexItem) : T :=
    let used_space := used_space_of (lc_total_gap k) items in
    let sfg := sum_grow items in
    let sfs := sum_shrink items in
    if lc_growing k && (sfg <? one) then
      maybe_min_f (lc_initial_free k * sfg - lc_total_gap k) (maybe_sub_o (lc_inner_main k) used_space)
    else if lc_shrinking k && (sfs <? one) then
      maybe_max_f (lc_initial_free k * sfs - lc_total_gap k) (maybe_sub_o (lc_inner_main k) used_space)
    else unwrap_or (maybe_sub_o (lc_inner_main k) used_space) (lc_used_flex_factor k - used_space).

  (* step 4c *)
  Definition distribute (k : LoopCtx) (free_space : T) (items : list FlexItem) : list FlexItem :=
    let sfg := sum_grow items in
    let sfs := sum_shrink items in
    if is_normal free_space then
      if lc_growing k && gtb sfg zero then
        map (on_unfrozen (fun c => set_target c (fi_basis c + free_space * (fi_grow c / sfg)))) items
      else if lc_shrinking k && gtb sfs zero then
        let sss := sum_scaled_shrink items in
        if gtb sss zero then
          map (on_unfrozen (fun c =>
                 let scaled_shrink_factor := fi_inner_basis c * fi_shrink c in
                 set_target c (fi_basis c + free_space * (scaled_shrink_factor / sss)))) items
        else items
      else items
    else items.

  (* one pass of the body of `loop` (after the all-frozen test) *)
  Definition loop_body (k : LoopCtx) (items : list FlexItem) : list FlexItem :=
    let free_space := free_space_of k items in
    let items1 := distribute k free_space items in
    let items2 := map (on_unfrozen fix_violation) items1 in
    let total_violation := fold_left (fun acc c => acc + fi_violation c) (filter unfrozen items2) zero in
    map (on_unfrozen (freeze_by_violation total_violation)) items2.

  (* None = out of fuel (distinguished error; C07_loop_terminates shows it does not happen) *)
  Fixpoint flex_loop (fuel : nat) (k : LoopCtx) (items : list FlexItem) : option (list FlexItem) :=
    match fuel with
    | O => None
    | S fuel' =>
        if forallb fi_frozen items then Some items
        else flex_loop fuel' k (loop_body k items)
    end.

  Definition zlen {A} (l : list A) : Z := Z.of_nat (length l).

  Definition resolve_flexible_lengths (items : list FlexItem) (gap : T) (inner_main : option T) : option (list FlexItem) :=
    let total_main_axis_gap := sum_axis_gaps gap (zlen items) in
    let total_hypothetical_outer_main_size := fsum (map fi_hyp_outer items) in
    let used_flex_factor := total_main_axis_gap + total_hypothetical_outer_main_size in
    let growing := used_flex_factor <? unwrap_or inner_main zero in
    let shrinking := gtb used_flex_factor (unwrap_or inner_main zero) in
    let exactly_sized := negb growing && negb shrinking in
    let items := map (freeze_inflexible exactly_sized growing shrinking) items in
    if exactly_sized then Some items
    else
      let used_space := used_space_of total_main_axis_gap items in
      let initial_free_space := unwrap_or (maybe_sub_o inner_main used_space) zero in
      flex_loop (S (length items))
                (mkCtx total_main_axis_gap inner_main used_flex_factor initial_free_space growing shrinking) items.

  (* ---- 9.5 main-axis alignment (one line) *)
  Definition count_auto (items : list FlexItem) : Z :=
    fold_left (fun n c => (n + (if fi_margin_start_auto c then 1 else 0) + (if fi_margin_end_auto c then 1 else 0))%Z) items 0%Z.

  (* f on the first element, g on the others *)
  Definition map_first {A B} (f g : A -> B) (l : list A) : list B :=
    match l with [] => [] | x :: r => f x :: map g r end.

  Definition distribute_remaining_free_space (items : list FlexItem) (gap : T) (inner_container_main : T)
             (justify_content : option AlignContent) (layout_reverse : bool) : list FlexItem :=
    let num_items := zlen items in
    let total_main_axis_gap := sum_axis_gaps gap num_items in
    let used_space := total_main_axis_gap + fsum (map fi_outer_target items) in
    let free_space := inner_container_main - used_space in
    let num_auto_margins := count_auto items in
    if gtb free_space zero && (0 <? num_auto_margins)%Z then
      let margin := free_space / of_Z num_auto_margins in
      map (fun c => set_margins c (if fi_margin_start_auto c then margin else fi_margin_start c)
                                  (if fi_margin_end_auto c then margin else fi_margin_end c)) items
    else
      let is_safe := false in
      let raw := match justify_content with Some j => j | None => AC_FlexStart end in
      let mode := apply_alignment_fallback free_space num_items raw is_safe in
      let justify (is_first : bool) (c : FlexItem) :=
        set_offset c (compute_alignment_offset free_space num_items gap mode layout_reverse is_first) in
      if layout_reverse then rev (map_first (justify true) (justify false) (rev items))
      else map_first (justify true) (justify false) items.

  (* ---- calculate_layout_line / calculate_flex_item: main-axis location of every item, in document order.
     Each entry is (item, size.main returned by perform_child_layout) *)
  Fixpoint place (total_offset_main : T) (l : list (FlexItem * T)) : list T :=
    match l with
    | [] => []
    | (it, size_main) :: r =>
        (total_offset_main + fi_offset it + fi_margin_start it + fi_inset it)
          :: place (total_offset_main + (fi_offset it + margin_sum it + size_main)) r
    end.

  Definition line_positions (main_start : T) (layout_reverse : bool) (l : list (FlexItem * T)) : list T :=
    if layout_reverse then rev (place main_start (rev l)) else place main_start l.

End Flex.

Arguments FlexItem T : clear implicits.
Arguments LoopCtx T : clear implicits.
